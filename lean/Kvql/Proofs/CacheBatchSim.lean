/-
  C05 (c), evaluator level: the per-chunk field cache is invisible to the vector evaluator.

  `BS E x T`: run on the chunk `E.ch` from a context whose cache is ON and satisfies `BInv E`, the
  computation `x`
    * returns what it returns with the cache OFF (value or error),
    * re-establishes `BInv E`:  every entry of `FieldChunkKeyCaches` is the cache-free column of an
      alias target on one of the chunks `E.V` (`KVal`), and `FieldChunkCaches[name]` is what it was
      when the chunk was started plus, if `name` has an entry for this chunk, that entry (`Loc`),
    * and, when it succeeds, has turned the set of names that have an entry for this chunk from `S`
      into `T S` — a function of the EXPRESSION only (`touch`): batch evaluation visits the same
      alias references on every chunk, which is what keeps the concatenated columns aligned.
-/
import Kvql.Proofs.CacheBase
import Kvql.Proofs.CacheKey

namespace Kvql.Cache
open Kvql Kvql.Project

/-- the first key of a chunk, as `FieldReferenceExpr.ExecuteBatch` takes it (`chunk[0].Key`) -/
def fk (chunk : List Pair) : Bytes := (chunk.head?.map (·.key)).getD []

/-! ### cache off, non-nil context -/

/-- with the cache off (a nil context included) the computation returns its `Ctx.off` result and leaves the context alone -/
def OffB {α} (x : M α) : Prop :=
  ∀ c : Ctx, c.enable = false → x c = ((x Ctx.off).1, c)

namespace OffB
theorem pure {α} (a : α) : OffB (Pure.pure a : M α) := fun _ _ => rfl
theorem throw {α} (e : Err) : OffB (M.throw e : M α) := fun _ _ => rfl
theorem lift {α} (x : Except Err α) : OffB (M.lift x) := fun _ _ => rfl
theorem bind {α β} {x : M α} {f : α → M β} (hx : OffB x) (hf : ∀ a, OffB (f a)) : OffB (x >>= f) := by
  intro c hc
  have h1 := hx c hc
  have h0 := hx Ctx.off rfl
  rw [M.bind_run, M.bind_run, h1]
  rcases hxo : x Ctx.off with ⟨r, d⟩
  rw [hxo] at h0; simp at h0; subst h0
  cases r with
  | error e => rfl
  | ok a => simp only; exact hf a c hc
theorem ite {α} {p : Prop} [Decidable p] {x y : M α} (hx : OffB x) (hy : OffB y) :
    OffB (if p then x else y) := by split <;> assumption
theorem off_snd {α} {x : M α} (h : OffB x) : (x Ctx.off).2 = Ctx.off := by
  have := h Ctx.off rfl; rw [this]
end OffB

/-! ### the invariant of one chunk -/

abbrev Flags := Bytes → Bool

structure BEnv where
  A : Aliases
  ch : List Pair                         -- the chunk being evaluated
  V : List (List Pair)                   -- the chunks that may have cached columns (this one included)
  C0 : Bytes → Option (List Value)       -- `FieldChunkCaches` when this chunk was started

/-- the environment is coherent: one target per name, the chunk is non-empty, is one of `V`, and no other
    chunk of `V` starts with the same key -/
structure BEnv.Ok (E : BEnv) : Prop where
  func : Functional E.A
  ne : E.ch ≠ []
  mem : E.ch ∈ E.V
  uniq : ∀ ch' ∈ E.V, fk ch' = fk E.ch → ch' = E.ch

/-- which names have a column cached for the current chunk -/
def flagOf (E : BEnv) (c : Ctx) : Flags :=
  fun n => (assocGet c.chunkKeyCache (Ctx.chunkKey n (fk E.ch))).isSome

def KVal (E : BEnv) (c : Ctx) : Prop :=
  ∀ ckey col, assocGet c.chunkKeyCache ckey = some col →
    ∃ n t ch', (n, t) ∈ E.A ∧ ch' ∈ E.V ∧ ckey = Ctx.chunkKey n (fk ch') ∧ nocacheB t ch' = .ok col

def Loc (E : BEnv) (c : Ctx) : Prop :=
  ∀ n, assocGet c.chunkCache n =
    match assocGet c.chunkKeyCache (Ctx.chunkKey n (fk E.ch)) with
    | some col => some ((E.C0 n).getD [] ++ col)
    | none => E.C0 n

def BInv (E : BEnv) (c : Ctx) : Prop := CtxOn c ∧ KVal E c ∧ Loc E c

def BS (E : BEnv) {α} (x : M α) (T : Flags → Flags) : Prop :=
  OffB x ∧ ∀ c, BInv E c →
    (x c).1 = (x Ctx.off).1 ∧ BInv E (x c).2 ∧ (∀ a, (x c).1 = .ok a → flagOf E (x c).2 = T (flagOf E c))

namespace BS
variable {E : BEnv}

theorem pure {α} (a : α) : BS E (Pure.pure a : M α) id := ⟨.pure a, fun _ h => ⟨rfl, h, fun _ _ => rfl⟩⟩
theorem throw {α} (e : Err) (T : Flags → Flags) : BS E (M.throw e : M α) T :=
  ⟨.throw e, fun _ h => ⟨rfl, h, fun _ h' => by cases h'⟩⟩
theorem lift {α} (x : Except Err α) : BS E (M.lift x) id := ⟨.lift x, fun _ h => ⟨rfl, h, fun _ _ => rfl⟩⟩

theorem bind {α β} {x : M α} {f : α → M β} {T1 T2 : Flags → Flags} (hx : BS E x T1) (hf : ∀ a, BS E (f a) T2) :
    BS E (x >>= f) (fun S => T2 (T1 S)) := by
  refine ⟨.bind hx.1 fun a => (hf a).1, fun c hinv => ?_⟩
  obtain ⟨h1, h2, h3⟩ := hx.2 c hinv
  have hin := hx.1.off_snd
  rw [M.bind_run, M.bind_run]
  rcases hxc : x c with ⟨r, d⟩
  rcases hxo : x Ctx.off with ⟨r', d'⟩
  rw [hxc] at h1 h2 h3; rw [hxo] at h1 hin
  simp only at h1 h2 h3 hin; subst h1 hin
  cases r with
  | error e => exact ⟨rfl, h2, fun _ h' => by cases h'⟩
  | ok a =>
    obtain ⟨g1, g2, g3⟩ := (hf a).2 d h2
    refine ⟨g1, g2, fun b hb => ?_⟩
    rw [g3 b hb, h3 a rfl]

theorem ite {α} {p : Prop} [Decidable p] {x y : M α} {T : Flags → Flags} (hx : BS E x T) (hy : BS E y T) :
    BS E (if p then x else y) T := by split <;> assumption

theorem congrT {α} {x : M α} {T T' : Flags → Flags} (h : BS E x T) (e : T = T') : BS E x T' := e ▸ h

/-- two operands in sequence, then a context-free kernel -/
theorem seq2 {α β γ} {x : M α} {y : M β} {T1 T2 : Flags → Flags} (hx : BS E x T1) (hy : BS E y T2)
    (k : α → β → Except Err γ) :
    BS E (do let a ← x; let b ← y; M.lift (k a b)) (fun S => T2 (T1 S)) :=
  BS.congrT (BS.bind hx fun a => BS.bind hy fun b => BS.lift (k a b)) rfl

/-- a computation that ignores the context altogether -/
theorem const {α} (r : Except Err α) : BS E (fun ctx => (r, ctx) : M α) id :=
  ⟨fun _ _ => rfl, fun _ h => ⟨rfl, h, fun _ _ => rfl⟩⟩

end BS

/-! ### which alias names a batch evaluation caches -/

def touchRef (n : Bytes) (Tt : Flags → Flags) : Flags → Flags :=
  fun S => if S n then S else fun m => if m == n then true else Tt S m

mutual
  /-- the names that have a column cached for the chunk after `ExecuteBatch(e)` succeeded, from the names
      that had one before: the evaluation order of expression_exec_vec.go, data-independent -/
  def touch : Expr → Flags → Flags
    | .ref _ n t => touchRef n (touch t)
    | .not _ r => touch r
    | .access _ l _ => touch l
    | .call _ nm args =>
      match funcNameOf nm with
      | .error _ => id
      | .ok fname =>
        match lookupFunc fname with
        | none => id
        | some fo =>
          match fo.body with
          | none => id
          | some b => if fo.vecIsTwin then touchBody b args else id
    | .binop _ op l r =>
      match op with
      | .in_ =>
        let tr := touch r
        match r with
        | .list _ items => fun S => touchList items (touch l S)
        | .call .. | .ref .. => fun S => tr (touch l S)
        | _ => touch l
      | .between =>
        match r with
        | .list _ [lo, hi] => fun S => touch hi (touch lo (touch l S))
        | _ => touch l
      | .not => id
      | .and | .or | .eq | .neq | .prefixMatch | .regexMatch | .add | .sub | .mul | .div
      | .gt | .gte | .lt | .lte | .kwAnd | .kwOr => fun S => touch r (touch l S)
    | .field .. | .str .. | .name .. | .cycle | .num .. | .float .. | .bool .. | .list .. => id
  def touchList : List Expr → Flags → Flags
    | [] => id
    | e :: es => fun S => touchList es (touch e S)
  def touchBody : Body → List Expr → Flags → Flags
    | .lower, a0 :: _ | .upper, a0 :: _ | .toInt, a0 :: _ | .toFloat, a0 :: _ | .toStr, a0 :: _
    | .isInt, a0 :: _ | .isFloat, a0 :: _ | .strlen, a0 :: _ | .len, a0 :: _ | .json, a0 :: _ => touch a0
    | .subStr, a0 :: a1 :: a2 :: _ => fun S => touch a2 (touch a1 (touch a0 S))
    | .split, a0 :: a1 :: _ | .cosine, a0 :: a1 :: _ | .l2, a0 :: a1 :: _ => fun S => touch a1 (touch a0 S)
    | _, _ => id
end

/-! ### the alias reference -/

theorem execBatch_ref_off {p : Nat} {n : Bytes} {t : Expr} {ch : List Pair} (hne : ch ≠ []) {c : Ctx}
    (hc : c.enable = false) {r : Except Err (List Value)} (ht : execBatch t ch c = (r, c)) :
    execBatch (.ref p n t) ch c = (r, c) := by
  rw [execBatch]
  have he : ch.isEmpty = false := by
    cases ch with
    | nil => exact absurd rfl hne
    | cons _ _ => rfl
  simp only [he, Bool.and_false, Bool.false_eq_true, ↓reduceIte, Ctx.getChunkFieldResult_off hc, ite_self, ht]
  cases r <;> simp [Ctx.setChunkFieldResult_off hc]

theorem CtxOn.setChunk {c : Ctx} (h : CtxOn c) (n k : Bytes) (v : List Value) : CtxOn (c.setChunkFieldResult n k v) := by
  obtain ⟨hp, he⟩ := h
  unfold Ctx.setChunkFieldResult
  simp only [he, Bool.not_true, Bool.false_eq_true, ↓reduceIte]
  split
  · exact ⟨hp, he⟩
  · unfold Ctx.appendChunkFieldResult
    simp only [he, Bool.not_true, Bool.false_eq_true, ↓reduceIte]
    split <;> exact ⟨by simpa using hp, by simpa using he⟩

theorem isEmpty_false {ch : List Pair} (hne : ch ≠ []) : ch.isEmpty = false := by
  cases ch with
  | nil => exact absurd rfl hne
  | cons _ _ => rfl

/-- the alias reference on a non-empty chunk with the cache on, unfolded -/
theorem execBatch_ref_on {p : Nat} {n : Bytes} {t : Expr} {ch : List Pair} (hne : ch ≠ []) {c : Ctx} (hon : CtxOn c) :
    execBatch (.ref p n t) ch c =
      match assocGet c.chunkKeyCache (Ctx.chunkKey n (fk ch)) with
      | some cval => (.ok cval, c.updateHit)
      | none =>
        match execBatch t ch c with
        | (.error e, c') => (.error e, c')
        | (.ok vs, c') => (.ok vs, if c'.present = true then c'.setChunkFieldResult n (fk ch) vs else c') := by
  rw [execBatch]
  simp only [isEmpty_false hne, Bool.and_false, Bool.false_eq_true, ↓reduceIte, hon.1]
  have hget : c.getChunkFieldResult n ((ch.head?.map (·.key)).getD []) =
      assocGet c.chunkKeyCache (Ctx.chunkKey n (fk ch)) := by
    simp [Ctx.getChunkFieldResult, hon.2, fk]
  rw [hget]
  rfl

/-- what `SetChunkFieldResult` does to the two maps when the key is not there yet -/
theorem setChunk_miss {c : Ctx} (he : c.enable = true) {n k : Bytes} {v : List Value}
    (hm : assocGet c.chunkKeyCache (Ctx.chunkKey n k) = none) :
    (c.setChunkFieldResult n k v).chunkKeyCache = assocSet c.chunkKeyCache (Ctx.chunkKey n k) v ∧
    (c.setChunkFieldResult n k v).chunkCache = assocSet c.chunkCache n ((assocGet c.chunkCache n).getD [] ++ v) := by
  unfold Ctx.setChunkFieldResult
  simp only [he, Bool.not_true, Bool.false_eq_true, ↓reduceIte, hm]
  unfold Ctx.appendChunkFieldResult
  simp only [he, Bool.not_true, Bool.false_eq_true, ↓reduceIte]
  cases hg : assocGet c.chunkCache n <;> simp

theorem setChunk_hit {c : Ctx} (he : c.enable = true) {n k : Bytes} {v col : List Value}
    (hm : assocGet c.chunkKeyCache (Ctx.chunkKey n k) = some col) : c.setChunkFieldResult n k v = c := by
  unfold Ctx.setChunkFieldResult
  simp [he, hm]

theorem chunkKey_ne_of_name {n m k : Bytes} (h : m ≠ n) : Ctx.chunkKey n k ≠ Ctx.chunkKey m k :=
  fun e => h (chunkKey_inj e).1.symm

theorem ref_bs {E : BEnv} (hE : E.Ok) {p : Nat} {n : Bytes} {t : Expr} {Tt : Flags → Flags}
    (hA : (n, t) ∈ E.A) (ih : BS E (execBatch t E.ch) Tt) :
    BS E (execBatch (.ref p n t) E.ch) (touchRef n Tt) := by
  have hoff : OffB (execBatch (.ref p n t) E.ch) := by
    intro c hc
    have h0 := ih.1 c hc
    have h00 := ih.1 Ctx.off rfl
    rw [execBatch_ref_off hE.ne hc h0, execBatch_ref_off hE.ne (c := Ctx.off) rfl h00]
  have hoff1 : (execBatch (.ref p n t) E.ch Ctx.off).1 = nocacheB t E.ch := by
    rw [execBatch_ref_off hE.ne (c := Ctx.off) rfl (ih.1 Ctx.off rfl)]; rfl
  refine ⟨hoff, fun c hinv => ?_⟩
  obtain ⟨hon, hkv, hloc⟩ := hinv
  rw [hoff1, execBatch_ref_on hE.ne hon]
  cases hg : assocGet c.chunkKeyCache (Ctx.chunkKey n (fk E.ch)) with
  | some cval =>
    simp only
    obtain ⟨n', t', ch', hA', hV, hkey, hval⟩ := hkv _ _ hg
    obtain ⟨e1, e2⟩ := chunkKey_inj hkey
    subst e1
    have : ch' = E.ch := hE.uniq ch' hV e2.symm
    subst this
    have : t' = t := hE.func n t' t hA' hA
    subst this
    refine ⟨hval.symm, ⟨hon, hkv, hloc⟩, fun a _ => ?_⟩
    have hS : flagOf E c n = true := by simp [flagOf, hg]
    show flagOf E c.updateHit = touchRef n Tt (flagOf E c)
    unfold touchRef; rw [if_pos hS]; rfl
  | none =>
    simp only
    obtain ⟨h1, h2, h3⟩ := ih.2 c ⟨hon, hkv, hloc⟩
    rcases hx : execBatch t E.ch c with ⟨r, c'⟩
    rw [hx] at h1 h2 h3
    simp only at h1 h2 h3
    have h1' : r = nocacheB t E.ch := h1
    cases r with
    | error e => exact ⟨h1', h2, fun a h' => by cases h'⟩
    | ok vs =>
      obtain ⟨hon', hkv', hloc'⟩ := h2
      simp only [hon'.1, ↓reduceIte]
      have hS : flagOf E c n = false := by simp [flagOf, hg]
      have hfl := h3 vs rfl
      cases hg' : assocGet c'.chunkKeyCache (Ctx.chunkKey n (fk E.ch)) with
      | some col =>
        rw [setChunk_hit hon'.2 hg']
        refine ⟨h1', ⟨hon', hkv', hloc'⟩, fun a _ => ?_⟩
        unfold touchRef; rw [hS]; simp only [Bool.false_eq_true, ↓reduceIte]
        funext m
        by_cases hm : (m == n) = true
        · have : m = n := by simpa using hm
          subst this; simp [flagOf, hg']
        · simp only [hm, Bool.false_eq_true, ↓reduceIte]; rw [hfl]
      | none =>
        obtain ⟨hK, hC⟩ := setChunk_miss (v := vs) hon'.2 hg'
        refine ⟨h1', ⟨hon'.setChunk _ _ _, ?_, ?_⟩, fun a _ => ?_⟩
        · -- KVal
          intro ckey col hck
          rw [hK, assocGet_assocSet] at hck
          by_cases hk : (Ctx.chunkKey n (fk E.ch) == ckey) = true
          · have : Ctx.chunkKey n (fk E.ch) = ckey := by simpa using hk
            simp [hk] at hck; subst hck
            exact ⟨n, t, E.ch, hA, hE.mem, this.symm, h1'.symm⟩
          · simp [hk] at hck; exact hkv' ckey col hck
        · -- Loc
          intro m
          rw [hK, hC, assocGet_assocSet, assocGet_assocSet]
          by_cases hm : (n == m) = true
          · have : n = m := by simpa using hm
            subst this
            have hl := hloc' n
            rw [hg'] at hl
            simp [hl]
          · have hne : n ≠ m := fun e => hm (by simp [e])
            have hk : (Ctx.chunkKey n (fk E.ch) == Ctx.chunkKey m (fk E.ch)) = false := by
              cases hh : (Ctx.chunkKey n (fk E.ch) == Ctx.chunkKey m (fk E.ch))
              · rfl
              · exact absurd (chunkKey_inj (by simpa using hh)).1 hne
            simp only [hm, hk, Bool.false_eq_true, ↓reduceIte]
            exact hloc' m
        · -- flags
          unfold touchRef; rw [hS]; simp only [Bool.false_eq_true, ↓reduceIte]
          funext m
          show (assocGet (c'.setChunkFieldResult n (fk E.ch) vs).chunkKeyCache (Ctx.chunkKey m (fk E.ch))).isSome = _
          rw [hK, assocGet_assocSet]
          by_cases hm : (m == n) = true
          · have : m = n := by simpa using hm
            subst this; simp
          · have hne : m ≠ n := fun e => hm (by simp [e])
            have hk : (Ctx.chunkKey n (fk E.ch) == Ctx.chunkKey m (fk E.ch)) = false := by
              cases hh : (Ctx.chunkKey n (fk E.ch) == Ctx.chunkKey m (fk E.ch))
              · rfl
              · exact absurd (chunkKey_inj (by simpa using hh)).1.symm hne
            simp only [hk, hm, Bool.false_eq_true, ↓reduceIte]
            rw [← hfl]; rfl

end Kvql.Cache
