/-
  C14 through alias references, part 7: the row-mode projection plan (Model/Project.lean) of an accepted
  SELECT never ends with an operand-type error — field cache on or off.

  `Project.drainRow w fields pairs ctx` is the drain of `ProjectionPlan.Next` over the pairs a scan
  yields: per pair `Clear`, the filter, for an accepted pair the fields, read through the field cache.
  C05 (`drainRow_on_eq_spec` / `drainRow_off_eq_spec`) equates it with the cache-free `rowsSpec` under
  `Functional`, `WF`, `FieldsWF`, `FieldsAgree`; all four are proved here for an accepted SELECT.
-/
import Kvql.Proofs.TypingAliasFunctional
import Kvql.Proofs.CacheRowMode
import Kvql.Proofs.CacheBatchMode

namespace Kvql.Proofs.Typing

open Kvql Kvql.Generated Kvql.PlanCheck Kvql.Parser Kvql.Project Kvql.Cache

variable {pf : Bytes → F64}

/-- the select list as the projection plan holds it: (`FieldNames[i]`, `Fields[i]`) -/
def projFields (s : SelectS) : List Project.Field := (s.fieldNames.zip s.fields).map (fun p => ⟨p.1, p.2⟩)

/-! ### the cache-free specification never fails with an operand-type error on well-kinded trees -/

theorem nocache_kind {e : Expr} {k : Kind} (hk : kindOf e = some k) (kv : Pair) :
    (∀ v, nocache e kv = .ok v → v.hasKind k = true) ∧ nocache e kv ≠ .error .operandType := by
  have h := Kvql.Proofs.C14.progress_row e k hk kv Ctx.off rfl
  rw [nocache_def]
  constructor
  · intro v hv
    exact h.1 v (exec e kv Ctx.off).2 (by rw [← hv])
  · intro he
    exact h.2 .operandType (exec e kv Ctx.off).2 (by rw [← he]) rfl

theorem filterSpec_kind {w : Expr} (hk : kindOf w = some .bool) (kv : Pair) :
    filterSpec w kv ≠ .error (.eval .operandType) ∧ filterSpec w kv ≠ .error .whereNotBool := by
  obtain ⟨h1, h2⟩ := nocache_kind hk kv
  unfold filterSpec
  cases hn : nocache w kv with
  | error e =>
    refine ⟨fun h => ?_, fun h => by cases h⟩
    simp only [Except.error.injEq, Project.PErr.eval.injEq] at h
    exact h2 (by rw [hn, h])
  | ok v =>
    obtain ⟨b, rfl⟩ := Value.bool_cases (h1 v hn)
    exact ⟨fun h => (by cases h), fun h => (by cases h)⟩

theorem rowSpec_no_ot : ∀ (fields : List Project.Field) (kv : Pair),
    (∀ f ∈ fields, nocache f.expr kv ≠ .error .operandType) → rowSpec fields kv ≠ .error (.eval .operandType)
  | [], _, _ => by simp [rowSpec]
  | f :: fs, kv, h => by
    have ih := rowSpec_no_ot fs kv (fun g hg => h g (List.mem_cons_of_mem f hg))
    have hf := h f List.mem_cons_self
    unfold rowSpec
    cases hn : nocache f.expr kv with
    | error e =>
      intro he
      simp only [Except.error.injEq, Project.PErr.eval.injEq] at he
      exact hf (by rw [hn, he])
    | ok v =>
      dsimp only
      split
      · intro he; cases he
      · cases hr : rowSpec fs kv with
        | error e => intro he; exact ih (by rw [hr]; simpa using he)
        | ok vs => intro he; cases he

theorem rowsSpec_no_ot {w : Expr} {fields : List Project.Field}
    (hw : ∀ kv, filterSpec w kv ≠ .error (.eval .operandType) ∧ filterSpec w kv ≠ .error .whereNotBool)
    (hf : ∀ kv, ∀ f ∈ fields, nocache f.expr kv ≠ .error .operandType) : ∀ (ps : List Pair),
    (rowsSpec w fields ps).err ≠ some (.eval .operandType) ∧ (rowsSpec w fields ps).err ≠ some .whereNotBool
  | [] => by simp [rowsSpec]
  | kv :: rest => by
    have ih := rowsSpec_no_ot hw hf rest
    unfold rowsSpec
    cases hfs : filterSpec w kv with
    | error e =>
      dsimp only
      refine ⟨fun h => ?_, fun h => ?_⟩
      · simp only [Option.some.injEq] at h
        exact (hw kv).1 (by rw [hfs, h])
      · simp only [Option.some.injEq] at h
        exact (hw kv).2 (by rw [hfs, h])
    | ok b =>
      cases b
      · exact ih
      · dsimp only
        cases hr : rowSpec fields kv with
        | error e =>
          dsimp only
          refine ⟨fun h => ?_, fun h => ?_⟩
          · simp only [Option.some.injEq] at h
            exact rowSpec_no_ot fields kv (hf kv) (by rw [hr, h])
          · simp only [Option.some.injEq] at h
            subst h
            -- `rowSpec` never reports `whereNotBool`
            exact absurd hr (rowSpec_not_wnb fields kv)
        | ok row => exact ih
where
  rowSpec_not_wnb : ∀ (fields : List Project.Field) (kv : Pair), rowSpec fields kv ≠ .error .whereNotBool
    | [], _ => by simp [rowSpec]
    | f :: fs, kv => by
      have ih := rowSpec_not_wnb fs kv
      unfold rowSpec
      cases nocache f.expr kv with
      | error e => intro he; cases he
      | ok v =>
        dsimp only
        split
        · intro he; cases he
        · cases hr : rowSpec fs kv with
          | error e => intro he; exact ih (by rw [hr]; simpa using he)
          | ok vs => intro he; cases he

/-! ### `FieldsAgree` for an accepted SELECT -/

theorem find_go_first (nm : Bytes) (e : Expr) (post : Tbl) : ∀ (pre : Tbl) (k : Nat),
    (∀ p ∈ pre, p.1 ≠ nm) → Tbl.find.go nm (pre ++ (nm, e) :: post) k = some (k + pre.length, e)
  | [], k, _ => by simp [Tbl.find.go]
  | (n, x) :: pre, k, h => by
    have hne : (n == nm) = false := by
      have := h (n, x) List.mem_cons_self
      simpa using this
    simp only [List.cons_append, Tbl.find.go, hne, Bool.false_eq_true, if_false]
    rw [find_go_first nm e post pre (k + 1) (fun p hp => h p (List.mem_cons_of_mem _ hp))]
    simp only [List.length_cons]
    congr 2
    omega

theorem find_first {pre post : Tbl} {nm : Bytes} {e : Expr} (h : (pre.map (·.1)).contains nm = false) :
    Tbl.find (pre ++ (nm, e) :: post) nm = some (pre.length, e) := by
  have hne : ∀ p ∈ pre, p.1 ≠ nm := by
    intro p hp heq
    have : (pre.map (·.1)).contains nm = true := by
      rw [List.contains_iff_mem]
      exact List.mem_map.mpr ⟨p, hp, heq⟩
    rw [h] at this; cases this
  have := find_go_first nm e post pre 0 hne
  simpa [Tbl.find] using this

/-- the fields of a suffix of the table agree with the alias table, given the names seen so far -/
theorem fieldsAgree_suffix {A : Aliases} {tbl : Tbl}
    (hall : ∀ q ∈ A, IsRes tbl q ∧ noCyc q.2 = true)
    (hnc : ∀ p ∈ tbl, noCyc (resolveTop tbl p.2) = true) : ∀ (pre l : Tbl), tbl = pre ++ l →
    FieldsAgreeFrom A (pre.map (·.1)) (l.map (fun p => (⟨p.1, resolveTop tbl p.2⟩ : Project.Field)))
  | pre, [], _ => by simp [FieldsAgreeFrom]
  | pre, (n, e) :: l', htbl => by
    simp only [List.map_cons, FieldsAgreeFrom]
    constructor
    · intro hseen t ht
      obtain ⟨⟨i, cur, f, path, hfind, hp, hres⟩, hn⟩ := hall _ ht
      simp only at hfind hres hn
      rw [htbl, find_first hseen] at hfind
      cases hfind
      have hmem : (n, e) ∈ tbl := by rw [htbl]; simp
      have heq : t = resolveTop tbl e := by
        rw [hres]
        unfold resolveTop
        exact resolve_indep tbl f (tbl.length + 1) path [] e hp (PInv.top tbl) (hres ▸ hn) (hnc _ hmem)
      subst heq
      exact ⟨fun _ => rfl, fun _ => rfl⟩
    · have := fieldsAgree_suffix hall hnc (pre ++ [(n, e)]) l' (by rw [htbl]; simp)
      simpa using this

/-- the four hypotheses of C05's row-mode theorems hold for an accepted SELECT -/
theorem accepted_c05_hyps {toks : Toks} {s : SelectS} (h : planStage pf toks = .ok (.select s)) :
    Functional (stmtRefs s) ∧ WF (stmtRefs s) s.where_ ∧ FieldsWF (stmtRefs s) (projFields s) ∧
      FieldsAgree (stmtRefs s) (projFields s) ∧ (∀ f ∈ projFields s, f.expr ∈ s.fields) := by
  obtain ⟨hfun, hw, hwf⟩ := accepted_functional h
  obtain ⟨tbl', hall, hzip, hfl, hnf⟩ := accepted_refs h
  have hpf : projFields s = tbl'.map (fun p => (⟨p.1, resolveTop tbl' p.2⟩ : Project.Field)) := by
    unfold projFields
    rw [hzip, List.map_map]
    rfl
  have hmem : ∀ f ∈ projFields s, f.expr ∈ s.fields := by
    intro f hf
    rw [hpf] at hf
    obtain ⟨p, hp, rfl⟩ := List.mem_map.mp hf
    rw [hfl]
    exact List.mem_map.mpr ⟨p, hp, rfl⟩
  refine ⟨hfun, hw, fun f hf => hwf _ (hmem f hf), ?_, hmem⟩
  unfold FieldsAgree
  rw [hpf]
  have hnc : ∀ p ∈ tbl', noCyc (resolveTop tbl' p.2) = true := by
    intro p hp
    exact hnf _ (by rw [hfl]; exact List.mem_map.mpr ⟨p, hp, rfl⟩)
  have := fieldsAgree_suffix (A := stmtRefs s) hall hnc [] tbl' rfl
  simpa using this

/-- ACCEPTED ⇒ THE ROW-MODE PROJECTION NEVER ENDS WITH AN OPERAND-TYPE ERROR, field cache on or off.
    For a SELECT `planStage` accepts whose filter and fields — alias references allowed — stay within
    `sideOkD` and whose fields are no aggregates, the drain of `ProjectionPlan.Next` over ANY list of
    pairs, from any context whose cache is on (`CtxOn`) or off, ends neither with an operand-type error
    of the filter or of a field, nor with "where expression result is not boolean". -/
theorem accepted_row_drain (toks : Toks) (s : SelectS) (h : planStage pf toks = .ok (.select s))
    (hsw : sideOkD s.where_ = true) (hsf : ∀ f ∈ s.fields, sideOkD f = true ∧ noSiteAggr f = true)
    (pairs : List Pair) (c : Ctx) (hc : CtxOn c ∨ c.enable = false) :
    (drainRow s.where_ (projFields s) pairs c).1.err ≠ some (.eval .operandType) ∧
    (drainRow s.where_ (projFields s) pairs c).1.err ≠ some .whereNotBool := by
  obtain ⟨hfun, hw, hwf, hag, hmem⟩ := accepted_c05_hyps h
  have hspec : (drainRow s.where_ (projFields s) pairs c).1 = rowsSpec s.where_ (projFields s) pairs := by
    rcases hc with hon | hoff
    · exact drainRow_on_eq_spec hfun hw hwf hag pairs hon
    · exact drainRow_off_eq_spec _ _ pairs hoff
  rw [hspec]
  have hkw := accepted_select_where_kind_alias h hsw
  refine rowsSpec_no_ot (fun kv => filterSpec_kind hkw kv) ?_ pairs
  intro kv f hf
  have hfm := hmem f hf
  obtain ⟨k, hk, _⟩ := accepted_select_field_kind_alias h f.expr hfm (hsf _ hfm).1 (hsf _ hfm).2
  exact (nocache_kind hk kv).2

/-! ### batch mode -/

/-- an operand-type failure of the projection: the filter's or a field's evaluation failed with an
    operand-type error, or the filter's result was not Boolean -/
def OpErr (e : Project.PErr) : Prop := e = .eval .operandType ∨ e = .whereNotBool

theorem nocacheB_kind {e : Expr} {k : Kind} (hk : kindOf e = some k) (ch : List Pair) :
    (∀ vs, nocacheB e ch = .ok vs → ∀ v ∈ vs, v.hasKind k = true) ∧ nocacheB e ch ≠ .error .operandType := by
  have h := Kvql.Proofs.C14.progress_batch e k hk ch Ctx.off rfl
  unfold nocacheB
  constructor
  · intro vs hv
    exact (h.1 vs (execBatch e ch Ctx.off).2 (by rw [← hv])).2
  · intro he
    exact h.2 .operandType (execBatch e ch Ctx.off).2 (by rw [← he]) rfl

theorem mapM_boolOf_some : ∀ (vs : List Value), (∀ v ∈ vs, v.hasKind .bool = true) → ∃ ms, vs.mapM boolOf? = some ms
  | [], _ => ⟨[], by simp⟩
  | v :: vs, h => by
    obtain ⟨b, rfl⟩ := Value.bool_cases (h v List.mem_cons_self)
    obtain ⟨ms, hms⟩ := mapM_boolOf_some vs (fun x hx => h x (List.mem_cons_of_mem _ hx))
    exact ⟨b :: ms, by simp [List.mapM_cons, boolOf?, hms]⟩

theorem filterChunkSpec_kind {w : Expr} (hk : kindOf w = some .bool) (ch : List Pair) (e : Project.PErr)
    (h : filterChunkSpec w ch = .error e) : ¬ OpErr e := by
  obtain ⟨h1, h2⟩ := nocacheB_kind hk ch
  unfold filterChunkSpec at h
  cases hn : nocacheB w ch with
  | error e0 =>
    simp only [hn, Except.error.injEq] at h
    subst h
    rintro (he | he)
    · simp only [Project.PErr.eval.injEq] at he
      exact h2 (by rw [hn, he])
    · cases he
  | ok vs =>
    obtain ⟨ms, hms⟩ := mapM_boolOf_some vs (h1 vs hn)
    simp [hn, hms] at h

theorem selectLoop_err : ∀ (ms : List Bool) (ps : List Pair) (s : Sel) (e : Project.PErr),
    Project.selectLoop ms ps s = .error e → e = .filterIndex
  | [], _, _, e, h => by simp [Project.selectLoop] at h
  | true :: _, [], _, e, h => by simp [Project.selectLoop] at h; exact h.symm
  | true :: ms, p :: ps, s, e, h => by
    simp only [Project.selectLoop] at h
    exact selectLoop_err ms ps _ e h
  | false :: ms, ps, s, e, h => by
    simp only [Project.selectLoop] at h
    exact selectLoop_err ms ps.tail _ e h

theorem scanLoopSpec_err {w : Expr} (hk : kindOf w = some .bool) (bs : Nat) :
    ∀ (chunks : List (List Pair)) (s : Sel) (e : Project.PErr), scanLoopSpec w bs chunks s = .error e → ¬ OpErr e
  | [], s, e, h => by simp [scanLoopSpec] at h
  | [] :: rest, s, e, h => by
    simp only [scanLoopSpec] at h
    exact scanLoopSpec_err hk bs rest s e h
  | (p :: ps) :: rest, s, e, h => by
    simp only [scanLoopSpec] at h
    cases hf : filterChunkSpec w (p :: ps) with
    | error e0 =>
      simp only [hf, Except.error.injEq] at h
      subst h
      exact filterChunkSpec_kind hk _ _ hf
    | ok ms =>
      simp only [hf] at h
      cases hs : Project.selectLoop ms (p :: ps) s with
      | error e1 =>
        simp only [hs, Except.error.injEq] at h
        subst h
        rw [selectLoop_err _ _ _ _ hs]
        rintro (he | he) <;> cases he
      | ok s1 =>
        simp only [hs] at h
        split at h
        · cases h
        · exact scanLoopSpec_err hk bs rest s1 e h

theorem colsSpec_err : ∀ (fields : List Project.Field) (ch : List Pair),
    (∀ f ∈ fields, nocacheB f.expr ch ≠ .error .operandType) → ∀ e, colsSpec fields ch = .error e → ¬ OpErr e
  | [], _, _, e, h => by simp [colsSpec] at h
  | f :: fs, ch, hf, e, h => by
    simp only [colsSpec] at h
    cases hn : nocacheB f.expr ch with
    | error e0 =>
      simp only [hn, Except.error.injEq] at h
      subst h
      rintro (he | he)
      · simp only [Project.PErr.eval.injEq] at he
        exact hf f List.mem_cons_self (by rw [hn, he])
      · cases he
    | ok col =>
      simp only [hn] at h
      cases hc : colsSpec fs ch with
      | error e1 =>
        simp only [hc, Except.error.injEq] at h
        subst h
        exact colsSpec_err fs ch (fun g hg => hf g (List.mem_cons_of_mem _ hg)) _ hc
      | ok cols => simp [hc] at h

theorem nextBatchSpec_err {w : Expr} {fields : List Project.Field} (hk : kindOf w = some .bool)
    (hf : ∀ ch, ∀ f ∈ fields, nocacheB f.expr ch ≠ .error .operandType) (bs : Nat) (chunks : List (List Pair))
    (e : Project.PErr) (h : nextBatchSpec w fields bs chunks = .error e) : ¬ OpErr e := by
  unfold nextBatchSpec at h
  cases hs : scanLoopSpec w bs chunks {} with
  | error e0 =>
    simp only [hs, Except.error.injEq] at h
    subst h
    exact scanLoopSpec_err hk bs chunks {} _ hs
  | ok pr =>
    obtain ⟨s, rest⟩ := pr
    simp only [hs] at h
    cases hret : s.ret with
    | nil => simp [hret] at h
    | cons kv kvs =>
      simp only [hret] at h
      cases hc : colsSpec fields (kv :: kvs) with
      | error e1 =>
        simp only [hc, Except.error.injEq] at h
        subst h
        exact colsSpec_err fields _ (hf _) _ hc
      | ok cols =>
        simp only [hc] at h
        split at h
        · rename_i e2 hr
          cases h
          unfold rowsOfCols at hr
          split at hr
          · cases hr
          · cases hr
            rintro (he | he) <;> cases he
        · cases h

theorem batchesSpec_err {w : Expr} {fields : List Project.Field} (hk : kindOf w = some .bool)
    (hf : ∀ ch, ∀ f ∈ fields, nocacheB f.expr ch ≠ .error .operandType) (bs : Nat) :
    ∀ (n : Nat) (chunks : List (List Pair)) (e : Project.PErr),
      (batchesSpec w fields bs n chunks).2 = some e → ¬ OpErr e
  | 0, _, e, h => by
    simp only [batchesSpec, Option.some.injEq] at h
    subst h
    rintro (he | he) <;> cases he
  | n + 1, chunks, e, h => by
    unfold batchesSpec at h
    cases hn : nextBatchSpec w fields bs chunks with
    | error e0 =>
      simp only [hn, Option.some.injEq] at h
      subst h
      exact nextBatchSpec_err hk hf bs chunks _ hn
    | ok pr =>
      obtain ⟨rows, rest⟩ := pr
      cases rows with
      | nil => simp [hn] at h
      | cons r rs =>
        simp only [hn] at h
        exact batchesSpec_err hk hf bs n rest e h

/-- ACCEPTED ⇒ THE BATCH-MODE PROJECTION NEVER ENDS WITH AN OPERAND-TYPE ERROR, chunk cache on or off:
    the drain of `ProjectionPlan.Batch` over any list of inner chunks (cache on: non-empty chunks
    starting with different keys, as a cursor yields them) -/
theorem accepted_batch_drain (toks : Toks) (s : SelectS) (h : planStage pf toks = .ok (.select s))
    (hsw : sideOkD s.where_ = true) (hsf : ∀ f ∈ s.fields, sideOkD f = true ∧ noSiteAggr f = true)
    (bs : Nat) (chunks : List (List Pair)) (c : Ctx) (hc : (CtxOn c ∧ DistinctFk chunks) ∨ c.enable = false)
    (e : Project.PErr) (he : (drainBatchChunks s.where_ (projFields s) bs chunks c).1.err = some e) : ¬ OpErr e := by
  obtain ⟨hfun, hw, hwf, hag, hmem⟩ := accepted_c05_hyps h
  have hspec : (drainBatchChunks s.where_ (projFields s) bs chunks c).1.err =
      (batchesSpec s.where_ (projFields s) bs (chunks.length + 1) chunks).2 := by
    rcases hc with ⟨hon, hd⟩ | hoff
    · rw [drainBatchChunks_on_eq_spec hfun hw hwf hag bs chunks hd hon]
    · rw [drainBatchChunks_off_eq_spec hfun hw hwf bs chunks hoff]
  rw [hspec] at he
  have hkw := accepted_select_where_kind_alias h hsw
  refine batchesSpec_err hkw ?_ bs _ chunks e he
  intro ch f hf
  have hfm := hmem f hf
  obtain ⟨k, hk, _⟩ := accepted_select_field_kind_alias h f.expr hfm (hsf _ hfm).1 (hsf _ hfm).2
  exact (nocacheB_kind hk ch).2

end Kvql.Proofs.Typing
