/-
  The batch analogue of Proofs/FoldRel.lean / FoldCall.lean: the relation `SemB e e'` ("on every
  one-pair chunk on which `ExecuteBatch e` succeeds, `ExecuteBatch e'` succeeds with the same value, texts
  by content"), and congruence — a binary node / a call whose operands are refined is refined.
  Every per-pair kernel of the batch loops is indifferent to the Go kind of a text (`Rel.*_congr`).
-/
import Kvql.Proofs.FoldVecSingle
import Kvql.Proofs.FoldVecGen

namespace Kvql
open Generated
namespace Fold

/-- batch evaluation of `e'` refines that of `e`, one-pair chunk by one-pair chunk, cache off -/
def SemB (e e' : Expr) : Prop :=
  ∀ (kv : Pair) (c : Ctx), c.enable = false → ∀ v, SB e kv c v → ∃ v', SB e' kv c v' ∧ Rel v' v

theorem SemB.refl (e : Expr) : SemB e e := fun _ _ _ v h => ⟨v, h, .refl v⟩

theorem SemB.trans {a b c : Expr} (h1 : SemB a b) (h2 : SemB b c) : SemB a c := by
  intro kv cx hc v hv
  obtain ⟨v1, hv1, r1⟩ := h1 kv cx hc v hv
  obtain ⟨v2, hv2, r2⟩ := h2 kv cx hc v1 hv1
  exact ⟨v2, hv2, rel_trans r2 r1⟩

/-- the batch value of `e` is never something `in` can unpack -/
def NoUnpack (e : Expr) : Prop := ∀ (kv : Pair) (c : Ctx), c.enable = false → ∀ v, SB e kv c v → unpackArray v = none

/-- what the parent node needs of a rewritten operand, for BOTH evaluators: C04's `FoldRel` (row values,
    static type, shape), the batch values, and — because the batch code does not test the static type of
    the right operand of `in` — that a call / alias stays one unless its value could not be unpacked -/
structure FoldRelB (e e' : Expr) : Prop where
  row : FoldRel e e'
  semB : SemB e e'
  shapeB : isCallRefNode e = true → isCallRefNode e' = true ∨ NoUnpack e

theorem FoldRelB.refl (e : Expr) : FoldRelB e e := ⟨.refl e, .refl e, fun h => .inl h⟩

theorem FoldRelB.trans {a b c : Expr} (h1 : FoldRelB a b) (h2 : FoldRelB b c) : FoldRelB a c := by
  refine ⟨h1.row.trans h2.row, h1.semB.trans h2.semB, fun ha => ?_⟩
  rcases h1.shapeB ha with hb | hn
  · rcases h2.shapeB hb with hc | hn
    · exact .inl hc
    · refine .inr fun kv cx hc v hv => ?_
      obtain ⟨v', hv', r⟩ := h1.semB kv cx hc v hv
      rw [← r.unpackArray_congr]
      exact hn kv cx hc v' hv'
  · exact .inr hn

/-! ### the kernels under `Rel` -/

theorem andK_congr {a a' b b' : Value} (ha : Rel a' a) (hb : Rel b' b) : andK a' b' = andK a b := by
  rcases ha with rfl | ⟨x, rfl, rfl⟩ <;> rcases hb with rfl | ⟨y, rfl, rfl⟩ <;> first | rfl | (cases a' <;> rfl)

theorem orK_congr {a a' b b' : Value} (ha : Rel a' a) (hb : Rel b' b) : orK a' b' = orK a b := by
  rcases ha with rfl | ⟨x, rfl, rfl⟩ <;> rcases hb with rfl | ⟨y, rfl, rfl⟩ <;> first | rfl | (cases a' <;> rfl)

theorem concatK_congr {a a' b b' : Value} (ha : Rel a' a) (hb : Rel b' b) : concatK a' b' = concatK a b := by
  unfold concatK; rw [ha.convertToByteArray_congr, hb.convertToByteArray_congr]

theorem kernelB_congr (op : Op) (s : Bool) {a a' b b' : Value} (ha : Rel a' a) (hb : Rel b' b) :
    kernelB op s a' b' = kernelB op s a b := by
  cases op <;> simp only [kernelB, andK_congr ha hb, orK_congr ha hb, concatK_congr ha hb, ha.equalRow_congr hb,
    prefixK_congr _ _ _ _ ha hb, regexK_congr _ _ _ _ ha hb, ha.executeMathOp_congr hb, ha.compareBy_congr hb]

theorem inColumns_left_congr (number : Bool) {x x' : Value} (h : Rel x' x) (i : Nat) :
    ∀ cols : List (List Value), inColumns number x' i cols = inColumns number x i cols
  | [] => rfl
  | col :: cols => by
    unfold inColumns
    cases col[i]? with
    | none => rfl
    | some lval =>
      simp only [h.compareBy_congr (Rel.refl lval), inColumns_left_congr number h i cols]

theorem inCallK_congr (number : Bool) {a a' b b' : Value} (ha : Rel a' a) (hb : Rel b' b) :
    inCallK number a' b' = inCallK number a b := by
  unfold inCallK inValues
  rw [hb.unpackArray_congr]
  cases unpackArray b with
  | none => rfl
  | some vals => simp only [inAnyList_rel ha vals]

theorem betweenRow_left_congr (number : Bool) {a a' : Value} (h : Rel a' a) (b d : Value) :
    betweenRow number (some a') b d = betweenRow number (some a) b d := by
  unfold betweenRow
  simp only [(Rel.refl b).compareBy_congr h, h.compareBy_congr (Rel.refl d)]

/-! ### binary nodes -/

section binop
variable {l l' r r' : Expr}

theorem semB_binop_kernel {op : Op} (hop : isKernelOp op = true) (p : Nat) (tl : retType l' = retType l)
    (hl : SemB l l') (hr : SemB r r') : SemB (.binop p op l r) (.binop p op l' r') := by
  intro kv c hc v hv
  obtain ⟨a, b, sa, sb, hk⟩ := (sb_binop hop p l r kv hc v).mp hv
  obtain ⟨a', sa', ra⟩ := hl kv c hc a sa
  obtain ⟨b', sb', rb⟩ := hr kv c hc b sb
  refine ⟨v, (sb_binop hop p l' r' kv hc v).mpr ⟨a', b', sa', sb', ?_⟩, .refl v⟩
  rw [tl, kernelB_congr op _ ra rb]
  exact hk

theorem semB_in_list (p q : Nat) (items : List Expr) (tl : retType l' = retType l) (hl : SemB l l') :
    SemB (.binop p .in_ l (.list q items)) (.binop p .in_ l' (.list q items)) := by
  intro kv c hc v hv
  obtain ⟨x, row, sx, hrow, b, hb, rfl⟩ := (sb_in_list p q l items kv hc _).mp hv
  obtain ⟨x', sx', rx⟩ := hl kv c hc x sx
  refine ⟨.bool b, (sb_in_list p q l' items kv hc _).mpr ⟨x', row, sx', ?_, b, ?_, rfl⟩, .refl _⟩
  · rw [tl]; exact hrow
  · rw [tl, inColumns_left_congr _ rx]; exact hb

theorem semB_in_callref (p : Nat) (hcr : isCallRefNode r = true) (hcr' : isCallRefNode r' = true)
    (tl : retType l' = retType l) (hl : SemB l l') (hr : SemB r r') :
    SemB (.binop p .in_ l r) (.binop p .in_ l' r') := by
  intro kv c hc v hv
  obtain ⟨a, b, sa, sb, hk⟩ := (sb_in_callref p l r hcr kv hc v).mp hv
  obtain ⟨a', sa', ra⟩ := hl kv c hc a sa
  obtain ⟨b', sb', rb⟩ := hr kv c hc b sb
  refine ⟨v, (sb_in_callref p l' r' hcr' kv hc v).mpr ⟨a', b', sa', sb', ?_⟩, .refl v⟩
  rw [tl, inCallK_congr _ ra rb]
  exact hk

theorem semB_between (p q : Nat) (lo hi : Expr) (tl : retType l' = retType l) (hl : SemB l l') :
    SemB (.binop p .between l (.list q [lo, hi])) (.binop p .between l' (.list q [lo, hi])) := by
  intro kv c hc v hv
  obtain ⟨hst, a, b, d, sa, sb, sd, hk⟩ := (sb_between p q l lo hi kv hc v).mp hv
  obtain ⟨a', sa', ra⟩ := hl kv c hc a sa
  refine ⟨v, (sb_between p q l' lo hi kv hc v).mpr ⟨by rw [tl]; exact hst, a', b, d, sa', sb, sd, ?_⟩, .refl v⟩
  rw [tl, betweenRow_left_congr _ ra]
  exact hk

/-- a `SemB` that holds because the left side never evaluates -/
theorem semB_of_never {e e' : Expr} (h : ∀ kv c v, ¬ SB e kv c v) : SemB e e' :=
  fun kv c _ v hv => absurd hv (h kv c v)

/-- congruence: rewritten operands inside the node that stays, every operator -/
theorem FoldRelB.binop (p : Nat) (op : Op) (hl : FoldRelB l l') (hr : FoldRelB r r') :
    FoldRelB (.binop p op l r) (.binop p op l' r') := by
  refine ⟨FoldRel.binop p op hl.row hr.row, ?_, fun h => by simp [isCallRefNode] at h⟩
  by_cases hk : isKernelOp op = true
  · exact semB_binop_kernel hk p hl.row.ty hl.semB hr.semB
  · cases op <;> simp [isKernelOp] at hk
    case in_ =>
      by_cases h1 : isListNode r = true
      · have := hr.row.shape.1 h1
        subst this
        cases r' <;> simp [isListNode] at h1
        exact semB_in_list p _ _ hl.row.ty hl.semB
      · by_cases h2 : isCallRefNode r = true
        · rcases hr.shapeB h2 with h3 | h3
          · exact semB_in_callref p h2 h3 hl.row.ty hl.semB hr.semB
          · intro kv c hc v hv
            obtain ⟨a, b, _, sb, hk⟩ := (sb_in_callref p l r h2 kv hc v).mp hv
            simp [inCallK, h3 kv c hc b sb] at hk
        · exact semB_of_never (sb_in_other p l r (by simpa using h1) (by simpa using h2))
    case between =>
      by_cases h1 : ∃ q lo hi, r = .list q [lo, hi]
      · obtain ⟨q, lo, hi, rfl⟩ := h1
        have := hr.row.shape.1 rfl
        subst this
        exact semB_between p q lo hi hl.row.ty hl.semB
      · exact semB_of_never (sb_between_other p l r (fun q lo hi h => h1 ⟨q, lo, hi, h⟩))
    case not => exact semB_of_never (sb_binop_not p l r)

end binop

/-! ### calls -/

/-- an argument of a call before and after, on the pair `kv` in the (cache-off) context `c`: the static
    type as in C04 (`WeakTy`), the batch value refined, and the row value refined on the nil context
    (the bodies without a vector twin evaluate their arguments with `Execute(kv, nil)` in batch mode) -/
structure ArgB (kv : Pair) (c : Ctx) (a a' : Expr) : Prop where
  ty : WeakTy a a'
  semB : ∀ v, SB a kv c v → ∃ v', SB a' kv c v' ∧ Rel v' v
  row : Refines (ev a' kv Ctx.none) (ev a kv Ctx.none)

theorem ArgB.ty_of_ne {kv : Pair} {c : Ctx} {a a' : Expr} (h : ArgB kv c a a') {t : Nat} (ht : retType a = t)
    (hb : t ≠ tyTBOOL) : retType a' = t := by
  rcases h.ty with h1 | h1
  · rw [h1, ht]
  · rw [h1] at ht; exact absurd ht.symm hb

theorem ArgB.argOK {kv : Pair} {c : Ctx} {a a' : Expr} (h : ArgB kv c a a') : ArgOK kv Ctx.none kv Ctx.none a a' :=
  ⟨h.ty, h.row⟩

theorem vecBody_never {b : Body} {args : List Expr} {kv : Pair} {c : Ctx} {v : Value}
    (h : vecBody b args = fun _ => M.throw (.panic "args[i]: index out of range")) : ¬ Single (vecBody b args) c v kv := by
  unfold Single
  rw [h]
  exact throw_ne_ok

section call
variable {kv : Pair} {c : Ctx}

theorem rowWise_refines (hc : c.enable = false) (b : Body) {args args' : List Expr} (h : Rows (ArgB kv c) args args')
    {v : Value} (hv : Single (rowWiseNoCtx (rowBody b args)) c v kv) :
    ∃ v', Single (rowWiseNoCtx (rowBody b args')) c v' kv ∧ Rel v' v := by
  rw [Single.rowWise (fun kv => rowBody_inert b args kv)] at hv
  obtain ⟨v', hv', r⟩ := rowBody_refines (kv := kv) (c := Ctx.none) (kv' := kv) (c' := Ctx.none) rfl rfl b
    (h.imp fun _ _ ha => ha.argOK) v hv
  exact ⟨v', (Single.rowWise (fun kv => rowBody_inert b args' kv) v').mpr hv', r⟩

theorem vecBody_refines (hc : c.enable = false) (b : Body) :
    ∀ {args args' : List Expr}, Rows (ArgB kv c) args args' →
      ∀ v, Single (vecBody b args) c v kv → ∃ v', Single (vecBody b args') c v' kv ∧ Rel v' v := by
  intro args args' h v hv
  cases hu : unaryOf b with
  | some f =>
    cases h with
    | nil =>
      exfalso
      revert hv
      cases b <;> simp [unaryOf] at hu <;> (unfold Single; simp only [vecBody]; exact throw_ne_ok)
    | cons ha hr =>
      rename_i a a' rest rest'
      obtain ⟨x, sx, rfl⟩ := (sb_unary hu a rest kv hc v).mp hv
      obtain ⟨x', sx', rx⟩ := ha.semB x sx
      exact ⟨f x', (sb_unary hu a' rest' kv hc _).mpr ⟨x', sx', rfl⟩, by rw [unaryOf_rel_congr hu rx]; exact .refl _⟩
  | none =>
    cases b <;> simp [unaryOf] at hu
    case len =>
      cases h with
      | nil => exfalso; revert hv; unfold Single; simp only [vecBody]; exact throw_ne_ok
      | cons ha hr =>
        rename_i a a' rest rest'
        have e1 := Single.un (X := execBatch a) (Z := vecBody .len (a :: rest)) (kv := kv) (c := c)
          (K := fun v => (getListLength v).map Value.goInt) (by rw [vecBody]; rfl) (fun x => mapRows_one' _ x) (pw_core a) hc
        have e2 := Single.un (X := execBatch a') (Z := vecBody .len (a' :: rest')) (kv := kv) (c := c)
          (K := fun v => (getListLength v).map Value.goInt) (by rw [vecBody]; rfl) (fun x => mapRows_one' _ x) (pw_core a') hc
        obtain ⟨x, sx, hk⟩ := (e1 v).mp hv
        obtain ⟨x', sx', rx⟩ := ha.semB x sx
        exact ⟨v, (e2 v).mpr ⟨x', sx', by rw [rx.getListLength_congr]; exact hk⟩, .refl v⟩
    case json =>
      cases h with
      | nil => exfalso; revert hv; unfold Single; simp only [vecBody]; exact throw_ne_ok
      | cons ha hr =>
        rename_i a a' rest rest'
        have e1 := Single.un (X := execBatch a) (Z := vecBody .json (a :: rest)) (kv := kv) (c := c)
          (K := fun v => match convertToByteArray v with
            | none => .error .operandType
            | some b => .ok (.json (parseJsonObject b))) (by rw [vecBody]; rfl) (fun x => mapRows_one' _ x) (pw_core a) hc
        have e2 := Single.un (X := execBatch a') (Z := vecBody .json (a' :: rest')) (kv := kv) (c := c)
          (K := fun v => match convertToByteArray v with
            | none => .error .operandType
            | some b => .ok (.json (parseJsonObject b))) (by rw [vecBody]; rfl) (fun x => mapRows_one' _ x) (pw_core a') hc
        obtain ⟨x, sx, hk⟩ := (e1 v).mp hv
        obtain ⟨x', sx', rx⟩ := ha.semB x sx
        exact ⟨v, (e2 v).mpr ⟨x', sx', by simp only [rx.convertToByteArray_congr]; exact hk⟩, .refl v⟩
    case subStr =>
      match args, args', h with
      | [], _, .nil => exfalso; revert hv; unfold Single; simp only [vecBody]; exact throw_ne_ok
      | [_], _, .cons _ .nil => exfalso; revert hv; unfold Single; simp only [vecBody]; exact throw_ne_ok
      | [_, _], _, .cons _ (.cons _ .nil) => exfalso; revert hv; unfold Single; simp only [vecBody]; exact throw_ne_ok
      | a0 :: a1 :: a2 :: rest, _, .cons (b := b0) h0 (.cons (b := b1) h1 (.cons (b := b2) (bs := rest') h2 hr)) =>
        by_cases t1 : retType a1 = tyTNUMBER
        · by_cases t2 : retType a2 = tyTNUMBER
          · have t1' := h1.ty_of_ne t1 (by decide)
            have t2' := h2.ty_of_ne t2 (by decide)
            have e1 := Single.tern (X := execBatch a0) (Y := execBatch a1) (W := execBatch a2)
              (Z := vecBody .subStr (a0 :: a1 :: a2 :: rest)) (kv := kv) (c := c) (K := substrRow)
              (by rw [vecBody]; simp [t1, t2]) (fun x y z => zip3Rows_one _ x y z) (pw_core a0) (pw_core a1)
              (pw_core a2) hc
            have e2 := Single.tern (X := execBatch b0) (Y := execBatch b1) (W := execBatch b2)
              (Z := vecBody .subStr (b0 :: b1 :: b2 :: rest')) (kv := kv) (c := c) (K := substrRow)
              (by rw [vecBody]; simp [t1', t2']) (fun x y z => zip3Rows_one _ x y z) (pw_core b0) (pw_core b1)
              (pw_core b2) hc
            obtain ⟨x, y, z, sx, sy, sz, hk⟩ := (e1 v).mp hv
            obtain ⟨x', sx', rx⟩ := h0.semB x sx
            obtain ⟨y', sy', ry⟩ := h1.semB y sy
            obtain ⟨z', sz', rz⟩ := h2.semB z sz
            refine ⟨v, (e2 v).mpr ⟨x', y', z', sx', sy', sz', ?_⟩, .refl v⟩
            simp only [substrRow, rx.toStringV_congr, ry.toIntV_congr, rz.toIntV_congr] at hk ⊢
            exact hk
          · exfalso; revert hv; unfold Single; rw [vecBody]; simp [t1, t2]
        · exfalso; revert hv; unfold Single; rw [vecBody]; simp [t1]
    case split =>
      match args, args', h with
      | [], _, .nil => exfalso; revert hv; unfold Single; simp only [vecBody]; exact throw_ne_ok
      | [_], _, .cons _ .nil => exfalso; revert hv; unfold Single; simp only [vecBody]; exact throw_ne_ok
      | a0 :: a1 :: rest, _, .cons (b := b0) h0 (.cons (b := b1) (bs := rest') h1 hr) =>
        by_cases t1 : retType a1 = tyTSTR
        · have t1' := h1.ty_of_ne t1 (by decide)
          have e1 := Single.bin (X := execBatch a0) (Y := execBatch a1)
            (Z := vecBody .split (a0 :: a1 :: rest)) (kv := kv) (c := c)
            (K := fun v sp => .ok (.strList (splitBytes (toStringV v) (toStringV sp))))
            (by rw [vecBody]; simp [t1]) (fun x y => zipRows_one' _ x y) (pw_core a0) (pw_core a1) hc
          have e2 := Single.bin (X := execBatch b0) (Y := execBatch b1)
            (Z := vecBody .split (b0 :: b1 :: rest')) (kv := kv) (c := c)
            (K := fun v sp => .ok (.strList (splitBytes (toStringV v) (toStringV sp))))
            (by rw [vecBody]; simp [t1']) (fun x y => zipRows_one' _ x y) (pw_core b0) (pw_core b1) hc
          obtain ⟨x, y, sx, sy, hk⟩ := (e1 v).mp hv
          obtain ⟨x', sx', rx⟩ := h0.semB x sx
          obtain ⟨y', sy', ry⟩ := h1.semB y sy
          refine ⟨v, (e2 v).mpr ⟨x', y', sx', sy', ?_⟩, .refl v⟩
          simp only [rx.toStringV_congr, ry.toStringV_congr]
          exact hk
        · exfalso; revert hv; unfold Single; rw [vecBody]; simp [t1]
    case cosine =>
      match args, args', h with
      | [], _, .nil => exfalso; revert hv; unfold Single; simp only [vecBody]; exact throw_ne_ok
      | [_], _, .cons _ .nil => exfalso; revert hv; unfold Single; simp only [vecBody]; exact throw_ne_ok
      | a0 :: a1 :: rest, _, .cons (b := b0) h0 (.cons (b := b1) (bs := rest') h1 hr) =>
        have e1 := Single.bin (X := execBatch a0) (Y := execBatch a1)
          (Z := vecBody .cosine (a0 :: a1 :: rest)) (kv := kv) (c := c)
          (K := fun a b => distanceRow cosineDistance a (some b))
          (by rw [vecBody]; rfl) (fun x y => zipRowsLazy_one _ x y) (pw_core a0) (pw_core a1) hc
        have e2 := Single.bin (X := execBatch b0) (Y := execBatch b1)
          (Z := vecBody .cosine (b0 :: b1 :: rest')) (kv := kv) (c := c)
          (K := fun a b => distanceRow cosineDistance a (some b))
          (by rw [vecBody]; rfl) (fun x y => zipRowsLazy_one _ x y) (pw_core b0) (pw_core b1) hc
        obtain ⟨x, y, sx, sy, hk⟩ := (e1 v).mp hv
        obtain ⟨x', sx', rx⟩ := h0.semB x sx
        obtain ⟨y', sy', ry⟩ := h1.semB y sy
        refine ⟨v, (e2 v).mpr ⟨x', y', sx', sy', ?_⟩, .refl v⟩
        simp only [distanceRow, rx.toFloatList_congr, ry.toFloatList_congr] at hk ⊢
        exact hk
    case l2 =>
      match args, args', h with
      | [], _, .nil => exfalso; revert hv; unfold Single; simp only [vecBody]; exact throw_ne_ok
      | [_], _, .cons _ .nil => exfalso; revert hv; unfold Single; simp only [vecBody]; exact throw_ne_ok
      | a0 :: a1 :: rest, _, .cons (b := b0) h0 (.cons (b := b1) (bs := rest') h1 hr) =>
        have e1 := Single.bin (X := execBatch a0) (Y := execBatch a1)
          (Z := vecBody .l2 (a0 :: a1 :: rest)) (kv := kv) (c := c)
          (K := fun a b => distanceRow l2Distance a (some b))
          (by rw [vecBody]; rfl) (fun x y => zipRowsLazy_one _ x y) (pw_core a0) (pw_core a1) hc
        have e2 := Single.bin (X := execBatch b0) (Y := execBatch b1)
          (Z := vecBody .l2 (b0 :: b1 :: rest')) (kv := kv) (c := c)
          (K := fun a b => distanceRow l2Distance a (some b))
          (by rw [vecBody]; rfl) (fun x y => zipRowsLazy_one _ x y) (pw_core b0) (pw_core b1) hc
        obtain ⟨x, y, sx, sy, hk⟩ := (e1 v).mp hv
        obtain ⟨x', sx', rx⟩ := h0.semB x sx
        obtain ⟨y', sy', ry⟩ := h1.semB y sy
        refine ⟨v, (e2 v).mpr ⟨x', y', sx', sy', ?_⟩, .refl v⟩
        simp only [distanceRow, rx.toFloatList_congr, ry.toFloatList_congr] at hk ⊢
        exact hk
    case join =>
      have e1 : vecBody .join args = rowWiseNoCtx (rowBody .join args) := by funext ch; rw [vecBody]
      have e2 : vecBody .join args' = rowWiseNoCtx (rowBody .join args') := by funext ch; rw [vecBody]
      rw [e1] at hv; rw [e2]; exact rowWise_refines hc .join h hv
    case floatList =>
      have e1 : vecBody .floatList args = rowWiseNoCtx (rowBody .floatList args) := by funext ch; rw [vecBody]
      have e2 : vecBody .floatList args' = rowWiseNoCtx (rowBody .floatList args') := by funext ch; rw [vecBody]
      rw [e1] at hv; rw [e2]; exact rowWise_refines hc .floatList h hv
    case intList =>
      have e1 : vecBody .intList args = rowWiseNoCtx (rowBody .intList args) := by funext ch; rw [vecBody]
      have e2 : vecBody .intList args' = rowWiseNoCtx (rowBody .intList args') := by funext ch; rw [vecBody]
      rw [e1] at hv; rw [e2]; exact rowWise_refines hc .intList h hv
    case toList =>
      have e1 : vecBody .toList args = rowWiseNoCtx (rowBody .toList args) := by funext ch; rw [vecBody]
      have e2 : vecBody .toList args' = rowWiseNoCtx (rowBody .toList args') := by funext ch; rw [vecBody]
      rw [e1] at hv; rw [e2]; exact rowWise_refines hc .toList h hv

end call

/-- a call whose arguments are refined (for both evaluators) is refined by the batch evaluator -/
theorem semB_call (p : Nat) (nm : Expr) {args args' : List Expr}
    (h : Rows (fun a a' => (Sem a a' ∧ SemB a a') ∧ WeakTy a a') args args') :
    SemB (.call p nm args) (.call p nm args') := by
  intro kv c hc v hv
  have hlen := Rows.length_eq h
  have hargs : Rows (ArgB kv c) args args' :=
    h.imp fun a a' ⟨⟨hs, hb⟩, ht⟩ => ⟨ht, hb kv c hc, hs kv Ctx.none rfl⟩
  cases hcf : callForm nm args.length with
  | none => exact absurd hv (execBatch_call_none hcf _ _ _ _)
  | some bt =>
    obtain ⟨b, twin⟩ := bt
    have hcf' : callForm nm args'.length = some (b, twin) := by rw [← hlen]; exact hcf
    unfold SB Single at hv ⊢
    rw [execBatch_call_some hcf] at hv
    rw [execBatch_call_some hcf']
    cases twin
    · simp only [Bool.false_eq_true, if_false] at hv ⊢
      exact rowWise_refines hc b hargs hv
    · simp only [if_true] at hv ⊢
      exact vecBody_refines hc b hargs v hv

theorem FoldRelB.call (p : Nat) (nm : Expr) {args args' : List Expr}
    (h : Rows (fun a a' => (Sem a a' ∧ SemB a a') ∧ WeakTy a a') args args') :
    FoldRelB (.call p nm args) (.call p nm args') :=
  ⟨FoldRel.call p nm (h.imp fun _ _ ⟨⟨hs, _⟩, ht⟩ => ⟨hs, ht⟩), semB_call p nm h, fun _ => .inl rfl⟩

end Fold
end Kvql
