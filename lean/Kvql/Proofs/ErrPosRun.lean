/-
  C17, the end-to-end model: a `Fail.plan e` of `Run.runQuery` is an error of `PlanCheck.planStage`
  and nothing else — no plan, trace or consumer of `runStmt` manufactures one.
-/
import Kvql.Proofs.ErrPosPlan
import Kvql.Proofs.RunNoPanicSelect
import Kvql.Proofs.RunNoPanicAggrD
import Kvql.Proofs.TypingStage

namespace Kvql.Proofs.ErrPos

open Kvql Kvql.Run Kvql.Plans Kvql.Storage Kvql.PlanCheck
open Kvql.Proofs.RunNoPanic Kvql.Proofs.RunNoPanic.AggrNP Kvql.Proofs.Typing

/-- not a rejection by `BuildPlan` -/
def NotPlan (fl : Run.Fail) : Prop := ∀ e, fl ≠ .plan e

theorem NotPlan.of_inModel {fl : Run.Fail} (h : inModel fl) : NotPlan fl := h.2

theorem aggrFail_notPlan (e : Aggr.Err) : NotPlan (aggrFail e) := by
  intro e'
  cases e <;> simp [aggrFail]
  split
  · simp
  · split <;> simp

theorem writeOutcome_notPlan (cls : Option Run.Fail) (hcls : ∀ f, cls = some f → NotPlan f)
    (r : Plans.RunOut × Storage.World) (fl : Run.Fail) (h : (writeOutcome cls r).fail = some fl) : NotPlan fl := by
  unfold writeOutcome at h
  split at h
  · cases h
  · cases h; intro e; simp
  · cases hc : cls with
    | none => rw [hc] at h; simp at h; subst h; intro e; simp
    | some f => rw [hc] at h; simp at h; subst h; exact hcls f hc
  · cases h; intro e; simp

theorem errFail_notPlan (e : Err) : NotPlan (errFail e) := (perrFail_inModel _).2

/-- ORDER BY and LIMIT over a trace only pass its failure on, or panic in `Less` -/
theorem orderTrace_notPlan (keys : List Order.Key) (kind : PollKind) (bs : Nat) (t : Trace (List Value))
    (ht : ∀ fl, t.fin.1 = some fl → NotPlan fl) :
    ∀ fl, (orderTrace keys kind bs t).fin.1 = some fl → NotPlan fl := by
  intro fl h
  rcases orderTrace_fin_cases keys kind bs t with h0 | h0 | h0
  · rw [h0] at h; cases h
  · rw [h0] at h; exact ht fl h
  · rw [h0] at h; cases h; intro e; simp

theorem limitTrace_notPlan {α : Type} (start count : Nat) (kind : PollKind) (bs : Nat) (t : Trace α)
    (ht : ∀ fl, t.fin.1 = some fl → NotPlan fl) :
    ∀ fl, (limitTrace start count kind bs t).fin.1 = some fl → NotPlan fl := by
  intro fl h
  rcases limitTrace_fin start count kind bs t with h0 | h0
  · rw [h0] at h; cases h
  · rw [h0] at h; exact ht fl h

theorem aggrInner_notPlan (rows : List Aggr.Row) (kind : PollKind) (bs : Nat) (w : Storage.World) :
    ∀ fl, (aggrInner rows kind bs w).fin.1 = some fl → NotPlan fl := by
  intro fl h
  unfold aggrInner at h
  cases kind with
  | next =>
    simp only at h
    cases he : (Aggr.drainNext rows).2 with
    | none => rw [he] at h; simp at h
    | some e => rw [he] at h; simp at h; subst h; exact aggrFail_notPlan e
  | batch =>
    simp only at h
    cases he : (Aggr.drainBatch bs (rows.length + 1) rows).2 with
    | none => rw [he] at h; simp at h
    | some e => rw [he] at h; simp at h; subst h; exact aggrFail_notPlan e


theorem rejected_fail (f : Run.Fail) (store : Store) : (rejected f store).fail = some f := rfl

/-- the tail of `runAggrSelect` / `runPlainSelect`: ORDER BY, then LIMIT, over a trace -/
theorem aggr_tail_notPlan (s : SelectS) (store : Store) (kind : PollKind) (bs : Nat) (ta : Trace (List Value))
    (hta : ∀ fl, ta.fin.1 = some fl → NotPlan fl) (fl : Run.Fail)
    (h : (match s.order with
      | none => ta.outcome
      | some o =>
        match orderKeys s.fieldNames s.fieldTypes o with
        | none => rejected (.glue "order field not in the select list") store
        | some keys =>
          match s.limit with
          | none => (orderTrace keys kind bs ta).outcome
          | some l => (limitTrace (limitNat l).1 (limitNat l).2 kind bs (orderTrace keys kind bs ta)).outcome).fail
        = some fl) : NotPlan fl := by
  split at h
  · exact hta fl h
  · split at h
    · cases h; intro e; simp
    · rename_i keys _
      split at h
      · exact orderTrace_notPlan keys kind bs ta hta fl h
      · exact limitTrace_notPlan _ _ kind bs _ (orderTrace_notPlan keys kind bs ta hta) fl h

/-- **SELECT with aggregates** never reports a plan-time rejection -/
theorem runAggrSelect_notPlan (s : SelectS) (f : FoldedSelect) (store : Store) (kind : PollKind) (bs : Nat)
    (cache : Bool) (fl : Run.Fail) (h : (runAggrSelect s f store kind bs cache).fail = some fl) : NotPlan fl := by
  unfold runAggrSelect at h
  simp only at h
  split at h
  · cases h; intro e; simp
  · cases h; intro e; simp
  · split at h
    · cases h; intro e; simp
    · split at h
      · -- `ta?` is an error: only the conversion of a list-kind column
        rename_i fl' hfl'
        cases h
        split at hfl'
        · cases hfl'
        · split at hfl'
          · cases hfl'; intro e; simp
          · cases hfl'
      · rename_i ta hta
        refine aggr_tail_notPlan s store kind bs ta ?_ fl h
        intro fl' hfl'
        split at hta
        · -- `prepare` failed: the scan's failure, or an aggregate error
          rename_i flp hprep
          cases hta
          simp only at hfl'
          cases hfl'
          split at hprep
          · rename_i fls hfls
            cases hprep
            cases kind with
            | next => exact NotPlan.of_inModel (scanTrace_inModel _ _ _ _ _ _ hfls)
            | batch => exact NotPlan.of_inModel (scanTrace_inModel _ _ _ _ _ _ hfls)
          · split at hprep
            · cases hprep; exact aggrFail_notPlan _
            · cases hprep
        · rename_i rows hprep
          split at hta
          · cases hta
          · rename_i t ht
            cases hta
            simp only at hfl'
            have := (traceValues_some ht).1
            rw [this] at hfl'
            split at hfl'
            · exact limitTrace_notPlan _ _ kind bs _ (aggrInner_notPlan rows kind bs _) fl' hfl'
            · exact aggrInner_notPlan rows kind bs _ fl' hfl'

/-- **the statement on the store**: a statement whose `buildFinalPlan` shape check passes is never
    reported as rejected by `BuildPlan` -/
theorem runStmt_notPlan (stmt : Stmt) (hfp : ∀ s, stmt = .select s → ∃ b, finalPlanCheck s = .ok b)
    (store : Store) (kind : PollKind) (bs : Nat) (cache : Bool) (fl : Run.Fail)
    (h : (runStmt stmt store kind bs cache).fail = some fl) : NotPlan fl := by
  unfold runStmt at h
  split at h
  · cases h; intro e; simp
  · cases stmt with
    | select s =>
      obtain ⟨b, hb⟩ := hfp s rfl
      simp only [hb] at h
      cases b with
      | false =>
        simp only at h
        split at h
        · cases h; intro e; simp
        · exact NotPlan.of_inModel (runPlainSelect_inModel s _ store kind bs cache fl h)
      | true =>
        simp only at h
        split at h
        · cases h; intro e; simp
        · exact runAggrSelect_notPlan s _ store kind bs cache fl h
    | put pos pairs =>
      simp only at h
      refine writeOutcome_notPlan _ ?_ _ fl h
      intro f hf
      simp only [Option.map_eq_some_iff] at hf
      obtain ⟨e, _, rfl⟩ := hf
      exact errFail_notPlan e
    | remove pos keys =>
      simp only at h
      refine writeOutcome_notPlan _ ?_ _ fl h
      intro f hf
      simp only [Option.map_eq_some_iff] at hf
      obtain ⟨e, _, rfl⟩ := hf
      exact errFail_notPlan e
    | delete pos wpos w lim =>
      simp only [runDelete] at h
      split at h
      · cases h; intro e; simp
      · refine writeOutcome_notPlan _ ?_ _ fl h
        intro f hf
        simp only [Option.map_eq_some_iff] at hf
        obtain ⟨e, _, rfl⟩ := hf
        exact (perrFail_inModel e).2

/-- **`Fail.plan` is `planStage`'s**: the end-to-end model reports a rejection by `BuildPlan` exactly
    when `planStage` returns that error -/
theorem runQuery_plan_iff (query : Bytes) (pf : Bytes → F64) (store : Store) (kind : PollKind) (bs : Nat)
    (cache : Bool) (e : PErr) :
    (Run.runQuery query pf store kind bs cache).fail = some (.plan e) ↔
      planStage pf (Lexer.split query) = .err e := by
  unfold Run.runQuery
  cases hp : planStage pf (Lexer.split query) with
  | ok stmt =>
    simp only
    constructor
    · intro h
      exfalso
      refine runStmt_notPlan stmt ?_ store kind bs cache _ h e rfl
      intro s hs
      subst hs
      have hb := (planStage_ok_iff.mp hp).2.2
      simp only [buildStage] at hb
      obtain ⟨aggr, hfp, _⟩ := bind_ok_iff.mp hb
      exact ⟨aggr, hfp⟩
    · intro h; cases h
  | err e' => simp [rejected, resFail]
  | panic site => simp [rejected, resFail]
  | outOfFuel => simp [rejected, resFail]
  | unsupported w => simp [rejected, resFail]

end Kvql.Proofs.ErrPos
