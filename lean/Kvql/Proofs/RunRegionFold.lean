/-
  C18 end to end, part 8: constant folding keeps the key-pinning conjuncts.
  A conjunct of the WHERE clause of one of the three atom shapes (`key op 'lit'`, `'lit' op key`,
  `key op (list of literals)`) is still a conjunct of the tree `Optimize()` returns — or that tree is
  the literal `false` (another conjunct folded to `false`), which is planned EMPTY.  The re-pointing of
  alias references (`Parser.resolveTop`) does not touch it either.
-/
import Kvql.Proofs.RunRegionAtoms
import Kvql.Proofs.FoldSpec
import Kvql.Model.Parser

namespace Kvql.Proofs.RunRegion

open Kvql Kvql.Fold Kvql.Scan

/-- a key-pinning atom: one of the three shapes, with a comparison / `in` / `between` operator -/
def Atom (c : Expr) : Prop := PinShape c ∧ ∃ p op l r, c = .binop p op l r ∧ pinOp op = true

theorem atom_of_pinOf {c : Expr} {R : KeyRegion} (h : pinOf c = some R) : Atom c := pinOf_shape h

/-- `c` sits on the `&` / `and` spine of `e`, or `e` is the literal `false` -/
def Kept (c e : Expr) : Prop := Conjunct c e ∨ ∃ p, e = mkBool p false

theorem strItems_of {items : List Expr} (h : (stringItems items).2 = true) : ∀ i ∈ items, ∃ p d, i = .str p d := by
  induction items with
  | nil => intro i hi; cases hi
  | cons x xs ih =>
    cases x with
    | str p d =>
      simp only [stringItems] at h
      intro i hi
      rcases List.mem_cons.mp hi with e | e
      · exact ⟨p, d, e⟩
      · exact ih h i e
    | _ => simp [stringItems] at h

/-! ### `operand`, `binExec`, `reorder`, `andOr` on an atom -/

theorem binExec_atom {c : Expr} (h : Atom c) : binExec c = .ok ⟨c, false, c⟩ := by
  obtain ⟨hs, _⟩ := h
  cases hs with
  | keyStr p op p1 p2 lit => simp [binExec, operand, bind, Except.bind, pure, Except.pure]
  | strKey p op p1 p2 lit => simp [binExec, operand, bind, Except.bind, pure, Except.pure]
  | keyList p op p1 p2 items _ => simp [binExec, operand, bind, Except.bind, pure, Except.pure]

theorem reorder_atom {c : Expr} (h : Atom c) : reorder c = c := by
  obtain ⟨hs, p', op', l', r', he, hop⟩ := h
  cases hs with
  | keyStr p op p1 p2 lit =>
    cases he
    cases op' <;> simp [pinOp] at hop <;> simp [reorder]
  | strKey p op p1 p2 lit =>
    cases he
    cases op' <;> simp [pinOp] at hop <;> simp [reorder]
  | keyList p op p1 p2 items _ =>
    cases he
    cases op' <;> simp [pinOp] at hop <;> simp [reorder]

theorem andOr_atom {c : Expr} (h : Atom c) : (andOr c).1 = c := by
  obtain ⟨_, p, op, l, r, rfl, hop⟩ := h
  cases op <;> simp [pinOp] at hop <;> simp [andOr]

theorem atom_not_and {c : Expr} (h : Atom c) : isAnd c = false := by
  obtain ⟨_, p, op, l, r, rfl, hop⟩ := h
  cases op <;> simp [pinOp] at hop <;> rfl

/-- whatever has an atom on its spine is a binary node -/
theorem conjunct_binop {c e : Expr} (hc : Conjunct c e) (ha : Atom c) : ∃ p op l r, e = .binop p op l r := by
  cases hc with
  | self => obtain ⟨_, p, op, l, r, rfl, _⟩ := ha; exact ⟨p, op, l, r, rfl⟩
  | andL _ => exact ⟨_, _, _, _, rfl⟩
  | andR _ => exact ⟨_, _, _, _, rfl⟩
  | kwAndL _ => exact ⟨_, _, _, _, rfl⟩
  | kwAndR _ => exact ⟨_, _, _, _, rfl⟩

theorem conjunct_not_bool {c : Expr} (ha : Atom c) {p : Nat} {d : Bytes} {b : Bool} : ¬ Conjunct c (.bool p d b) := by
  intro h
  obtain ⟨_, _, _, _, he⟩ := conjunct_binop h ha
  cases he

theorem reorder_spine {c e : Expr} (hc : Conjunct c e) (ha : Atom c) : Conjunct c (reorder e) := by
  induction hc with
  | self => rw [reorder_atom ha]; exact .self
  | andL _ ih => simp only [reorder]; exact .andL ih
  | andR _ ih => simp only [reorder]; exact .andR ih
  | kwAndL _ ih => simp only [reorder]; exact .kwAndL ih
  | kwAndR _ ih => simp only [reorder]; exact .kwAndR ih

/-- `tryOptimizeBinaryOpExecute` on a node with an atom on its spine: not a value, the atom stays -/
theorem binExec_spine {c e : Expr} (hc : Conjunct c e) (ha : Atom c) :
    ∀ o, binExec e = .ok o → o.isValue = false ∧ Conjunct c o.ret := by
  induction hc with
  | self =>
    intro o ho
    rw [binExec_atom ha] at ho
    cases ho
    exact ⟨rfl, .self⟩
  | @andL p l r hl ih =>
    intro o ho
    obtain ⟨q, op, a, b, rfl⟩ := conjunct_binop hl ha
    rw [binExec] at ho
    obtain ⟨lo, hlo, ho⟩ := except_bind_ok ho
    obtain ⟨ro, hro, ho⟩ := except_bind_ok ho
    rw [operand] at hlo
    obtain ⟨h1, h2⟩ := ih lo hlo
    simp only [h1, Bool.false_and, Bool.not_false, if_true] at ho
    cases ho
    exact ⟨rfl, .andL h2⟩
  | @andR p l r hr ih =>
    intro o ho
    obtain ⟨q, op, a, b, rfl⟩ := conjunct_binop hr ha
    rw [binExec] at ho
    obtain ⟨lo, hlo, ho⟩ := except_bind_ok ho
    obtain ⟨ro, hro, ho⟩ := except_bind_ok ho
    rw [operand] at hro
    obtain ⟨h1, h2⟩ := ih ro hro
    simp only [h1, Bool.and_false, Bool.not_false, if_true] at ho
    cases ho
    exact ⟨rfl, .andR h2⟩
  | @kwAndL p l r hl ih =>
    intro o ho
    obtain ⟨q, op, a, b, rfl⟩ := conjunct_binop hl ha
    rw [binExec] at ho
    obtain ⟨lo, hlo, ho⟩ := except_bind_ok ho
    obtain ⟨ro, hro, ho⟩ := except_bind_ok ho
    rw [operand] at hlo
    obtain ⟨h1, h2⟩ := ih lo hlo
    simp only [h1, Bool.false_and, Bool.not_false, if_true] at ho
    cases ho
    exact ⟨rfl, .kwAndL h2⟩
  | @kwAndR p l r hr ih =>
    intro o ho
    obtain ⟨q, op, a, b, rfl⟩ := conjunct_binop hr ha
    rw [binExec] at ho
    obtain ⟨lo, hlo, ho⟩ := except_bind_ok ho
    obtain ⟨ro, hro, ho⟩ := except_bind_ok ho
    rw [operand] at hro
    obtain ⟨h1, h2⟩ := ih ro hro
    simp only [h1, Bool.and_false, Bool.not_false, if_true] at ho
    cases ho
    exact ⟨rfl, .kwAndR h2⟩

/-- `tryOptimizeAndOr` at the top: a literal `true` beside the spine goes, a literal `false` wins -/
theorem andOr_spine {c e : Expr} (hc : Conjunct c e) (ha : Atom c) : Kept c (andOr e).1 := by
  cases hc with
  | self => rw [andOr_atom ha]; exact .inl .self
  | @andL p l r hl =>
    obtain ⟨q, op, a, b, rfl⟩ := conjunct_binop hl ha
    cases r with
    | bool pr dr rv =>
      cases rv with
      | true => simp only [andOr]; exact .inl hl
      | false => simp only [andOr]; exact .inr ⟨_, rfl⟩
    | _ => simp only [andOr]; exact .inl (.andL hl)
  | @andR p l r hr =>
    obtain ⟨q, op, a, b, rfl⟩ := conjunct_binop hr ha
    cases l with
    | bool pl dl lv =>
      cases lv with
      | true => simp only [andOr]; exact .inl hr
      | false => simp only [andOr]; exact .inr ⟨_, rfl⟩
    | _ => simp only [andOr]; exact .inl (.andR hr)
  | kwAndL hl => simp only [andOr]; exact .inl (.kwAndL hl)
  | kwAndR hr => simp only [andOr]; exact .inl (.kwAndR hr)

/-- one pass of `optimize` -/
theorem pass_spine {c e : Expr} (hc : Conjunct c e) (ha : Atom c) {r : Pass} (h : pass e = .ok r) : Kept c r.ret := by
  obtain ⟨p, op, a, b, rfl⟩ := conjunct_binop hc ha
  rw [pass] at h
  obtain ⟨o, ho, h⟩ := except_bind_ok h
  obtain ⟨h1, h2⟩ := binExec_spine (reorder_spine hc ha) ha o ho
  simp only [h1, Bool.false_eq_true, if_false] at h
  cases h
  exact andOr_spine h2 ha

theorem pass_kept {c e : Expr} (hk : Kept c e) (ha : Atom c) {r : Pass} (h : pass e = .ok r) : Kept c r.ret := by
  rcases hk with hc | ⟨p, rfl⟩
  · exact pass_spine hc ha h
  · simp only [mkBool, pass] at h
    cases h
    exact .inr ⟨p, rfl⟩

/-- `Optimize()`: two passes -/
theorem optimizeBoth_kept {c w fw n : Expr} (hc : Conjunct c w) (ha : Atom c)
    (h : Fold.optimizeBoth w = .ok (fw, n)) : Kept c fw := by
  unfold Fold.optimizeBoth at h
  obtain ⟨p1, hp1, h⟩ := except_bind_ok h
  obtain ⟨p2, hp2, h⟩ := except_bind_ok h
  cases h
  exact pass_kept (pass_spine hc ha hp1) ha hp2

theorem optimize_kept {c w fw : Expr} (hc : Conjunct c w) (ha : Atom c) (h : Fold.optimize w = .ok fw) : Kept c fw := by
  unfold Fold.optimize at h
  cases hb : Fold.optimizeBoth w with
  | error e => rw [hb] at h; cases h
  | ok x =>
    obtain ⟨fw', n⟩ := x
    rw [hb] at h
    simp only [Except.map] at h
    cases h
    exact optimizeBoth_kept hc ha hb

/-! ### re-pointing of alias references -/

theorem mapRefsList_strs (f : Nat → Bytes → Expr → Expr) : ∀ items : List Expr, (∀ i ∈ items, ∃ p d, i = .str p d) →
    Parser.mapRefsList f items = items := by
  intro items
  induction items with
  | nil => intro _; rfl
  | cons x xs ih =>
    intro h
    obtain ⟨p, d, rfl⟩ := h x List.mem_cons_self
    simp only [Parser.mapRefsList, Parser.mapRefs]
    rw [ih (fun i hi => h i (List.mem_cons_of_mem _ hi))]

theorem mapRefs_atom (f : Nat → Bytes → Expr → Expr) {c : Expr} (ha : Atom c) : Parser.mapRefs f c = c := by
  obtain ⟨hs, _⟩ := ha
  cases hs with
  | keyStr p op p1 p2 lit => simp [Parser.mapRefs]
  | strKey p op p1 p2 lit => simp [Parser.mapRefs]
  | keyList p op p1 p2 items hi => simp [Parser.mapRefs, mapRefsList_strs f items (strItems_of hi)]

theorem mapRefs_spine (f : Nat → Bytes → Expr → Expr) {c e : Expr} (hc : Conjunct c e) (ha : Atom c) :
    Conjunct c (Parser.mapRefs f e) := by
  induction hc with
  | self => rw [mapRefs_atom f ha]; exact .self
  | andL _ ih => simp only [Parser.mapRefs]; exact .andL ih
  | andR _ ih => simp only [Parser.mapRefs]; exact .andR ih
  | kwAndL _ ih => simp only [Parser.mapRefs]; exact .kwAndL ih
  | kwAndR _ ih => simp only [Parser.mapRefs]; exact .kwAndR ih

theorem resolveTop_kept (tbl : Tbl) {c e : Expr} (hk : Kept c e) (ha : Atom c) : Kept c (Parser.resolveTop tbl e) := by
  unfold Parser.resolveTop
  simp only [Parser.resolve]
  rcases hk with hc | ⟨p, rfl⟩
  · exact .inl (mapRefs_spine _ hc ha)
  · exact .inr ⟨p, by simp [mkBool, Parser.mapRefs]⟩

/-! ### what a kept atom gives about the scan type of the whole clause -/

theorem optimizeExpr_mkBool_false (p : Nat) : optimizeExpr (mkBool p false) = .empty := by
  simp [mkBool, optimizeExpr, infer, Conj.single]

end Kvql.Proofs.RunRegion
