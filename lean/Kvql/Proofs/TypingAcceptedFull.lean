/-
  C14 (d), without the `aliasFree` hypothesis where there is no select list: the filter of a DELETE
  and of a bare `where …` statement.  Uses that the parser produces no reference
  (`parseExpr_aliasFree`) and that nothing can be resolved against an empty select list.
-/
import Kvql.Proofs.TypingParserShape
import Kvql.Proofs.TypingFaultStmt

namespace Kvql.Proofs.Typing

open Kvql Kvql.Generated Kvql.PlanCheck Kvql.Parser

mutual
  theorem mapRefs_id : ∀ e : Expr, mapRefs (fun p n t => .ref p n t) e = e
    | .binop p o l r => by simp [mapRefs, mapRefs_id l, mapRefs_id r]
    | .not p r => by simp [mapRefs, mapRefs_id r]
    | .call p n args => by simp [mapRefs, mapRefs_id n, mapRefsList_id args]
    | .ref p n t => by simp [mapRefs]
    | .list p items => by simp [mapRefs, mapRefsList_id items]
    | .access p l x => by simp [mapRefs, mapRefs_id l, mapRefs_id x]
    | .field .. | .str .. | .name .. | .cycle | .num .. | .float .. | .bool .. => by simp [mapRefs]
  theorem mapRefsList_id : ∀ es : List Expr, mapRefsList (fun p n t => .ref p n t) es = es
    | [] => by simp [mapRefsList]
    | e :: es => by simp [mapRefsList, mapRefs_id e, mapRefsList_id es]
end

theorem resolveTop_nil (e : Expr) : resolveTop [] e = e := by
  unfold resolveTop
  simp only [resolve]
  refine Eq.trans (congrArg (fun f => mapRefs f e) ?_) (mapRefs_id e)
  funext p nm t
  simp [Tbl.find, Tbl.find.go]

variable {pf : Bytes → F64}

/-- the accepted DELETE: no assumption about alias references is needed (there is no select list) -/
theorem accepted_delete_where_full (toks : Toks) (pos wpos : Nat) (w : Expr) (lim : Option LimitS)
    (h : planStage pf toks = .ok (.delete pos wpos w lim)) (hs : sideOk w = true) :
    NoOperandTypeError w .bool := by
  obtain ⟨hp, hc, _⟩ := planStage_ok_iff.mp h
  simp only [checkStmtCalls] at hc
  rcases parse_inv hp with ⟨_, _, _, h1⟩ | ⟨_, _, _, h1⟩ | ⟨_, _, _, h1⟩ | ⟨_, _, _, _, _, _, h1⟩
  · obtain ⟨_, _, _, _, _, _, he⟩ := parsePut_inv h1; cases he
  · obtain ⟨_, _, _, _, _, _, he⟩ := parseRemove_inv h1; cases he
  · obtain ⟨_, _, wexpr, _, w', _, _, _, _, _, hpe, hck, hrt, he⟩ := parseDelete_inv' h1
    cases he
    have hrf := refFree_of_aliasFree _ (parseExpr_aliasFree pf hpe)
    obtain ⟨k, hk, _, hr⟩ := check_sound_nil ({} : CheckCtx) rfl wexpr w hrf hck hc hs
    rw [hr] at hrt
    have hcode : k.code = tyTBOOL := by injection hrt
    rw [kind_of_code_bool hcode] at hk
    exact noOperandTypeError_of_kind hk
  · obtain ⟨_, _, _, _, _, _, _, _, _, _, _, _, _, _, _, _, he, _⟩ := parseWhere_inv h1
    cases he

/-- a statement without select list (`where …`): no assumption about alias references is needed -/
theorem accepted_bare_where_full (toks : Toks) (s : SelectS) (h : planStage pf toks = .ok (.select s))
    (hnf : s.fields = []) (hs : sideOk s.where_ = true) : NoOperandTypeError s.where_ .bool := by
  obtain ⟨hp, hc, _⟩ := planStage_ok_iff.mp h
  simp only [checkStmtCalls] at hc
  obtain ⟨u, hw, _⟩ := bind_ok_iff.mp hc
  rcases parse_inv hp with ⟨_, _, _, h1⟩ | ⟨_, _, _, h1⟩ | ⟨_, _, _, h1⟩ | ⟨ef, lf, spos, sel, wpos, ts, h1⟩
  · obtain ⟨_, _, _, _, _, _, he⟩ := parsePut_inv h1; cases he
  · obtain ⟨_, _, _, _, _, _, he⟩ := parseRemove_inv h1; cases he
  · obtain ⟨_, _, _, _, _, _, _, _, _, _, he⟩ := parseDelete_inv h1; cases he
  · obtain ⟨expr, rest, tbl, types, c, tbl1, tbl', expr', s', hpe, _, _, _, _, hck, hrt, he, hwh, hfl⟩ :=
      parseWhere_inv h1
    cases he
    have htbl : tbl' = [] := by
      rw [hnf] at hfl
      exact List.map_eq_nil_iff.mp hfl.symm
    subst htbl
    rw [resolveTop_nil] at hwh
    rw [hwh] at hw hs ⊢
    have hrf := refFree_of_aliasFree _ (parseExpr_aliasFree pf hpe)
    obtain ⟨k, hk, _, hr⟩ := check_sound_nil ({ tbl := [] } : CheckCtx) rfl expr expr' hrf hck hw hs
    rw [hr] at hrt
    have hcode : k.code = tyTBOOL := by injection hrt
    rw [kind_of_code_bool hcode] at hk
    exact noOperandTypeError_of_kind hk

end Kvql.Proofs.Typing
