/-
  RunNoPanic, part 3: `Parse` never panics and never runs out of fuel — in particular the fuel
  `rtFuel` of `ReturnType()` always suffices (`parse_no_panic`) — and what an accepted statement is made
  of (`parse_select_good`, `parse_put_good`, `parse_remove_good`, `parse_delete_good`).
-/
import Kvql.Proofs.RunNoPanicCheck
import Kvql.Proofs.RunNoPanicNums
import Kvql.Proofs.ParserTotalStmt
import Kvql.Proofs.RunNoPanicParseC

namespace Kvql.Proofs.RunNoPanic

open Kvql Kvql.Parser Kvql.Proofs.Typing Kvql.Generated

variable {pf : Bytes → F64}

/-- the cyclic-alias site is never reached (tokens without negative NUMBER, as the lexer makes them) -/
theorem parse_no_cyclic_panic_of_nums {toks : Toks} (hnum : NumToksOK toks) :
    Parse pf toks ≠ .panic cyclicPanic := (parse_nc hnum).no_panic

/-- `Parse` NEVER PANICS: neither a nil token (ParserTotalStmt `parse_safe`) nor — this is the new
    part — the unbounded recursion of `ReturnType()` through a cyclic alias: the table of select fields
    is acyclic at every moment of `Parse`, so `rtFuel` suffices at every call of `CheckCtx.rt`.
    HYPOTHESIS ADDED (`hnum`): the table invariant `TGood` of RunNoPanicBase includes `numsOK`, which
    only holds over tokens without negative NUMBER — true of `Lexer.split` (`split_numToksOK`). -/
theorem parse_no_panic (toks : Toks) (site : String) (hnum : NumToksOK toks) : Parse pf toks ≠ .panic site := by
  intro h
  have hs : site = cyclicPanic := by
    have := ParserTotal.parse_safe pf toks
    rw [h] at this
    exact this
  subst hs
  exact parse_no_cyclic_panic_of_nums hnum h

/-- … and never runs out of its own fuel -/
theorem parse_no_fuel (toks : Toks) : Parse pf toks ≠ .outOfFuel := by
  intro h
  have := ParserTotal.parse_safe pf toks
  rw [h] at this
  exact this

/-- what an accepted SELECT is made of -/
theorem parse_select_good {toks : Toks} {s : SelectS} (h : Parse pf toks = .ok (.select s)) (hnum : NumToksOK toks) :
    Acyclic (s.fieldNames.zip s.fields) ∧
    Clean s.where_ ∧ (∀ f ∈ s.fields, Clean f) ∧
    s.fieldNames.length = s.fields.length ∧
    (s.allFields = false → s.fieldTypes.length = s.fieldNames.length) ∧
    (s.allFields = true → s.fieldNames.length ≤ 2) ∧
    (∀ o, s.order = some o → ∀ p ∈ o.orders, p.1 ∈ s.fieldNames) ∧
    (∀ g, s.groupBy = some g → ∀ p ∈ g.fields, (∃ q k, p.2 = .field q k) ∨ p.1 ∈ s.fieldNames) :=
  (parse_nc hnum).ok h

/-- the trees of an accepted PUT have no negative literal (no alias reference, no cycle marker:
    RunWriteAliasFree `accepted_put_aliasFree`) -/
theorem parse_put_good {toks : Toks} {pos : Nat} {pairs : List (Expr × Expr)}
    (h : Parse pf toks = .ok (.put pos pairs)) (hnum : NumToksOK toks) :
    ∀ kv ∈ pairs, numsOK kv.1 = true ∧ numsOK kv.2 = true :=
  (parse_nc hnum).ok h

theorem parse_remove_good {toks : Toks} {pos : Nat} {keys : List Expr}
    (h : Parse pf toks = .ok (.remove pos keys)) (hnum : NumToksOK toks) :
    ∀ k ∈ keys, numsOK k = true :=
  (parse_nc hnum).ok h

theorem parse_delete_good {toks : Toks} {pos wpos : Nat} {w : Expr} {lim : Option LimitS}
    (h : Parse pf toks = .ok (.delete pos wpos w lim)) (hnum : NumToksOK toks) :
    numsOK w = true :=
  (parse_nc hnum).ok h

end Kvql.Proofs.RunNoPanic
