/-
  parse_err_pos, statement level.
-/
import Kvql.Proofs.ParserPosCheck

set_option linter.unusedSectionVars false

namespace Kvql.Proofs.ParserPos

open Kvql Kvql.Parser Kvql.Generated

section
variable (S : Nat → Prop) (h0 : S 0) (pf : Bytes → F64)
include h0

theorem parseExpr_pos (efuel : Nat) {ts : Toks} (h : TokS S ts) :
    Pos S (parseExpr pf efuel ts) (XT S) := (expr_pos S pf h0 efuel).binary 0 1 ts h

theorem limitLoop_pos : ∀ (fuel : Nat) (acc : List Int64) {ts : Toks}, TokS S ts →
    Pos S (limitLoop fuel acc ts) (fun p => TokS S p.2) := by
  intro fuel
  induction fuel with
  | zero => intros; simp [limitLoop]
  | succ n ih =>
    intro acc ts h
    unfold limitLoop
    split
    · exact TokS.nil S
    · rename_i t rest
      split
      · exact ih _ h.tail
      · split
        · split
          · simpa [EOK] using h.head
          · rename_i t2 r2
            split
            · simpa [EOK] using h.tail.head
            · exact ih _ h.tail
        · exact h

theorem parseLimit_pos (lfuel : Nat) {ts : Toks} (h : TokS S ts) :
    Pos S (parseLimit lfuel ts) (fun p => TokS S p.2) := by
  unfold parseLimit
  split
  · simp
  · rename_i t rest
    apply Res.Holds.bind (expect_pos S _ h)
    intro ts1 h1
    apply Res.Holds.bind (limitLoop_pos S h0 _ _ h1)
    rintro ⟨vals, ts2⟩ h2
    dsimp only at h2 ⊢
    split
    · exact h2
    · exact h2
    · split
      · simp [EOK]
      · simpa [EOK] using TokS.head S h2

theorem selectLoop_pos (efuel : Nat) : ∀ (fuel : Nat) (acc : SelAcc) {ts : Toks},
    PosOKs S acc.fields → TokS S ts →
    Pos S (selectLoop pf efuel fuel acc ts) (fun p => PosOKs S p.1.fields ∧ TokS S p.2) := by
  intro fuel
  induction fuel with
  | zero => intros; simp [selectLoop]
  | succ n ih =>
    intro acc ts hacc h
    unfold selectLoop
    split
    · exact ⟨hacc, TokS.nil S⟩
    · rename_i t rest
      split
      · exact ⟨hacc, h⟩
      · split
        · split
          · rename_i t2 r2
            split
            · simpa [EOK] using h.tail.head
            · split
              · simpa [EOK] using h.tail.head
              · exact ⟨hacc, h.tail⟩
          · split
            · simp [EOK]
            · exact ⟨hacc, TokS.nil S⟩
        · apply Res.Holds.bind (parseExpr_pos S h0 pf efuel h)
          rintro ⟨field, ts1⟩ ⟨hf, h1⟩
          dsimp only
          apply Res.Holds.bind (R := fun p => TokS S p.2)
          · split
            · exact TokS.nil S
            · rename_i t1 r1
              split
              · split
                · simp [EOK]
                · rename_i t2 r2
                  split
                  · simpa [EOK] using (TokS.tail S h1).head
                  · exact (TokS.tail S h1).tail
              · split
                · exact h1
                · split
                  · exact h1
                  · simpa [EOK] using TokS.head S h1
          · rintro ⟨fname, ts2⟩ h2
            dsimp only at h2 ⊢
            have hacc' : PosOKs S (acc.fields ++ [field]) := posOKs_append S hacc ⟨hf, trivial⟩
            split
            · exact ⟨hacc', TokS.nil S⟩
            · split
              · exact ⟨hacc', h2⟩
              · exact ih _ hacc' (TokS.tail S h2)

theorem parseSelect_pos (efuel lfuel : Nat) {ts : Toks} (h : TokS S ts) :
    Pos S (parseSelect pf efuel lfuel ts) (fun p => PosOKs S p.1.2.fields ∧ TokS S p.2) := by
  unfold parseSelect
  split
  · simp
  · rename_i t rest
    apply Res.Holds.bind (expect_pos S _ h)
    intro ts1 h1
    apply Res.Holds.bind (selectLoop_pos S h0 pf efuel lfuel _ (by simp [PosOKs]) h1)
    rintro ⟨acc, ts2⟩ ⟨ha, h2⟩
    dsimp only at ha h2 ⊢
    split
    · simpa [EOK] using h.head
    · split
      · exact ⟨⟨h0, h0, trivial⟩, h2⟩
      · exact ⟨ha, h2⟩

theorem findField_pos {tbl : Tbl} (ht : TblOK S tbl) (nm : Bytes) {pos : Nat} (hp : S pos) :
    Pos S (findFieldInSelect tbl nm pos) (fun _ => True) := by
  unfold findFieldInSelect
  split
  · simpa [EOK] using hp
  · rename_i i fexpr hf
    apply Res.Holds.bind (rt_pos S _ _)
    intro t _
    split
    · simp
    · exact synErr_node S h0 (find_posOK S ht hf) _

theorem orderLoop_pos (efuel : Nat) {tbl : Tbl} (ht : TblOK S tbl) :
    ∀ (fuel : Nat) (acc : List (Bytes × Nat)) {ts : Toks}, TokS S ts →
    Pos S (orderLoop pf efuel tbl fuel acc ts) (fun p => TokS S p.2) := by
  intro fuel
  induction fuel with
  | zero => intros; simp [orderLoop]
  | succ n ih =>
    intro acc ts h
    unfold orderLoop
    split
    · exact TokS.nil S
    · rename_i t rest
      apply Res.Holds.bind (parseExpr_pos S h0 pf efuel h)
      rintro ⟨field, ts1⟩ ⟨hf, h1⟩
      dsimp only
      apply Res.Holds.bind (findField_pos S h0 ht _ (pos_of_posOK S h0 hf))
      intro _ _
      split
      · exact TokS.nil S
      · rename_i t1 r1
        split
        · exact ih _ (TokS.tail S h1)
        · split
          · split
            · rename_i t2 r2
              split
              · exact ih _ (TokS.tail S (TokS.tail S h1))
              · exact TokS.tail S h1
            · exact TokS.nil S
          · exact h1

theorem parseOrderBy_pos (efuel lfuel : Nat) {tbl : Tbl} (ht : TblOK S tbl) {ts : Toks}
    (h : TokS S ts) : Pos S (parseOrderBy pf efuel lfuel tbl ts) (fun p => S p.1.pos ∧ TokS S p.2) := by
  unfold parseOrderBy
  split
  · simp
  · rename_i t rest
    apply Res.Holds.bind (expect_pos S _ h)
    intro ts1 h1
    apply Res.Holds.bind (expect_pos S _ h1)
    intro ts2 h2
    apply Res.Holds.bind (orderLoop_pos S h0 pf efuel ht lfuel _ h2)
    rintro ⟨os, ts3⟩ h3
    exact ⟨h.head, h3⟩

/-- a group-by entry with its own expression satisfies the invariant -/
def GPos (g : Bytes × GTarget) : Prop :=
  match g.2 with
  | .sel _ => True
  | .own e => PosOK S e

theorem groupLoop_pos (efuel : Nat) {tbl : Tbl} (ht : TblOK S tbl) :
    ∀ (fuel : Nat) (acc : List (Bytes × GTarget)) {ts : Toks}, (∀ g ∈ acc, GPos S g) → TokS S ts →
    Pos S (groupLoop pf efuel tbl fuel acc ts) (fun p => (∀ g ∈ p.1, GPos S g) ∧ TokS S p.2) := by
  intro fuel
  induction fuel with
  | zero => intros; simp [groupLoop]
  | succ n ih =>
    intro acc ts hacc h
    unfold groupLoop
    split
    · exact ⟨hacc, TokS.nil S⟩
    · rename_i t rest
      apply Res.Holds.bind (parseExpr_pos S h0 pf efuel h)
      rintro ⟨field, ts1⟩ ⟨hf, h1⟩
      dsimp only
      apply Res.Holds.bind (R := GPos S)
      · split
        · rename_i p d
          apply Res.Holds.bind (findField_pos S h0 ht _ (show S p from hf))
          intro _ _; simp [GPos]
        · simpa [GPos] using hf
        · rename_i p nm args
          have hp : S p := hf.1
          apply Res.Holds.bind (R := fun q => PosOK S q.2)
          · unfold findFieldInSelect
            split
            · simpa [EOK] using hp
            · rename_i i fexpr hfind
              apply Res.Holds.bind (rt_pos S _ _)
              intro t _
              split
              · exact find_posOK S ht hfind
              · exact synErr_node S h0 (find_posOK S ht hfind) _
          · rintro ⟨i, fexpr⟩ hfx
            dsimp only at hfx ⊢
            split
            · simpa [EOK] using hp
            · split
              · exact synErr_node S h0 hfx _
              · simp [GPos]
        · apply Res.Holds.bind (findField_pos S h0 ht _ (pos_of_posOK S h0 hf))
          intro _ _; simp [GPos]
      · intro entry hentry
        have hacc' : ∀ g ∈ acc ++ [entry], GPos S g := by
          intro g hg
          rcases List.mem_append.mp hg with hg | hg
          · exact hacc g hg
          · simp at hg; subst hg; exact hentry
        split
        · exact ⟨hacc', TokS.nil S⟩
        · rename_i t1 r1
          split
          · exact ih _ hacc' (TokS.tail S h1)
          · exact ⟨hacc', h1⟩

theorem groupCheck_pos : ∀ (gs : List (Bytes × GTarget)) {tbl : Tbl}, TblOK S tbl →
    (∀ g ∈ gs, GPos S g) → Pos S (groupCheck tbl gs) (fun p => TblOK S p.1) := by
  intro gs
  induction gs with
  | nil => intro tbl ht _; simpa [groupCheck] using ht
  | cons g rest ih =>
    intro tbl ht hg
    obtain ⟨n, tgt⟩ := g
    cases tgt with
    | sel i =>
      unfold groupCheck
      split
      · simp
      · rename_i nm e hget
        apply Res.Holds.bind (check_pos S h0 _ ht e (getElem_ok S ht hget)); intro e' he'
        apply Res.Holds.bind (ih (setField_ok S ht i he') (fun g hg' => hg g (by simp [hg'])))
        rintro ⟨tbl', rest'⟩ h'
        exact h'
    | own e =>
      unfold groupCheck
      have he : PosOK S e := by simpa [GPos] using hg (n, .own e) (by simp)
      apply Res.Holds.bind (check_pos S h0 _ ht e he); intro e' _
      apply Res.Holds.bind (ih ht (fun g hg' => hg g (by simp [hg'])))
      rintro ⟨tbl', rest'⟩ h'
      exact h'

theorem parseGroupBy_pos (efuel lfuel : Nat) {tbl : Tbl} (ht : TblOK S tbl) {ts : Toks}
    (h : TokS S ts) :
    Pos S (parseGroupBy pf efuel lfuel tbl ts)
      (fun p => S p.1.1 ∧ TblOK S p.1.2.2 ∧ TokS S p.2) := by
  unfold parseGroupBy
  split
  · simp
  · rename_i t rest
    apply Res.Holds.bind (expect_pos S _ h)
    intro ts1 h1
    apply Res.Holds.bind (expect_pos S _ h1)
    intro ts2 h2
    apply Res.Holds.bind (groupLoop_pos S h0 pf efuel ht lfuel [] (by simp) h2)
    rintro ⟨gs, ts3⟩ ⟨hg, h3⟩
    dsimp only at hg h3 ⊢
    apply Res.Holds.bind (groupCheck_pos S h0 gs ht hg)
    rintro ⟨tbl', gs'⟩ ht'
    exact ⟨h.head, ht', h3⟩

omit h0 in
theorem tblOK_nil : TblOK S [] := fun _ h => by simp at h

theorem parsePutKVPair_pos (efuel : Nat) {ts : Toks} (h : TokS S ts) :
    Pos S (parsePutKVPair pf efuel ts) (fun p => (PosOK S p.1.1 ∧ PosOK S p.1.2) ∧ TokS S p.2) := by
  unfold parsePutKVPair
  apply Res.Holds.bind (expect_pos S _ h)
  intro ts1 h1
  apply Res.Holds.bind (parseExpr_pos S h0 pf efuel h1)
  rintro ⟨k, ts2⟩ ⟨hk, h2⟩
  dsimp only
  split
  · simp [EOK]
  · rename_i t rest
    split
    · apply Res.Holds.bind (parseExpr_pos S h0 pf efuel (TokS.tail S h2))
      rintro ⟨v, ts3⟩ ⟨hv, h3⟩
      apply Res.Holds.bind (expect_pos S _ h3)
      intro ts4 h4
      exact ⟨⟨hk, hv⟩, h4⟩
    · simpa [EOK] using TokS.head S h2

def PairsOK (ps : List (Expr × Expr)) : Prop := ∀ p ∈ ps, PosOK S p.1 ∧ PosOK S p.2

theorem putLoop_pos (efuel : Nat) : ∀ (fuel : Nat) (acc : List (Expr × Expr)) {ts : Toks},
    PairsOK S acc → TokS S ts → Pos S (putLoop pf efuel fuel acc ts) (PairsOK S) := by
  intro fuel
  induction fuel with
  | zero => intros; simp [putLoop]
  | succ n ih =>
    intro acc ts hacc h
    unfold putLoop
    split
    · exact hacc
    · apply Res.Holds.bind (parsePutKVPair_pos S h0 pf efuel h)
      rintro ⟨kv, ts1⟩ ⟨hkv, h1⟩
      dsimp only at hkv h1 ⊢
      have hacc' : PairsOK S (acc ++ [kv]) := by
        intro p hp
        rcases List.mem_append.mp hp with hp | hp
        · exact hacc p hp
        · simp at hp; subst hp; exact hkv
      split
      · exact hacc'
      · apply Res.Holds.bind (expect_pos S _ h1)
        intro ts2 h2
        exact ih _ hacc' h2

theorem validatePut_pos (ctx : CheckCtx) (ht : TblOK S ctx.tbl) : ∀ ps : List (Expr × Expr), PairsOK S ps →
    Pos S (validatePut ctx ps) (fun _ => True) := by
  intro ps
  induction ps with
  | nil => intro _; simp [validatePut]
  | cons p rest ih =>
    intro hp
    obtain ⟨k, v⟩ := p
    have hkv := hp (k, v) (by simp)
    unfold validatePut
    apply Res.Holds.bind (check_pos S h0 _ ht k hkv.1); intro k' hk'
    apply Res.Holds.bind (rt_pos S _ _); intro _ _
    split
    · exact synErr_node S h0 hk' _
    · apply Res.Holds.bind (check_pos S h0 _ ht v hkv.2); intro v' hv'
      apply Res.Holds.bind (rt_pos S _ _); intro _ _
      split
      · exact synErr_node S h0 hv' _
      · apply Res.Holds.bind (ih (fun q hq => hp q (by simp [hq]))); intro _ _; simp

theorem parsePut_pos (efuel lfuel : Nat) {ts : Toks} (h : TokS S ts) :
    Pos S (parsePut pf efuel lfuel ts) (fun _ => True) := by
  unfold parsePut
  split
  · simp
  · apply Res.Holds.bind (expect_pos S _ h)
    intro ts1 h1
    apply Res.Holds.bind (putLoop_pos S h0 pf efuel lfuel [] (fun _ hp => by simp at hp) h1)
    intro ps hps
    apply Res.Holds.bind (validatePut_pos S h0 _ (tblOK_nil S) ps hps); intro _ _
    simp

theorem removeLoop_pos (efuel : Nat) : ∀ (fuel : Nat) (acc : List Expr) {ts : Toks},
    PosOKs S acc → TokS S ts → Pos S (removeLoop pf efuel fuel acc ts) (PosOKs S) := by
  intro fuel
  induction fuel with
  | zero => intros; simp [removeLoop]
  | succ n ih =>
    intro acc ts hacc h
    unfold removeLoop
    split
    · exact hacc
    · apply Res.Holds.bind (parseExpr_pos S h0 pf efuel h)
      rintro ⟨k, ts1⟩ ⟨hk, h1⟩
      dsimp only
      have hacc' : PosOKs S (acc ++ [k]) := posOKs_append S hacc ⟨hk, trivial⟩
      split
      · exact hacc'
      · apply Res.Holds.bind (expect_pos S _ h1)
        intro ts2 h2
        exact ih _ hacc' h2

theorem validateRemove_pos (ctx : CheckCtx) (ht : TblOK S ctx.tbl) : ∀ ks : List Expr, PosOKs S ks →
    Pos S (validateRemove ctx ks) (fun _ => True) := by
  intro ks
  induction ks with
  | nil => intro _; simp [validateRemove]
  | cons k rest ih =>
    intro hk
    unfold validateRemove
    apply Res.Holds.bind (rt_pos S _ _); intro _ _
    split
    · exact synErr_node S h0 hk.1 _
    · apply Res.Holds.bind (check_pos S h0 _ ht k hk.1); intro _ _
      apply Res.Holds.bind (ih hk.2); intro _ _; simp

theorem parseRemove_pos (efuel lfuel : Nat) {ts : Toks} (h : TokS S ts) :
    Pos S (parseRemove pf efuel lfuel ts) (fun _ => True) := by
  unfold parseRemove
  split
  · simp
  · apply Res.Holds.bind (expect_pos S _ h)
    intro ts1 h1
    apply Res.Holds.bind (removeLoop_pos S h0 pf efuel lfuel [] (by simp [PosOKs]) h1)
    intro ks hks
    apply Res.Holds.bind (validateRemove_pos S h0 _ (tblOK_nil S) ks hks); intro _ _
    simp

theorem parseDelete_pos (efuel lfuel : Nat) {ts : Toks} (h : TokS S ts) :
    Pos S (parseDelete pf efuel lfuel ts) (fun _ => True) := by
  unfold parseDelete
  split
  · simp
  · apply Res.Holds.bind (expect_pos S _ h)
    intro ts1 h1
    split
    · simp [EOK]
    · rename_i wt rest1
      apply Res.Holds.bind (expect_pos S _ h1)
      intro ts2 h2
      apply Res.Holds.bind (parseExpr_pos S h0 pf efuel h2)
      rintro ⟨w, ts3⟩ ⟨hw, h3⟩
      dsimp only
      apply Res.Holds.bind (R := fun p => TokS S p.2)
      · split
        · exact TokS.nil S
        · split
          · apply Res.Holds.bind (parseLimit_pos S h0 lfuel h3)
            rintro ⟨l, ts'⟩ h'; exact h'
          · simpa [EOK] using TokS.head S h3
      · rintro ⟨lim, ts4⟩ h4
        dsimp only at h4 ⊢
        split
        · simpa [EOK] using TokS.head S h4
        · apply Res.Holds.bind (check_pos S h0 _ (tblOK_nil S) w hw); intro w' hw'
          apply Res.Holds.bind (rt_pos S _ _); intro _ _
          split
          · exact synErr_node S h0 hw' _
          · simp

theorem clauseLoop_pos (efuel lfuel : Nat) : ∀ (fuel : Nat) (c : Clauses) {ts : Toks},
    TblOK S c.tbl → TokS S ts →
    Pos S (clauseLoop pf efuel lfuel fuel c ts) (fun c' => TblOK S c'.tbl) := by
  intro fuel
  induction fuel with
  | zero => intros; simp [clauseLoop]
  | succ n ih =>
    intro c ts hc h
    unfold clauseLoop
    split
    · exact hc
    · rename_i t rest
      split
      · split
        · simpa [EOK] using h.head
        · apply Res.Holds.bind (parseOrderBy_pos S h0 pf efuel lfuel hc h)
          rintro ⟨o, ts'⟩ ⟨ho, h1⟩
          dsimp only at ho h1 ⊢
          split
          · simpa [EOK] using ho
          · exact ih _ hc h1
      · split
        · split
          · simpa [EOK] using h.head
          · apply Res.Holds.bind (parseGroupBy_pos S h0 pf efuel lfuel hc h)
            rintro ⟨⟨gpos, gfields, tbl'⟩, ts'⟩ ⟨hg, ht', h1⟩
            dsimp only at hg ht' h1 ⊢
            split
            · simpa [EOK] using hg
            · exact ih _ ht' h1
        · split
          · split
            · simpa [EOK] using h.head
            · apply Res.Holds.bind (parseLimit_pos S h0 lfuel h)
              rintro ⟨l, ts'⟩ h1
              dsimp only at h1 ⊢
              split
              · simpa [EOK] using TokS.head S h1
              · exact ih _ hc (TokS.nil S)
          · simpa [EOK] using h.head

theorem checkAggrFuncArg_pos : ∀ e : Expr, PosOK S e → Pos S (checkAggrFuncArg e) (fun _ => True) := by
  intro e
  induction e using Expr.rec (motive_2 := fun _ => True) with
  | binop p o l r ihl ihr =>
    intro he
    unfold checkAggrFuncArg
    exact Res.Holds.bind (ihl he.2.1) (fun _ _ => ihr he.2.2)
  | call p n args _ _ =>
    intro he
    unfold checkAggrFuncArg
    split
    · split
      · simpa [EOK] using he.1
      · simp
    · simp
  | nil => trivial
  | cons _ _ _ _ => trivial
  | _ => intro _; unfold checkAggrFuncArg; simp

theorem checkAggrFuncArgs_pos : ∀ es : List Expr, PosOKs S es →
    Pos S (checkAggrFuncArgs es) (fun _ => True) := by
  intro es
  induction es with
  | nil => intro _; simp [checkAggrFuncArgs]
  | cons a rest ih =>
    intro he
    unfold checkAggrFuncArgs
    exact Res.Holds.bind (checkAggrFuncArg_pos S h0 a he.1) (fun _ _ => ih he.2)

theorem checkAggrFunctionArgs_pos : ∀ e : Expr, PosOK S e →
    Pos S (checkAggrFunctionArgs e) (fun _ => True) := by
  intro e
  induction e using Expr.rec (motive_2 := fun _ => True) with
  | binop p o l r ihl ihr =>
    intro he
    unfold checkAggrFunctionArgs
    exact Res.Holds.bind (ihl he.2.1) (fun _ _ => ihr he.2.2)
  | call p n args _ _ =>
    intro he
    unfold checkAggrFunctionArgs
    split
    · split
      · exact checkAggrFuncArgs_pos S h0 _ he.2.2
      · simp
    · simp
  | nil => trivial
  | cons _ _ _ _ => trivial
  | _ => intro _; unfold checkAggrFunctionArgs; simp

theorem validateFields_pos : ∀ (n i : Nat) {tbl : Tbl}, TblOK S tbl →
    Pos S (validateFields n i tbl) (fun r => TblOK S r) := by
  intro n
  induction n with
  | zero => intro i tbl ht; simpa [validateFields] using ht
  | succ m ih =>
    intro i tbl ht
    unfold validateFields
    split
    · simpa using ht
    · rename_i nm f hget
      apply Res.Holds.bind (check_pos S h0 _ ht f (getElem_ok S ht hget)); intro f' hf'
      apply Res.Holds.bind (checkAggrFunctionArgs_pos S h0 f' hf'); intro _ _
      exact ih _ (setField_ok S ht i hf')

theorem rewriteFieldNames_pos : ∀ (n i : Nat) {tbl : Tbl} (tys : List Nat), TblOK S tbl →
    Pos S (rewriteFieldNames n i tbl tys) (fun r => TblOK S r.1) := by
  intro n
  induction n with
  | zero => intro i tbl tys ht; simpa [rewriteFieldNames] using ht
  | succ m ih =>
    intro i tbl tys ht
    unfold rewriteFieldNames
    split
    · simpa using ht
    · rename_i nm f hget
      split
      · split
        · split
          · exact ih _ _ ht
          · apply Res.Holds.bind (rewrite_pos S _ ht (getElem_ok S ht hget)); intro f' hf'
            apply Res.Holds.bind (rt_pos S _ _); intro _ _
            exact ih _ _ (setField_ok S ht i hf')
        · exact ih _ _ ht
      · exact ih _ _ ht

omit h0 in
theorem refreshTypes_pos (tbl : Tbl) : ∀ (tys : List Nat) (i : Nat), Pos S (refreshTypes tbl i tys) (fun _ => True) := by
  intro tys
  induction tys with
  | nil => intro i; simp [refreshTypes]
  | cons t ts ih =>
    intro i
    unfold refreshTypes
    apply Res.Holds.bind (Q := fun _ => True)
    · split
      · exact rt_pos S _ _
      · simp
    · intro _ _
      apply Res.Holds.bind (ih _); intro _ _
      simp

theorem parseWhere_pos (efuel lfuel spos : Nat) (sel : SelAcc) (hs : PosOKs S sel.fields)
    (wpos : Nat) {ts : Toks} (h : TokS S ts) :
    Pos S (parseWhere pf efuel lfuel spos sel wpos ts) (fun _ => True) := by
  unfold parseWhere
  split
  · simp [EOK]
  · rename_i t rest
    apply Res.Holds.bind (parseExpr_pos S h0 pf efuel h)
    rintro ⟨e, ts1⟩ ⟨he, h1⟩
    dsimp only
    have htbl : TblOK S (sel.names.zip sel.fields) := by
      intro p hp
      obtain ⟨n, x⟩ := p
      exact (posOKs_iff S _).mp hs x (List.of_mem_zip hp).2
    apply Res.Holds.bind (rewriteFieldNames_pos S h0 _ _ sel.types htbl)
    rintro ⟨tbl1, tys1⟩ htbl1
    dsimp only
    apply Res.Holds.bind (clauseLoop_pos S h0 pf efuel lfuel lfuel _ htbl1 h1)
    intro c hc
    apply Res.Holds.bind (validateFields_pos S h0 _ _ hc); intro tbl2 htbl2
    apply Res.Holds.bind (validateFields_pos S h0 _ _ htbl2); intro tbl3 htbl3
    apply Res.Holds.bind (refreshTypes_pos S _ _ _); intro _ _
    apply Res.Holds.bind (check_pos S h0 _ htbl3 e he); intro e' he'
    apply Res.Holds.bind (rt_pos S _ _); intro _ _
    split
    · exact synErr_node S h0 he' _
    · simp

omit h0 in
theorem trimEndSemis_sub (toks : Toks) : ∀ t ∈ trimEndSemis toks, t ∈ toks := by
  intro t ht
  cases toks with
  | nil => simp [trimEndSemis] at ht
  | cons a rest =>
    simp only [trimEndSemis, List.mem_cons, List.mem_reverse] at ht ⊢
    rcases ht with ht | ht
    · exact Or.inl ht
    · right
      have := (List.dropWhile_sublist (fun x => x.tp == tkSEMI) (l := rest.reverse)).mem ht
      simpa using this

theorem parse_pos {toks : Toks} (h : TokS S toks) : Pos S (Parse pf toks) (fun _ => True) := by
  have h' : TokS S (trimEndSemis toks) := fun t ht => h t (trimEndSemis_sub toks t ht)
  unfold Parse
  dsimp only
  generalize trimEndSemis toks = ts at h'
  split
  · simp [EOK]
  · rename_i t rest
    split
    · exact parsePut_pos S h0 pf _ _ h'
    · split
      · exact parseRemove_pos S h0 pf _ _ h'
      · split
        · exact parseDelete_pos S h0 pf _ _ h'
        · split
          · apply Res.Holds.bind (parseSelect_pos S h0 pf _ _ h')
            rintro ⟨⟨spos, sel⟩, ts1⟩ ⟨hs, h1⟩
            dsimp only at hs h1 ⊢
            split
            · simp [EOK]
            · exact parseWhere_pos S h0 pf _ _ _ _ hs _ (TokS.tail S h1)
          · split
            · exact parseWhere_pos S h0 pf _ _ _ _ (by simp [PosOKs]) _ h'.tail
            · simpa [EOK] using h'.head

end

/-- C17, first half: every error `Parse` returns for the tokens of a query carries `-1`
    (`none`), `0`, or the offset of one of those tokens -/
theorem parse_err_pos (pf : Bytes → F64) (toks : Toks) (e : PErr)
    (h : Parse pf toks = .err e) :
    match e with
    | .syntax none => True
    | .syntax (some p) => p = 0 ∨ ∃ t ∈ toks, t.pos = p
    | .cycle p => p = 0 ∨ ∃ t ∈ toks, t.pos = p
    | .nest => True := by
  have := parse_pos (fun p => p = 0 ∨ ∃ t ∈ toks, t.pos = p) (Or.inl rfl) pf (toks := toks)
    (fun t ht => Or.inr ⟨t, ht, rfl⟩)
  rw [h] at this
  cases e with
  | «syntax» p => cases p <;> simpa [EOK] using this
  | cycle p => simpa [EOK] using this
  | nest => trivial

end Kvql.Proofs.ParserPos
