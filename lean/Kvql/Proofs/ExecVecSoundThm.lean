import Kvql.Proofs.ExecVecSound

namespace Kvql
open Generated

/-- at context `c`: a failure is not an operand-type error -/
def NoOTAt {α} (x : M α) (c : Ctx) : Prop := ∀ e c', x c = (.error e, c') → e ≠ .operandType

namespace NoOTAt
theorem pure {α} (a : α) (c : Ctx) : NoOTAt (Pure.pure a : M α) c := by intro e c' h; simp at h
theorem throw {α} {e : Err} (h : e ≠ .operandType) (c : Ctx) : NoOTAt (M.throw e : M α) c := by
  intro e' c' h'; simp at h'; rw [← h'.1]; exact h
theorem lift {α} {x : Except Err α} (h : NoOT x) (c : Ctx) : NoOTAt (M.lift x) c := by
  intro e c' h'; simp at h'; intro he; rw [he] at h'; exact h h'.1
theorem bind {α β} {x : M α} {f : α → M β} {c : Ctx} (hx : NoOTAt x c)
    (hf : ∀ a c1, x c = (.ok a, c1) → c1 = c ∧ NoOTAt (f a) c) : NoOTAt (x >>= f) c := by
  intro e c' h
  rw [M.bind_run] at h
  split at h
  · rename_i a c1 heq
    obtain ⟨e1, ht⟩ := hf a c1 heq
    rw [e1] at h
    exact ht e c' h
  · rename_i e0 c0 heq
    simp at h; rw [← h.1]; exact hx e0 c0 heq
theorem ite {α} {p : Prop} [Decidable p] {x y : M α} {c : Ctx} (hx : NoOTAt x c) (hy : NoOTAt y c) :
    NoOTAt (if p then x else y) c := by split <;> assumption
end NoOTAt

/-- the statement, for one expression -/
def BatchSound (e : Expr) : Prop :=
  ∀ (chunk : List Pair) (c : Ctx), c.enable = false → NoOTAt (execBatch e chunk) c

theorem forPairs_noOT {f : Pair → M Value} {c : Ctx} (hc : c.enable = false) (hin : ∀ kv, Inert (f kv))
    (hf : ∀ kv, NoOTAt (f kv) c) : ∀ (chunk : List Pair), NoOTAt (forPairs f chunk) c
  | [] => by rw [forPairs]; exact .pure _ c
  | kv :: kvs => by
    rw [forPairs]
    refine .bind (hf kv) fun v c1 hv => ⟨(hin kv).ctx_eq hc hv, ?_⟩
    refine .bind (forPairs_noOT hc hin hf kvs) fun vs c2 hvs => ⟨(forPairs_forall₂ hin hc hvs).1, ?_⟩
    exact .pure _ c

/-- the row body run pair by pair with a nil context (join / list / int_list / float_list in batch) -/
theorem rowWiseNoCtx_noOT {f : Pair → M Value} (hin : ∀ kv, Inert (f kv))
    (hf : ∀ kv, NoOTAt (f kv) Ctx.none) (chunk : List Pair) (c : Ctx) : NoOTAt (rowWiseNoCtx f chunk) c := by
  intro e c' h
  unfold rowWiseNoCtx at h
  rcases hx : forPairs f chunk Ctx.none with ⟨r, d⟩
  rw [hx] at h; simp at h
  exact forPairs_noOT (c := Ctx.none) rfl hin hf chunk e d (by rw [hx, h.1])

theorem binop_noOT {e l r : Expr} {kl kr : Kind} {F : Nat → List Value → List Value → Except Err (List Value)}
    (hkl : kindOf l = some kl) (hkr : kindOf r = some kr)
    (hb : ∀ chunk, execBatch e chunk = (do
      let a ← execBatch l chunk
      let b ← execBatch r chunk
      M.lift (F chunk.length a b)))
    (hF : ∀ n as bs, (∀ a ∈ as, a.hasKind kl = true) → (∀ b ∈ bs, b.hasKind kr = true) → NoOT (F n as bs))
    (ihl : BatchSound l) (ihr : BatchSound r) : BatchSound e := by
  intro chunk c hc
  rw [hb]
  refine .bind (ihl chunk c hc) fun a c1 ha => ⟨(batch_ok_kinds hkl hc ha).1, ?_⟩
  refine .bind (ihr chunk c hc) fun b c2 hb' => ⟨(batch_ok_kinds hkr hc hb').1, ?_⟩
  exact .lift (hF _ _ _ (batch_ok_kinds hkl hc ha).2.2 (batch_ok_kinds hkr hc hb').2.2) c

theorem ne_ot_panic (s : String) : Err.panic s ≠ .operandType := by simp

theorem kernel_noOT_text {K : Value → Value → Except Err Value}
    (h : ∀ x y a b, convertToByteArray x = some a → convertToByteArray y = some b → NoOT (K x y)) :
    ∀ n as bs, (∀ a ∈ as, a.hasKind .text = true) → (∀ b ∈ bs, b.hasKind .text = true) → NoOT (zipRows K n as bs) :=
  fun n as bs ha hb => zipRows_noOT n as bs fun x hx y hy => by
    obtain ⟨a, hxa⟩ := text_conv (ha x hx)
    obtain ⟨b, hyb⟩ := text_conv (hb y hy)
    exact h x y a b hxa hyb

theorem unary_body_noOT {b : Body} {f : Value → Value} (hb : unaryOf b = some f) {a0 : Expr} {rest : List Expr}
    {k : Kind} (hk : kindOf a0 = some k) (ih : BatchSound a0) :
    ∀ (chunk : List Pair) (c : Ctx), c.enable = false → NoOTAt (vecBody b (a0 :: rest) chunk) c := by
  intro chunk c hc
  have hv : vecBody b (a0 :: rest) chunk = (do
      let rarg ← execBatch a0 chunk
      M.lift (mapRowsFresh f chunk.length rarg)) := by
    cases b <;> simp [unaryOf] at hb <;> subst hb <;> rw [vecBody]
  rw [hv]
  exact .bind (ih chunk c hc) fun a c1 ha => ⟨(batch_ok_kinds hk hc ha).1, .lift (mapRowsFresh_noOT _ _) c⟩

mutual
  theorem batch_sound_core : ∀ (e : Expr) (k : Kind), kindOf e = some k → BatchSound e
    | .str .., _, _ => fun _ c _ => by rw [execBatch]; exact .pure _ c
    | .field .., _, _ => fun _ c _ => by rw [execBatch]; exact .pure _ c
    | .num .., _, _ => fun _ c _ => by rw [execBatch]; exact .pure _ c
    | .float .., _, _ => fun _ c _ => by rw [execBatch]; exact .pure _ c
    | .bool .., _, _ => fun _ c _ => by rw [execBatch]; exact .pure _ c
    | .name .., _, h => by simp [kindOf] at h
    | .cycle, _, h => by simp [kindOf] at h
    | .list .., _, h => by simp [kindOf] at h
    | .access .., _, h => by simp [kindOf] at h
    | .not p r, k, h => by
      simp only [kindOf] at h
      obtain ⟨hc, _⟩ := if_some h
      have hkr := beq_some hc
      have ih := batch_sound_core r .bool hkr
      intro chunk c hc
      rw [execBatch]
      refine .bind (ih chunk c hc) fun a c1 ha => ⟨(batch_ok_kinds hkr hc ha).1, ?_⟩
      refine .lift (mapRows_noOT _ _ fun x hx => ?_) c
      obtain ⟨b, rfl⟩ := Value.bool_cases ((batch_ok_kinds hkr hc ha).2.2 x hx)
      simp [NoOT, boolV, asBool, Except.map]
    | .ref p name t, k, h => by
      simp only [kindOf] at h
      have ih := batch_sound_core t k h
      intro chunk c hc e c' he
      rw [execBatch] at he
      dsimp only at he
      split at he
      · simp at he; rw [← he.1]; simp
      · simp only [Ctx.getChunkFieldResult_off hc, ite_self] at he
        rcases hx : execBatch t chunk c with ⟨r, c1⟩
        rw [hx] at he
        cases r with
        | error e0 =>
          have hb := ih chunk c hc e0 c1 hx
          dsimp only at he
          simp at he
          rw [← he.1]; exact hb
        | ok vs => dsimp only at he; cases he
    | .call p nm args, k, h => by
      simp only [kindOf] at h
      cases hn : funcNameOf nm with
      | error e => simp [hn] at h
      | ok fname =>
        simp only [hn] at h
        cases hf : lookupFunc fname with
        | none => simp [hf] at h
        | some fo =>
          simp only [hf] at h
          split at h
          · cases h
          · rename_i h1
            split at h
            · cases h
            · rename_i h2
              cases hb : fo.body with
              | none => simp [hb] at h
              | some b =>
                simp only [hb] at h
                obtain ⟨hargs, _⟩ := if_some h
                intro chunk c hc
                rw [execBatch]
                simp only [hn, hf, hb]
                rw [if_neg h1, if_neg h2]
                refine .ite (vecBody_noOT b args hargs chunk c hc) ?_
                exact rowWiseNoCtx_noOT (fun kv => rowBody_inert b args kv)
                  (fun kv => (rowBody_sound b args hargs kv Ctx.none rfl).2) chunk c
    | .binop p op l r, k, h => by
      have ihr : ∀ k, kindOf r = some k → BatchSound r := fun k hk => batch_sound_core r k hk
      cases op with
      | not => rw [kindOf] at h; cases h
      | and =>
        simp only [kindOf] at h; obtain ⟨hc, _⟩ := if_some h; obtain ⟨h1, h2⟩ := and_true hc
        refine binop_noOT (F := zipRows andK) (beq_some h1) (beq_some h2) (fun _ => by rw [execBatch]; rfl) ?_
          (batch_sound_core l _ (beq_some h1)) (ihr _ (beq_some h2))
        intro n as bs ha hb
        refine zipRows_noOT _ _ _ fun x hx y hy => ?_
        obtain ⟨a, rfl⟩ := Value.bool_cases (ha x hx); obtain ⟨b, rfl⟩ := Value.bool_cases (hb y hy)
        simp [andK, NoOT]
      | kwAnd =>
        simp only [kindOf] at h; obtain ⟨hc, _⟩ := if_some h; obtain ⟨h1, h2⟩ := and_true hc
        refine binop_noOT (F := zipRows andK) (beq_some h1) (beq_some h2) (fun _ => by rw [execBatch]; rfl) ?_
          (batch_sound_core l _ (beq_some h1)) (ihr _ (beq_some h2))
        intro n as bs ha hb
        refine zipRows_noOT _ _ _ fun x hx y hy => ?_
        obtain ⟨a, rfl⟩ := Value.bool_cases (ha x hx); obtain ⟨b, rfl⟩ := Value.bool_cases (hb y hy)
        simp [andK, NoOT]
      | or =>
        simp only [kindOf] at h; obtain ⟨hc, _⟩ := if_some h; obtain ⟨h1, h2⟩ := and_true hc
        refine binop_noOT (F := zipRows orK) (beq_some h1) (beq_some h2) (fun _ => by rw [execBatch]; rfl) ?_
          (batch_sound_core l _ (beq_some h1)) (ihr _ (beq_some h2))
        intro n as bs ha hb
        refine zipRows_noOT _ _ _ fun x hx y hy => ?_
        obtain ⟨a, rfl⟩ := Value.bool_cases (ha x hx); obtain ⟨b, rfl⟩ := Value.bool_cases (hb y hy)
        simp [orK, NoOT]
      | kwOr =>
        simp only [kindOf] at h; obtain ⟨hc, _⟩ := if_some h; obtain ⟨h1, h2⟩ := and_true hc
        refine binop_noOT (F := zipRows orK) (beq_some h1) (beq_some h2) (fun _ => by rw [execBatch]; rfl) ?_
          (batch_sound_core l _ (beq_some h1)) (ihr _ (beq_some h2))
        intro n as bs ha hb
        refine zipRows_noOT _ _ _ fun x hx y hy => ?_
        obtain ⟨a, rfl⟩ := Value.bool_cases (ha x hx); obtain ⟨b, rfl⟩ := Value.bool_cases (hb y hy)
        simp [orK, NoOT]
      | prefixMatch =>
        simp only [kindOf] at h; obtain ⟨hc, _⟩ := if_some h; obtain ⟨h1, h2⟩ := and_true hc
        refine binop_noOT (F := zipRows prefixK) (beq_some h1) (beq_some h2) (fun _ => by rw [execBatch]; rfl)
          (kernel_noOT_text fun x y a b hx hy => by simp [prefixK, hx, hy, NoOT])
          (batch_sound_core l _ (beq_some h1)) (ihr _ (beq_some h2))
      | regexMatch =>
        simp only [kindOf] at h; obtain ⟨hc, _⟩ := if_some h; obtain ⟨h1, h2⟩ := and_true hc
        refine binop_noOT (F := zipRows regexK) (beq_some h1) (beq_some h2) (fun _ => by rw [execBatch]; rfl)
          (kernel_noOT_text fun x y a b hx hy => by
            simp only [regexK, hx, hy]; split <;> simp [NoOT])
          (batch_sound_core l _ (beq_some h1)) (ihr _ (beq_some h2))
      | sub =>
        simp only [kindOf] at h; obtain ⟨hc, _⟩ := if_some h; obtain ⟨h1, h2⟩ := and_true hc
        exact binop_noOT (F := zipRows (fun x y => executeMathOp x y .sub)) (beq_some h1) (beq_some h2)
          (fun _ => by rw [execBatch])
          (fun n as bs ha hb => zipRows_noOT _ _ _ fun x hx y hy => (ks_executeMathOp (ha x hx) (hb y hy) _).2)
          (batch_sound_core l _ (beq_some h1)) (ihr _ (beq_some h2))
      | mul =>
        simp only [kindOf] at h; obtain ⟨hc, _⟩ := if_some h; obtain ⟨h1, h2⟩ := and_true hc
        exact binop_noOT (F := zipRows (fun x y => executeMathOp x y .mul)) (beq_some h1) (beq_some h2)
          (fun _ => by rw [execBatch])
          (fun n as bs ha hb => zipRows_noOT _ _ _ fun x hx y hy => (ks_executeMathOp (ha x hx) (hb y hy) _).2)
          (batch_sound_core l _ (beq_some h1)) (ihr _ (beq_some h2))
      | div =>
        simp only [kindOf] at h; obtain ⟨hc, _⟩ := if_some h; obtain ⟨h1, h2⟩ := and_true hc
        exact binop_noOT (F := zipRows (fun x y => executeMathOp x y .div)) (beq_some h1) (beq_some h2)
          (fun _ => by rw [execBatch])
          (fun n as bs ha hb => zipRows_noOT _ _ _ fun x hx y hy => (ks_executeMathOp (ha x hx) (hb y hy) _).2)
          (batch_sound_core l _ (beq_some h1)) (ihr _ (beq_some h2))
      | add =>
        simp only [kindOf] at h
        split at h
        · rename_i hc; obtain ⟨h1, h2⟩ := and_true hc
          have hs : (retType l == tyTSTR) = true := (number_flag (beq_some h1)).1 rfl
          exact binop_noOT (F := zipRows concatK) (beq_some h1) (beq_some h2)
            (fun _ => by rw [execBatch]; simp [hs]; rfl)
            (kernel_noOT_text fun x y a b hx hy => by simp [concatK, hx, hy, NoOT])
            (batch_sound_core l _ (beq_some h1)) (ihr _ (beq_some h2))
        · split at h
          · rename_i hc; obtain ⟨h1, h2⟩ := and_true hc
            have hs : (retType l == tyTSTR) = false := (number_flag (beq_some h1)).2 rfl
            exact binop_noOT (F := zipRows (fun x y => executeMathOp x y .add)) (beq_some h1) (beq_some h2)
              (fun _ => by rw [execBatch]; simp [hs])
              (fun n as bs ha hb => zipRows_noOT _ _ _ fun x hx y hy => (ks_executeMathOp (ha x hx) (hb y hy) _).2)
              (batch_sound_core l _ (beq_some h1)) (ihr _ (beq_some h2))
          · cases h
      | eq =>
        simp only [kindOf] at h; obtain ⟨hc, _⟩ := if_some h; obtain ⟨h1, h2⟩ := and_true hc
        have h2' : kindOf r = kindOf l := by simpa using (by simpa using h2 : kindOf l = kindOf r).symm
        rcases isScalar_cases h1 with hk | hk | hk <;>
          exact binop_noOT (F := equalBatchFinish false) hk (by rw [h2', hk]) (fun _ => by rw [execBatch])
            (fun n as bs ha hb => equalBatchFinish_noOT rfl ha hb)
            (batch_sound_core l _ hk) (ihr _ (by rw [h2', hk]))
      | neq =>
        simp only [kindOf] at h; obtain ⟨hc, _⟩ := if_some h; obtain ⟨h1, h2⟩ := and_true hc
        have h2' : kindOf r = kindOf l := by simpa using (by simpa using h2 : kindOf l = kindOf r).symm
        rcases isScalar_cases h1 with hk | hk | hk <;>
          exact binop_noOT (F := equalBatchFinish true) hk (by rw [h2', hk]) (fun _ => by rw [execBatch])
            (fun n as bs ha hb => equalBatchFinish_noOT rfl ha hb)
            (batch_sound_core l _ hk) (ihr _ (by rw [h2', hk]))
      | gt =>
        simp only [kindOf] at h; obtain ⟨hc, _⟩ := if_some h; obtain ⟨h1, h2⟩ := and_true hc
        have h2' : kindOf r = kindOf l := by simpa using (by simpa using h2 : kindOf l = kindOf r).symm
        have h1' : kindOf l = some .text ∨ kindOf l = some .num := by simpa using h1
        rcases h1' with hk | hk
        all_goals
          exact binop_noOT (F := zipRows (fun x y => boolV (compareBy (!(retType l == tyTSTR)) x y .gt))) hk
            (by rw [h2', hk]) (fun _ => by rw [execBatch])
            (fun n as bs ha hb => zipRows_noOT _ _ _ fun x hx y hy => by
              obtain ⟨c, hcmp⟩ := compareBy_ok (hk_of hk (by simp)) (ha x hx) (hb y hy) .gt
              simp [hcmp, boolV, NoOT, Except.map])
            (batch_sound_core l _ hk) (ihr _ (by rw [h2', hk]))
      | gte =>
        simp only [kindOf] at h; obtain ⟨hc, _⟩ := if_some h; obtain ⟨h1, h2⟩ := and_true hc
        have h2' : kindOf r = kindOf l := by simpa using (by simpa using h2 : kindOf l = kindOf r).symm
        have h1' : kindOf l = some .text ∨ kindOf l = some .num := by simpa using h1
        rcases h1' with hk | hk
        all_goals
          exact binop_noOT (F := zipRows (fun x y => boolV (compareBy (!(retType l == tyTSTR)) x y .gte))) hk
            (by rw [h2', hk]) (fun _ => by rw [execBatch])
            (fun n as bs ha hb => zipRows_noOT _ _ _ fun x hx y hy => by
              obtain ⟨c, hcmp⟩ := compareBy_ok (hk_of hk (by simp)) (ha x hx) (hb y hy) .gte
              simp [hcmp, boolV, NoOT, Except.map])
            (batch_sound_core l _ hk) (ihr _ (by rw [h2', hk]))
      | lt =>
        simp only [kindOf] at h; obtain ⟨hc, _⟩ := if_some h; obtain ⟨h1, h2⟩ := and_true hc
        have h2' : kindOf r = kindOf l := by simpa using (by simpa using h2 : kindOf l = kindOf r).symm
        have h1' : kindOf l = some .text ∨ kindOf l = some .num := by simpa using h1
        rcases h1' with hk | hk
        all_goals
          exact binop_noOT (F := zipRows (fun x y => boolV (compareBy (!(retType l == tyTSTR)) x y .lt))) hk
            (by rw [h2', hk]) (fun _ => by rw [execBatch])
            (fun n as bs ha hb => zipRows_noOT _ _ _ fun x hx y hy => by
              obtain ⟨c, hcmp⟩ := compareBy_ok (hk_of hk (by simp)) (ha x hx) (hb y hy) .lt
              simp [hcmp, boolV, NoOT, Except.map])
            (batch_sound_core l _ hk) (ihr _ (by rw [h2', hk]))
      | lte =>
        simp only [kindOf] at h; obtain ⟨hc, _⟩ := if_some h; obtain ⟨h1, h2⟩ := and_true hc
        have h2' : kindOf r = kindOf l := by simpa using (by simpa using h2 : kindOf l = kindOf r).symm
        have h1' : kindOf l = some .text ∨ kindOf l = some .num := by simpa using h1
        rcases h1' with hk | hk
        all_goals
          exact binop_noOT (F := zipRows (fun x y => boolV (compareBy (!(retType l == tyTSTR)) x y .lte))) hk
            (by rw [h2', hk]) (fun _ => by rw [execBatch])
            (fun n as bs ha hb => zipRows_noOT _ _ _ fun x hx y hy => by
              obtain ⟨c, hcmp⟩ := compareBy_ok (hk_of hk (by simp)) (ha x hx) (hb y hy) .lte
              simp [hcmp, boolV, NoOT, Except.map])
            (batch_sound_core l _ hk) (ihr _ (by rw [h2', hk]))
      | between =>
        cases r with
        | list q items =>
          match items, h with
          | [lo, hi], h =>
            simp only [kindOf] at h; obtain ⟨hc, _⟩ := if_some h
            obtain ⟨h12, h3⟩ := and_true hc; obtain ⟨h1, h2⟩ := and_true h12
            have h1' : kindOf l = some .text ∨ kindOf l = some .num := by simpa using h1
            have hlo : kindOf lo = kindOf l := by simpa using h2
            have hhi : kindOf hi = kindOf l := by simpa using h3
            have main : ∀ k, (k = .text ∨ k = .num) → kindOf l = some k →
                BatchSound (.binop p .between l (.list q [lo, hi])) := by
              intro k hk' hk
              have hklo : kindOf lo = some k := by rw [hlo, hk]
              have hkhi : kindOf hi = some k := by rw [hhi, hk]
              have tlo := retType_of_kind lo k hklo
              have thi := retType_of_kind hi k hkhi
              intro chunk c hc
              rw [execBatch]
              refine .bind (batch_sound_core l k hk chunk c hc) fun a c1 ha => ⟨(batch_ok_kinds hk hc ha).1, ?_⟩
              have tail : NoOTAt (do
                  let lb ← execBatch lo chunk
                  let ub ← execBatch hi chunk
                  M.lift (betweenRows (!(retType l == tyTSTR)) chunk.length a lb ub)) c := by
                refine .bind (batch_sound_core lo k hklo chunk c hc) fun lb c2 hb => ⟨(batch_ok_kinds hklo hc hb).1, ?_⟩
                refine .bind (batch_sound_core hi k hkhi chunk c hc) fun ub c3 hu => ⟨(batch_ok_kinds hkhi hc hu).1, ?_⟩
                exact .lift (betweenRows_noOT (hk_of hk hk') _ _ _ _ (batch_ok_kinds hk hc ha).2.2
                  (batch_ok_kinds hklo hc hb).2.2 (batch_ok_kinds hkhi hc hu).2.2) c
              dsimp only
              rw [tlo, thi]
              rcases hk' with rfl | rfl
              · have hs := (number_flag hk).1 rfl
                simp only [hs, Kind.code, bne_self_eq_false, Bool.and_false, Bool.not_true, Bool.false_and,
                  Bool.false_eq_true, if_false]
                simpa [hs] using tail
              · have hs := (number_flag hk).2 rfl
                simp only [hs, Kind.code, bne_self_eq_false, Bool.and_false, Bool.not_false, Bool.false_and,
                  Bool.false_eq_true, if_false]
                simpa [hs] using tail
            rcases h1' with hk | hk
            · exact main .text (.inl rfl) hk
            · exact main .num (.inr rfl) hk
          | [], h => simp [kindOf] at h
          | [_], h => simp [kindOf] at h
          | _ :: _ :: _ :: _, h => simp [kindOf] at h
        | _ => simp [kindOf] at h
      | in_ =>
        cases r with
        | list q items =>
          have main : ∀ k, (k = .text ∨ k = .num) → kindOf l = some k → allKind k items = true →
              BatchSound (.binop p .in_ l (.list q items)) := by
            intro k hk' hk hit
            intro chunk c hc
            rw [execBatch]
            refine .bind (batch_sound_core l k hk chunk c hc) fun a c1 ha => ⟨(batch_ok_kinds hk hc ha).1, ?_⟩
            dsimp only
            refine .bind (inItems_noOT (hk_of hk hk') items hit chunk c hc) fun cols c2 hcols => ?_
            obtain ⟨e2, hck⟩ := inItems_kinds (number := !(retType l == tyTSTR)) items hit hc hcols
            refine ⟨e2, .lift (inRows_noOT (hk_of hk hk') hck _ _ _ (batch_ok_kinds hk hc ha).2.2) c⟩
          simp only [kindOf] at h
          split at h
          · rename_i hk; obtain ⟨hit, _⟩ := if_some h
            exact main .text (.inl rfl) (beq_some hk) hit
          · split at h
            · rename_i hk; obtain ⟨hit, _⟩ := if_some h
              exact main .num (.inr rfl) (beq_some hk) hit
            · cases h
        | call q nm args =>
          rw [kindOf] at h; obtain ⟨hc, _⟩ := if_some h
          have main : ∀ k kr, ((k = .text ∧ kr = .listText) ∨ (k = .num ∧ kr = .listNum)) → kindOf l = some k →
              kindOf (.call q nm args) = some kr → BatchSound (.binop p .in_ l (.call q nm args)) := by
            intro k kr hkk hk hkr
            have hk' : k = .text ∨ k = .num := by rcases hkk with ⟨rfl, _⟩ | ⟨rfl, _⟩ <;> simp
            intro chunk c hc
            rw [execBatch]
            refine .bind (batch_sound_core l k hk chunk c hc) fun a c1 ha => ⟨(batch_ok_kinds hk hc ha).1, ?_⟩
            dsimp only
            refine .bind (ihr kr hkr chunk c hc) fun fr c2 hf => ⟨(batch_ok_kinds hkr hc hf).1, ?_⟩
            exact .lift (inCallRows_noOT (hk_of hk hk') hkk _ _ _ (batch_ok_kinds hk hc ha).2.2 (batch_ok_kinds hkr hc hf).2.2) c
          rcases in_kinds hc with ⟨h1, h2⟩ | ⟨h1, h2⟩
          · exact main .text .listText (.inl ⟨rfl, rfl⟩) h1 h2
          · exact main .num .listNum (.inr ⟨rfl, rfl⟩) h1 h2
        | ref q nm t =>
          rw [kindOf] at h; obtain ⟨hc, _⟩ := if_some h
          have main : ∀ k kr, ((k = .text ∧ kr = .listText) ∨ (k = .num ∧ kr = .listNum)) → kindOf l = some k →
              kindOf (.ref q nm t) = some kr → BatchSound (.binop p .in_ l (.ref q nm t)) := by
            intro k kr hkk hk hkr
            have hk' : k = .text ∨ k = .num := by rcases hkk with ⟨rfl, _⟩ | ⟨rfl, _⟩ <;> simp
            intro chunk c hc
            rw [execBatch]
            refine .bind (batch_sound_core l k hk chunk c hc) fun a c1 ha => ⟨(batch_ok_kinds hk hc ha).1, ?_⟩
            dsimp only
            refine .bind (ihr kr hkr chunk c hc) fun fr c2 hf => ⟨(batch_ok_kinds hkr hc hf).1, ?_⟩
            exact .lift (inCallRows_noOT (hk_of hk hk') hkk _ _ _ (batch_ok_kinds hk hc ha).2.2 (batch_ok_kinds hkr hc hf).2.2) c
          rcases in_kinds hc with ⟨h1, h2⟩ | ⟨h1, h2⟩
          · exact main .text .listText (.inl ⟨rfl, rfl⟩) h1 h2
          · exact main .num .listNum (.inr ⟨rfl, rfl⟩) h1 h2
        | _ => simp [kindOf] at h

  theorem inItems_noOT : ∀ {number : Bool} {k : Kind}, ((number = true ∧ k = .num) ∨ (number = false ∧ k = .text)) →
      ∀ (items : List Expr), allKind k items = true → ∀ (chunk : List Pair) (c : Ctx), c.enable = false →
        NoOTAt (execInItemsBatch number items chunk) c
    | _, _, _, [], _, _, c, _ => by rw [execInItemsBatch]; exact .pure _ c
    | number, k, hk, e :: es, hit, chunk, c, hc => by
      simp only [allKind] at hit
      obtain ⟨he, hes⟩ := and_true hit
      have hke := beq_some he
      rw [execInItemsBatch]
      have tw : (retType e != if number = true then tyTNUMBER else tyTSTR) = false := by
        rw [retType_of_kind e k hke]
        rcases hk with ⟨rfl, rfl⟩ | ⟨rfl, rfl⟩ <;> rfl
      simp only [tw, Bool.false_eq_true, if_false]
      refine .bind (batch_sound_core e k hke chunk c hc) fun vals c1 hv => ⟨(batch_ok_kinds hke hc hv).1, ?_⟩
      refine .bind (inItems_noOT hk es hes chunk c hc) fun rest c2 hr => ?_
      exact ⟨(inItems_core number es (vecOkList_of_allKind k es hes) chunk c hc rest c2 hr).1, .pure _ c⟩

  theorem vecBody_noOT : ∀ (b : Body) (args : List Expr), argsOk b args = true → ∀ (chunk : List Pair) (c : Ctx),
      c.enable = false → NoOTAt (vecBody b args chunk) c
    | .join, args, h, chunk, c, hc => by
      rw [vecBody]
      exact rowWiseNoCtx_noOT (fun kv => rowBody_inert .join args kv) (fun kv => (rowBody_sound .join args h kv Ctx.none rfl).2) chunk c
    | .toList, args, h, chunk, c, hc => by
      rw [vecBody]
      exact rowWiseNoCtx_noOT (fun kv => rowBody_inert .toList args kv) (fun kv => (rowBody_sound .toList args h kv Ctx.none rfl).2) chunk c
    | .intList, args, h, chunk, c, hc => by
      rw [vecBody]
      exact rowWiseNoCtx_noOT (fun kv => rowBody_inert .intList args kv) (fun kv => (rowBody_sound .intList args h kv Ctx.none rfl).2) chunk c
    | .floatList, args, h, chunk, c, hc => by
      rw [vecBody]
      exact rowWiseNoCtx_noOT (fun kv => rowBody_inert .floatList args kv) (fun kv => (rowBody_sound .floatList args h kv Ctx.none rfl).2) chunk c
    | .lower, [a], h, chunk, c, hc => by
      simp only [argsOk] at h
      exact unary_body_noOT rfl (beq_some h) (batch_sound_core a _ (beq_some h)) chunk c hc
    | .upper, [a], h, chunk, c, hc => by
      simp only [argsOk] at h
      exact unary_body_noOT rfl (beq_some h) (batch_sound_core a _ (beq_some h)) chunk c hc
    | .toInt, [a], h, chunk, c, hc => by
      simp only [argsOk] at h
      rcases isScalar_cases h with hk | hk | hk <;> exact unary_body_noOT rfl hk (batch_sound_core a _ hk) chunk c hc
    | .toFloat, [a], h, chunk, c, hc => by
      simp only [argsOk] at h
      rcases isScalar_cases h with hk | hk | hk <;> exact unary_body_noOT rfl hk (batch_sound_core a _ hk) chunk c hc
    | .toStr, [a], h, chunk, c, hc => by
      simp only [argsOk] at h
      rcases isScalar_cases h with hk | hk | hk <;> exact unary_body_noOT rfl hk (batch_sound_core a _ hk) chunk c hc
    | .strlen, [a], h, chunk, c, hc => by
      simp only [argsOk] at h
      rcases isScalar_cases h with hk | hk | hk <;> exact unary_body_noOT rfl hk (batch_sound_core a _ hk) chunk c hc
    | .isInt, [a], h, chunk, c, hc => by
      simp only [argsOk] at h
      rcases isScalar_cases h with hk | hk | hk <;> exact unary_body_noOT rfl hk (batch_sound_core a _ hk) chunk c hc
    | .isFloat, [a], h, chunk, c, hc => by
      simp only [argsOk] at h
      rcases isScalar_cases h with hk | hk | hk <;> exact unary_body_noOT rfl hk (batch_sound_core a _ hk) chunk c hc
    | .json, [a], h, chunk, c, hc => by
      simp only [argsOk] at h
      have hk := beq_some h
      rw [vecBody]
      refine .bind (batch_sound_core a _ hk chunk c hc) fun vs c1 ha => ⟨(batch_ok_kinds hk hc ha).1, ?_⟩
      refine .lift (mapRows_noOT _ _ fun x hx => ?_) c
      obtain ⟨b, hb⟩ := text_conv ((batch_ok_kinds hk hc ha).2.2 x hx)
      simp [hb, NoOT]
    | .len, [a], h, chunk, c, hc => by
      simp only [argsOk] at h
      have h' : isList (kindOf a) = true ∨ kindOf a = some .text := by simpa using h
      have main : ∀ k, kindOf a = some k → (k = .listText ∨ k = .listNum ∨ k = .text) →
          NoOTAt (vecBody .len [a] chunk) c := by
        intro k hk hkk
        rw [vecBody]
        refine .bind (batch_sound_core a _ hk chunk c hc) fun vs c1 ha => ⟨(batch_ok_kinds hk hc ha).1, ?_⟩
        refine .lift (mapRows_noOT _ _ fun x hx => ?_) c
        have hxk := (batch_ok_kinds hk hc ha).2.2 x hx
        obtain ⟨n, hn⟩ := getListLength_of (v := x) (by rcases hkk with rfl | rfl | rfl <;> simp [hxk])
        simp [hn, NoOT, Except.map]
      rcases h' with hl | hk
      · rcases isList_cases hl with hk | hk
        · exact main _ hk (.inl rfl)
        · exact main _ hk (.inr (.inl rfl))
      · exact main _ hk (.inr (.inr rfl))
    | .subStr, [a0, a1, a2], h, chunk, c, hc => by
      simp only [argsOk] at h
      obtain ⟨h01, h2⟩ := and_true h; obtain ⟨h0, h1⟩ := and_true h01
      rw [vecBody, retType_of_kind a1 .num (beq_some h1), retType_of_kind a2 .num (beq_some h2)]
      simp only [Kind.code, bne_self_eq_false, Bool.false_eq_true, if_false]
      refine .bind (batch_sound_core a0 _ (beq_some h0) chunk c hc) fun vs c1 hv => ⟨(batch_ok_kinds (beq_some h0) hc hv).1, ?_⟩
      refine .bind (batch_sound_core a1 _ (beq_some h1) chunk c hc) fun ss c2 hs => ⟨(batch_ok_kinds (beq_some h1) hc hs).1, ?_⟩
      refine .bind (batch_sound_core a2 _ (beq_some h2) chunk c hc) fun ls c3 hl => ⟨(batch_ok_kinds (beq_some h2) hc hl).1, ?_⟩
      exact .lift (zip3Rows_noOT _ _ _ _ fun _ _ _ _ _ _ => by simp [substrRow, substrKernel, NoOT]) c
    | .split, [a0, a1], h, chunk, c, hc => by
      simp only [argsOk] at h
      obtain ⟨h0, h1⟩ := and_true h
      rw [vecBody, retType_of_kind a1 .text (beq_some h1)]
      simp only [Kind.code, bne_self_eq_false, Bool.false_eq_true, if_false]
      refine .bind (batch_sound_core a0 _ (beq_some h0) chunk c hc) fun vs c1 hv => ⟨(batch_ok_kinds (beq_some h0) hc hv).1, ?_⟩
      refine .bind (batch_sound_core a1 _ (beq_some h1) chunk c hc) fun ss c2 hs => ⟨(batch_ok_kinds (beq_some h1) hc hs).1, ?_⟩
      exact .lift (zipRows_noOT _ _ _ fun _ _ _ _ => by simp [NoOT]) c
    | .cosine, [a0, a1], h, chunk, c, hc => by
      simp only [argsOk] at h
      obtain ⟨h0, h1⟩ := and_true h
      have main : ∀ k0 k1, kindOf a0 = some k0 → kindOf a1 = some k1 → (k0 = .listText ∨ k0 = .listNum) →
          (k1 = .listText ∨ k1 = .listNum) → NoOTAt (vecBody .cosine [a0, a1] chunk) c := by
        intro k0 k1 hk0 hk1 hl0 hl1
        rw [vecBody]
        refine .bind (batch_sound_core a0 _ hk0 chunk c hc) fun ls c1 hv => ⟨(batch_ok_kinds hk0 hc hv).1, ?_⟩
        refine .bind (batch_sound_core a1 _ hk1 chunk c hc) fun rs c2 hs => ⟨(batch_ok_kinds hk1 hc hs).1, ?_⟩
        have kx : ∀ x ∈ ls, x.hasKind .listText = true ∨ x.hasKind .listNum = true := fun x hx => by
          have := (batch_ok_kinds hk0 hc hv).2.2 x hx
          rcases hl0 with rfl | rfl <;> simp [this]
        have ky : ∀ y ∈ rs, y.hasKind .listText = true ∨ y.hasKind .listNum = true := fun y hy => by
          have := (batch_ok_kinds hk1 hc hs).2.2 y hy
          rcases hl1 with rfl | rfl <;> simp [this]
        refine .lift ?_ c
        -- the lazily indexed loop: every left operand is a list, every right operand present is a list
        have gen : ∀ (n : Nat) (xs ys : List Value), (∀ x ∈ xs, x.hasKind .listText = true ∨ x.hasKind .listNum = true) →
            (∀ y ∈ ys, y.hasKind .listText = true ∨ y.hasKind .listNum = true) →
            NoOT (zipRowsLazy (distanceRow cosineDistance) n xs ys) := by
          intro n
          induction n with
          | zero => intro xs ys _ _; exact .ok _
          | succ n ih =>
            intro xs ys hx hy
            cases xs with
            | nil => simp [zipRowsLazy, NoOT, idxPanic]
            | cons x xs =>
              simp only [zipRowsLazy]
              refine .bind (distanceRow_noOT cosineDistance_noOT (hx x (by simp))
                (fun y hy' => hy y (List.mem_of_mem_head? hy'))) fun _ _ => ?_
              exact .bind (ih xs ys.tail (fun a ha => hx a (by simp [ha])) (fun a ha => hy a (List.mem_of_mem_tail ha))) fun _ _ => .ok _
        exact gen _ _ _ kx ky
      rcases isList_cases h0 with hk0 | hk0 <;> rcases isList_cases h1 with hk1 | hk1
      · exact main _ _ hk0 hk1 (.inl rfl) (.inl rfl)
      · exact main _ _ hk0 hk1 (.inl rfl) (.inr rfl)
      · exact main _ _ hk0 hk1 (.inr rfl) (.inl rfl)
      · exact main _ _ hk0 hk1 (.inr rfl) (.inr rfl)
    | .l2, [a0, a1], h, chunk, c, hc => by
      simp only [argsOk] at h
      obtain ⟨h0, h1⟩ := and_true h
      have main : ∀ k0 k1, kindOf a0 = some k0 → kindOf a1 = some k1 → (k0 = .listText ∨ k0 = .listNum) →
          (k1 = .listText ∨ k1 = .listNum) → NoOTAt (vecBody .l2 [a0, a1] chunk) c := by
        intro k0 k1 hk0 hk1 hl0 hl1
        rw [vecBody]
        refine .bind (batch_sound_core a0 _ hk0 chunk c hc) fun ls c1 hv => ⟨(batch_ok_kinds hk0 hc hv).1, ?_⟩
        refine .bind (batch_sound_core a1 _ hk1 chunk c hc) fun rs c2 hs => ⟨(batch_ok_kinds hk1 hc hs).1, ?_⟩
        have kx : ∀ x ∈ ls, x.hasKind .listText = true ∨ x.hasKind .listNum = true := fun x hx => by
          have := (batch_ok_kinds hk0 hc hv).2.2 x hx
          rcases hl0 with rfl | rfl <;> simp [this]
        have ky : ∀ y ∈ rs, y.hasKind .listText = true ∨ y.hasKind .listNum = true := fun y hy => by
          have := (batch_ok_kinds hk1 hc hs).2.2 y hy
          rcases hl1 with rfl | rfl <;> simp [this]
        refine .lift ?_ c
        have gen : ∀ (n : Nat) (xs ys : List Value), (∀ x ∈ xs, x.hasKind .listText = true ∨ x.hasKind .listNum = true) →
            (∀ y ∈ ys, y.hasKind .listText = true ∨ y.hasKind .listNum = true) →
            NoOT (zipRowsLazy (distanceRow l2Distance) n xs ys) := by
          intro n
          induction n with
          | zero => intro xs ys _ _; exact .ok _
          | succ n ih =>
            intro xs ys hx hy
            cases xs with
            | nil => simp [zipRowsLazy, NoOT, idxPanic]
            | cons x xs =>
              simp only [zipRowsLazy]
              refine .bind (distanceRow_noOT l2Distance_noOT (hx x (by simp))
                (fun y hy' => hy y (List.mem_of_mem_head? hy'))) fun _ _ => ?_
              exact .bind (ih xs ys.tail (fun a ha => hx a (by simp [ha])) (fun a ha => hy a (List.mem_of_mem_tail ha))) fun _ _ => .ok _
        exact gen _ _ _ kx ky
      rcases isList_cases h0 with hk0 | hk0 <;> rcases isList_cases h1 with hk1 | hk1
      · exact main _ _ hk0 hk1 (.inl rfl) (.inl rfl)
      · exact main _ _ hk0 hk1 (.inl rfl) (.inr rfl)
      · exact main _ _ hk0 hk1 (.inr rfl) (.inl rfl)
      · exact main _ _ hk0 hk1 (.inr rfl) (.inr rfl)
    | .lower, [], h, _, _, _ | .lower, _ :: _ :: _, h, _, _, _
    | .upper, [], h, _, _, _ | .upper, _ :: _ :: _, h, _, _, _
    | .json, [], h, _, _, _ | .json, _ :: _ :: _, h, _, _, _
    | .toInt, [], h, _, _, _ | .toInt, _ :: _ :: _, h, _, _, _
    | .toFloat, [], h, _, _, _ | .toFloat, _ :: _ :: _, h, _, _, _
    | .toStr, [], h, _, _, _ | .toStr, _ :: _ :: _, h, _, _, _
    | .strlen, [], h, _, _, _ | .strlen, _ :: _ :: _, h, _, _, _
    | .isInt, [], h, _, _, _ | .isInt, _ :: _ :: _, h, _, _, _
    | .isFloat, [], h, _, _, _ | .isFloat, _ :: _ :: _, h, _, _, _
    | .len, [], h, _, _, _ | .len, _ :: _ :: _, h, _, _, _
    | .subStr, [], h, _, _, _ | .subStr, [_], h, _, _, _ | .subStr, [_, _], h, _, _, _
    | .subStr, _ :: _ :: _ :: _ :: _, h, _, _, _
    | .split, [], h, _, _, _ | .split, [_], h, _, _, _ | .split, _ :: _ :: _ :: _, h, _, _, _
    | .cosine, [], h, _, _, _ | .cosine, [_], h, _, _, _ | .cosine, _ :: _ :: _ :: _, h, _, _, _
    | .l2, [], h, _, _, _ | .l2, [_], h, _, _, _ | .l2, _ :: _ :: _ :: _, h, _, _, _ => by
      simp [argsOk] at h
end

end Kvql
