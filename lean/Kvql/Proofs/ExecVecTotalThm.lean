import Kvql.Proofs.ExecVecTotal

namespace Kvql
open Generated

/-- the statement proved for every cycle-free expression -/
def BatchTotal (e : Expr) : Prop :=
  ∀ (chunk : List Pair) (c : Ctx), c.enable = false → (c.present = true → chunk ≠ []) → TotalAt (execBatch e chunk) c

theorem ok_facts {e : Expr} (hok : e.vecOk = true) {chunk : List Pair} {c : Ctx} (hc : c.enable = false)
    {vs : List Value} {c1 : Ctx} (h : execBatch e chunk c = (.ok vs, c1)) : c1 = c ∧ vs.length = chunk.length := by
  obtain ⟨e1, R⟩ := vec_eq_map_core e hok chunk c hc vs c1 h
  exact ⟨e1, R.length_eq⟩

theorem binop_total {e l r : Expr} {F : Nat → List Value → List Value → Except Err (List Value)}
    (hl : l.vecOk = true) (hr : r.vecOk = true)
    (hb : ∀ chunk, execBatch e chunk = (do
      let a ← execBatch l chunk
      let b ← execBatch r chunk
      M.lift (F chunk.length a b)))
    (hF : ∀ n as bs, as.length = n → bs.length = n → ExBenign (F n as bs))
    (ihl : BatchTotal l) (ihr : BatchTotal r) : BatchTotal e := by
  intro chunk c hc hne
  rw [hb]
  refine .bind (ihl chunk c hc hne) fun a c1 ha => ⟨(ok_facts hl hc ha).1, ?_⟩
  refine .bind (ihr chunk c hc hne) fun b c2 hb' => ⟨(ok_facts hr hc hb').1, ?_⟩
  exact .lift (hF _ _ _ (ok_facts hl hc ha).2 (ok_facts hr hc hb').2) c

theorem zipRows_hF {K : Value → Value → Except Err Value} (hK : ∀ x z, ExBenign (K x z)) :
    ∀ n as bs, as.length = n → bs.length = n → ExBenign (zipRows K n as bs) :=
  fun n as bs ha hb => zipRows_err hK n as bs ha hb

theorem unary_body_total {b : Body} {f : Value → Value} (hb : unaryOf b = some f) {a0 : Expr} {rest : List Expr}
    (h0 : a0.vecOk = true) (ih : BatchTotal a0) :
    ∀ (chunk : List Pair) (c : Ctx), c.enable = false → (c.present = true → chunk ≠ []) →
      TotalAt (vecBody b (a0 :: rest) chunk) c := by
  intro chunk c hc hne
  have hv : vecBody b (a0 :: rest) chunk = (do
      let rarg ← execBatch a0 chunk
      M.lift (mapRowsFresh f chunk.length rarg)) := by
    cases b <;> simp [unaryOf] at hb <;> subst hb <;> rw [vecBody]
  rw [hv]
  exact .bind (ih chunk c hc hne) fun a c1 ha =>
    ⟨(ok_facts h0 hc ha).1, .lift (mapRowsFresh_err _ _ (ok_facts h0 hc ha).2) c⟩

mutual
  theorem execBatch_total_core : ∀ (e : Expr), e.wf = true → e.vecOk = true → BatchTotal e
    | .str .., _, _ => fun _ c _ _ => by rw [execBatch]; exact .pure _ c
    | .field .., _, _ => fun _ c _ _ => by rw [execBatch]; exact .pure _ c
    | .name .., _, _ => fun _ c _ _ => by rw [execBatch]; exact .pure _ c
    | .num .., _, _ => fun _ c _ _ => by rw [execBatch]; exact .pure _ c
    | .float .., _, _ => fun _ c _ _ => by rw [execBatch]; exact .pure _ c
    | .bool .., _, _ => fun _ c _ _ => by rw [execBatch]; exact .pure _ c
    | .list .., _, _ => fun _ c _ _ => by rw [execBatch]; exact .pure _ c
    | .cycle, h, _ => by simp [Expr.wf] at h
    | .not p r, hw, hok => by
      intro chunk c hc hne
      have hr : r.vecOk = true := by simpa [Expr.vecOk] using hok
      rw [execBatch]
      refine .bind (execBatch_total_core r (by simpa [Expr.wf] using hw) hr chunk c hc hne) fun a c1 ha =>
        ⟨(ok_facts hr hc ha).1, .lift (mapRows_err (fun x => ExBenign.map (ExBenign.map exb_asBool)) _ _ (ok_facts hr hc ha).2) c⟩
    | .ref p name t, hw, hok => by
      intro chunk c hc hne
      have ht : t.vecOk = true := by simpa [Expr.vecOk] using hok
      have ih := execBatch_total_core t (by simpa [Expr.wf] using hw) ht chunk c hc hne
      intro e c' h
      rw [execBatch] at h
      dsimp only at h
      split at h
      · rename_i hp
        simp only [Bool.and_eq_true, List.isEmpty_iff] at hp
        exact absurd hp.2 (hne hp.1)
      · simp only [Ctx.getChunkFieldResult_off hc, ite_self] at h
        rcases hx : execBatch t chunk c with ⟨r, c1⟩
        rw [hx] at h
        cases r with
        | error e0 =>
          have hb := ih e0 c1 hx
          dsimp only at h
          simp at h
          rw [← h.1]; exact hb
        | ok vs => dsimp only at h; cases h
    | .access p l f, hw, hok => by
      intro chunk c hc hne
      have hl : l.vecOk = true := by simpa [Expr.vecOk] using hok
      simp only [Expr.wf, Bool.and_eq_true] at hw
      rw [execBatch]
      refine .bind (execBatch_total_core l hw.1 hl chunk c hc hne) fun left c1 ha => ⟨(ok_facts hl hc ha).1, ?_⟩
      split
      · exact .lift (mapRows_err (fun _ => exb_dictAccess) _ _ rfl) c
      · rename_i q d n
        exact .lift (mapRows_err (fun _ => exb_listAccess (by simpa using hw.2)) _ _ rfl) c
      · exact .throw benign_syntax c
    | .call p nm args, hw, hok => by
      intro chunk c hc hne
      simp only [Expr.wf] at hw
      have hargs : Expr.vecOkList args = true := by simpa [Expr.vecOk] using hok
      rw [execBatch]
      cases hn : funcNameOf nm with
      | error e0 =>
        dsimp only
        refine .throw ?_ c
        cases nm <;> simp [funcNameOf] at hn <;> subst hn <;> exact benign_syntax
      | ok fname =>
        dsimp only
        cases hf : lookupFunc fname with
        | none => exact .throw benign_unknownFunc c
        | some fo =>
          dsimp only
          by_cases h1 : (!fo.varArgs && args.length != fo.numArgs) = true
          · rw [if_pos h1]; exact .throw benign_arity c
          · rw [if_neg h1]
            by_cases h2 : (fo.varArgs && decide (args.length < fo.numArgs)) = true
            · rw [if_pos h2]; exact .throw benign_arity c
            · rw [if_neg h2]
              cases hb : fo.body with
              | none =>
                obtain ⟨e, he, rfl⟩ := lookupFunc_mem hf
                have : ∀ e ∈ funcTable, (FuncInfo.ofEntry e).body ≠ none := by decide
                exact absurd hb (this e he)
              | some b =>
                dsimp only
                have hneeds := lookup_needs hf hb
                have hlen : b.needs ≤ args.length := by
                  cases hv : fo.varArgs <;> simp [hv] at h1 h2 <;> omega
                refine .ite (vecBody_total_core b args hw hargs hlen chunk c hc hne) ?_
                exact rowWiseNoCtx_totalAt (fun kv => rowBody_total b args kv hw hlen) chunk c
    | .binop p op l r, hw, hok => by
      have hl : l.vecOk = true := by simp [Expr.vecOk] at hok; exact hok.1.1
      have hr : r.vecOk = true := by simp [Expr.vecOk] at hok; exact hok.1.2
      simp only [Expr.wf, Bool.and_eq_true] at hw
      have ihl := execBatch_total_core l hw.1 hl
      have ihr := execBatch_total_core r hw.2 hr
      cases op
      · exact binop_total hl hr (F := zipRows andK) (fun _ => by rw [execBatch]; rfl) (zipRows_hF fun _ _ => exb_andK) ihl ihr
      · exact binop_total hl hr (F := zipRows orK) (fun _ => by rw [execBatch]; rfl) (zipRows_hF fun _ _ => exb_orK) ihl ihr
      · intro chunk c hc hne; rw [execBatch]; exact .throw benign_unknownOp c
      · exact binop_total hl hr (F := equalBatchFinish false) (fun _ => by rw [execBatch])
          (fun n as bs ha hb => equalBatchFinish_err ha hb) ihl ihr
      · exact binop_total hl hr (F := equalBatchFinish true) (fun _ => by rw [execBatch])
          (fun n as bs ha hb => equalBatchFinish_err ha hb) ihl ihr
      · exact binop_total hl hr (F := zipRows prefixK) (fun _ => by rw [execBatch]; rfl) (zipRows_hF fun _ _ => exb_prefixK) ihl ihr
      · exact binop_total hl hr (F := zipRows regexK) (fun _ => by rw [execBatch]; rfl) (zipRows_hF fun _ _ => exb_regexK) ihl ihr
      · cases hs : (retType l == tyTSTR)
        · exact binop_total hl hr (F := zipRows (fun x y => executeMathOp x y .add))
            (fun _ => by rw [execBatch]; simp [hs]) (zipRows_hF fun _ _ => exb_executeMathOp) ihl ihr
        · exact binop_total hl hr (F := zipRows concatK)
            (fun _ => by rw [execBatch]; simp [hs]; rfl) (zipRows_hF fun _ _ => exb_concatK) ihl ihr
      · exact binop_total hl hr (F := zipRows (fun x y => executeMathOp x y .sub))
          (fun _ => by rw [execBatch]) (zipRows_hF fun _ _ => exb_executeMathOp) ihl ihr
      · exact binop_total hl hr (F := zipRows (fun x y => executeMathOp x y .mul))
          (fun _ => by rw [execBatch]) (zipRows_hF fun _ _ => exb_executeMathOp) ihl ihr
      · exact binop_total hl hr (F := zipRows (fun x y => executeMathOp x y .div))
          (fun _ => by rw [execBatch]) (zipRows_hF fun _ _ => exb_executeMathOp) ihl ihr
      · exact binop_total hl hr (F := zipRows (fun x y => boolV (compareBy (!(retType l == tyTSTR)) x y .gt)))
          (fun _ => by rw [execBatch]) (zipRows_hF fun _ _ => ExBenign.map exb_compareBy) ihl ihr
      · exact binop_total hl hr (F := zipRows (fun x y => boolV (compareBy (!(retType l == tyTSTR)) x y .gte)))
          (fun _ => by rw [execBatch]) (zipRows_hF fun _ _ => ExBenign.map exb_compareBy) ihl ihr
      · exact binop_total hl hr (F := zipRows (fun x y => boolV (compareBy (!(retType l == tyTSTR)) x y .lt)))
          (fun _ => by rw [execBatch]) (zipRows_hF fun _ _ => ExBenign.map exb_compareBy) ihl ihr
      · exact binop_total hl hr (F := zipRows (fun x y => boolV (compareBy (!(retType l == tyTSTR)) x y .lte)))
          (fun _ => by rw [execBatch]) (zipRows_hF fun _ _ => ExBenign.map exb_compareBy) ihl ihr
      · -- in
        intro chunk c hc hne
        rw [execBatch]
        refine .bind (ihl chunk c hc hne) fun rleft c1 ha => ⟨(ok_facts hl hc ha).1, ?_⟩
        have hlen := (ok_facts hl hc ha).2
        dsimp only
        split
        · rename_i q items
          have hwi : Expr.wfList items = true := by simpa [Expr.wf] using hw.2
          have hoki : Expr.vecOkList items = true := by simpa [Expr.vecOk] using hr
          refine .bind (inItemsBatch_total_core _ items hwi hoki chunk c hc hne) fun cols c2 hcols => ?_
          obtain ⟨e2, hC⟩ := inItems_core _ items hoki chunk c hc cols c2 hcols
          refine ⟨e2, .lift (inRows_err _ 0 rleft hlen ?_) c⟩
          intro col hcol
          have : ∀ {cols items}, ColsOk (!(retType l == tyTSTR)) c chunk cols items → ∀ col ∈ cols, col.length = chunk.length := by
            intro cols items hC
            induction hC with
            | nil => intro col h; simp at h
            | cons hp _ ih =>
              intro col h
              rcases List.mem_cons.mp h with rfl | h
              · exact hp.2.length_eq
              · exact ih col h
          simpa using this hC col hcol
        · exact .bind (ihr chunk c hc hne) fun frets c2 hb =>
            ⟨(ok_facts hr hc hb).1, .lift (inCallRows_err _ _ _ hlen (ok_facts hr hc hb).2) c⟩
        · exact .bind (ihr chunk c hc hne) fun frets c2 hb =>
            ⟨(ok_facts hr hc hb).1, .lift (inCallRows_err _ _ _ hlen (ok_facts hr hc hb).2) c⟩
        · exact .throw benign_operandType c
      · -- between
        intro chunk c hc hne
        rw [execBatch]
        refine .bind (ihl chunk c hc hne) fun rleft c1 ha => ⟨(ok_facts hl hc ha).1, ?_⟩
        have hlen := (ok_facts hl hc ha).2
        split
        · rename_i q lo hi
          have hwl : lo.wf = true ∧ hi.wf = true := by simpa [Expr.wf, Expr.wfList] using hw.2
          have hol : lo.vecOk = true ∧ hi.vecOk = true := by simpa [Expr.vecOk, Expr.vecOkList] using hr
          refine .ite (.throw benign_operandType c) (.ite (.throw benign_operandType c)
            (.ite (.throw benign_operandType c) (.ite (.throw benign_operandType c) ?_)))
          refine .bind (execBatch_total_core lo hwl.1 hol.1 chunk c hc hne) fun lb c2 hb => ⟨(ok_facts hol.1 hc hb).1, ?_⟩
          refine .bind (execBatch_total_core hi hwl.2 hol.2 chunk c hc hne) fun ub c3 hu => ⟨(ok_facts hol.2 hc hu).1, ?_⟩
          exact .lift (betweenRows_err _ _ _ _ hlen (ok_facts hol.1 hc hb).2 (ok_facts hol.2 hc hu).2) c
        · exact .throw benign_operandType c
      · exact binop_total hl hr (F := zipRows andK) (fun _ => by rw [execBatch]; rfl) (zipRows_hF fun _ _ => exb_andK) ihl ihr
      · exact binop_total hl hr (F := zipRows orK) (fun _ => by rw [execBatch]; rfl) (zipRows_hF fun _ _ => exb_orK) ihl ihr

  theorem inItemsBatch_total_core : ∀ (number : Bool) (items : List Expr), Expr.wfList items = true →
      Expr.vecOkList items = true → ∀ (chunk : List Pair) (c : Ctx), c.enable = false →
        (c.present = true → chunk ≠ []) → TotalAt (execInItemsBatch number items chunk) c
    | _, [], _, _ => fun _ c _ _ => by rw [execInItemsBatch]; exact .pure _ c
    | number, e :: es, hw, hok => by
      intro chunk c hc hne
      simp only [Expr.wfList, Bool.and_eq_true] at hw
      simp only [Expr.vecOkList, Bool.and_eq_true] at hok
      rw [execInItemsBatch]
      refine .ite (.throw benign_operandType c) ?_
      refine .bind (execBatch_total_core e hw.1 hok.1 chunk c hc hne) fun vals c1 hv => ⟨(ok_facts hok.1 hc hv).1, ?_⟩
      refine .bind (inItemsBatch_total_core number es hw.2 hok.2 chunk c hc hne) fun rest c2 hr => ?_
      exact ⟨(inItems_core number es hok.2 chunk c hc rest c2 hr).1, .pure _ c⟩

  theorem vecBody_total_core : ∀ (b : Body) (args : List Expr), Expr.wfList args = true →
      Expr.vecOkList args = true → b.needs ≤ args.length → ∀ (chunk : List Pair) (c : Ctx), c.enable = false →
        (c.present = true → chunk ≠ []) → TotalAt (vecBody b args chunk) c
    | .join, args, hw, _, hn => fun chunk c _ _ => by
      rw [vecBody]; exact rowWiseNoCtx_totalAt (fun kv => rowBody_total .join args kv hw hn) chunk c
    | .toList, args, hw, _, hn => fun chunk c _ _ => by
      rw [vecBody]; exact rowWiseNoCtx_totalAt (fun kv => rowBody_total .toList args kv hw hn) chunk c
    | .intList, args, hw, _, hn => fun chunk c _ _ => by
      rw [vecBody]; exact rowWiseNoCtx_totalAt (fun kv => rowBody_total .intList args kv hw hn) chunk c
    | .floatList, args, hw, _, hn => fun chunk c _ _ => by
      rw [vecBody]; exact rowWiseNoCtx_totalAt (fun kv => rowBody_total .floatList args kv hw hn) chunk c
    | .lower, a0 :: _, hw, hok, _ => by
      simp [Expr.wfList] at hw; simp [Expr.vecOkList] at hok
      exact unary_body_total rfl hok.1 (execBatch_total_core a0 hw.1 hok.1)
    | .upper, a0 :: _, hw, hok, _ => by
      simp [Expr.wfList] at hw; simp [Expr.vecOkList] at hok
      exact unary_body_total rfl hok.1 (execBatch_total_core a0 hw.1 hok.1)
    | .toInt, a0 :: _, hw, hok, _ => by
      simp [Expr.wfList] at hw; simp [Expr.vecOkList] at hok
      exact unary_body_total rfl hok.1 (execBatch_total_core a0 hw.1 hok.1)
    | .toFloat, a0 :: _, hw, hok, _ => by
      simp [Expr.wfList] at hw; simp [Expr.vecOkList] at hok
      exact unary_body_total rfl hok.1 (execBatch_total_core a0 hw.1 hok.1)
    | .toStr, a0 :: _, hw, hok, _ => by
      simp [Expr.wfList] at hw; simp [Expr.vecOkList] at hok
      exact unary_body_total rfl hok.1 (execBatch_total_core a0 hw.1 hok.1)
    | .isInt, a0 :: _, hw, hok, _ => by
      simp [Expr.wfList] at hw; simp [Expr.vecOkList] at hok
      exact unary_body_total rfl hok.1 (execBatch_total_core a0 hw.1 hok.1)
    | .isFloat, a0 :: _, hw, hok, _ => by
      simp [Expr.wfList] at hw; simp [Expr.vecOkList] at hok
      exact unary_body_total rfl hok.1 (execBatch_total_core a0 hw.1 hok.1)
    | .strlen, a0 :: _, hw, hok, _ => by
      simp [Expr.wfList] at hw; simp [Expr.vecOkList] at hok
      exact unary_body_total rfl hok.1 (execBatch_total_core a0 hw.1 hok.1)
    | .len, a0 :: _, hw, hok, _ => by
      intro chunk c hc hne
      simp [Expr.wfList] at hw; simp [Expr.vecOkList] at hok
      rw [vecBody]
      exact .bind (execBatch_total_core a0 hw.1 hok.1 chunk c hc hne) fun a c1 ha =>
        ⟨(ok_facts hok.1 hc ha).1, .lift (mapRows_err (fun _ => ExBenign.map exb_getListLength) _ _ (ok_facts hok.1 hc ha).2) c⟩
    | .json, a0 :: _, hw, hok, _ => by
      intro chunk c hc hne
      simp [Expr.wfList] at hw; simp [Expr.vecOkList] at hok
      rw [vecBody]
      refine .bind (execBatch_total_core a0 hw.1 hok.1 chunk c hc hne) fun a c1 ha =>
        ⟨(ok_facts hok.1 hc ha).1, .lift (mapRows_err (fun x => ?_) _ _ (ok_facts hok.1 hc ha).2) c⟩
      split <;> first | exact .ok _ | exact .err benign_operandType
    | .subStr, a0 :: a1 :: a2 :: _, hw, hok, _ => by
      intro chunk c hc hne
      simp [Expr.wfList] at hw; simp [Expr.vecOkList] at hok
      rw [vecBody]
      refine .ite (.throw benign_operandType c) (.ite (.throw benign_operandType c) ?_)
      refine .bind (execBatch_total_core a0 hw.1 hok.1 chunk c hc hne) fun vs c1 h0 => ⟨(ok_facts hok.1 hc h0).1, ?_⟩
      refine .bind (execBatch_total_core a1 hw.2.1 hok.2.1 chunk c hc hne) fun ss c2 h1 => ⟨(ok_facts hok.2.1 hc h1).1, ?_⟩
      refine .bind (execBatch_total_core a2 hw.2.2.1 hok.2.2.1 chunk c hc hne) fun ls c3 h2 => ⟨(ok_facts hok.2.2.1 hc h2).1, ?_⟩
      exact .lift (zip3Rows_err (fun _ _ _ => exb_substrKernel) _ _ _ _ (ok_facts hok.1 hc h0).2
        (ok_facts hok.2.1 hc h1).2 (ok_facts hok.2.2.1 hc h2).2) c
    | .split, a0 :: a1 :: _, hw, hok, _ => by
      intro chunk c hc hne
      simp [Expr.wfList] at hw; simp [Expr.vecOkList] at hok
      rw [vecBody]
      refine .ite (.throw benign_operandType c) ?_
      refine .bind (execBatch_total_core a0 hw.1 hok.1 chunk c hc hne) fun vs c1 h0 => ⟨(ok_facts hok.1 hc h0).1, ?_⟩
      refine .bind (execBatch_total_core a1 hw.2.1 hok.2.1 chunk c hc hne) fun ss c2 h1 => ⟨(ok_facts hok.2.1 hc h1).1, ?_⟩
      exact .lift (zipRows_err (fun _ _ => .ok _) _ _ _ (ok_facts hok.1 hc h0).2 (ok_facts hok.2.1 hc h1).2) c
    | .cosine, a0 :: a1 :: _, hw, hok, _ => by
      intro chunk c hc hne
      simp [Expr.wfList] at hw; simp [Expr.vecOkList] at hok
      rw [vecBody]
      refine .bind (execBatch_total_core a0 hw.1 hok.1 chunk c hc hne) fun vs c1 h0 => ⟨(ok_facts hok.1 hc h0).1, ?_⟩
      refine .bind (execBatch_total_core a1 hw.2.1 hok.2.1 chunk c hc hne) fun ss c2 h1 => ⟨(ok_facts hok.2.1 hc h1).1, ?_⟩
      exact .lift (zipRowsLazy_err (fun _ _ => exb_distanceRow fun _ _ => exb_cosineDistance) _ _ _
        (ok_facts hok.1 hc h0).2 (ok_facts hok.2.1 hc h1).2) c
    | .l2, a0 :: a1 :: _, hw, hok, _ => by
      intro chunk c hc hne
      simp [Expr.wfList] at hw; simp [Expr.vecOkList] at hok
      rw [vecBody]
      refine .bind (execBatch_total_core a0 hw.1 hok.1 chunk c hc hne) fun vs c1 h0 => ⟨(ok_facts hok.1 hc h0).1, ?_⟩
      refine .bind (execBatch_total_core a1 hw.2.1 hok.2.1 chunk c hc hne) fun ss c2 h1 => ⟨(ok_facts hok.2.1 hc h1).1, ?_⟩
      exact .lift (zipRowsLazy_err (fun _ _ => exb_distanceRow fun _ _ => exb_l2Distance) _ _ _
        (ok_facts hok.1 hc h0).2 (ok_facts hok.2.1 hc h1).2) c
    | .lower, [], _, _, hn | .upper, [], _, _, hn | .toInt, [], _, _, hn | .toFloat, [], _, _, hn
    | .toStr, [], _, _, hn | .isInt, [], _, _, hn | .isFloat, [], _, _, hn | .strlen, [], _, _, hn
    | .len, [], _, _, hn | .json, [], _, _, hn
    | .subStr, [], _, _, hn | .subStr, [_], _, _, hn | .subStr, [_, _], _, _, hn
    | .split, [], _, _, hn | .split, [_], _, _, hn
    | .cosine, [], _, _, hn | .cosine, [_], _, _, hn
    | .l2, [], _, _, hn | .l2, [_], _, _, hn => by simp [Body.needs] at hn
end

end Kvql
