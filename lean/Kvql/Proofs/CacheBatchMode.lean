/-
  C05 (c), batch mode: the drain of `ProjectionPlan.Batch` over a scan equals a cache-free specification
  (`batchesSpec`), with the cache on and with it off.  Hence the cache is invisible in batch mode.

  The chunk caches are keyed by (name, first key of the inner chunk): within one `Batch` call the inner
  chunks must start with different keys (`DistinctFk`; true of a cursor whose keys are distinct:
  `distinctFk_chunksOf`).  `AdjustChunkCache` then leaves, under every name the filter touched, the
  column of exactly the accepted pairs, which `batch_pairwise` identifies with what `ExecuteBatch` returns
  on the accepted pairs.
-/
import Kvql.Proofs.CacheBatchLemmas
import Kvql.Proofs.CacheRowMode

set_option linter.unusedSectionVars false
set_option linter.unusedSimpArgs false
set_option linter.unusedVariables false

namespace Kvql.Cache
open Kvql Kvql.Project

/-! ### the cache-free specification of batch mode -/

def filterChunkSpec (w : Expr) (ch : List Pair) : Except PErr (List Bool) :=
  match nocacheB w ch with
  | .error e => .error (.eval e)
  | .ok vs =>
    match vs.mapM boolOf? with
    | some ms => .ok ms
    | none => .error .whereNotBool

def scanLoopSpec (w : Expr) (bs : Nat) : List (List Pair) → Sel → Except PErr (Sel × List (List Pair))
  | [], s => .ok (s, [])
  | [] :: rest, s => scanLoopSpec w bs rest s
  | (p :: ps) :: rest, s =>
    match filterChunkSpec w (p :: ps) with
    | .error e => .error e
    | .ok ms =>
      match selectLoop ms (p :: ps) s with
      | .error e => .error e
      | .ok s1 => if s1.ret.length ≥ bs then .ok (s1, rest) else scanLoopSpec w bs rest s1

def colsSpec : List Field → List Pair → Except PErr (List (List Value))
  | [], _ => .ok []
  | f :: fs, ch =>
    match nocacheB f.expr ch with
    | .error e => .error (.eval e)
    | .ok col =>
      match colsSpec fs ch with
      | .error e => .error e
      | .ok cols => .ok (col :: cols)

/-- one `Batch` call: the accepted pairs of the inner chunks it consumes, each field's batch column on
    exactly those pairs, transposed -/
def nextBatchSpec (w : Expr) (fields : List Field) (bs : Nat) (chunks : List (List Pair)) :
    Except PErr (List Row × List (List Pair)) :=
  match scanLoopSpec w bs chunks {} with
  | .error e => .error e
  | .ok (s, rest) =>
    match s.ret with
    | [] => .ok ([], rest)
    | kv :: kvs =>
      match colsSpec fields (kv :: kvs) with
      | .error e => .error e
      | .ok cols =>
        match rowsOfCols (kv :: kvs).length cols with
        | .error e => .error e
        | .ok rows => .ok (rows, rest)

def batchesSpec (w : Expr) (fields : List Field) (bs : Nat) : Nat → List (List Pair) → List (List Row) × Option PErr
  | 0, _ => ([], some .fuel)
  | n + 1, chunks =>
    match nextBatchSpec w fields bs chunks with
    | .error e => ([], some e)
    | .ok ([], _) => ([], none)
    | .ok (r :: rs, rest) =>
      ((r :: rs) :: (batchesSpec w fields bs n rest).1, (batchesSpec w fields bs n rest).2)

/-- inner chunks that are not empty start with different keys -/
def DistinctFk (chunks : List (List Pair)) : Prop :=
  chunks.Pairwise (fun a b => a ≠ [] → b ≠ [] → fk a ≠ fk b)

section
variable {A : Aliases} (hfun : Functional A)
include hfun

/-! ### cache off -/

theorem execBatch_offB {e : Expr} (hw : WF A e) {ch : List Pair} (hne : ch ≠ []) : OffB (execBatch e ch) :=
  (execBatch_bs (E := ⟨A, ch, [ch], fun _ => none⟩)
    ⟨hfun, hne, by simp, fun ch' h _ => by simpa using h⟩ e hw).1

theorem execBatch_off_eq {e : Expr} (hw : WF A e) {ch : List Pair} (hne : ch ≠ []) {c : Ctx} (hc : c.enable = false) :
    execBatch e ch c = (nocacheB e ch, c) := execBatch_offB hfun hw hne c hc

theorem filterChunk_off {w : Expr} (hw : WF A w) {ch : List Pair} (hne : ch ≠ []) {c : Ctx} (hc : c.enable = false) :
    filterChunk w ch c = (filterChunkSpec w ch, c) := by
  unfold filterChunk filterChunkSpec
  rw [execBatch_off_eq hfun hw hne hc]
  cases nocacheB w ch with
  | error e => rfl
  | ok vs => simp only; cases vs.mapM boolOf? <;> rfl

theorem scanLoop_off {w : Expr} (hw : WF A w) (bs : Nat) {c : Ctx} (hc : c.enable = false) :
    ∀ (chunks : List (List Pair)) (s : Sel), scanBatchLoop w bs chunks s c = (scanLoopSpec w bs chunks s, c)
  | [], s => rfl
  | [] :: rest, s => by rw [scanBatchLoop, scanLoopSpec]; exact scanLoop_off hw bs hc rest s
  | (p :: ps) :: rest, s => by
    rw [scanBatchLoop, scanLoopSpec, filterChunk_off hfun hw (by simp) hc]
    cases filterChunkSpec w (p :: ps) with
    | error e => rfl
    | ok ms =>
      simp only
      cases selectLoop ms (p :: ps) s with
      | error e => rfl
      | ok s1 =>
        simp only
        split
        · rfl
        · exact scanLoop_off hw bs hc rest s1

omit hfun in
theorem adjust_off {c : Ctx} (hc : c.enable = false) (l : List Nat) : c.adjustChunkCache l = c := by
  simp [Ctx.adjustChunkCache, hc]

theorem fieldCol_off (seen : List Bytes) {f : Field} (hw : WF A f.expr) {ch : List Pair} (hne : ch ≠ []) {c : Ctx}
    (hc : c.enable = false) : fieldCol seen f ch c = (nocacheB f.expr ch, c) := by
  unfold fieldCol
  have : (if seen.contains f.name = true then none else c.getChunkFieldFinalResult f.name) = none := by
    split <;> simp [Ctx.getChunkFieldFinalResult, hc]
  rw [this]
  simp only
  rw [execBatch_off_eq hfun hw hne (c := Ctx.none) rfl]

theorem projectCols_off : ∀ (seen : List Bytes) (fields : List Field), FieldsWF A fields → ∀ {ch : List Pair}, ch ≠ [] →
    ∀ {c : Ctx}, c.enable = false → projectColsFrom seen fields ch c = (colsSpec fields ch, c)
  | _, [], _, _, _, _, _ => rfl
  | seen, f :: fs, hwf, ch, hne, c, hc => by
    rw [projectColsFrom, colsSpec, fieldCol_off hfun seen (hwf f (by simp)) hne hc]
    cases nocacheB f.expr ch with
    | error e => rfl
    | ok col =>
      simp only
      rw [projectCols_off (seen ++ [f.name]) fs (fun g hg => hwf g (by simp [hg])) hne hc]
      cases colsSpec fs ch <;> rfl

theorem nextBatch_off {w : Expr} (hw : WF A w) {fields : List Field} (hwf : FieldsWF A fields) (bs : Nat)
    (chunks : List (List Pair)) {c : Ctx} (hc : c.enable = false) :
    nextBatch w fields bs chunks c = (nextBatchSpec w fields bs chunks, c) := by
  unfold nextBatch nextBatchSpec scanBatch
  rw [clear_off hc, scanLoop_off hfun hw bs hc]
  cases scanLoopSpec w bs chunks {} with
  | error e => rfl
  | ok r =>
    obtain ⟨s, rest⟩ := r
    simp only [adjust_off hc]
    cases hret : s.ret with
    | nil => rfl
    | cons kv kvs =>
      simp only
      unfold projectCols
      rw [projectCols_off hfun [] fields hwf (by simp) hc]
      cases colsSpec fields (kv :: kvs) with
      | error e => rfl
      | ok cols => simp only; cases rowsOfCols (kv :: kvs).length cols <;> rfl

theorem drainBatchFuel_off {w : Expr} (hw : WF A w) {fields : List Field} (hwf : FieldsWF A fields) (bs : Nat) :
    ∀ (n : Nat) (chunks : List (List Pair)) {c : Ctx}, c.enable = false →
      ((drainBatchFuel w fields bs n chunks c).1, (drainBatchFuel w fields bs n chunks c).2.1) =
        batchesSpec w fields bs n chunks
  | 0, _, _, _ => rfl
  | n + 1, chunks, c, hc => by
    rw [drainBatchFuel, batchesSpec, nextBatch_off hfun hw hwf bs chunks hc]
    cases nextBatchSpec w fields bs chunks with
    | error e => rfl
    | ok r =>
      obtain ⟨rows, rest⟩ := r
      cases rows with
      | nil => rfl
      | cons r rs =>
        simp only
        have ih := drainBatchFuel_off hw hwf bs n rest hc
        rw [← ih]

/-! ### cache on: the invariant of a scan's `Batch` between two inner chunks -/

/-- the names the filter caches a column for, on every chunk -/
def T0 (w : Expr) : Flags := touch w (fun _ => false)

structure LoopInv (A : Aliases) (w : Expr) (P : List (List Pair)) (s : Sel) (c : Ctx) : Prop where
  on : CtxOn c
  kval : ∀ ckey col, assocGet c.chunkKeyCache ckey = some col →
    ∃ n t ch', (n, t) ∈ A ∧ ch' ∈ P ∧ ckey = Ctx.chunkKey n (fk ch') ∧ nocacheB t ch' = .ok col
  bnd1 : ∀ n, T0 w n = true → P ≠ [] → ∃ t cols, (n, t) ∈ A ∧
    Rows (fun col ch' => ch' ≠ [] ∧ nocacheB t ch' = .ok col) cols P ∧ assocGet c.chunkCache n = some cols.flatten
  bnd0 : ∀ n, (T0 w n = false ∨ P = []) → assocGet c.chunkCache n = none
  sel : ∃ mask : List Bool, mask.length = P.flatten.length ∧ s.ret = maskFilter mask P.flatten ∧
    s.choose = idxsFrom 0 mask ∧ s.bidx = P.flatten.length

omit hfun in
theorem LoopInv.start {w : Expr} {c : Ctx} (hon : CtxOn c) : LoopInv A w [] {} c.clear := by
  have hc : c.clear = { c with fieldCache := [], chunkCache := [], chunkKeyCache := [] } := by
    simp [Ctx.clear, hon.2]
  refine ⟨hon.clear, ?_, fun _ _ h => absurd rfl h, ?_, ⟨[], rfl, rfl, rfl, rfl⟩⟩
  · intro ckey col h; rw [hc] at h; simp [assocGet] at h
  · intro n _; rw [hc]; simp [assocGet]

theorem loop_step {w : Expr} (hw : WF A w) {P : List (List Pair)} {s : Sel} {c : Ctx} (inv : LoopInv A w P s c)
    {ch : List Pair} (hne : ch ≠ []) (hfresh : ∀ ch' ∈ P, fk ch' ≠ fk ch) :
    (filterChunk w ch c).1 = filterChunkSpec w ch ∧
    ∀ ms, filterChunkSpec w ch = .ok ms → ms.length = ch.length ∧
      ∀ s1, selectLoop ms ch s = .ok s1 → LoopInv A w (P ++ [ch]) s1 (filterChunk w ch c).2 := by
  let E : BEnv := ⟨A, ch, P ++ [ch], fun n => assocGet c.chunkCache n⟩
  have hE : E.Ok := ⟨hfun, hne, by simp [E], fun ch' h e => by
    rcases List.mem_append.mp h with h | h
    · exact absurd e (hfresh ch' h)
    · simpa using h⟩
  -- no entry for this chunk yet
  have hnone : ∀ n, assocGet c.chunkKeyCache (Ctx.chunkKey n (fk ch)) = none := by
    intro n
    cases hg : assocGet c.chunkKeyCache (Ctx.chunkKey n (fk ch)) with
    | none => rfl
    | some col =>
      obtain ⟨n', t', ch', _, hP, hk, _⟩ := inv.kval _ _ hg
      exact absurd (chunkKey_inj hk).2.symm (hfresh ch' hP)
  have hinv : BInv E c := by
    refine ⟨inv.on, ?_, ?_⟩
    · intro ckey col h
      obtain ⟨n, t, ch', h1, h2, h3, h4⟩ := inv.kval ckey col h
      exact ⟨n, t, ch', h1, List.mem_append_left _ h2, h3, h4⟩
    · intro n; show assocGet c.chunkCache n = _; rw [show fk E.ch = fk ch from rfl, hnone n]
  obtain ⟨h1, h2, h3⟩ := (execBatch_bs hE w hw).2 c hinv
  have hflag0 : flagOf E c = fun _ => false := by
    funext n; simp [flagOf, show fk E.ch = fk ch from rfl, hnone n]
  unfold filterChunk filterChunkSpec
  rcases hx : execBatch w ch c with ⟨r, c1⟩
  rw [show E.ch = ch from rfl, hx] at h1 h2 h3
  simp only at h1 h2 h3
  have h1' : r = nocacheB w ch := h1
  subst h1'
  cases hr : nocacheB w ch with
  | error e => exact ⟨rfl, fun ms h => by cases h⟩
  | ok vs =>
    have hlen := nocacheB_length hne hr
    simp only
    cases hm : vs.mapM boolOf? with
    | none => exact ⟨rfl, fun ms h => by cases h⟩
    | some ms0 =>
      refine ⟨rfl, fun ms hms => ?_⟩
      have : ms0 = ms := by simpa using hms
      subst this
      have hmlen : ms0.length = ch.length := by rw [mapM_boolOf_length hm, hlen]
      refine ⟨hmlen, fun s1 hs1 => ?_⟩
      rw [selectLoop_spec ms0 ch s hmlen] at hs1
      have hs1' : s1 = (⟨s.ret ++ maskFilter ms0 ch, s.choose ++ idxsFrom s.bidx ms0, s.bidx + ms0.length⟩ : Sel) := by
        simpa using hs1.symm
      have hfl : flagOf E c1 = T0 w := by rw [h3 vs (by rw [hr]), hflag0]; rfl
      obtain ⟨hon1, hkv1, hloc1⟩ := h2
      refine ⟨hon1, hkv1, ?_, ?_, ?_⟩
      · -- touched names: the column of this chunk is appended
        intro n hn _
        have hsome : (assocGet c1.chunkKeyCache (Ctx.chunkKey n (fk ch))).isSome = true := by
          have := congrFun hfl n; simpa [flagOf, show fk E.ch = fk ch from rfl, hn] using this
        cases hg : assocGet c1.chunkKeyCache (Ctx.chunkKey n (fk ch)) with
        | none => rw [hg] at hsome; cases hsome
        | some col =>
          obtain ⟨n', t', ch', hA', hV, hk, hval⟩ := hkv1 _ _ hg
          obtain ⟨e1, e2⟩ := chunkKey_inj hk
          subst e1
          have : ch' = ch := hE.uniq ch' hV e2.symm
          subst this
          have hl := hloc1 n
          rw [show fk E.ch = fk ch' from rfl, hg] at hl
          by_cases hP : P = []
          · subst hP
            have h0 := inv.bnd0 n (.inr rfl)
            refine ⟨t', [col], hA', .cons ⟨hne, hval⟩ .nil, ?_⟩
            rw [hl]; show some ((assocGet c.chunkCache n).getD [] ++ col) = _
            rw [h0]; simp
          · obtain ⟨t, cols, hA, hrows, hc0⟩ := inv.bnd1 n hn hP
            have : t' = t := hfun n t' t hA' hA
            subst this
            refine ⟨t', cols ++ [col], hA, Rows.append hrows (.cons ⟨hne, hval⟩ .nil), ?_⟩
            rw [hl]; show some ((assocGet c.chunkCache n).getD [] ++ col) = _
            rw [hc0]; simp
      · -- untouched names stay absent
        intro n hn
        rcases hn with hn | hn
        · have hnone1 : assocGet c1.chunkKeyCache (Ctx.chunkKey n (fk ch)) = none := by
            have := congrFun hfl n
            simp only [flagOf, show fk E.ch = fk ch from rfl, hn] at this
            cases hg : assocGet c1.chunkKeyCache (Ctx.chunkKey n (fk ch)) with
            | none => rfl
            | some _ => rw [hg] at this; cases this
          have hl := hloc1 n
          rw [show fk E.ch = fk ch from rfl, hnone1] at hl
          rw [hl]; exact inv.bnd0 n (.inl hn)
        · simp at hn
      · -- the bookkeeping of accepted pairs
        obtain ⟨mask, hm1, hm2, hm3, hm4⟩ := inv.sel
        refine ⟨mask ++ ms0, ?_, ?_, ?_, ?_⟩
        · simp [hm1, hmlen]
        · rw [hs1']; simp only [List.flatten_append, List.flatten_cons, List.flatten_nil, List.append_nil]
          rw [maskFilter_append mask ms0 _ _ hm1, hm2]
        · rw [hs1', idxsFrom_append, hm3, hm4, hm1]; simp
        · rw [hs1']; simp [hm4, hmlen]

theorem scanLoop_on {w : Expr} (hw : WF A w) (bs : Nat) : ∀ (chunks : List (List Pair)) (P : List (List Pair)) (s : Sel)
    (c : Ctx), LoopInv A w P s c → DistinctFk chunks → (∀ ch' ∈ P, ∀ ch ∈ chunks, ch ≠ [] → fk ch' ≠ fk ch) →
    (scanBatchLoop w bs chunks s c).1 = scanLoopSpec w bs chunks s ∧
    ∀ s' rest, scanLoopSpec w bs chunks s = .ok (s', rest) →
      ∃ P', LoopInv A w P' s' (scanBatchLoop w bs chunks s c).2 ∧ ∃ pre, chunks = pre ++ rest
  | [], P, s, c, inv, _, _ => ⟨rfl, fun s' rest h => by
      simp [scanLoopSpec] at h; obtain ⟨rfl, rfl⟩ := h; exact ⟨P, inv, [], rfl⟩⟩
  | [] :: more, P, s, c, inv, hd, hp => by
    rw [scanBatchLoop, scanLoopSpec]
    obtain ⟨h1, h2⟩ := scanLoop_on hw bs more P s c inv (List.Pairwise.of_cons hd)
      (fun ch' h ch hc => hp ch' h ch (List.mem_cons_of_mem _ hc))
    refine ⟨h1, fun s' rest h => ?_⟩
    obtain ⟨P', hi, pre, hpre⟩ := h2 s' rest h
    exact ⟨P', hi, [] :: pre, by simp [hpre]⟩
  | (p :: ps) :: more, P, s, c, inv, hd, hp => by
    have hne : (p :: ps) ≠ [] := by simp
    obtain ⟨g1, g2⟩ := loop_step hfun hw inv hne (fun ch' h => hp ch' h (p :: ps) (by simp) hne)
    rw [scanBatchLoop, scanLoopSpec]
    rcases hx : filterChunk w (p :: ps) c with ⟨r, c1⟩
    rw [hx] at g1 g2
    simp only at g1 g2
    rw [← g1]
    cases r with
    | error e => exact ⟨rfl, fun s' rest h => by cases h⟩
    | ok ms =>
      simp only
      obtain ⟨hlen, g3⟩ := g2 ms g1.symm
      cases hsel : selectLoop ms (p :: ps) s with
      | error e => exact ⟨rfl, fun s' rest h => by cases h⟩
      | ok s1 =>
        simp only
        have inv1 := g3 s1 hsel
        split
        · refine ⟨rfl, fun s' rest h => ?_⟩
          simp at h; obtain ⟨rfl, rfl⟩ := h
          exact ⟨P ++ [p :: ps], inv1, [p :: ps], by simp⟩
        · have hd' := List.Pairwise.of_cons hd
          have hrel := (List.pairwise_cons.mp hd).1
          obtain ⟨h1, h2⟩ := scanLoop_on hw bs more (P ++ [p :: ps]) s1 c1 inv1 hd' (fun ch' h ch hc hcne => by
            rcases List.mem_append.mp h with h | h
            · exact hp ch' h ch (List.mem_cons_of_mem _ hc) hcne
            · simp at h; subst h; exact hrel ch hc hne hcne)
          refine ⟨h1, fun s' rest h => ?_⟩
          obtain ⟨P', hi, pre, hpre⟩ := h2 s' rest h
          exact ⟨P', hi, (p :: ps) :: pre, by simp [hpre]⟩

/-! ### cache on: after `AdjustChunkCache` -/

/-- `FieldChunkCaches` after `AdjustChunkCache`: under every name, the batch column of an alias target on
    exactly the accepted pairs -/
def FinalOK (A : Aliases) (c : Ctx) (ret : List Pair) : Prop :=
  ∀ n col, assocGet c.chunkCache n = some col → ∃ t, (n, t) ∈ A ∧ nocacheB t ret = .ok col

omit hfun in
theorem adjust_on {c : Ctx} (hon : CtxOn c) (l : List Nat) (n : Bytes) :
    assocGet (c.adjustChunkCache l).chunkCache n = (assocGet c.chunkCache n).map (Ctx.pickIdx l) := by
  simp only [Ctx.adjustChunkCache, hon.2, Bool.not_true, Bool.false_eq_true, ↓reduceIte]
  exact assocGet_map_snd (Ctx.pickIdx l) c.chunkCache n

omit hfun in
theorem CtxOn.adjust {c : Ctx} (hon : CtxOn c) (l : List Nat) : CtxOn (c.adjustChunkCache l) := by
  obtain ⟨hp, he⟩ := hon
  simp [Ctx.adjustChunkCache, he, CtxOn, hp]

theorem finalOK_of_inv {w : Expr} {P : List (List Pair)} {s : Sel} {c : Ctx} (inv : LoopInv A w P s c)
    (hret : s.ret ≠ []) : FinalOK A (c.adjustChunkCache s.choose) s.ret := by
  intro n col' h
  rw [adjust_on inv.on] at h
  cases hg : assocGet c.chunkCache n with
  | none => rw [hg] at h; cases h
  | some col =>
    rw [hg] at h; simp at h; subst h
    have hT : T0 w n = true ∧ P ≠ [] := by
      by_cases h1 : T0 w n = true
      · by_cases h2 : P = []
        · have := inv.bnd0 n (.inr h2); rw [hg] at this; cases this
        · exact ⟨h1, h2⟩
      · have := inv.bnd0 n (.inl (by simpa using h1)); rw [hg] at this; cases this
    obtain ⟨t, cols, hA, hrows, hc⟩ := inv.bnd1 n hT.1 hT.2
    rw [hg] at hc; simp at hc; subst hc
    obtain ⟨mask, hm1, hm2, hm3, hm4⟩ := inv.sel
    have hsingle : Rows (PairVal t) cols.flatten P.flatten :=
      Rows.flatten (hrows.imp fun col ch' ⟨hne, hv⟩ => (nocacheB_ok_iff t hne col).mp hv)
    have hlen : cols.flatten.length = mask.length := by rw [hsingle.length_eq, hm1]
    refine ⟨t, hA, ?_⟩
    rw [hm3, pickIdx_mask mask _ hlen]
    refine (nocacheB_ok_iff t hret _).mpr ?_
    rw [hm2]
    exact Rows.maskFilter mask hsingle

omit hfun in
theorem FinalOK.updateHit {c : Ctx} {ret : List Pair} (h : FinalOK A c ret) : FinalOK A c.updateHit ret := h

theorem fieldCol_on (seen : List Bytes) {f : Field} (hw : WF A f.expr)
    (hag : seen.contains f.name = false → ∀ t, (f.name, t) ∈ A → ∀ ch, nocacheB t ch = nocacheB f.expr ch)
    {ret : List Pair} (hne : ret ≠ []) {c : Ctx} (hon : CtxOn c) (hfin : FinalOK A c ret) :
    ∃ c1, CtxOn c1 ∧ FinalOK A c1 ret ∧ fieldCol seen f ret c = (nocacheB f.expr ret, c1) := by
  unfold fieldCol
  cases hg : (if seen.contains f.name = true then none else c.getChunkFieldFinalResult f.name) with
  | none =>
    simp only
    refine ⟨c, hon, hfin, ?_⟩
    rw [execBatch_off_eq hfun hw hne (c := Ctx.none) rfl]
  | some col =>
    simp only
    split at hg
    · cases hg
    · rename_i hs
      have hs' : seen.contains f.name = false := by simpa using hs
      have hg' : assocGet c.chunkCache f.name = some col := by
        simpa [Ctx.getChunkFieldFinalResult, hon.2] using hg
      obtain ⟨t, hA, hv⟩ := hfin f.name col hg'
      refine ⟨c.updateHit, hon.updateHit, hfin.updateHit, ?_⟩
      rw [← hag hs' t hA ret, hv]

theorem projectCols_on : ∀ (seen : List Bytes) (fields : List Field), FieldsWF A fields → FieldsAgreeFrom A seen fields →
    ∀ {ret : List Pair}, ret ≠ [] → ∀ {c : Ctx}, CtxOn c → FinalOK A c ret →
      (projectColsFrom seen fields ret c).1 = colsSpec fields ret ∧ CtxOn (projectColsFrom seen fields ret c).2
  | _, [], _, _, _, _, _, hon, _ => ⟨rfl, hon⟩
  | seen, f :: fs, hwf, hag, ret, hne, c, hon, hfin => by
    obtain ⟨hag1, hag2⟩ := hag
    obtain ⟨c1, hon1, hfin1, hkey⟩ := fieldCol_on hfun seen (hwf f (by simp))
      (fun hs t hA ch => (hag1 hs t hA).2 ch) hne hon hfin
    rw [projectColsFrom, colsSpec, hkey]
    cases nocacheB f.expr ret with
    | error e => exact ⟨rfl, hon1⟩
    | ok col =>
      simp only
      obtain ⟨ih1, ih2⟩ := projectCols_on (seen ++ [f.name]) fs (fun g hg => hwf g (by simp [hg])) hag2 hne hon1 hfin1
      rcases hx : projectColsFrom (seen ++ [f.name]) fs ret c1 with ⟨r, c2⟩
      rw [hx] at ih1 ih2
      simp only at ih1 ih2
      rw [← ih1]
      cases r <;> exact ⟨rfl, ih2⟩

theorem nextBatch_on {w : Expr} (hw : WF A w) {fields : List Field} (hwf : FieldsWF A fields)
    (hag : FieldsAgree A fields) (bs : Nat) (chunks : List (List Pair)) (hd : DistinctFk chunks)
    {c : Ctx} (hon : CtxOn c) :
    (nextBatch w fields bs chunks c).1 = nextBatchSpec w fields bs chunks ∧
      (∀ r, nextBatchSpec w fields bs chunks = .ok r →
        CtxOn (nextBatch w fields bs chunks c).2 ∧ ∃ pre, chunks = pre ++ r.2) := by
  unfold nextBatch nextBatchSpec scanBatch
  obtain ⟨h1, h2⟩ := scanLoop_on hfun hw bs chunks [] {} c.clear (LoopInv.start hon) hd (fun _ h => by simp at h)
  rcases hx : scanBatchLoop w bs chunks {} c.clear with ⟨r, c1⟩
  rw [hx] at h1 h2
  simp only at h1 h2
  rw [← h1]
  cases r with
  | error e => exact ⟨rfl, fun r h => by cases h⟩
  | ok r =>
    obtain ⟨s, rest⟩ := r
    obtain ⟨P', inv, hpre⟩ := h2 s rest h1.symm
    simp only
    cases hret : s.ret with
    | nil => exact ⟨rfl, fun r h => by simp at h; subst h; exact ⟨inv.on.adjust _, hpre⟩⟩
    | cons kv kvs =>
      simp only
      have hne : s.ret ≠ [] := by rw [hret]; simp
      have hfin := finalOK_of_inv hfun inv hne
      rw [hret] at hfin
      obtain ⟨p1, p2⟩ := projectCols_on hfun [] fields hwf hag (by simp) (inv.on.adjust s.choose) hfin
      unfold projectCols
      rcases hy : projectColsFrom [] fields (kv :: kvs) (c1.adjustChunkCache s.choose) with ⟨r2, c2⟩
      rw [hy] at p1 p2
      simp only at p1 p2
      rw [← p1]
      cases r2 with
      | error e => exact ⟨rfl, fun r h => by cases h⟩
      | ok cols =>
        simp only
        cases rowsOfCols (kv :: kvs).length cols with
        | error e => exact ⟨rfl, fun r h => by cases h⟩
        | ok rows => exact ⟨rfl, fun r h => by simp at h; subst h; exact ⟨p2, hpre⟩⟩

end

end Kvql.Cache

namespace Kvql.Cache
open Kvql Kvql.Project

theorem DistinctFk.suffix {pre rest : List (List Pair)} (h : DistinctFk (pre ++ rest)) : DistinctFk rest :=
  (List.pairwise_append.mp h).2.1

section
variable {A : Aliases} (hfun : Functional A)
include hfun

theorem drainBatchFuel_on {w : Expr} (hw : WF A w) {fields : List Field} (hwf : FieldsWF A fields)
    (hag : FieldsAgree A fields) (bs : Nat) : ∀ (n : Nat) (chunks : List (List Pair)), DistinctFk chunks →
    ∀ {c : Ctx}, CtxOn c →
      ((drainBatchFuel w fields bs n chunks c).1, (drainBatchFuel w fields bs n chunks c).2.1) =
        batchesSpec w fields bs n chunks
  | 0, _, _, _, _ => rfl
  | n + 1, chunks, hd, c, hon => by
    obtain ⟨h1, h2⟩ := nextBatch_on hfun hw hwf hag bs chunks hd hon
    rw [drainBatchFuel, batchesSpec]
    rcases hx : nextBatch w fields bs chunks c with ⟨r, c1⟩
    rw [hx] at h1 h2
    simp only at h1 h2
    rw [← h1]
    cases r with
    | error e => rfl
    | ok r =>
      obtain ⟨rows, rest⟩ := r
      cases rows with
      | nil => rfl
      | cons r rs =>
        simp only
        obtain ⟨hon1, pre, hpre⟩ := h2 (r :: rs, rest) h1.symm
        have ih := drainBatchFuel_on hw hwf hag bs n rest (by rw [hpre] at hd; exact hd.suffix) hon1
        rw [← ih]

/-- batch mode with the cache ON is the cache-free specification -/
theorem drainBatchChunks_on_eq_spec {w : Expr} (hw : WF A w) {fields : List Field} (hwf : FieldsWF A fields)
    (hag : FieldsAgree A fields) (bs : Nat) (chunks : List (List Pair)) (hd : DistinctFk chunks) {c : Ctx} (hon : CtxOn c) :
    (drainBatchChunks w fields bs chunks c).1 =
      ⟨(batchesSpec w fields bs (chunks.length + 1) chunks).1.flatten, (batchesSpec w fields bs (chunks.length + 1) chunks).2⟩ := by
  have := drainBatchFuel_on hfun hw hwf hag bs (chunks.length + 1) chunks hd hon
  unfold drainBatchChunks
  rw [← this]

/-- batch mode with the cache OFF is the cache-free specification -/
theorem drainBatchChunks_off_eq_spec {w : Expr} (hw : WF A w) {fields : List Field} (hwf : FieldsWF A fields)
    (bs : Nat) (chunks : List (List Pair)) {c : Ctx} (hc : c.enable = false) :
    (drainBatchChunks w fields bs chunks c).1 =
      ⟨(batchesSpec w fields bs (chunks.length + 1) chunks).1.flatten, (batchesSpec w fields bs (chunks.length + 1) chunks).2⟩ := by
  have := drainBatchFuel_off hfun hw hwf bs (chunks.length + 1) chunks hc
  unfold drainBatchChunks
  rw [← this]

/-- **batch_cache_invisible** over an arbitrary list of inner chunks (a cursor scan's, or `MultiGetPlan`'s):
    the scan's inner-chunk loop (`FilterBatch`, `chooseIdxes`, `AdjustChunkCache`) followed by
    `processProjectionBatch`, drained, gives the same rows and the same error with the cache on as with
    it off — provided the non-empty inner chunks start with different keys -/
theorem batch_cache_invisible_chunks {w : Expr} (hw : WF A w) {fields : List Field} (hwf : FieldsWF A fields)
    (hag : FieldsAgree A fields) (bs : Nat) (chunks : List (List Pair)) (hd : DistinctFk chunks)
    {con coff : Ctx} (hon : CtxOn con) (hoff : coff.enable = false) :
    (drainBatchChunks w fields bs chunks con).1 = (drainBatchChunks w fields bs chunks coff).1 := by
  rw [drainBatchChunks_on_eq_spec hfun hw hwf hag bs chunks hd hon,
    drainBatchChunks_off_eq_spec hfun hw hwf bs chunks hoff]

end

/-! ### a cursor's inner chunks start with different keys -/

theorem chunksAux_fk_mem (bs : Nat) : ∀ (n : Nat) (l : List Pair) (ch : List Pair), ch ∈ chunksAux bs n l → ch ≠ [] →
    fk ch ∈ l.map (·.key)
  | 0, _, _, h, _ => by simp [chunksAux] at h
  | n + 1, [], _, h, _ => by simp [chunksAux] at h
  | n + 1, p :: ps, ch, h, hne => by
    rw [chunksAux] at h
    rcases List.mem_cons.mp h with rfl | h
    · cases hb : bs with
      | zero => simp [hb] at hne
      | succ b => simp [fk]
    · have := chunksAux_fk_mem bs n ((p :: ps).drop bs) ch h hne
      obtain ⟨x, hx, hk⟩ := List.mem_map.mp this
      exact List.mem_map.mpr ⟨x, List.mem_of_mem_drop hx, hk⟩

theorem distinctFk_chunksAux (bs : Nat) (hbs : 1 ≤ bs) : ∀ (n : Nat) (l : List Pair), (l.map (·.key)).Nodup →
    DistinctFk (chunksAux bs n l)
  | 0, _, _ => by simp [chunksAux, DistinctFk]
  | n + 1, [], _ => by simp [chunksAux, DistinctFk]
  | n + 1, p :: ps, hnd => by
    rw [chunksAux]
    obtain ⟨b, rfl⟩ : ∃ b, bs = b + 1 := ⟨bs - 1, by omega⟩
    have hdrop : (p :: ps).drop (b + 1) = ps.drop b := by simp
    rw [hdrop]
    have hnd' : (ps.map (·.key)).Nodup := (List.nodup_cons.mp (by simpa using hnd)).2
    have hpk : p.key ∉ ps.map (·.key) := (List.nodup_cons.mp (by simpa using hnd)).1
    refine List.pairwise_cons.mpr ⟨fun ch hch _ hne => ?_, ?_⟩
    · have hm := chunksAux_fk_mem (b + 1) n (ps.drop b) ch hch hne
      obtain ⟨x, hx, hk⟩ := List.mem_map.mp hm
      have hfk : fk ((p :: ps).take (b + 1)) = p.key := by simp [fk]
      rw [hfk]
      intro e
      exact hpk (List.mem_map.mpr ⟨x, List.mem_of_mem_drop hx, by rw [hk, ← e]⟩)
    · exact distinctFk_chunksAux (b + 1) hbs n (ps.drop b) (by
        have : (ps.drop b).map (·.key) = (ps.map (·.key)).drop b := by simp [List.map_drop]
        rw [this]
        exact List.Nodup.sublist (List.drop_sublist _ _) hnd')

/-- the keys a `Storage` cursor yields are distinct, so its inner chunks start with different keys -/
theorem distinctFk_chunksOf {bs : Nat} (hbs : 1 ≤ bs) {pairs : List Pair} (hnd : (pairs.map (·.key)).Nodup) :
    DistinctFk (chunksOf bs pairs) :=
  distinctFk_chunksAux bs hbs _ pairs hnd

/-- **batch_cache_invisible**: batch drain over the pairs a cursor yields (distinct keys), `PlanBatchSize ≥ 1` -/
theorem batch_cache_invisible {A : Aliases} (hfun : Functional A) {w : Expr} (hw : WF A w) {fields : List Field}
    (hwf : FieldsWF A fields) (hag : FieldsAgree A fields) {bs : Nat} (hbs : 1 ≤ bs) {pairs : List Pair}
    (hnd : (pairs.map (·.key)).Nodup) {con coff : Ctx} (hon : CtxOn con) (hoff : coff.enable = false) :
    (drainBatch w fields bs pairs con).1 = (drainBatch w fields bs pairs coff).1 :=
  batch_cache_invisible_chunks hfun hw hwf hag bs _ (distinctFk_chunksOf hbs hnd) hon hoff

end Kvql.Cache
