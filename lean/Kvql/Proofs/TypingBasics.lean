/-
  C14, static half — basic lemmas shared by the Typing*.lean files:
  * the two models of `ReturnType()` agree (`Expr.retType` of Model/Check.lean looks the function
    tables up by `String`, `Kvql.retType` of Model/Exec.lean by `Bytes`);
  * `CheckCtx.rt` (the checker's `ReturnType()` with alias references resolved through the table)
    is monotone in its fuel and equals `retType` on nodes that are not references;
  * inversion of `do` blocks in `Res`.
-/
import Kvql.Model.PlanCheck
import Kvql.Proofs.C14Exec

namespace Kvql.Proofs.Typing

open Kvql Kvql.Generated

/-! ### `Res` -/

theorem bind_ok_iff {α β : Type} {r : Res α} {f : α → Res β} {b : β} :
    (r >>= f) = .ok b ↔ ∃ a, r = .ok a ∧ f a = .ok b := by
  cases r <;> simp

/-- a computation that is not accepted -/
def Rejects {α : Type} (r : Res α) : Prop := ∀ a, r ≠ .ok a

theorem Rejects.bind {α β : Type} {r : Res α} (h : Rejects r) (f : α → Res β) : Rejects (r >>= f) := by
  intro b hb
  obtain ⟨a, ha, _⟩ := bind_ok_iff.mp hb
  exact h a ha

theorem Rejects.bind_right {α β : Type} {r : Res α} {f : α → Res β} (h : ∀ a, r = .ok a → Rejects (f a)) :
    Rejects (r >>= f) := by
  intro b hb
  obtain ⟨a, ha, hf⟩ := bind_ok_iff.mp hb
  exact h a ha b hf

theorem rejects_synErr {α : Type} (p : Nat) : Rejects (synErr p : Res α) := by
  intro a h; cases h

theorem rejects_eofErr {α : Type} : Rejects (eofErr : Res α) := by
  intro a h; cases h

/-! ### names of the function tables: `String` and `Bytes` look-ups agree -/

theorem char_ofNat_toNat_lt (n : Nat) (h : n < 256) : (Char.ofNat n).toNat = n := by
  have hv : n.isValidChar := by left; omega
  simp [Char.ofNat, hv, Char.ofNatAux, Char.toNat]

theorem asciiBytes_toAsciiString (d : Bytes) : asciiBytes (Bytes.toAsciiString d) = d := by
  unfold asciiBytes Bytes.toAsciiString
  simp only [String.toList_ofList, List.map_map]
  conv => rhs; rw [← List.map_id d]
  apply List.map_congr_left
  intro c _
  simp only [Function.comp, id]
  rw [char_ofNat_toNat_lt _ c.toNat_lt]
  exact UInt8.ofNat_toNat

theorem toAsciiString_asciiBytes (n : String) (h : (n.toList.all (fun c => decide (c.toNat < 256))) = true) :
    Bytes.toAsciiString (asciiBytes n) = n := by
  unfold asciiBytes Bytes.toAsciiString
  simp only [List.map_map]
  conv => rhs; rw [← String.ofList_toList (s := n)]
  congr 1
  conv => rhs; rw [← List.map_id n.toList]
  apply List.map_congr_left
  intro c hc
  simp only [List.all_eq_true, decide_eq_true_eq] at h
  have := h c hc
  simp only [Function.comp, id]
  have h2 : (UInt8.ofNat c.toNat).toNat = c.toNat := by
    simp [UInt8.toNat_ofNat']; omega
  rw [h2]; exact Char.ofNat_toNat c

theorem name_beq (n : String) (h : (n.toList.all (fun c => decide (c.toNat < 256))) = true) (d : Bytes) :
    (n == Bytes.toAsciiString d) = (asciiBytes n == d) := by
  by_cases h1 : n = Bytes.toAsciiString d
  · subst h1
    simp [asciiBytes_toAsciiString]
  · have h3 : asciiBytes n ≠ d := by
      intro h2; apply h1; rw [← h2, toAsciiString_asciiBytes n h]
    have e1 : (n == Bytes.toAsciiString d) = false := by simpa using h1
    have e2 : (asciiBytes n == d) = false := by simpa using h3
    rw [e1, e2]

abbrev FTable := List (String × Nat × Bool × Nat × List String)

def asciiNames (T : FTable) : Bool := T.all (fun e => e.1.toList.all (fun c => decide (c.toNat < 256)))

theorem lookup_eq_find (T : FTable) (h : asciiNames T = true) (d : Bytes) :
    T.lookup (Bytes.toAsciiString d) = (T.find? (fun e => asciiBytes e.1 == d)).map (·.2) := by
  induction T with
  | nil => rfl
  | cons e rest ih =>
    obtain ⟨n, v⟩ := e
    simp only [asciiNames, List.all_cons, Bool.and_eq_true] at h
    have hb := name_beq n h.1 d
    simp only [List.lookup, List.find?]
    rw [BEq.comm (a := Bytes.toAsciiString d), hb]
    cases hc : (asciiBytes n == d)
    · simp only []
      exact ih (by simpa [asciiNames] using h.2)
    · rfl

theorem funcTable_ascii : asciiNames funcTable = true := by decide
theorem aggrTable_ascii : asciiNames aggrTable = true := by decide

theorem funcRetType_eq (d : Bytes) :
    Expr.funcRetType (Bytes.toAsciiString d) =
      match lookupFunc d with
      | some f => f.retType
      | none => (lookupAggrRetType d).getD tyTUNKNOWN := by
  unfold Expr.funcRetType lookupFunc lookupAggrRetType
  rw [lookup_eq_find _ funcTable_ascii, lookup_eq_find _ aggrTable_ascii]
  cases h1 : funcTable.find? (fun e => asciiBytes e.1 == d) with
  | some e =>
    obtain ⟨n, a, b, c, i⟩ := e
    simp [FuncInfo.ofEntry]
  | none =>
    simp only [Option.map_none]
    cases h2 : aggrTable.find? (fun e => asciiBytes e.1 == d) with
    | some e => obtain ⟨n, a, b, c, i⟩ := e; simp
    | none => simp

/-- the checker's `ReturnType()` (Model/Check.lean) is the evaluator's (Model/Exec.lean) -/
theorem retType_eq : ∀ e : Expr, e.retType = Kvql.retType e
  | .binop _ op l _ => by
    cases op <;> simp [Expr.retType, Kvql.retType, Expr.opRetType, Expr.addType, retType_eq l]
  | .field .. | .str .. | .not .. | .name .. | .cycle | .num .. | .float .. | .bool .. | .list .. | .access .. => by
    simp [Expr.retType, Kvql.retType]
  | .ref _ _ t => by simp [Expr.retType, Kvql.retType, retType_eq t]
  | .call _ nm _ => by
    cases nm <;> simp [Expr.retType, Kvql.retType, Expr.callRetType, Expr.funcName?]
    exact funcRetType_eq _

/-- `kindOf` and the checker's static type -/
theorem code_of_kind {e : Expr} {k : Kind} (h : kindOf e = some k) : e.retType = k.code := by
  rw [retType_eq]; exact retType_of_kind e k h

/-! ### kinds and type codes -/

theorem kind_of_code_bool {k : Kind} (h : k.code = tyTBOOL) : k = .bool := by
  cases k <;> simp [Kind.code, tyTBOOL, tyTSTR, tyTNUMBER, tyTLIST, tyTJSON] at h ⊢
theorem kind_of_code_str {k : Kind} (h : k.code = tyTSTR) : k = .text := by
  cases k <;> simp [Kind.code, tyTBOOL, tyTSTR, tyTNUMBER, tyTLIST, tyTJSON] at h ⊢
theorem kind_of_code_num {k : Kind} (h : k.code = tyTNUMBER) : k = .num := by
  cases k <;> simp [Kind.code, tyTBOOL, tyTSTR, tyTNUMBER, tyTLIST, tyTJSON] at h ⊢
theorem kind_of_code_json {k : Kind} (h : k.code = tyTJSON) : k = .json := by
  cases k <;> simp [Kind.code, tyTBOOL, tyTSTR, tyTNUMBER, tyTLIST, tyTJSON] at h ⊢
theorem kind_of_code_list {k : Kind} (h : k.code = tyTLIST) : k = .listText ∨ k = .listNum := by
  cases k <;> simp [Kind.code, tyTBOOL, tyTSTR, tyTNUMBER, tyTLIST, tyTJSON] at h ⊢

/-! ### `rtF` / `CheckCtx.rt` -/

theorem rtF_mono (tbl : Tbl) : ∀ (n : Nat) (e : Expr) (t : Nat), rtF tbl n e = some t →
    ∀ m, n ≤ m → rtF tbl m e = some t
  | 0, _, _, h, _, _ => by simp [rtF] at h
  | n + 1, e, t, h, m, hm => by
    obtain ⟨m', rfl⟩ : ∃ m', m = m' + 1 := ⟨m - 1, by omega⟩
    have hm' : n ≤ m' := by omega
    cases e with
    | binop p op l r =>
      simp only [rtF] at h ⊢
      cases ho : Expr.opRetType op with
      | some t0 => simp only [ho] at h ⊢; exact h
      | none =>
        simp only [ho] at h ⊢
        cases hl : rtF tbl n l with
        | none => simp [hl] at h
        | some tl =>
          rw [rtF_mono tbl n l tl hl m' hm']
          simpa [hl] using h
    | ref p nm tg =>
      simp only [rtF] at h ⊢
      cases hf : tbl.find nm with
      | some pr =>
        obtain ⟨i, cur⟩ := pr
        simp only [hf] at h ⊢
        exact rtF_mono tbl n cur t h m' hm'
      | none =>
        simp only [hf] at h ⊢
        exact rtF_mono tbl n tg t h m' hm'
    | cycle => simp [rtF] at h
    | _ => simpa [rtF] using h

theorem rt_ok_iff {ctx : CheckCtx} {e : Expr} {t : Nat} :
    ctx.rt e = .ok t ↔ rtF ctx.tbl (rtFuel ctx.tbl e) e = some t := by
  unfold CheckCtx.rt
  cases rtF ctx.tbl (rtFuel ctx.tbl e) e <;> simp

/-- nodes whose `ReturnType()` does not ask another node -/
def selfTyped : Expr → Bool
  | .binop _ .add _ _ => false
  | .ref .. | .cycle => false
  | _ => true

theorem rtF_selfTyped (tbl : Tbl) (n : Nat) {e : Expr} (h : selfTyped e = true) :
    rtF tbl (n + 1) e = some e.retType := by
  cases e with
  | binop p op l r =>
    cases op <;> simp [selfTyped] at h <;> simp [rtF, Expr.opRetType, Expr.retType]
  | ref _ _ _ => simp [selfTyped] at h
  | cycle => simp [selfTyped] at h
  | _ => simp [rtF]

theorem rt_selfTyped (ctx : CheckCtx) {e : Expr} (h : selfTyped e = true) : ctx.rt e = .ok e.retType := by
  rw [rt_ok_iff]
  unfold rtFuel
  exact rtF_selfTyped ctx.tbl _ h

theorem size_pos (e : Expr) : 1 ≤ e.size := by
  cases e <;> simp [Expr.size] <;> omega

/-- `ReturnType()` of `l + r` asks `l` -/
theorem rt_add (ctx : CheckCtx) (p : Nat) (l r : Expr) {t : Nat} (h : ctx.rt l = .ok t) :
    ctx.rt (.binop p .add l r) = .ok (Expr.addType t) := by
  rw [rt_ok_iff] at h ⊢
  have hfuel : rtFuel ctx.tbl (.binop p .add l r) = (rtFuel ctx.tbl l + r.size) + 1 := by
    simp [rtFuel, Expr.size]; omega
  rw [hfuel]
  simp only [rtF, Expr.opRetType]
  rw [rtF_mono ctx.tbl _ l t h _ (by omega)]
  rfl

/-- `ReturnType()` of a reference asks the select field it names -/
theorem rt_ref (ctx : CheckCtx) (p : Nat) (d : Bytes) {j : Nat} {tgt : Expr} {t : Nat}
    (hf : ctx.tbl.find d = some (j, tgt)) (h : ctx.rt tgt = .ok t) : ctx.rt (.ref p d tgt) = .ok t := by
  rw [rt_ok_iff] at h ⊢
  have hfuel : rtFuel ctx.tbl (.ref p d tgt) = rtFuel ctx.tbl tgt + 1 := by
    simp [rtFuel, Expr.size]; omega
  rw [hfuel]
  simp only [rtF, hf]
  exact h

end Kvql.Proofs.Typing
