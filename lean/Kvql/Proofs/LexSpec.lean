/-
  Properties of the reference tokenizer `Kvql.Spec.lex`, for all inputs.
-/
import Kvql.Spec.Lex

namespace Kvql.Proofs.LexSpec
open Kvql Kvql.Lexer Kvql.Generated Kvql.Spec

/-! ### statements' vocabulary -/

def sub (q : Bytes) (a n : Nat) : Bytes := (q.drop a).take n

/-- a token carries its true offset and text -/
def TokOK (q : Bytes) (t : Token) : Prop :=
  (∃ qc, (isQuote qc ∨ isBackquote qc) ∧ q[t.pos]? = some qc ∧ sub q (t.pos+1) t.data.length = t.data
      ∧ q[t.pos + 1 + t.data.length]? = some qc ∧ qc ∉ t.data
      ∧ t.tp = (if isQuote qc then Generated.tkSTRING else Generated.tkNAME))
  ∨ (t.data ≠ [] ∧ t.pos + t.data.length ≤ q.length ∧ toLower (sub q t.pos t.data.length) = t.data)

/-- scanning from the start ends outside any literal (fuel = length + 1) -/
def outside : Nat → Bytes → Bool
  | 0, _ => false
  | _ + 1, [] => true
  | fuel + 1, c :: r =>
    if isQuote c || isBackquote c then
      (match literalBody c r with
       | some (_, after) => outside fuel after
       | none => false)
    else outside fuel r

def Outside (pre : Bytes) : Prop := outside (pre.length + 1) pre = true

instance (pre : Bytes) : Decidable (Outside pre) := by unfold Outside; infer_instance

def kindsData (ts : List Token) : List (Nat × Bytes) := ts.map (fun t => (t.tp, t.data))

def wordByte (c : UInt8) : Bool :=
  !(specBlank c || isQuote c || isBackquote c || isOpChar c || isPunct c || isSep c)

/-! ### byte classes -/

theorem byte_all (P : UInt8 → Prop) [DecidablePred P]
    (h : ∀ n : Fin 256, P (UInt8.ofNat n.val)) : ∀ c, P c := by
  intro c
  have := h ⟨c.toNat, c.toNat_lt⟩
  simpa using this

theorem quote_facts : ∀ c : UInt8, (isQuote c || isBackquote c) = true →
    specBlank c = false ∧ isSpaceByte c = false ∧ c ≠ 61 := by
  apply byte_all; decide +kernel

theorem op_facts : ∀ c : UInt8, isOpChar c = true →
    lowerByte c = c ∧ specBlank c = false ∧ (isQuote c || isBackquote c) = false := by
  apply byte_all; decide +kernel

theorem op2_facts : ∀ c : UInt8, isOp2Lead c = true → isOpChar c = true ∧ c ≠ 61 := by
  apply byte_all; decide +kernel

theorem punct_facts : ∀ c : UInt8, (isPunct c || isSep c) = true →
    lowerByte c = c ∧ specBlank c = false ∧ (isQuote c || isBackquote c) = false
      ∧ isOpChar c = false := by
  apply byte_all; decide +kernel

theorem blank_facts : ∀ c : UInt8, specBlank c = true →
    c ≠ 61 ∧ wordByte c = false := by
  apply byte_all; decide +kernel

theorem specBlank_eq (c : UInt8) : specBlank c = isSpaceByte c := rfl

/-! ### literalBody -/

theorem literalBody_eq {qc : UInt8} {s body after : Bytes}
    (h : literalBody qc s = some (body, after)) : s = body ++ qc :: after ∧ qc ∉ body := by
  induction s generalizing body after with
  | nil => simp [literalBody] at h
  | cons c rest ih =>
    unfold literalBody at h
    split at h
    · rename_i hc
      cases h
      simp at hc
      simp [hc]
    · rename_i hc
      cases hb : literalBody qc rest with
      | none => simp [hb] at h
      | some p =>
        obtain ⟨b, a⟩ := p
        simp [hb] at h
        obtain ⟨h1, h2⟩ := h
        subst h1; subst h2
        have := ih hb
        simp at hc
        refine ⟨by simp [this.1], ?_⟩
        simp [this.2]
        exact fun h => hc h.symm

theorem literalBody_of_eq {qc : UInt8} (body after : Bytes) (hb : qc ∉ body) :
    literalBody qc (body ++ qc :: after) = some (body, after) := by
  induction body with
  | nil => simp [literalBody]
  | cons c r ih =>
    simp at hb
    have : (c == qc) = false := by simp; exact fun h => hb.1 h.symm
    simp [literalBody, this, ih hb.2]

theorem literalBody_append {qc : UInt8} {s body after : Bytes} (X : Bytes)
    (h : literalBody qc s = some (body, after)) :
    literalBody qc (s ++ X) = some (body, after ++ X) := by
  obtain ⟨h1, h2⟩ := literalBody_eq h
  subst h1
  simpa using literalBody_of_eq body (after ++ X) h2

/-! ### fuel independence -/

theorem lexFrom_nil (fuel i : Nat) (w : Bytes) (wpos : Nat) :
    lexFrom fuel [] i w wpos = wordTok w wpos := by
  cases fuel <;> rfl

theorem lexFrom_cons (fuel : Nat) (c : UInt8) (rest : Bytes) (i : Nat) (w : Bytes) (wpos : Nat) :
    lexFrom (fuel + 1) (c :: rest) i w wpos =
    if specBlank c then wordTok w wpos ++ lexFrom fuel rest (i + 1) [] (i + 1)
    else if isQuote c || isBackquote c then
      match literalBody c rest with
      | some (body, after) =>
        wordTok w wpos ++
          { tp := if isQuote c then tkSTRING else tkNAME, data := body, pos := i } ::
          lexFrom fuel after (i + body.length + 2) [] (i + body.length + 2)
      | none => wordTok w wpos ++ wordTok (trimSpace (c :: rest)) i
    else if isOpChar c then
      match rest with
      | 61 :: rest' =>
        if isOp2Lead c then
          wordTok w wpos ++ { tp := tkOPERATOR, data := [c, 61], pos := i } ::
            lexFrom fuel rest' (i + 2) [] (i + 2)
        else if c == 61 then
          wordTok w wpos ++ { tp := tkOPERATOR, data := [61], pos := i } ::
            lexFrom fuel rest (i + 1) [] (i + 1)
        else
          wordTok w wpos ++ lexFrom fuel rest (i + 1) [] (i + 1)
      | _ =>
        if isOp1 c || c == 61 then
          wordTok w wpos ++ { tp := tkOPERATOR, data := [c], pos := i } ::
            lexFrom fuel rest (i + 1) [] (i + 1)
        else
          wordTok w wpos ++ lexFrom fuel rest (i + 1) [] (i + 1)
    else if isPunct c || isSep c then
      wordTok w wpos ++ { tp := punctTp c, data := [c], pos := i } ::
        lexFrom fuel rest (i + 1) [] (i + 1)
    else
      lexFrom fuel rest (i + 1) (w ++ [c]) wpos := rfl

theorem lexFrom_fuel : ∀ (f1 f2 : Nat) (rest : Bytes) (i : Nat) (w : Bytes) (wpos : Nat),
    rest.length < f1 → rest.length < f2 → lexFrom f1 rest i w wpos = lexFrom f2 rest i w wpos := by
  intro f1
  induction f1 with
  | zero => intro f2 rest i w wpos h; omega
  | succ f1 ih =>
    intro f2 rest i w wpos h1 h2
    cases f2 with
    | zero => omega
    | succ f2 =>
      cases rest with
      | nil => simp [lexFrom_nil]
      | cons c rest =>
        simp only [List.length_cons] at h1 h2
        simp only [lexFrom_cons]
        split
        · rw [ih f2 rest _ _ _ (by omega) (by omega)]
        · split
          · split
            · rename_i body after hb
              have := literalBody_length hb
              rw [ih f2 after _ _ _ (by omega) (by omega)]
            · rfl
          · split
            · split
              · rename_i rest'
                simp only [List.length_cons] at h1 h2
                rw [ih f2 rest' _ _ _ (by omega) (by omega),
                    ih f2 (61 :: rest') _ _ _ (by simp; omega) (by simp; omega)]
              · rw [ih f2 rest _ _ _ (by omega) (by omega)]
            · have e := fun i w p => ih f2 rest i w p (by omega) (by omega)
              simp only [e]

/-! ### the fuel-free scanner and its single-step description -/

/-- `lexFrom` with exactly the fuel `lex` gives it -/
def L (rest : Bytes) (i : Nat) (w : Bytes) (wpos : Nat) : List Token :=
  lexFrom (rest.length + 1) rest i w wpos

theorem lex_eq_L (q : Bytes) : Spec.lex q = L q 0 [] 0 := rfl

theorem lexFrom_eq_L {fuel : Nat} {rest : Bytes} (h : rest.length < fuel) (i : Nat) (w : Bytes)
    (wpos : Nat) : lexFrom fuel rest i w wpos = L rest i w wpos :=
  lexFrom_fuel _ _ _ _ _ _ h (Nat.lt_succ_self _)

/-- what the scanner does at the head `c` of `c :: rest` -/
inductive Step where
  /-- `c` joins the pending word -/
  | word
  /-- `c` opens a literal that is never closed -/
  | unterm
  /-- the pending word is flushed, `emit` (kind, text) is produced at the offset of `c`,
      `k` bytes are consumed and `next` remains -/
  | brk (emit : Option (Nat × Bytes)) (k : Nat) (next : Bytes)

def stepOf (c : UInt8) (rest : Bytes) : Step :=
  if specBlank c then .brk none 1 rest
  else if isQuote c || isBackquote c then
    match literalBody c rest with
    | some (body, after) =>
      .brk (some (if isQuote c then tkSTRING else tkNAME, body)) (body.length + 2) after
    | none => .unterm
  else if isOpChar c then
    match rest with
    | 61 :: rest' =>
      if isOp2Lead c then .brk (some (tkOPERATOR, [c, 61])) 2 rest'
      else if c == 61 then .brk (some (tkOPERATOR, [61])) 1 rest
      else .brk none 1 rest
    | _ =>
      if isOp1 c || c == 61 then .brk (some (tkOPERATOR, [c])) 1 rest
      else .brk none 1 rest
  else if isPunct c || isSep c then .brk (some (punctTp c, [c])) 1 rest
  else .word

def emitToks (e : Option (Nat × Bytes)) (i : Nat) : List Token :=
  match e with
  | none => []
  | some (tp, d) => [{ tp := tp, data := d, pos := i }]

theorem L_nil (i : Nat) (w : Bytes) (wpos : Nat) : L [] i w wpos = wordTok w wpos := rfl

theorem stepOf_next_length {c : UInt8} {rest : Bytes} {e k next}
    (h : stepOf c rest = .brk e k next) : next.length ≤ rest.length := by
  unfold stepOf at h
  split at h
  · cases h; simp
  · split at h
    · split at h
      · rename_i body after hb
        have := literalBody_length hb
        cases h; omega
      · cases h
    · split at h
      · split at h
        · split at h
          · cases h; simp
          · split at h <;> (cases h; simp)
        · split at h <;> (cases h; simp)
      · split at h
        · cases h; simp
        · cases h

theorem L_step (c : UInt8) (rest : Bytes) (i : Nat) (w : Bytes) (wpos : Nat) :
    L (c :: rest) i w wpos =
      match stepOf c rest with
      | .word => L rest (i + 1) (w ++ [c]) wpos
      | .unterm => wordTok w wpos ++ wordTok (trimSpace (c :: rest)) i
      | .brk e k next => wordTok w wpos ++ emitToks e i ++ L next (i + k) [] (i + k) := by
  unfold L
  simp only [List.length_cons, lexFrom_cons, stepOf]
  split
  · simp [emitToks]
  · split
    · split
      · rename_i body after hb
        have := literalBody_length hb
        simp only [emitToks]
        rw [lexFrom_eq_L (by omega)]
        simp [L, Nat.add_assoc]
      · rfl
    · split
      · split
        · rename_i rest'
          split
          · simp only [emitToks]
            rw [lexFrom_eq_L (by simp only [List.length_cons]; omega)]
            simp [L]
          · split <;> simp [emitToks]
        · split <;> simp [emitToks]
      · split <;> simp [emitToks]

/-- local description of an emitted token, relative to the input `c :: rest` it starts at -/
def EmitOK (c : UInt8) (rest : Bytes) (tp : Nat) (d : Bytes) : Prop :=
  ((isQuote c ∨ isBackquote c) ∧ (∃ after, rest = d ++ c :: after) ∧ c ∉ d
      ∧ tp = if isQuote c then tkSTRING else tkNAME)
  ∨ (d ≠ [] ∧ d <+: (c :: rest) ∧ toLower d = d)

theorem stepOf_brk_spec {c : UInt8} {rest : Bytes} {e k next}
    (h : stepOf c rest = .brk e k next) :
    (∃ taken, c :: rest = taken ++ next ∧ taken.length = k) ∧ 0 < k ∧
      ∀ tp d, e = some (tp, d) → EmitOK c rest tp d ∧ d.length ≤ k := by
  unfold stepOf at h
  split at h
  · cases h
    exact ⟨⟨[c], by simp⟩, by omega, by simp⟩
  · split at h
    · rename_i hq
      split at h
      · rename_i body after hb
        obtain ⟨h1, h2⟩ := literalBody_eq hb
        injection h with he hk hn
        subst he hk hn
        refine ⟨⟨c :: body ++ [c], by simp [h1], by simp⟩, by omega, ?_⟩
        intro tp d hd
        cases hd
        refine ⟨Or.inl ⟨by simpa using hq, ⟨after, h1⟩, h2, rfl⟩, by omega⟩
      · cases h
    · split at h
      · rename_i hop
        have hl := (op_facts c hop).1
        split at h
        · rename_i rest'
          split at h
          · cases h
            refine ⟨⟨[c, 61], by simp⟩, by omega, ?_⟩
            intro tp d hd
            cases hd
            refine ⟨Or.inr ⟨by simp, by simp, ?_⟩, by simp⟩
            simp [toLower, hl]; decide
          · split at h
            · rename_i hc
              simp at hc
              subst hc
              cases h
              refine ⟨⟨[61], by simp⟩, by omega, ?_⟩
              intro tp d hd
              cases hd
              exact ⟨Or.inr ⟨by simp, by simp, by decide⟩, by simp⟩
            · cases h
              exact ⟨⟨[c], by simp⟩, by omega, by simp⟩
        · split at h
          · cases h
            refine ⟨⟨[c], by simp⟩, by omega, ?_⟩
            intro tp d hd
            cases hd
            exact ⟨Or.inr ⟨by simp, by simp, by simp [toLower, hl]⟩, by simp⟩
          · cases h
            exact ⟨⟨[c], by simp⟩, by omega, by simp⟩
      · split at h
        · rename_i hp
          have hl := (punct_facts c hp).1
          cases h
          refine ⟨⟨[c], by simp⟩, by omega, ?_⟩
          intro tp d hd
          cases hd
          exact ⟨Or.inr ⟨by simp, by simp, by simp [toLower, hl]⟩, by simp⟩
        · cases h

/-- induction along the scanner's steps -/
theorem step_induction {motive : Bytes → Prop} (nil : motive [])
    (word : ∀ c rest, stepOf c rest = .word → motive rest → motive (c :: rest))
    (unterm : ∀ c rest, stepOf c rest = .unterm → motive (c :: rest))
    (brk : ∀ c rest e k next, stepOf c rest = .brk e k next → motive next → motive (c :: rest)) :
    ∀ l, motive l := by
  intro l
  induction hn : l.length using Nat.strongRecOn generalizing l with
  | _ n ih =>
    cases l with
    | nil => exact nil
    | cons c rest =>
      subst hn
      cases hs : stepOf c rest with
      | word => exact word c rest hs (ih rest.length (by simp) rest rfl)
      | unterm => exact unterm c rest hs
      | brk e k next =>
        have := stepOf_next_length hs
        exact brk c rest e k next hs (ih next.length (by simp; omega) next rfl)

theorem L_word {c : UInt8} {rest : Bytes} (h : stepOf c rest = .word) (i : Nat) (w : Bytes)
    (wpos : Nat) : L (c :: rest) i w wpos = L rest (i + 1) (w ++ [c]) wpos := by
  rw [L_step, h]

theorem L_unterm {c : UInt8} {rest : Bytes} (h : stepOf c rest = .unterm) (i : Nat) (w : Bytes)
    (wpos : Nat) : L (c :: rest) i w wpos = wordTok w wpos ++ wordTok (trimSpace (c :: rest)) i := by
  rw [L_step, h]

theorem L_brk {c : UInt8} {rest : Bytes} {e k next} (h : stepOf c rest = .brk e k next) (i : Nat)
    (w : Bytes) (wpos : Nat) :
    L (c :: rest) i w wpos = wordTok w wpos ++ emitToks e i ++ L next (i + k) [] (i + k) := by
  rw [L_step, h]

/-! ### positions do not influence kinds and texts -/

theorem kindsData_append (a b : List Token) : kindsData (a ++ b) = kindsData a ++ kindsData b := by
  simp [kindsData]

theorem kindsData_wordTok (w : Bytes) (p p' : Nat) :
    kindsData (wordTok w p) = kindsData (wordTok w p') := by
  unfold wordTok; split <;> simp [kindsData]

theorem kindsData_emitToks (e) (i i' : Nat) :
    kindsData (emitToks e i) = kindsData (emitToks e i') := by
  unfold emitToks; split <;> simp [kindsData]

theorem kindsData_L (rest : Bytes) : ∀ (i i' : Nat) (w : Bytes) (p p' : Nat),
    kindsData (L rest i w p) = kindsData (L rest i' w p') := by
  induction rest using step_induction with
  | nil => intro i i' w p p'; simp only [L_nil]; exact kindsData_wordTok _ _ _
  | word c rest hs ih => intro i i' w p p'; simp only [L_word hs]; exact ih _ _ _ _ _
  | unterm c rest hs =>
    intro i i' w p p'
    simp only [L_unterm hs, kindsData_append]
    rw [kindsData_wordTok w p p', kindsData_wordTok _ i i']
  | brk c rest e k next hs ih =>
    intro i i' w p p'
    simp only [L_brk hs, kindsData_append]
    rw [kindsData_wordTok w p p', kindsData_emitToks e i i', ih (i + k) (i' + k) [] (i + k) (i' + k)]

/-! ### (A) tokens carry their true offset and text -/

theorem sub_prefix (x y : Bytes) (n : Nat) : sub (x ++ y) x.length n = y.take n := by
  simp [sub]

theorem toLower_length (w : Bytes) : (toLower w).length = w.length := by simp [toLower]

theorem mem_wordTok {t : Token} {w : Bytes} {p : Nat} (h : t ∈ wordTok w p) :
    w ≠ [] ∧ t = { tp := classify (toLower w), data := toLower w, pos := p } := by
  unfold wordTok at h
  split at h
  · simp at h
  · rename_i hw
    simp at h hw
    exact ⟨hw, h⟩

theorem mem_emitToks {t : Token} {e : Option (Nat × Bytes)} {i : Nat} (h : t ∈ emitToks e i) :
    e = some (t.tp, t.data) ∧ t.pos = i := by
  unfold emitToks at h
  split at h
  · simp at h
  · simp at h; subst h; simp

theorem tokOK_word {a w rest : Bytes} {t : Token} (h : t ∈ wordTok w a.length) :
    TokOK (a ++ w ++ rest) t := by
  obtain ⟨hw, rfl⟩ := mem_wordTok h
  right
  refine ⟨?_, ?_, ?_⟩
  · simpa [toLower] using hw
  · simp [toLower_length]
  · simp only [toLower_length, List.append_assoc, sub_prefix]
    simp

theorem tokOK_emit {x : Bytes} {c : UInt8} {rest : Bytes} {tp : Nat} {d : Bytes}
    (h : EmitOK c rest tp d) : TokOK (x ++ c :: rest) { tp := tp, data := d, pos := x.length } := by
  rcases h with ⟨hq, ⟨after, rfl⟩, hn, htp⟩ | ⟨hne, ⟨z, hz⟩, hl⟩
  · left
    refine ⟨c, hq, by simp, ?_, ?_, hn, htp⟩
    · have : x ++ c :: (d ++ c :: after) = (x ++ [c]) ++ (d ++ c :: after) := by simp
      simp only [this]
      have h2 : x.length + 1 = (x ++ [c]).length := by simp
      simp only [h2, sub_prefix]
      simp
    · have : x ++ c :: (d ++ c :: after) = (x ++ [c] ++ d) ++ (c :: after) := by simp
      simp only [this]
      have h2 : x.length + 1 + d.length = (x ++ [c] ++ d).length := by simp; omega
      simp only [h2]
      simp
  · right
    refine ⟨hne, ?_, ?_⟩
    · have := congrArg List.length hz
      simp at this ⊢; omega
    · simp only [sub_prefix, ← hz]
      simpa using hl

theorem dropWhile_reverse_prefix (p : UInt8 → Bool) (l : Bytes) :
    (l.reverse.dropWhile p).reverse <+: l := by
  have := List.dropWhile_suffix p (l := l.reverse)
  simpa using List.reverse_prefix.mpr this

theorem trimSpace_prefix {c : UInt8} (rest : Bytes) (hc : isSpaceByte c = false) :
    trimSpace (c :: rest) <+: c :: rest := by
  unfold trimSpace
  have : (c :: rest).dropWhile isSpaceByte = c :: rest := by simp [List.dropWhile, hc]
  rw [this]
  exact dropWhile_reverse_prefix _ _

theorem tokOK_gen (rest : Bytes) : ∀ (a w : Bytes) (i p : Nat) (q : Bytes),
    i = a.length + w.length → p = a.length → q = a ++ w ++ rest →
    ∀ t ∈ L rest i w p, TokOK q t := by
  induction rest using step_induction with
  | nil =>
    intro a w i p q hi hp hq t ht
    subst hi hp hq
    exact tokOK_word ht
  | word c rest hs ih =>
    intro a w i p q hi hp hq t ht
    rw [L_word hs] at ht
    exact ih a (w ++ [c]) (i + 1) p q (by simp; omega) hp (by simp [hq]) t ht
  | unterm c rest hs =>
    intro a w i p q hi hp hq t ht
    subst hi hp hq
    rw [L_unterm hs] at ht
    rcases List.mem_append.mp ht with ht | ht
    · exact tokOK_word ht
    · have hc : isSpaceByte c = false := by
        unfold stepOf at hs
        split at hs
        · cases hs
        · rename_i hb; simpa [specBlank_eq] using hb
      obtain ⟨z, hz⟩ := trimSpace_prefix rest hc
      generalize trimSpace (c :: rest) = T at hz ht
      have : a ++ w ++ c :: rest = (a ++ w) ++ T ++ z := by
        rw [← hz]; simp
      rw [this]
      apply tokOK_word
      simpa using ht
  | brk c rest e k next hs ih =>
    intro a w i p q hi hp hq t ht
    obtain ⟨⟨taken, hsplit, hk⟩, hk0, hemit⟩ := stepOf_brk_spec hs
    rw [L_brk hs] at ht
    rcases List.mem_append.mp ht with ht1 | ht
    · rcases List.mem_append.mp ht1 with ht2 | ht2
      · subst hi hp hq
        exact tokOK_word ht2
      · obtain ⟨he, hpos⟩ := mem_emitToks ht2
        have := (hemit _ _ he).1
        have h2 := tokOK_emit (x := a ++ w) this
        subst hq
        have h3 : t = { tp := t.tp, data := t.data, pos := (a ++ w).length } := by
          cases t; simp at hpos ⊢; omega
        rw [h3]; exact h2
    · exact ih (a ++ w ++ taken) [] (i + k) (i + k) q (by simp; omega) (by simp; omega)
        (by simp [hq, hsplit]) t ht

/-- (A) every token of the reference tokenizer carries its true offset and text -/
theorem spec_tokens_ok (q : Bytes) : ∀ t ∈ Spec.lex q, TokOK q t := by
  intro t ht
  exact tokOK_gen q [] [] 0 0 q rfl rfl rfl t ht

/-! ### (B) tokens are ordered and do not overlap -/

/-- `a` ends before `b` starts -/
def Before (a b : Token) : Prop := a.pos + a.data.length ≤ b.pos ∧ a.pos < b.pos

theorem pairwise_wordTok (w : Bytes) (p : Nat) : (wordTok w p).Pairwise Before := by
  unfold wordTok; split <;> simp

theorem pairwise_emitToks (e) (i : Nat) : (emitToks e i).Pairwise Before := by
  unfold emitToks; split <;> simp

theorem ordered_gen (rest : Bytes) : ∀ (i : Nat) (w : Bytes) (p : Nat), p + w.length ≤ i →
    (L rest i w p).Pairwise Before ∧ ∀ t ∈ L rest i w p, p ≤ t.pos := by
  induction rest using step_induction with
  | nil =>
    intro i w p h
    rw [L_nil]
    refine ⟨pairwise_wordTok _ _, ?_⟩
    intro t ht
    obtain ⟨_, rfl⟩ := mem_wordTok ht
    simp
  | word c rest hs ih =>
    intro i w p h
    rw [L_word hs]
    exact ih (i + 1) (w ++ [c]) p (by simp; omega)
  | unterm c rest hs =>
    intro i w p h
    rw [L_unterm hs]
    refine ⟨?_, ?_⟩
    · rw [List.pairwise_append]
      refine ⟨pairwise_wordTok _ _, pairwise_wordTok _ _, ?_⟩
      intro a ha b hb
      obtain ⟨hw, rfl⟩ := mem_wordTok ha
      obtain ⟨_, rfl⟩ := mem_wordTok hb
      have := List.length_pos_iff.mpr hw
      simp [Before, toLower_length]; omega
    · intro t ht
      rcases List.mem_append.mp ht with ht | ht
      · obtain ⟨_, rfl⟩ := mem_wordTok ht; simp
      · obtain ⟨_, rfl⟩ := mem_wordTok ht; simp; omega
  | brk c rest e k next hs ih =>
    intro i w p h
    obtain ⟨_, hk0, hemit⟩ := stepOf_brk_spec hs
    obtain ⟨ih1, ih2⟩ := ih (i + k) [] (i + k) (by simp)
    rw [L_brk hs]
    refine ⟨?_, ?_⟩
    · rw [List.pairwise_append, List.pairwise_append]
      refine ⟨⟨pairwise_wordTok _ _, pairwise_emitToks _ _, ?_⟩, ih1, ?_⟩
      · intro a ha b hb
        obtain ⟨hw, rfl⟩ := mem_wordTok ha
        obtain ⟨_, hb⟩ := mem_emitToks hb
        have := List.length_pos_iff.mpr hw
        simp [Before, toLower_length]; omega
      · intro a ha b hb
        have hb := ih2 b hb
        rcases List.mem_append.mp ha with ha | ha
        · obtain ⟨hw, rfl⟩ := mem_wordTok ha
          have := List.length_pos_iff.mpr hw
          simp [Before, toLower_length]; omega
        · obtain ⟨he, ha⟩ := mem_emitToks ha
          have := (hemit _ _ he).2
          simp [Before]; omega
    · intro t ht
      rcases List.mem_append.mp ht with ht | ht
      · rcases List.mem_append.mp ht with ht | ht
        · obtain ⟨_, rfl⟩ := mem_wordTok ht; simp
        · obtain ⟨_, ht⟩ := mem_emitToks ht; omega
      · have := ih2 t ht; omega

/-- (B) tokens appear at increasing, non-overlapping offsets -/
theorem spec_tokens_ordered (q : Bytes) :
    (Spec.lex q).Pairwise (fun a b => a.pos + a.data.length ≤ b.pos) :=
  (ordered_gen q 0 [] 0 (by simp)).1.imp (fun h => h.1)

/-- (B') offsets are strictly increasing (an empty literal `''` has empty text, so this is
    not a consequence of (B)) -/
theorem spec_tokens_strict (q : Bytes) : (Spec.lex q).Pairwise (fun a b => a.pos < b.pos) :=
  (ordered_gen q 0 [] 0 (by simp)).1.imp (fun h => h.2)

/-! ### `Outside` -/

theorem outside_fuel : ∀ (f1 f2 : Nat) (r : Bytes), r.length < f1 → r.length < f2 →
    outside f1 r = outside f2 r := by
  intro f1
  induction f1 with
  | zero => intro f2 r h; omega
  | succ f1 ih =>
    intro f2 r h1 h2
    cases f2 with
    | zero => omega
    | succ f2 =>
      cases r with
      | nil => rfl
      | cons c r =>
        simp only [List.length_cons] at h1 h2
        simp only [outside]
        split
        · split
          · rename_i body after hb
            have := literalBody_length hb
            exact ih f2 after (by omega) (by omega)
          · rfl
        · exact ih f2 r (by omega) (by omega)

theorem Outside_nil : Outside [] := rfl

theorem Outside_cons_quote {c : UInt8} {r : Bytes} (hc : (isQuote c || isBackquote c) = true) :
    Outside (c :: r) ↔ ∃ body after, literalBody c r = some (body, after) ∧ Outside after := by
  unfold Outside
  simp only [List.length_cons, outside, hc, if_true]
  split
  · rename_i body after hb
    have := literalBody_length hb
    rw [outside_fuel (r.length + 1) (after.length + 1) after (by omega) (by omega)]
    simp only [hb, Option.some.injEq, Prod.mk.injEq]
    constructor
    · intro h; exact ⟨body, after, ⟨rfl, rfl⟩, h⟩
    · rintro ⟨_, _, ⟨rfl, rfl⟩, h⟩; exact h
  · rename_i hb
    simp [hb]

theorem Outside_cons_other {c : UInt8} {r : Bytes} (hc : (isQuote c || isBackquote c) = false) :
    Outside (c :: r) ↔ Outside r := by
  unfold Outside
  simp [outside, hc]

theorem stepOf_word_iff (c : UInt8) (rest : Bytes) : stepOf c rest = .word ↔ wordByte c = true := by
  unfold stepOf wordByte
  split
  · simp [*]
  · split
    · split <;> simp [*]
    · split
      · split
        · split
          · simp [*]
          · split <;> simp [*]
        · split <;> simp [*]
      · split
        · rename_i h; simp at h; rcases h with h | h <;> simp [*]
        · rename_i h; simp at h; simp [*]

theorem Outside_step {c : UInt8} {r : Bytes} (h : Outside (c :: r)) :
    stepOf c r ≠ .unterm ∧ (stepOf c r = .word → Outside r) ∧
      ∀ e k next, stepOf c r = .brk e k next → Outside next := by
  by_cases hc : (isQuote c || isBackquote c) = true
  · obtain ⟨body, after, hb, ho⟩ := (Outside_cons_quote hc).mp h
    have hbl := (quote_facts c hc).1
    simp only [stepOf, hbl, hc, hb]
    refine ⟨by simp, by simp, ?_⟩
    intro e k next hs
    simp at hs
    rw [← hs.2.2]; exact ho
  · simp at hc
    have hc' : (isQuote c || isBackquote c) = false := by simp [hc]
    have ho := (Outside_cons_other hc').mp h
    refine ⟨?_, fun _ => ho, ?_⟩
    · unfold stepOf
      simp only [hc']
      split
      · simp
      · simp only [Bool.false_eq_true, if_false]
        split
        · split
          · split
            · simp
            · split <;> simp
          · split <;> simp
        · split <;> simp
    · intro e k next hs
      unfold stepOf at hs
      simp only [hc'] at hs
      split at hs
      · cases hs; exact ho
      · simp only [Bool.false_eq_true, if_false] at hs
        split at hs
        · split at hs
          · rename_i rest'
            split at hs
            · cases hs
              exact (Outside_cons_other (c := 61) (by decide)).mp ho
            · split at hs <;> (cases hs; exact ho)
          · split at hs <;> (cases hs; exact ho)
        · split at hs
          · cases hs; exact ho
          · cases hs

/-! ### composition: scanning `pre ++ X` when `pre` ends outside any literal -/

/-- the look-ahead hazard at the seam: an operator byte ending `pre` and `=` starting `X` -/
def Seam (pre X : Bytes) : Prop := ¬ (pre.getLast?.any isOpChar = true ∧ X.head? = some 61)

theorem getLast?_any_append (P : UInt8 → Bool) (a b : Bytes) (h : b.getLast?.any P = true) :
    (a ++ b).getLast?.any P = true := by
  rw [List.getLast?_append]
  cases hl : b.getLast? with
  | none => simp [hl] at h
  | some y => simpa [hl] using h

theorem Seam_suffix {a b X : Bytes} (h : Seam (a ++ b) X) : Seam b X := by
  intro ⟨h1, h2⟩
  exact h ⟨getLast?_any_append _ a b h1, h2⟩

theorem Seam_nil_right (pre : Bytes) : Seam pre [] := by simp [Seam]

theorem Seam_of_head_ne {pre X : Bytes} (h : X.head? ≠ some 61) : Seam pre X := by
  intro ⟨_, h2⟩; exact h h2

theorem stepOf_append_brk {c : UInt8} {r X : Bytes} {e k next}
    (hseam : Seam (c :: r) X) (h : stepOf c r = .brk e k next) :
    stepOf c (r ++ X) = .brk e k (next ++ X) := by
  unfold stepOf at h ⊢
  split at h
  · rename_i hb
    cases h; simp [hb]
  · rename_i hb
    simp only [hb, Bool.false_eq_true, if_false]
    split at h
    · rename_i hq
      simp only [hq, if_true]
      split at h
      · rename_i body after hlb
        rw [literalBody_append X hlb]
        cases h; rfl
      · cases h
    · rename_i hq
      simp only [hq, Bool.false_eq_true, if_false]
      split at h
      · rename_i hop
        simp only [hop, if_true]
        split at h
        · rename_i rest'
          simp only [List.cons_append]
          split at h
          · rename_i h2; cases h; simp [h2]
          · rename_i h2
            split at h
            · rename_i h3; cases h; simp [h2, h3]
            · rename_i h3; cases h; simp [h2, h3]
        · rename_i hne
          have : ∀ rest', r ++ X = 61 :: rest' → False := by
            intro rest' hr
            cases r with
            | nil =>
              apply hseam
              simp at hr
              simp [hop, hr]
            | cons d r' =>
              simp at hr
              exact hne r' (by rw [hr.1])
          split
          · rename_i rest' hr
            exact (this rest' hr).elim
          · split at h <;> rename_i h2 <;> cases h <;> simp [h2]
      · rename_i hop
        simp only [hop, Bool.false_eq_true, if_false]
        split at h
        · rename_i hp; cases h; simp [hp]
        · cases h

/-- Composition lemma.  Scanning `pre ++ X` from state `(i, w, p)` when `pre` ends outside any
    literal: the tokens `toks` produced while scanning `pre` and the state `(w', p')` reached at the
    seam depend on `pre` only — for every continuation `X` without the look-ahead hazard.
    A pending word at the seam means `pre` ends with a word byte. -/
theorem compose (pre : Bytes) : Outside pre → ∀ (i : Nat) (w : Bytes) (p : Nat),
    ∃ (toks : List Token) (w' : Bytes) (p' : Nat),
      (w' ≠ [] → (pre = [] ∧ w' = w) ∨ pre.getLast?.any wordByte = true) ∧
      ∀ X, Seam pre X → L (pre ++ X) i w p = toks ++ L X (i + pre.length) w' p' := by
  induction pre using step_induction with
  | nil =>
    intro _ i w p
    exact ⟨[], w, p, fun _ => Or.inl ⟨rfl, rfl⟩, fun X _ => by simp⟩
  | word c r hs ih =>
    intro ho i w p
    obtain ⟨toks, w', p', hw, heq⟩ := ih ((Outside_step ho).2.1 hs) (i + 1) (w ++ [c]) p
    refine ⟨toks, w', p', ?_, ?_⟩
    · intro hne
      right
      rcases hw hne with ⟨rfl, _⟩ | h
      · simpa using (stepOf_word_iff c []).mp hs
      · exact getLast?_any_append _ [c] r h
    · intro X hX
      have hs' : stepOf c (r ++ X) = .word :=
        (stepOf_word_iff _ _).mpr ((stepOf_word_iff _ _).mp hs)
      have hX' : Seam r X := Seam_suffix (a := [c]) hX
      rw [List.cons_append, L_word hs', heq X hX']
      simp [Nat.add_assoc, Nat.add_comm 1]
  | unterm c r hs =>
    intro ho
    exact ((Outside_step ho).1 hs).elim
  | brk c r e k next hs ih =>
    intro ho i w p
    obtain ⟨⟨taken, hsplit, hk⟩, _, _⟩ := stepOf_brk_spec hs
    obtain ⟨toks, w', p', hw, heq⟩ := ih ((Outside_step ho).2.2 e k next hs) (i + k) [] (i + k)
    refine ⟨wordTok w p ++ emitToks e i ++ toks, w', p', ?_, ?_⟩
    · intro hne
      right
      rcases hw hne with ⟨_, h⟩ | h
      · exact (hne h).elim
      · rw [hsplit]; exact getLast?_any_append _ taken next h
    · intro X hX
      have hX' : Seam next X := by rw [hsplit] at hX; exact Seam_suffix hX
      rw [List.cons_append, L_brk (stepOf_append_brk hX hs), heq X hX']
      have : (c :: r).length = k + next.length := by rw [hsplit]; simp [hk]
      simp only [List.length_cons] at this
      simp [this, Nat.add_assoc]

/-! ### (C) literals are preserved byte for byte -/

theorem stepOf_literal {qc : UInt8} (body post : Bytes) (hq : isQuote qc ∨ isBackquote qc)
    (hb : qc ∉ body) :
    stepOf qc (body ++ qc :: post) =
      .brk (some (if isQuote qc then tkSTRING else tkNAME, body)) (body.length + 2) post := by
  have hq' : (isQuote qc || isBackquote qc) = true := by simpa using hq
  simp [stepOf, (quote_facts qc hq').1, hq', literalBody_of_eq body post hb]

/-- (C) a terminated literal that starts outside any other literal is one token, with exactly its
    content, at exactly its offset -/
theorem spec_literal_preserved (pre body post : Bytes) (qc : UInt8)
    (hq : isQuote qc ∨ isBackquote qc) (hb : qc ∉ body) (ho : Outside pre) :
    ({ tp := if isQuote qc then Generated.tkSTRING else Generated.tkNAME, data := body,
       pos := pre.length } : Token) ∈ Spec.lex (pre ++ qc :: body ++ qc :: post) := by
  have hq' : (isQuote qc || isBackquote qc) = true := by simpa using hq
  obtain ⟨toks, w', p', _, heq⟩ := compose pre ho 0 [] 0
  have hX : Seam pre (qc :: (body ++ qc :: post)) :=
    Seam_of_head_ne (by simpa using (quote_facts qc hq').2.2)
  have : pre ++ qc :: body ++ qc :: post = pre ++ qc :: (body ++ qc :: post) := by simp
  rw [this, lex_eq_L, heq _ hX, L_brk (stepOf_literal body post hq hb)]
  simp [emitToks]

example : Outside [115, 101, 108, 32, 39, 97, 32, 98, 39, 32] := by decide  -- `sel 'a b' `
example : (39 : UInt8) ∉ ([97, 34, 32, 98] : Bytes) := by decide            -- `a" b` inside '…'

/-! ### (D) two-character operators are single tokens -/

theorem stepOf_op2 {c : UInt8} (post : Bytes) (hc : isOp2Lead c = true) :
    stepOf c (61 :: post) = .brk (some (tkOPERATOR, [c, 61])) 2 post := by
  obtain ⟨hop, _⟩ := op2_facts c hc
  obtain ⟨_, hb, hq⟩ := op_facts c hop
  simp [stepOf, hb, hq, hop, hc]

/-- (D) `^= ~= != <= >=` outside literals are single tokens -/
theorem spec_two_char_op (pre post : Bytes) (c : UInt8) (hc : isOp2Lead c) (ho : Outside pre) :
    ({ tp := Generated.tkOPERATOR, data := [c, 61], pos := pre.length } : Token)
      ∈ Spec.lex (pre ++ c :: 61 :: post) := by
  obtain ⟨toks, w', p', _, heq⟩ := compose pre ho 0 [] 0
  have hX : Seam pre (c :: 61 :: post) :=
    Seam_of_head_ne (by simpa using (op2_facts c hc).2)
  rw [lex_eq_L, heq _ hX, L_brk (stepOf_op2 post hc)]
  simp [emitToks]

example : isOp2Lead 60 = true ∧ Outside [97, 32, 39, 60, 61, 39] := by decide  -- `a '<='` then `<=`

/-! ### (F) words are case-insensitive -/

theorem wordTok_case (w w' : Bytes) (p : Nat) (h : toLower w = toLower w') :
    wordTok w p = wordTok w' p := by
  have hl : w.length = w'.length := by
    have := congrArg List.length h
    simpa [toLower] using this
  have : w.isEmpty = w'.isEmpty := by
    cases w <;> cases w' <;> simp at hl ⊢
  simp [wordTok, this, h]

example : toLower [83, 69, 76] = toLower [115, 101, 108] ∧ ([83, 69, 76] : Bytes) ≠ [115, 101, 108] := by
  decide

/-! ### (E) spacing is irrelevant (kinds and texts) -/

theorem stepOf_blank {b : UInt8} (rest : Bytes) (hb : specBlank b = true) :
    stepOf b rest = .brk none 1 rest := by
  simp [stepOf, hb]

theorem wordTok_nil (p : Nat) : wordTok [] p = [] := rfl

/-- a non-empty run of blanks flushes the pending word and is otherwise skipped -/
theorem L_blanks (bs : Bytes) : ∀ (b : UInt8) (post : Bytes) (i : Nat) (w : Bytes) (p : Nat),
    (∀ x ∈ b :: bs, specBlank x = true) →
    L (b :: bs ++ post) i w p =
      wordTok w p ++ L post (i + (b :: bs).length) [] (i + (b :: bs).length) := by
  induction bs with
  | nil =>
    intro b post i w p h
    have hb : specBlank b = true := h b (by simp)
    rw [List.cons_append, L_brk (stepOf_blank _ hb)]
    simp [emitToks]
  | cons b' bs ih =>
    intro b post i w p h
    have hb : specBlank b = true := h b (by simp)
    rw [List.cons_append, L_brk (stepOf_blank _ hb)]
    rw [ih b' post (i + 1) [] (i + 1) (fun x hx => h x (by simp [hx]))]
    simp [emitToks, wordTok_nil, Nat.add_assoc, Nat.add_comm 1]

theorem kinds_L_blanks (bs post : Bytes) (i : Nat) (w : Bytes) (p : Nat) (hne : bs ≠ [])
    (h : ∀ x ∈ bs, specBlank x = true) :
    kindsData (L (bs ++ post) i w p) = kindsData (wordTok w p) ++ kindsData (L post 0 [] 0) := by
  cases bs with
  | nil => exact (hne rfl).elim
  | cons b bs =>
    rw [L_blanks bs b post i w p h, kindsData_append]
    rw [kindsData_L post _ 0 [] _ 0]

theorem head_blank_ne {bs : Bytes} (h : ∀ x ∈ bs, specBlank x = true) : bs.head? ≠ some 61 := by
  cases bs with
  | nil => simp
  | cons b bs =>
    have := (blank_facts b (h b (by simp))).1
    simpa using this

/-- (E3, leading) blanks in front of a query do not change kinds and texts -/
theorem spec_leading_blanks (bs q : Bytes) (hbs : ∀ b ∈ bs, specBlank b) :
    kindsData (Spec.lex (bs ++ q)) = kindsData (Spec.lex q) := by
  by_cases hne : bs = []
  · subst hne; rfl
  · rw [lex_eq_L, lex_eq_L, kinds_L_blanks bs q 0 [] 0 hne hbs]
    simp [wordTok_nil, kindsData]

/-- (E3, trailing) blanks after a query that ends outside any literal do not change kinds and
    texts -/
theorem spec_trailing_blanks (bs q : Bytes) (hbs : ∀ b ∈ bs, specBlank b) (ho : Outside q) :
    kindsData (Spec.lex (q ++ bs)) = kindsData (Spec.lex q) := by
  obtain ⟨toks, w', p', _, heq⟩ := compose q ho 0 [] 0
  have h1 := heq bs (Seam_of_head_ne (head_blank_ne hbs))
  have h2 := heq [] (Seam_nil_right q)
  rw [List.append_nil] at h2
  rw [lex_eq_L, lex_eq_L, h1, h2, kindsData_append, kindsData_append]
  congr 1
  by_cases hne : bs = []
  · subst hne; rfl
  · have := kinds_L_blanks bs [] (0 + q.length) w' p' hne hbs
    rw [List.append_nil] at this
    rw [this, L_nil, L_nil]
    simp [wordTok_nil, kindsData]

example : (∀ b ∈ ([32, 9, 10] : Bytes), specBlank b) ∧ Outside [97, 32, 39, 98, 32, 39] := by
  decide

/-- (E1) a non-empty run of blanks outside literals is as good as one space -/
theorem spec_blank_run (pre bs post : Bytes) (ho : Outside pre) (hne : bs ≠ [])
    (hbs : ∀ b ∈ bs, specBlank b) :
    kindsData (Spec.lex (pre ++ bs ++ post)) = kindsData (Spec.lex (pre ++ 32 :: post)) := by
  obtain ⟨toks, w', p', _, heq⟩ := compose pre ho 0 [] 0
  have h32 : ∀ x ∈ ([32] : Bytes), specBlank x = true := by decide
  have h1 := heq (bs ++ post) (Seam_of_head_ne (by
    cases bs with
    | nil => exact (hne rfl).elim
    | cons b bs => simpa using (blank_facts b (hbs b (by simp))).1))
  have h2 := heq (32 :: post) (Seam_of_head_ne (by simp))
  have e32 : kindsData (L (32 :: post) (0 + pre.length) w' p') = _ :=
    kinds_L_blanks [32] post _ w' p' (by simp) h32
  rw [lex_eq_L, lex_eq_L, List.append_assoc, h1, h2, kindsData_append, kindsData_append,
    kinds_L_blanks bs post _ w' p' hne hbs, e32]

example : Outside [97, 39, 32, 32, 39] ∧ ([9, 32, 13, 10] : Bytes) ≠ [] ∧
    (∀ b ∈ ([9, 32, 13, 10] : Bytes), specBlank b) := by decide

/-- a byte that cannot continue a word flushes the pending word -/
theorem L_flush (post : Bytes) (i : Nat) (w : Bytes) (p : Nat)
    (h : ¬ post.head?.any wordByte = true) : L post i w p = wordTok w p ++ L post i [] p := by
  cases post with
  | nil => simp [L_nil, wordTok_nil]
  | cons d r =>
    have hd : wordByte d = false := by simpa using h
    cases hs : stepOf d r with
    | word => rw [(stepOf_word_iff d r).mp hs] at hd; cases hd
    | unterm => simp [L_unterm hs, wordTok_nil]
    | brk e k next => simp [L_brk hs, wordTok_nil]

/-- (E2) a space outside literals is optional, unless it separates two word bytes or an operator
    byte from `=` -/
theorem spec_space_optional (pre post : Bytes) (ho : Outside pre)
    (hword : ¬ (pre.getLast?.any wordByte ∧ post.head?.any wordByte))
    (hop : ¬ (pre.getLast?.any isOpChar ∧ post.head? = some 61)) :
    kindsData (Spec.lex (pre ++ 32 :: post)) = kindsData (Spec.lex (pre ++ post)) := by
  obtain ⟨toks, w', p', hw, heq⟩ := compose pre ho 0 [] 0
  have h32 : ∀ x ∈ ([32] : Bytes), specBlank x = true := by decide
  have h1 := heq (32 :: post) (Seam_of_head_ne (by simp))
  have h2 := heq post hop
  have e32 : kindsData (L (32 :: post) (0 + pre.length) w' p') = _ :=
    kinds_L_blanks [32] post _ w' p' (by simp) h32
  rw [lex_eq_L, lex_eq_L, h1, h2, kindsData_append, kindsData_append, e32]
  congr 1
  by_cases hw' : w' = []
  · subst hw'
    rw [kindsData_L post (0 + pre.length) 0 [] p' 0]
    simp [wordTok_nil, kindsData]
  · rcases hw hw' with ⟨_, h⟩ | h
    · exact (hw' h).elim
    · have hpost : ¬ post.head?.any wordByte = true := fun hp => hword ⟨h, hp⟩
      rw [L_flush post _ w' p' hpost, kindsData_append,
        kindsData_L post (0 + pre.length) 0 [] p' 0]

-- `a< 'x'` vs `a<'x'`, `f (x)` vs `f(x)`: the hypotheses hold
example : Outside [97, 60] ∧
    ¬ (([97, 60] : Bytes).getLast?.any wordByte ∧ ([39, 120, 39] : Bytes).head?.any wordByte) ∧
    ¬ (([97, 60] : Bytes).getLast?.any isOpChar ∧ ([39, 120, 39] : Bytes).head? = some 61) := by
  decide

/-! each hypothesis of (E2) is needed -/

-- `a b` vs `ab`: a space between two word bytes matters
example : (kindsData (Spec.lex ([97] ++ 32 :: [98]))).length ≠
    (kindsData (Spec.lex ([97] ++ [98]))).length := by decide
-- `< =` vs `<=`: a space between an operator byte and `=` matters
example : kindsData (Spec.lex ([60] ++ 32 :: [61])) ≠ kindsData (Spec.lex ([60] ++ [61])) := by
  decide
-- `'a b'` vs `'ab'`: a space inside a literal matters (`Outside pre` fails for pre = `'a`)
example : ¬ Outside [39, 97] ∧
    kindsData (Spec.lex ([39, 97] ++ 32 :: [98, 39])) ≠ kindsData (Spec.lex ([39, 97] ++ [98, 39])) := by
  decide

/-! ### (E3, trailing) without the `Outside` hypothesis

An unterminated literal is trimmed, so trailing blanks are irrelevant for *every* query. -/

theorem literalBody_none_iff {qc : UInt8} {s : Bytes} : literalBody qc s = none ↔ qc ∉ s := by
  induction s with
  | nil => simp [literalBody]
  | cons c r ih =>
    unfold literalBody
    by_cases h : c = qc
    · simp [h]
    · have h' : ¬ qc = c := fun e => h e.symm
      cases hb : literalBody qc r with
      | none => simp [h, h', ih.mp hb]
      | some p =>
        have : ¬ qc ∉ r := fun hn => by rw [ih.mpr hn] at hb; cases hb
        simp [h, h'] 
        simpa using this

theorem not_outside_split (q : Bytes) : ¬ Outside q →
    ∃ pre c rest, q = pre ++ c :: rest ∧ Outside pre ∧ (isQuote c || isBackquote c) = true ∧
      literalBody c rest = none := by
  induction hn : q.length using Nat.strongRecOn generalizing q with
  | _ n ih =>
    intro ho
    cases q with
    | nil => exact (ho Outside_nil).elim
    | cons c r =>
      subst hn
      by_cases hc : (isQuote c || isBackquote c) = true
      · cases hb : literalBody c r with
        | none => exact ⟨[], c, r, rfl, Outside_nil, hc, hb⟩
        | some p =>
          obtain ⟨body, after⟩ := p
          have hlen := literalBody_length hb
          obtain ⟨h1, h2⟩ := literalBody_eq hb
          have hoa : ¬ Outside after := fun h => ho ((Outside_cons_quote hc).mpr ⟨_, _, hb, h⟩)
          obtain ⟨pre, c', rest, e, hp, hc', hr⟩ :=
            ih after.length (by simp; omega) after rfl hoa
          refine ⟨c :: body ++ c :: pre, c', rest, by simp [h1, e], ?_, hc', hr⟩
          rw [List.cons_append]
          exact (Outside_cons_quote hc).mpr ⟨body, pre, literalBody_of_eq body pre h2, hp⟩
      · have hc0 : (isQuote c || isBackquote c) = false := by simpa using hc
        have hor : ¬ Outside r := fun h => ho ((Outside_cons_other hc0).mpr h)
        obtain ⟨pre, c', rest, e, hp, hc', hr⟩ := ih r.length (by simp) r rfl hor
        exact ⟨c :: pre, c', rest, by simp [e], (Outside_cons_other hc0).mpr hp, hc', hr⟩

theorem dropWhile_append_all (p : UInt8 → Bool) (a b : Bytes) (h : ∀ x ∈ a, p x = true) :
    (a ++ b).dropWhile p = b.dropWhile p := by
  induction a with
  | nil => rfl
  | cons x a ih =>
    have hx := h x (by simp)
    simp [hx, ih (fun y hy => h y (by simp [hy]))]

theorem trimSpace_append_blanks (c : UInt8) (rest bs : Bytes) (hc : isSpaceByte c = false)
    (hbs : ∀ b ∈ bs, isSpaceByte b = true) :
    trimSpace (c :: rest ++ bs) = trimSpace (c :: rest) := by
  unfold trimSpace
  have e1 : (c :: rest ++ bs).dropWhile isSpaceByte = c :: rest ++ bs := by
    simp [hc]
  have e2 : (c :: rest).dropWhile isSpaceByte = c :: rest := by simp [hc]
  rw [e1, e2, List.reverse_append,
    dropWhile_append_all _ bs.reverse _ (fun x hx => hbs x (by simpa using hx))]

theorem stepOf_unterm {c : UInt8} {rest : Bytes} (hc : (isQuote c || isBackquote c) = true)
    (h : literalBody c rest = none) : stepOf c rest = .unterm := by
  simp [stepOf, (quote_facts c hc).1, hc, h]

/-- (E3, trailing, unconditional) -/
theorem spec_trailing_blanks' (bs q : Bytes) (hbs : ∀ b ∈ bs, specBlank b) :
    kindsData (Spec.lex (q ++ bs)) = kindsData (Spec.lex q) := by
  by_cases ho : Outside q
  · exact spec_trailing_blanks bs q hbs ho
  · obtain ⟨pre, c, rest, rfl, hp, hc, hr⟩ := not_outside_split q ho
    obtain ⟨toks, w', p', _, heq⟩ := compose pre hp 0 [] 0
    have hne : c ≠ 61 := (quote_facts c hc).2.2
    have hcb : c ∉ bs := fun hm => by
      have := hbs c hm
      rw [(quote_facts c hc).1] at this; cases this
    have hr' : literalBody c (rest ++ bs) = none := by
      rw [literalBody_none_iff] at hr ⊢
      simp [hr, hcb]
    have h1 := heq (c :: (rest ++ bs)) (Seam_of_head_ne (by simpa using hne))
    have h2 := heq (c :: rest) (Seam_of_head_ne (by simpa using hne))
    have e : pre ++ c :: rest ++ bs = pre ++ c :: (rest ++ bs) := by simp
    rw [lex_eq_L, lex_eq_L, e, h1, h2, L_unterm (stepOf_unterm hc hr'),
      L_unterm (stepOf_unterm hc hr), ← List.cons_append,
      trimSpace_append_blanks c rest bs (quote_facts c hc).2.1 hbs]

example : ¬ Outside [97, 32, 39, 98] ∧ (∀ b ∈ ([32, 10] : Bytes), specBlank b) := by decide

/-! ### axioms -/


end Kvql.Proofs.LexSpec
