/-
  Aggregated SELECT, end to end — part 7: the theorems over `Run.runQuery` (statement TEXT).

  Chain:  text ──Lexer.split, planStage──▶ select s   (hypotheses: accepted; `finalPlanCheck s = ok true`)
          foldSelect s = ok f                          (total: C04 `fold_total`; `f` is a function of `s`)
          WHERE          row mode: C01 / C14 / C04 exactly as for `select *` (`star_facts`), or directly
                         the verdict of the row evaluator on the folded WHERE; batch mode: C03
          scan           C02 `scan_plan_sound`, C01/C03 `scan_rows`, C13 `select_read_only`
          evaluation     C05 (`row_cache_ok`, `execBatch_bs`): the field cache is invisible
          aggregation    C09 (`prepare_partition`, `aggr_key_injective`, `groupRow_accs`, `groupRow_key`,
                         `prepareBatch_iff`, `drainBatch_spec`) + `complete_fold`, `aggExpr_eval_spec`
-/
import Kvql.Proofs.RunAggrBatch

set_option linter.unusedSimpArgs false
set_option linter.unusedVariables false

namespace Kvql.Proofs.RunAggr
open Kvql Kvql.Run Kvql.Aggr Kvql.Proofs.Aggr Kvql.Generated Kvql.Proofs.Typing Kvql.Cache
open Kvql.Plans Kvql.Storage Kvql.Proofs.Scan Kvql.Proofs.RunScan Kvql.Proofs.RunTables Kvql.Proofs.RunLimit
open Kvql.PlanCheck (listAggrCalls isAggrCallee isAggr planStage finalPlanCheck)

/-- `runQuery` on an accepted aggregated SELECT is `runAggrSelect` on the folded statement -/
theorem runQuery_aggr {query : Bytes} {pf : Bytes → F64} {s : SelectS} {f : FoldedSelect}
    (hplan : planStage pf (Lexer.split query) = .ok (.select s)) (hagg : finalPlanCheck s = .ok true)
    (hfold : foldSelect s = .ok f) (store : Store) (kind : PollKind) {bs : Nat} (hbs : 1 ≤ bs) (cache : Bool) :
    runQuery query pf store kind bs cache = runAggrSelect s f store kind bs cache := by
  have hbs0 : (bs == 0) = false := by
    cases bs with
    | zero => omega
    | succ k => rfl
  unfold runQuery
  rw [hplan]
  simp only [runStmt, hbs0, Bool.false_eq_true, if_false, hagg, hfold]

/-- folding always succeeds -/
theorem foldSelect_total (s : SelectS) : ∃ f, foldSelect s = .ok f := by
  obtain ⟨fw, n, hw⟩ := Fold.optimizeBoth_total s.where_
  obtain ⟨f, _, hf, _⟩ := Kvql.Proofs.Run.foldSelect_ok s hw
  exact ⟨f, hf⟩

/-- the WHERE of the folded statement is the tree `Optimize()` returns for the parsed WHERE (when that
    has no alias reference) -/
theorem foldSelect_where {s : SelectS} {f : FoldedSelect} (hfold : foldSelect s = .ok f)
    (haf : aliasFree s.where_ = true) : ∃ n, Fold.optimizeBoth s.where_ = .ok (f.where_, n) := by
  obtain ⟨fw, n, hw⟩ := Fold.optimizeBoth_total s.where_
  obtain ⟨f', tbl, hf', hwe⟩ := Kvql.Proofs.Run.foldSelect_ok s hw
  rw [hfold] at hf'
  injection hf' with hf'
  subst hf'
  rw [Kvql.Proofs.RunFold.resolveTop_of_af tbl fw (Kvql.Proofs.RunFold.optimizeBoth_af haf hw)] at hwe
  exact ⟨n, by rw [hwe]; exact hw⟩

/-- (1)(4), row mode, WHERE judged by the row evaluator on the folded WHERE -/
theorem run_aggr_next_exec {query : Bytes} {pf : Bytes → F64} {s : SelectS} {f : FoldedSelect}
    (hplan : planStage pf (Lexer.split query) = .ok (.select s)) (hagg : finalPlanCheck s = .ok true)
    (hfold : foldSelect s = .ok f) (hord : s.order = none) (hlim : s.limit = none)
    {groups : List Expr} (hg : groupExprs s f = some groups)
    (hcov : ∃ afields, f.fields.mapM (aggrField Ctx.off) = some afields)
    (hafg : ∀ e ∈ groups, aliasFree e = true) (haff : ∀ fe ∈ f.fields, aliasFree fe = true)
    (store : Store) (hs : store.Sorted)
    (g : SPair → Bool) (hx : ∀ p ∈ store, exec f.where_ (toKv p) Ctx.off = (.ok (.bool (g p)), Ctx.off))
    (hev : ∀ p ∈ store.filter g, Evaluable groups f.fields p)
    {out : List (List AVal)} (hspec : specRows groups f.fields (store.filter g) = .ok out)
    (bs : Nat) (hbs : 1 ≤ bs) (cache : Bool) :
    (runQuery query pf store .next bs cache).fail = none ∧
    (runQuery query pf store .next bs cache).rows = out.map (List.map toValue) ∧
    (runQuery query pf store .next bs cache).world.store = store ∧
    (∀ e ∈ (runQuery query pf store .next bs cache).world.log, e.call.isRead = true) := by
  rw [runQuery_aggr hplan hagg hfold store .next hbs cache]
  exact runAggrSelect_next s f store hs bs hbs cache hord hlim hg hcov hafg haff g hx hev hspec

/-- (1)(4), row mode, WHERE judged by the REFERENCE evaluator on the parsed WHERE (C01 for the
    selection, exactly the hypotheses of E2E `run_select_star_correct`) -/
theorem run_aggr_next_ref {query : Bytes} {pf : Bytes → F64} {s : SelectS} {f : FoldedSelect}
    (hplan : planStage pf (Lexer.split query) = .ok (.select s)) (hagg : finalPlanCheck s = .ok true)
    (hfold : foldSelect s = .ok f) (hord : s.order = none) (hlim : s.limit = none)
    (haf : aliasFree s.where_ = true) (hside : sideOk s.where_ = true) (hcore : Refine.core s.where_ = true)
    {groups : List Expr} (hg : groupExprs s f = some groups)
    (hcov : ∃ afields, f.fields.mapM (aggrField Ctx.off) = some afields)
    (hafg : ∀ e ∈ groups, aliasFree e = true) (haff : ∀ fe ∈ f.fields, aliasFree fe = true)
    (store : Store) (hs : store.Sorted)
    (hevw : ∀ p ∈ store, Spec.evaluable s.where_ ⟨p.1, p.2⟩ = true)
    (hev : ∀ p ∈ store.filter (fun p => Spec.holds s.where_ ⟨p.1, p.2⟩), Evaluable groups f.fields p)
    {out : List (List AVal)}
    (hspec : specRows groups f.fields (store.filter (fun p => Spec.holds s.where_ ⟨p.1, p.2⟩)) = .ok out)
    (bs : Nat) (hbs : 1 ≤ bs) (cache : Bool) :
    (runQuery query pf store .next bs cache).fail = none ∧
    (runQuery query pf store .next bs cache).rows = out.map (List.map toValue) ∧
    (runQuery query pf store .next bs cache).world.store = store ∧
    (∀ e ∈ (runQuery query pf store .next bs cache).world.log, e.call.isRead = true) := by
  obtain ⟨n, hw⟩ := foldSelect_where hfold haf
  obtain ⟨hx, _⟩ := Kvql.Proofs.Run.star_facts hplan haf hside hcore hevw hw
  exact run_aggr_next_exec hplan hagg hfold hord hlim hg hcov hafg haff store hs
    (Select.specHolds s.where_) hx hev hspec bs hbs cache

/-- (1)(4), batch mode -/
theorem run_aggr_batch {query : Bytes} {pf : Bytes → F64} {s : SelectS} {f : FoldedSelect}
    (hplan : planStage pf (Lexer.split query) = .ok (.select s)) (hagg : finalPlanCheck s = .ok true)
    (hfold : foldSelect s = .ok f) (hord : s.order = none) (hlim : s.limit = none)
    {groups : List Expr} (hg : groupExprs s f = some groups)
    (hcov : ∃ afields, f.fields.mapM (aggrField Ctx.off) = some afields)
    (hafw : aliasFree f.where_ = true)
    (hafg : ∀ e ∈ groups, aliasFree e = true) (haff : ∀ fe ∈ f.fields, aliasFree fe = true)
    (store : Store) (hs : store.Sorted)
    (hokw : f.where_.vecOk = true)
    (hbatchw : ∀ p ∈ store, ∃ b, (execBatch f.where_ [⟨p.1, p.2⟩] Ctx.off).1 = .ok [.bool b])
    (hokg : ∀ e ∈ groups, e.vecOk = true)
    (hbatchg : ∀ p ∈ store.filter (Select.accepted f.where_), ∀ e ∈ groups,
      ∃ v, (execBatch e [⟨p.1, p.2⟩] Ctx.off).1 = .ok [v])
    (hev : ∀ p ∈ store.filter (Select.accepted f.where_), Evaluable groups f.fields p)
    {out : List (List AVal)} (hspec : specRows groups f.fields (store.filter (Select.accepted f.where_)) = .ok out)
    (bs : Nat) (hbs : 1 ≤ bs) (cache : Bool) :
    (runQuery query pf store .batch bs cache).fail = none ∧
    (runQuery query pf store .batch bs cache).rows = out.map (List.map toValue) ∧
    (runQuery query pf store .batch bs cache).world.store = store ∧
    (∀ e ∈ (runQuery query pf store .batch bs cache).world.log, e.call.isRead = true) := by
  rw [runQuery_aggr hplan hagg hfold store .batch hbs cache]
  exact runAggrSelect_batch s f store hs bs hbs cache hord hlim hg hcov hafw hafg haff hokw hbatchw hokg hbatchg
    hev hspec

/-- (3) row mode and batch mode, any two batch sizes, cache on or off on either side -/
theorem run_aggr_modes_agree {query : Bytes} {pf : Bytes → F64} {s : SelectS} {f : FoldedSelect}
    (hplan : planStage pf (Lexer.split query) = .ok (.select s)) (hagg : finalPlanCheck s = .ok true)
    (hfold : foldSelect s = .ok f) (hord : s.order = none) (hlim : s.limit = none)
    {groups : List Expr} (hg : groupExprs s f = some groups)
    (hcov : ∃ afields, f.fields.mapM (aggrField Ctx.off) = some afields)
    (hafw : aliasFree f.where_ = true)
    (hafg : ∀ e ∈ groups, aliasFree e = true) (haff : ∀ fe ∈ f.fields, aliasFree fe = true)
    (store : Store) (hs : store.Sorted)
    (hokw : f.where_.vecOk = true)
    (hbatchw : ∀ p ∈ store, ∃ b, (execBatch f.where_ [⟨p.1, p.2⟩] Ctx.off).1 = .ok [.bool b])
    (hokg : ∀ e ∈ groups, e.vecOk = true)
    (hbatchg : ∀ p ∈ store.filter (Select.accepted f.where_), ∀ e ∈ groups,
      ∃ v, (execBatch e [⟨p.1, p.2⟩] Ctx.off).1 = .ok [v])
    (hev : ∀ p ∈ store.filter (Select.accepted f.where_), Evaluable groups f.fields p)
    {out : List (List AVal)} (hspec : specRows groups f.fields (store.filter (Select.accepted f.where_)) = .ok out)
    (kind kind' : PollKind) (bs bs' : Nat) (hbs : 1 ≤ bs) (hbs' : 1 ≤ bs') (cache cache' : Bool) :
    (runQuery query pf store kind bs cache).fail = none ∧
    (runQuery query pf store kind bs cache).rows = out.map (List.map toValue) ∧
    (runQuery query pf store kind' bs' cache').rows = (runQuery query pf store kind bs cache).rows ∧
    (runQuery query pf store kind bs cache).world.store = store ∧
    (∀ e ∈ (runQuery query pf store kind bs cache).world.log, e.call.isRead = true) := by
  have hx : ∀ p ∈ store, exec f.where_ (toKv p) Ctx.off = (.ok (.bool (Select.accepted f.where_ p)), Ctx.off) :=
    fun p hp => (where_batch_facts hokw (hbatchw p hp)).2
  have hall : ∀ (k : PollKind) (b : Nat) (hb : 1 ≤ b) (c : Bool),
      (runQuery query pf store k b c).fail = none ∧
      (runQuery query pf store k b c).rows = out.map (List.map toValue) ∧
      (runQuery query pf store k b c).world.store = store ∧
      (∀ e ∈ (runQuery query pf store k b c).world.log, e.call.isRead = true) := by
    intro k b hb c
    cases k with
    | next =>
      exact run_aggr_next_exec hplan hagg hfold hord hlim hg hcov hafg haff store hs _ hx hev hspec b hb c
    | batch =>
      exact run_aggr_batch hplan hagg hfold hord hlim hg hcov hafw hafg haff store hs hokw hbatchw hokg hbatchg
        hev hspec b hb c
  obtain ⟨a1, a2, a3, a4⟩ := hall kind bs hbs cache
  obtain ⟨_, b2, _, _⟩ := hall kind' bs' hbs' cache'
  exact ⟨a1, a2, by rw [a2, b2], a3, a4⟩

end Kvql.Proofs.RunAggr
