/-
  RunNoPanic, part 9: SELECT with a field list, row mode.  `Run.projTrace` lays the evaluation side
  (`Project.drainRowFuel`: filter and fields through the field cache) over the storage side (`Plans`,
  the filter looked up in the verdict table) and answers `glue` when the two disagree on a poll.  They
  never do — also when an evaluation FAILS somewhere: both sides stop at the same pair.

  Helpers: RunNoPanicLockRowA.lean (evaluation side: `drainRow_EOut`), RunNoPanicLockRowB.lean (storage
  side: `scanTrace_next_sSpec`).  Here: `zipProj` over the two descriptions, by induction on the pairs
  the scan yields.
-/
import Kvql.Proofs.RunNoPanicBase
import Kvql.Proofs.RunNoPanicHit
import Kvql.Proofs.RunFieldsTrace
import Kvql.Proofs.RunNoPanicLockRowA
import Kvql.Proofs.RunNoPanicLockRowB

namespace Kvql.Proofs.RunNoPanic

open Kvql Kvql.Run Kvql.Plans Kvql.Storage Kvql.Proofs.Scan

namespace LockRowNP

/-- a mild `perrFail` is an `exec` failure -/
theorem perrFail_mild_exec {e : Project.PErr} (h : mild (perrFail e) = true) : ∃ cls, perrFail e = .exec cls := by
  cases e with
  | eval x => cases x <;> first | exact ⟨_, rfl⟩ | (simp [perrFail, mild] at h)
  | whereNotBool => exact ⟨_, rfl⟩
  | resultType => exact ⟨_, rfl⟩
  | colIndex => simp [perrFail, mild] at h
  | filterIndex => simp [perrFail, mild] at h
  | fuel => simp [perrFail, mild] at h

/-- **the two sides laid over each other**: the storage side as `sSpec` of the verdicts describes it, the
    evaluation side as `EOut` of the same verdicts describes it -/
theorem zipProj_safe (vd : SPair → Except Project.PErr Bool) (n : Nat) (w0 : Storage.World) :
    ∀ (l : List SPair) (polls : List (List SPair × Storage.World)) (fin : Option Fail × Storage.World)
      (rows : List Project.Row) (err : Option Project.PErr) (acc : List (List (List Value) × Storage.World)),
      (∀ p ∈ l, ∀ e, vd p = .error e → mild (perrFail e) = true) →
      polls.map (·.1) = (sSpec vd l).1 → fin.1 = (sSpec vd l).2.map perrFail → EOut vd n l rows err →
      (∀ p ∈ acc, ∀ r ∈ p.1, r.length = n) →
      (∀ fl, (zipProj polls fin (rows.map (fun r => [r])) err w0 acc).fin.1 = some fl → mild fl = true) ∧
      (∀ p ∈ (zipProj polls fin (rows.map (fun r => [r])) err w0 acc).polls, ∀ r ∈ p.1, r.length = n)
  | [], polls, fin, rows, err, acc, _, hp, hf, he, hacc => by
    simp only [sSpec, List.map_eq_nil_iff] at hp
    simp only [sSpec, Option.map_none] at hf
    obtain ⟨rfl, rfl⟩ := he
    subst hp
    obtain ⟨f1, wf⟩ := fin
    dsimp only at hf
    subst hf
    simp only [List.map_nil, zipProj]
    exact ⟨fun fl h => (by cases h), hacc⟩
  | p :: l, polls, fin, rows, err, acc, hm, hp, hf, he, hacc => by
    simp only [sSpec] at hp hf
    simp only [EOut] at he
    have hm' : ∀ q ∈ l, ∀ e, vd q = .error e → mild (perrFail e) = true :=
      fun q hq => hm q (List.mem_cons_of_mem _ hq)
    cases hv : vd p with
    | error e =>
      rw [hv] at hp hf he
      simp only [List.map_eq_nil_iff] at hp
      simp only [Option.map_some] at hf
      obtain ⟨rfl, rfl⟩ := he
      subst hp
      obtain ⟨f1, wf⟩ := fin
      dsimp only at hf
      subst hf
      obtain ⟨cls, hc⟩ := perrFail_mild_exec (hm p List.mem_cons_self e hv)
      simp only [List.map_nil]
      rw [hc]
      simp only [zipProj]
      refine ⟨fun fl h => ?_, hacc⟩
      simp only [Option.some.injEq] at h
      subst h
      exact hm p List.mem_cons_self e hv
    | ok b =>
      rw [hv] at hp hf he
      cases b with
      | false => exact zipProj_safe vd n w0 l polls fin rows err acc hm' hp hf he hacc
      | true =>
        dsimp only at hp hf he
        cases polls with
        | nil => simp at hp
        | cons pw polls' =>
          obtain ⟨pairs, w⟩ := pw
          simp only [List.map_cons, List.cons.injEq] at hp
          obtain ⟨hp1, hp2⟩ := hp
          subst hp1
          rcases he with ⟨rfl, e, rfl, hme⟩ | ⟨row, rows', rfl, hrl, he'⟩
          · simp only [List.map_nil, zipProj]
            refine ⟨fun fl h => ?_, hacc⟩
            simp only [Option.some.injEq] at h
            subst h
            exact hme
          · simp only [List.map_cons]
            rw [zipProj]
            simp only [List.length_cons, List.length_nil, beq_self_eq_true, if_true]
            apply zipProj_safe vd n w0 l polls' fin rows' err _ hm' hp2 hf he'
            intro q hq
            rcases List.mem_append.mp hq with h | h
            · exact hacc q h
            · simp only [List.mem_singleton] at h
              subst h
              intro r hr
              simp only [List.mem_singleton] at hr
              subst hr
              exact hrl

end LockRowNP

open LockRowNP in
/-- ROW MODE, FIELD LIST: the projection over the scan never ends in a panic, in unbounded recursion or in
    a disagreement of the models; every row has one column per select field. -/
theorem projTrace_next_safe (s : SelectS) (f : FoldedSelect) (store : Store) (hs : store.Sorted)
    (bs : Nat) (hbs : 1 ≤ bs) (cache : Bool) (hnf : s.allFields = false)
    (hw : f.where_.wf = true) (hf : ∀ x ∈ f.fields, x.wf = true) :
    (∀ fl, (projTrace s f store .next bs cache).fin.1 = some fl → mild fl = true) ∧
    (∀ p ∈ (projTrace s f store .next bs cache).polls, ∀ r ∈ p.1, r.length = (s.fieldNames.zip f.fields).length) := by
  have hwfn : ScanNode.WellFormed (nodeOf (Scan.optimize f.where_)) := by
    rw [Kvql.Proofs.Run.nodeOf_eq]; exact Select.nodeOf_wellFormed _
  have hfw : ∀ g ∈ (s.fieldNames.zip f.fields).map (fun p => (⟨p.1, p.2⟩ : Project.Field)), g.expr.wf = true := by
    intro g hg
    obtain ⟨q, hq, rfl⟩ := List.mem_map.mp hg
    exact hf q.2 (List.of_mem_zip hq).2
  obtain ⟨s1, s2⟩ := scanTrace_next_sSpec (nodeOf (Scan.optimize f.where_)) hwfn store hs
    (verdict f.where_ cache) bs
  have he := drainRow_EOut f.where_ _ hfw cache
    ((yielded (nodeOf (Scan.optimize f.where_)) store).length + 1)
    (yielded (nodeOf (Scan.optimize f.where_)) store) (Ctx.new cache) (by omega) (inv_new cache)
  have hmv : ∀ p ∈ yielded (nodeOf (Scan.optimize f.where_)) store, ∀ e,
      verdict f.where_ cache p = .error e → mild (perrFail e) = true :=
    fun p _ e h => mild_verdict hw h
  have hz := zipProj_safe (verdict f.where_ cache) _
    (scanTrace (nodeOf (Scan.optimize f.where_))
      (rowVerdicts f.where_ (Ctx.new cache) (yielded (nodeOf (Scan.optimize f.where_)) store)) .next bs store).w0
    _ _ _ _ _ [] hmv s1 s2 he (by simp)
  simp only [List.length_map] at hz
  unfold projTrace
  simp only [hnf, Bool.false_eq_true, if_false]
  exact hz

end Kvql.Proofs.RunNoPanic
