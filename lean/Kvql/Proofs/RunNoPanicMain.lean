/-
  RunNoPanic, part 16: the accepted statement on the store (`Run.runStmt`) and the statement text
  (`Run.runQuery`).
-/
import Kvql.Proofs.RunNoPanicWrite
import Kvql.Proofs.RunNoPanicSelect
import Kvql.Proofs.RunNoPanicAggr
import Kvql.Proofs.RunNoPanicParseD
import Kvql.Proofs.RunFieldsStmt

namespace Kvql.Proofs.RunNoPanic

open Kvql Kvql.Run Kvql.Plans Kvql.Storage Kvql.PlanCheck Kvql.Parser Kvql.Proofs.Typing Kvql.Generated

variable {pf : Bytes → F64}

/-! ### what acceptance gives -/

/-- the shape facts of an accepted SELECT and its folded form -/
theorem accepted_select_shape {query : Bytes} {s : SelectS} (h : planStage pf (Lexer.split query) = .ok (.select s))
    {f : FoldedSelect} (hf : foldSelect s = .ok f) : SelShape s f := by
  have hp := (planStage_ok_iff.mp h).1
  obtain ⟨hac, hw, hfs, hnames, htypes, hstar, hord, hgrp⟩ := parse_select_good hp (split_numToksOK query)
  obtain ⟨h1, h2, h3, h4, h5⟩ := foldSelect_wf hf hac (wf_of_clean hw) (fun x hx => wf_of_clean (hfs x hx)) hnames
  exact ⟨h1, h2, h3, hnames, h4, h5, htypes, hstar, hord, hgrp⟩

/-- every aggregate function has at least one argument (regenerated table) -/
theorem aggrTable_args : ∀ e ∈ aggrTable, e.2.2.1 = false ∧ 1 ≤ e.2.1 := by decide +kernel

/-- the callee of a listed call is an aggregate function -/
theorem listAggrCalls_isAggr : ∀ (e : Expr) (c : Bytes × List Expr), c ∈ listAggrCalls e → isAggr c.1 = true
  | .binop _ _ l r, c, hc => by
    simp only [listAggrCalls, List.mem_append] at hc
    rcases hc with hc | hc
    · exact listAggrCalls_isAggr l c hc
    · exact listAggrCalls_isAggr r c hc
  | .call p nm args, c, hc => by
    cases nm with
    | name q d =>
      simp only [listAggrCalls] at hc
      split at hc
      · simp only [List.mem_singleton] at hc; subst hc; assumption
      · simp at hc
    | _ => simp [listAggrCalls] at hc
  | .field .., c, hc | .str .., c, hc | .name .., c, hc | .num .., c, hc | .float .., c, hc | .bool .., c, hc
  | .not .., c, hc | .ref .., c, hc | .cycle, c, hc | .list .., c, hc | .access .., c, hc => by
    simp [listAggrCalls] at hc

/-- the aggregate calls of a validated select field have arguments -/
theorem accepted_aggr_args {query : Bytes} {s : SelectS} (h : planStage pf (Lexer.split query) = .ok (.select s)) :
    ∀ x ∈ s.fields, ∀ c ∈ listAggrCalls x, c.2 ≠ [] := by
  have hc := (planStage_ok_iff.mp h).2.1
  simp only [checkStmtCalls] at hc
  obtain ⟨_, _, hwf⟩ := bind_ok_iff.mp hc
  have key : ∀ (fs : List Expr), walkFields fs = .ok () → ∀ x ∈ fs, walkCalls true x = .ok () := by
    intro fs
    induction fs with
    | nil => intro _ x hx; cases hx
    | cons y ys ih =>
      intro hw x hx
      simp only [walkFields] at hw
      obtain ⟨_, h1, h2⟩ := bind_ok_iff.mp hw
      rcases List.mem_cons.mp hx with rfl | hx
      · exact h1
      · exact ih h2 x hx
  intro x hx c hcm
  have hx' := key s.fields hwf x hx
  have ha := listAggrCalls_isAggr x c hcm
  unfold isAggr at ha
  obtain ⟨e, he⟩ := Option.isSome_iff_exists.mp ha
  obtain ⟨hm, _⟩ := aggrEntry_mem he
  obtain ⟨hv, hn⟩ := aggrTable_args e hm
  have hl := listAggrCalls_arity x hx' c hcm e he hv
  intro hnil
  rw [hnil] at hl
  simp at hl
  omega

/-- an aggregated SELECT has a field list -/
theorem accepted_aggr_not_star {query : Bytes} {s : SelectS} (h : planStage pf (Lexer.split query) = .ok (.select s))
    (hagg : finalPlanCheck s = .ok true) : s.allFields = false := by
  cases hall : s.allFields with
  | false => rfl
  | true =>
    exfalso
    have hfields := parse_select_star (planStage_ok_iff.mp h).1 hall
    have hno : ∀ x ∈ s.fields, findAggrFunc x = false := by
      intro x hx
      obtain ⟨q, k, rfl⟩ := hfields x hx
      rfl
    have hfil : s.fields.filter findAggrFunc = [] := by
      rw [List.filter_eq_nil_iff]
      intro x hx; simp [hno x hx]
    have hany : (s.fields.any fun f => rootAndOr f && findAggrFunc f) = false := by
      rw [List.any_eq_false]
      intro x hx; simp [hno x hx]
    unfold finalPlanCheck at hagg
    simp only [hany, Bool.false_eq_true, if_false, hfil, List.length_nil, Nat.lt_irrefl, decide_false,
      Nat.zero_add] at hagg
    cases hgb : s.groupBy with
    | none =>
      rw [hgb] at hagg
      simp [synErr, eofErr] at hagg
    | some g =>
      have hne := parse_select_group_nonempty (planStage_ok_iff.mp h).1 hgb
      have hpos : 0 < g.fields.length := List.length_pos_iff.mpr hne
      rw [hgb] at hagg
      simp only at hagg
      revert hagg
      repeat' split
      all_goals simp_all [synErr, eofErr]
      all_goals omega

/-! ### the accepted statement on the store -/

/-- a sorted store is needed for a SELECT with a field list only (the verdict table is keyed by key) -/
def SortedSide (stmt : Stmt) (store : Store) : Prop :=
  ∀ s, stmt = .select s → s.allFields = false → finalPlanCheck s = .ok false → store.Sorted

/-- why an ACCEPTED statement is answered with `unsupported w` -/
def UnsupWhy (stmt : Stmt) (bs : Nat) (cache : Bool) (w : String) : Prop :=
  (bs = 0 ∧ w = "PlanBatchSize = 0") ∨
  (bs ≠ 0 ∧ ∃ s f, stmt = .select s ∧ finalPlanCheck s = .ok true ∧ foldSelect s = .ok f ∧
    ((w = "aggregate field (quantile, or an aggregate under a non-arithmetic operator)" ∧
        f.fields.mapM (aggrField (Ctx.new cache)) = none) ∨
     w = "aggregate column of list kind"))

theorem isExec_not_unsup {fl : Run.Fail} (h : isExec fl) (w : String) : fl ≠ .unsupported w := by
  obtain ⟨c, rfl⟩ := h; simp

/-- **an accepted statement ends cleanly, with an evaluation error VALUE, or outside the modelled fragment** -/
theorem runStmt_safe {query : Bytes} {stmt : Stmt} (h : planStage pf (Lexer.split query) = .ok stmt)
    (store : Store) (kind : PollKind) (bs : Nat) (cache : Bool)
    (hsorted : SortedSide stmt store)
    (fl : Run.Fail) (hfl : (runStmt stmt store kind bs cache).fail = some fl) :
    isExec fl ∨ ∃ w, fl = .unsupported w ∧ UnsupWhy stmt bs cache w := by
  by_cases hbs0 : bs = 0
  · subst hbs0
    simp only [runStmt, beq_self_eq_true, if_true, rejected, Option.some.injEq] at hfl
    exact .inr ⟨_, hfl.symm, .inl ⟨rfl, rfl⟩⟩
  have hbs : 1 ≤ bs := Nat.pos_of_ne_zero hbs0
  have hclean := accepted_stmt_clean h
  cases stmt with
  | put pos pairs =>
    left
    exact runStmt_put_safe (Kvql.Proofs.RunWrite.accepted_put_aliasFree h)
      (fun kv hkv => ⟨wf_of_clean (hclean kv hkv).1, wf_of_clean (hclean kv hkv).2⟩) store kind hbs cache fl hfl
  | remove pos keys =>
    left
    exact runStmt_remove_safe (Kvql.Proofs.RunWrite.accepted_remove_aliasFree h)
      (fun k hk => wf_of_clean (hclean k hk)) store kind hbs cache fl hfl
  | delete pos wpos w lim =>
    left
    exact runStmt_delete_safe (wf_of_clean hclean) store kind hbs cache fl hfl
  | select s =>
    have hb := (planStage_ok_iff.mp h).2.2
    simp only [buildStage] at hb
    obtain ⟨aggr, hfp, _⟩ := bind_ok_iff.mp hb
    obtain ⟨f, hf⟩ := foldSelect_total s
    have hsh := accepted_select_shape h hf
    have hbne : (bs == 0) = false := by simpa using hbs0
    simp only [runStmt, hbne, Bool.false_eq_true, if_false, hfp, hf] at hfl
    cases aggr with
    | false =>
      left
      simp only at hfl
      exact runPlainSelect_safe s f hsh store kind bs hbs cache (fun hnf => hsorted s rfl hnf hfp) fl hfl
    | true =>
      simp only at hfl
      rcases runAggrSelect_safe s f hf hsh (accepted_aggr_not_star h hfp) (accepted_aggr_args h) store kind bs hbs
        cache fl hfl with h1 | ⟨h2, h3⟩ | h4
      · exact .inl h1
      · exact .inr ⟨_, h2, .inr ⟨hbs0, s, f, rfl, hfp, hf, .inl ⟨rfl, h3⟩⟩⟩
      · exact .inr ⟨_, h4, .inr ⟨hbs0, s, f, rfl, hfp, hf, .inr rfl⟩⟩

/-- WHEN AN ACCEPTED STATEMENT IS ANSWERED WITH `unsupported` — any store, no side condition -/
theorem runStmt_unsupported {query : Bytes} {stmt : Stmt} (h : planStage pf (Lexer.split query) = .ok stmt)
    (store : Store) (kind : PollKind) (bs : Nat) (cache : Bool) (w : String)
    (hfl : (runStmt stmt store kind bs cache).fail = some (.unsupported w)) : UnsupWhy stmt bs cache w := by
  by_cases hbs0 : bs = 0
  · subst hbs0
    simp only [runStmt, beq_self_eq_true, if_true, rejected, Option.some.injEq, Fail.unsupported.injEq] at hfl
    exact .inl ⟨rfl, hfl.symm⟩
  have hbs : 1 ≤ bs := Nat.pos_of_ne_zero hbs0
  have hclean := accepted_stmt_clean h
  cases stmt with
  | put pos pairs =>
    exact absurd rfl (isExec_not_unsup (runStmt_put_safe (Kvql.Proofs.RunWrite.accepted_put_aliasFree h)
      (fun kv hkv => ⟨wf_of_clean (hclean kv hkv).1, wf_of_clean (hclean kv hkv).2⟩) store kind hbs cache _ hfl) w)
  | remove pos keys =>
    exact absurd rfl (isExec_not_unsup (runStmt_remove_safe (Kvql.Proofs.RunWrite.accepted_remove_aliasFree h)
      (fun k hk => wf_of_clean (hclean k hk)) store kind hbs cache _ hfl) w)
  | delete pos wpos w' lim =>
    exact absurd rfl (isExec_not_unsup (runStmt_delete_safe (wf_of_clean hclean) store kind hbs cache _ hfl) w)
  | select s =>
    have hb := (planStage_ok_iff.mp h).2.2
    simp only [buildStage] at hb
    obtain ⟨aggr, hfp, _⟩ := bind_ok_iff.mp hb
    obtain ⟨f, hf⟩ := foldSelect_total s
    have hsh := accepted_select_shape h hf
    have hbne : (bs == 0) = false := by simpa using hbs0
    simp only [runStmt, hbne, Bool.false_eq_true, if_false, hfp, hf] at hfl
    cases aggr with
    | false =>
      simp only at hfl
      exact absurd rfl ((runPlainSelect_inModel s f store kind bs cache _ hfl).1 w)
    | true =>
      simp only at hfl
      rcases runAggrSelect_safe s f hf hsh (accepted_aggr_not_star h hfp) (accepted_aggr_args h) store kind bs hbs
        cache _ hfl with h1 | ⟨h2, h3⟩ | h4
      · exact absurd rfl (isExec_not_unsup h1 w)
      · cases h2
        exact .inr ⟨hbs0, s, f, rfl, hfp, hf, .inl ⟨rfl, h3⟩⟩
      · cases h4
        exact .inr ⟨hbs0, s, f, rfl, hfp, hf, .inr rfl⟩

/-! ### the statement text -/

/-- **the end-to-end model on a statement text**: it ends cleanly, with an error VALUE (a rejection by
    `BuildPlan`, or an evaluation error), or outside the modelled fragment -/
theorem runQuery_safe (query : Bytes) (pf : Bytes → F64) (store : Store) (kind : PollKind) (bs : Nat) (cache : Bool)
    (hsorted : ∀ stmt, planStage pf (Lexer.split query) = .ok stmt → SortedSide stmt store)
    (fl : Run.Fail) (hfl : (Run.runQuery query pf store kind bs cache).fail = some fl) :
    (∃ e, fl = .plan e) ∨ isExec fl ∨ ∃ w, fl = .unsupported w := by
  unfold Run.runQuery at hfl
  have htame := planStage_tame (pf := pf) query
  cases hp : planStage pf (Lexer.split query) with
  | ok stmt =>
    rw [hp] at hfl
    rcases runStmt_safe hp store kind bs cache (hsorted stmt hp) fl hfl with h1 | ⟨w, h2, _⟩
    · exact .inr (.inl h1)
    · exact .inr (.inr ⟨w, h2⟩)
  | err e =>
    rw [hp] at hfl
    simp only [rejected, resFail, Option.some.injEq] at hfl
    exact .inl ⟨e, hfl.symm⟩
  | panic site => exact absurd hp (htame.1 site)
  | outOfFuel => exact absurd hp htame.2
  | unsupported w =>
    rw [hp] at hfl
    simp only [rejected, resFail, Option.some.injEq] at hfl
    exact .inr (.inr ⟨w, hfl.symm⟩)

/-- WHEN THE END-TO-END MODEL ANSWERS `unsupported` — any store, no side condition -/
theorem runQuery_unsupported (query : Bytes) (pf : Bytes → F64) (store : Store) (kind : PollKind) (bs : Nat)
    (cache : Bool) (w : String) (hfl : (Run.runQuery query pf store kind bs cache).fail = some (.unsupported w)) :
    planStage pf (Lexer.split query) = .unsupported w ∨
    ∃ stmt, planStage pf (Lexer.split query) = .ok stmt ∧ UnsupWhy stmt bs cache w := by
  unfold Run.runQuery at hfl
  cases hp : planStage pf (Lexer.split query) with
  | ok stmt =>
    rw [hp] at hfl
    exact .inr ⟨stmt, rfl, runStmt_unsupported hp store kind bs cache w hfl⟩
  | err e => rw [hp] at hfl; simp [rejected, resFail] at hfl
  | panic site => rw [hp] at hfl; simp [rejected, resFail] at hfl
  | outOfFuel => rw [hp] at hfl; simp [rejected, resFail] at hfl
  | unsupported w' =>
    rw [hp] at hfl
    simp only [rejected, resFail, Option.some.injEq, Fail.unsupported.injEq] at hfl
    subst hfl
    exact .inl rfl

end Kvql.Proofs.RunNoPanic
