/-
  Aggregated SELECT, end to end — part 6: batch mode (`prepareBatch`, `batchGetAggrKeys` through
  `ExecuteBatch`, `batch`) returns the rows of the specification too, under the hypotheses the C03 /
  C09 batch theorems need: the vector evaluator is DEFINED on every stored pair for the folded WHERE
  (with a Boolean) and on every selected pair for the GROUP BY expressions, and those expressions
  satisfy the static side condition `vecOk` of C03 `vec_eq_map`.

    * `batchInvisible_new`   C05 for `ExecuteBatch` on a one-pair chunk from a fresh context;
    * `groupBytes_batch`     the batch value of a GROUP BY expression renders as its row value
                             (C03 `vec_eq_map`: equal by content — `string` vs `[]byte` only);
    * `runAggrSelect_batch`  the composition.
-/
import Kvql.Proofs.RunAggrMain

set_option linter.unusedSimpArgs false
set_option linter.unusedVariables false

namespace Kvql.Proofs.RunAggr
open Kvql Kvql.Run Kvql.Aggr Kvql.Proofs.Aggr Kvql.Generated Kvql.Proofs.Typing Kvql.Cache
open Kvql.Plans Kvql.Storage Kvql.Proofs.Scan Kvql.Proofs.RunScan Kvql.Proofs.RunTables Kvql.Proofs.RunLimit
open Kvql.PlanCheck (listAggrCalls isAggrCallee isAggr planStage finalPlanCheck)

/-! ### `ExecuteBatch` on a one-pair chunk, from a fresh context -/

theorem batchInvisible_new (cache : Bool) (e : Expr) (haf : aliasFree e = true) (kv : Pair) :
    (execBatch e [kv] (Ctx.new cache)).1 = (execBatch e [kv] Ctx.off).1 := by
  cases cache with
  | false => rfl
  | true =>
    let E : BEnv := ⟨[], [kv], [[kv]], fun _ => none⟩
    have hE : E.Ok := ⟨functional_nil, by simp [E], by simp [E], fun ch' h _ => by simpa [E] using h⟩
    have hinv : BInv E (Ctx.new true) := by
      refine ⟨ctxOn_new, ?_, ?_⟩
      · intro ckey col h
        simp [Ctx.new, assocGet] at h
      · intro n
        simp [Ctx.new, assocGet, E]
    exact ((execBatch_bs hE e (wf_nil_of_af haf)).2 (Ctx.new true) hinv).1

/-! ### the batch value of a GROUP BY expression renders as its row value -/

theorem convertToBytes_contentEq {v vr : Value} (h : Value.contentEq v vr) :
    convertToBytes (toAVal v) = convertToBytes (toAVal vr) := by
  unfold Value.contentEq at h
  cases v <;> cases vr <;> simp [Value.norm] at h <;> first | rfl | (subst h; rfl) | (simp [toAVal, convertToBytes, h])

theorem groupBytes_batch (cache : Bool) {e : Expr} (haf : aliasFree e = true) (hok : e.vecOk = true) {p : SPair}
    {v : Value} (hb : (execBatch e [⟨p.1, p.2⟩] Ctx.off).1 = .ok [v])
    {vr : Value} {b : Bytes} (hr : (exec e ⟨p.1, p.2⟩ Ctx.off).1 = .ok vr) (hbytes : convertToBytes (toAVal vr) = .ok b) :
    GroupBytes .batch (Ctx.new cache) e p := by
  have hpv : PairVal e v (toKv p) := Kvql.Proofs.C03.batch_ok_ctx e Ctx.off rfl [toKv p] (by simp) hb
  obtain ⟨vr', h1, h2⟩ := single_row_value hok hpv
  have : vr' = vr := by
    unfold nocache at h1
    have hr' : (exec e (toKv p) Ctx.off).1 = .ok vr := hr
    rw [hr'] at h1
    injection h1 with h1
    exact h1.symm
  subst this
  unfold GroupBytes groupEval evalBatchA
  simp only
  have hb' : (execBatch e [toKv p] (Ctx.new cache)).1 = .ok [v] := by
    rw [batchInvisible_new cache e haf]; exact hb
  rw [hb']
  simp only [bind_ok]
  rw [convertToBytes_contentEq h2, valueOf_ok hr, hbytes, render_ok hbytes]

/-! ### the folded WHERE under the vector evaluator -/

/-- when the vector evaluator yields a Boolean for the filter on a pair (taken alone), the row
    evaluator yields the same Boolean (C03) — `Select.accepted` -/
theorem where_batch_facts {w : Expr} (hok : w.vecOk = true) {p : SPair}
    (hbatch : ∃ b, (execBatch w [⟨p.1, p.2⟩] Ctx.off).1 = .ok [.bool b]) :
    PairVal w (.bool (Select.accepted w p)) (toKv p) ∧
      exec w (toKv p) Ctx.off = (.ok (.bool (Select.accepted w p)), Ctx.off) := by
  obtain ⟨b, hb0⟩ := hbatch
  have hb : PairVal w (.bool b) (toKv p) :=
    Kvql.Proofs.C03.batch_ok_ctx w Ctx.off rfl [toKv p] (by simp) hb0
  obtain ⟨vr, h1, h2⟩ := single_row_value hok (kv := toKv p) hb
  have hvr := Kvql.Proofs.Run.contentEq_bool h2
  subst hvr
  have hrow : exec w (toKv p) Ctx.off = (.ok (.bool b), Ctx.off) := by
    have := Select.exec_off w (toKv p)
    rw [this]
    unfold nocache at h1
    rw [h1]
  have hacc : Select.accepted w p = b := by
    unfold Select.accepted Select.execTrue
    have : exec w ⟨p.1, p.2⟩ Ctx.off = (.ok (.bool b), Ctx.off) := hrow
    rw [this]
    cases b <;> rfl
  rw [hacc]
  exact ⟨hb, hrow⟩

/-! ### the AggregatePlan as its parent sees it, batch mode -/

theorem mapM_flatten_some {α β : Type} (F : α → Option β) : ∀ (bss : List (List α)) (vrows : List β),
    bss.flatten.mapM F = some vrows → ∃ vbss, bss.mapM (List.mapM F) = some vbss ∧ vbss.flatten = vrows
  | [], vrows, h => by
    simp only [List.flatten_nil, List.mapM_nil, Option.pure_def, Option.some.injEq] at h
    subst h
    exact ⟨[], rfl, rfl⟩
  | b :: bs, vrows, h => by
    rw [List.flatten_cons, List.mapM_append] at h
    simp only [Option.bind_eq_bind, Option.bind_eq_some_iff, Option.pure_def] at h
    obtain ⟨r, hr, rs, hrs, hv⟩ := h
    injection hv with hv
    subst hv
    obtain ⟨vbss, h1, h2⟩ := mapM_flatten_some F bs rs hrs
    exact ⟨r :: vbss, by simp [List.mapM_cons, hr, h1], by simp [h2]⟩

theorem polls_mapM_batch (w : Storage.World) : ∀ (bss : List (List (List AVal))) (vbss : List (List (List Value))),
    bss.mapM (List.mapM (List.mapM ofAVal)) = some vbss →
    (bss.map (fun b => (b, w))).mapM (fun (p : List (List AVal) × Storage.World) =>
      (p.1.mapM (fun (r : List AVal) => r.mapM ofAVal)).bind (fun rows => some (rows, p.2))) =
        some (vbss.map (fun b => (b, w)))
  | [], vbss, h => by
    simp only [List.mapM_nil, Option.pure_def, Option.some.injEq] at h
    subst h
    rfl
  | o :: os, vbss, h => by
    simp only [List.mapM_cons, Option.bind_eq_bind, Option.bind_eq_some_iff, Option.pure_def] at h
    obtain ⟨r, hr, rs, hrs, hv⟩ := h
    injection hv with hv
    subst hv
    simp only [List.map_cons, List.mapM_cons, hr, Option.bind_eq_bind, Option.bind_some,
      Option.pure_def, polls_mapM_batch w os rs hrs]

theorem traceValues_batch (bss : List (List (List AVal))) (vbss : List (List (List Value)))
    (hconv : bss.mapM (List.mapM (List.mapM ofAVal)) = some vbss) (rows : List Aggr.Row) (bs : Nat)
    (hdrain : drainBatch bs (rows.length + 1) rows = (bss, none)) (w : Storage.World) :
    traceValues (aggrInner rows .batch bs w) =
      some { w0 := w, polls := vbss.map (fun b => (b, w)), fin := (none, w) } := by
  unfold traceValues aggrInner
  simp only [hdrain, Option.bind_eq_bind, Option.pure_def, Option.map_none]
  rw [polls_mapM_batch w bss vbss hconv]
  rfl

theorem map_fst_map {α : Type} (w : Storage.World) (l : List α) :
    (l.map (fun b => (b, w))).map (fun (x : α × Storage.World) => x.1) = l := by
  simp [List.map_map, Function.comp_def]

/-- **`Run.runAggrSelect`, batch mode.** -/
theorem runAggrSelect_batch (s : SelectS) (f : FoldedSelect) (store : Store) (hs : store.Sorted)
    (bs : Nat) (hbs : 1 ≤ bs) (cache : Bool)
    (hord : s.order = none) (hlim : s.limit = none)
    {groups : List Expr} (hg : groupExprs s f = some groups)
    (hcov : ∃ afields, f.fields.mapM (aggrField Ctx.off) = some afields)
    (hafw : aliasFree f.where_ = true)
    (hafg : ∀ e ∈ groups, aliasFree e = true) (haff : ∀ fe ∈ f.fields, aliasFree fe = true)
    (hokw : f.where_.vecOk = true)
    (hbatchw : ∀ p ∈ store, ∃ b, (execBatch f.where_ [⟨p.1, p.2⟩] Ctx.off).1 = .ok [.bool b])
    (hokg : ∀ e ∈ groups, e.vecOk = true)
    (hbatchg : ∀ p ∈ store.filter (Select.accepted f.where_), ∀ e ∈ groups,
      ∃ v, (execBatch e [⟨p.1, p.2⟩] Ctx.off).1 = .ok [v])
    (hev : ∀ p ∈ store.filter (Select.accepted f.where_), Evaluable groups f.fields p)
    {out : List (List AVal)} (hspec : specRows groups f.fields (store.filter (Select.accepted f.where_)) = .ok out) :
    (runAggrSelect s f store .batch bs cache).fail = none ∧
    (runAggrSelect s f store .batch bs cache).rows = out.map (List.map toValue) ∧
    (runAggrSelect s f store .batch bs cache).world.store = store ∧
    (∀ e ∈ (runAggrSelect s f store .batch bs cache).world.log, e.call.isRead = true) := by
  obtain ⟨afields0, hcov⟩ := hcov
  obtain ⟨afields, hfields⟩ := mapM_aggrField_indep Ctx.off (Ctx.new cache) _ _ hcov
  have hwf : ScanNode.WellFormed (nodeOf (Scan.optimize f.where_)) := by
    rw [Kvql.Proofs.Run.nodeOf_eq]; exact Select.nodeOf_wellFormed _
  have hyield := yielded_eq_filter (nodeOf (Scan.optimize f.where_)) hwf hs
  have hx : ∀ p ∈ store, exec f.where_ (toKv p) Ctx.off = (.ok (.bool (Select.accepted f.where_ p)), Ctx.off) :=
    fun p hp => (where_batch_facts hokw (hbatchw p hp)).2
  have htable : batchVerdicts f.where_ (Ctx.new cache) (innerChunks (nodeOf (Scan.optimize f.where_)) bs store) =
      (yielded (nodeOf (Scan.optimize f.where_)) store).map
        (fun p => (p.1, Except.ok (Select.accepted f.where_ p))) := by
    rw [← innerChunks_flatten _ bs hbs store]
    apply batchVerdicts_eq hafw cache
    intro p hp
    rw [innerChunks_flatten _ bs hbs store, hyield] at hp
    exact (where_batch_facts hokw (hbatchw p (List.mem_filter.mp hp).1)).1
  obtain ⟨t1, t2, t3, t4, t5⟩ := scan_pairs_where hs (Select.accepted f.where_) hx _ htable .batch bs hbs
  -- the groups
  have hevK : ∀ p ∈ store.filter (Select.accepted f.where_), EvaluableK .batch (Ctx.new cache) groups f.fields p := by
    intro p hp
    refine ⟨hev p hp, fun e he => ?_⟩
    obtain ⟨v, hv⟩ := hbatchg p hp e he
    obtain ⟨vr, b, h1, h2⟩ := (hev p hp).group e he
    exact groupBytes_batch cache (hafg e he) (hokg e he) hv h1 h2
  obtain ⟨gs, hprep, hfin⟩ := prepare_spec (kind := .batch) (cacheInvisible_new cache) hfields haff s.groupBy.isNone
    (groupExprs_none hg) (store.filter (Select.accepted f.where_)) hevK hspec
  -- `prepareBatch` over the scan's chunks
  have hchunks : ∀ c ∈ (scanTrace (nodeOf (Scan.optimize f.where_))
      (batchVerdicts f.where_ (Ctx.new cache) (innerChunks (nodeOf (Scan.optimize f.where_)) bs store)) .batch bs
        store).polls.map (fun (p : List SPair × Storage.World) => p.1), c ≠ [] := by
    intro c hc
    obtain ⟨q, hq, rfl⟩ := List.mem_map.mp hc
    exact t3 q hq
  have hprepB := (prepareBatch_iff (aggrEval .batch (Ctx.new cache) groups f.fields)
    ⟨s.groupBy.isNone, groups.length, afields⟩ [] gs _).mpr (by
      rw [takeWhile_nonempty _ hchunks, ← List.flatMap_def, t2]; exact hprep)
  -- handing the rows out in batches
  have hdrainN := (drainNext_ok_iff _ _).mpr hfin
  obtain ⟨d1, _, d3, _⟩ := drainBatch_spec bs hbs ((rowsOf gs).length + 1) (rowsOf gs) (by omega)
  rw [hdrainN] at d1 d3
  simp only at d1 d3
  have hdrainB : drainBatch bs ((rowsOf gs).length + 1) (rowsOf gs) =
      ((drainBatch bs ((rowsOf gs).length + 1) (rowsOf gs)).1, none) := by
    rw [← d1]
  have hconv := specRows_convertible hspec
  have hflat := d3 trivial
  rw [← hflat] at hconv
  obtain ⟨vbss, hv1, hv2⟩ := mapM_flatten_some _ _ _ hconv
  unfold runAggrSelect
  simp only [new_clear, hfields, hg, hord, hlim, t1, hprepB,
    traceValues_batch _ vbss hv1 (rowsOf gs) bs hdrainB]
  refine ⟨rfl, ?_, t4, t5⟩
  simp only [Trace.outcome, map_fst_map]
  rw [hv2, hflat]

end Kvql.Proofs.RunAggr
