/-
  THE BATCH ANALOGUE OF C04: `Optimize()` preserves every expression's value under the VECTOR evaluator.
  `batchSys` instantiates the abstract recursion of Proofs/FoldVecGen.lean with the relations of
  Proofs/FoldVecCongr.lean (`FoldRelB`: row values, static type, shape, batch values); the statements
  on `execBatch` over arbitrary non-empty chunks follow with C03 `batch_pairwise`.
-/
import Kvql.Proofs.FoldVecSteps

namespace Kvql
open Generated
namespace Fold

/-- the weak relation that survives `tryOptimizeAndOr`: row AND batch values -/
def SemRB (e e' : Expr) : Prop := Sem e e' ∧ SemB e e'

def batchSys : Sys where
  F := FoldRelB
  S := SemRB
  F_refl := FoldRelB.refl
  F_trans := FoldRelB.trans
  S_of_F := fun h => ⟨h.row.sem, h.semB⟩
  S_trans := fun h1 h2 => ⟨h1.1.trans h2.1, h1.2.trans h2.2⟩
  binop := fun p op _ _ _ _ hl hr => FoldRelB.binop p op hl hr
  call := fun p nm _ _ h => FoldRelB.call p nm h
  foldBinary := foldBinaryB_ok
  foldCall := foldCallB_ok
  assoc := fun p q _ _ _ _ hop h => assocB_ok p q hop h
  andOr := fun e => ⟨(andOr_ok e).sem, andOrB_ok e⟩

/-- both results of `Optimize()`, both evaluators -/
theorem optimizeBoth_okB {e r n : Expr} (h : optimizeBoth e = .ok (r, n)) : SemRB e r ∧ FoldRelB e n :=
  batchSys.optimizeBoth_ok h

theorem optimize_semB {e e' : Expr} (h : optimize e = .ok e') : SemB e e' := (batchSys.optimize_ok h).2

theorem optimizeNode_relB {e n : Expr} (h : optimizeNode e = .ok n) : FoldRelB e n := batchSys.optimizeNode_ok h

/-! ### from one-pair chunks to chunks -/

/-- `SemB` on any non-empty chunk: where `ExecuteBatch e` succeeds with the column `vs`, `ExecuteBatch e'`
    succeeds with a column `vs'` that is `vs` value by value (texts by content); context untouched -/
theorem SemB.chunk {e e' : Expr} (h : SemB e e') {chunk : List Pair} (hne : chunk ≠ []) {c c' : Ctx}
    (hc : c.enable = false) {vs : List Value} (hv : execBatch e chunk c = (.ok vs, c')) :
    c' = c ∧ ∃ vs', execBatch e' chunk c = (.ok vs', c) ∧ Rows (fun v' v => Rel v' v) vs' vs := by
  obtain ⟨e1, R⟩ := (pw_core e c hc chunk hne vs c').mp hv
  refine ⟨e1, ?_⟩
  have R' : Rows (fun v kv => ∃ v', Single (execBatch e') c v' kv ∧ Rel v' v) vs chunk :=
    R.imp fun v kv hs => h kv c hc v hs
  have : ∃ vs', Rows (Single (execBatch e') c) vs' chunk ∧ Rows (fun v' v => Rel v' v) vs' vs := by
    clear hv R
    induction R' with
    | nil => exact ⟨[], .nil, .nil⟩
    | cons hp _ ih =>
      obtain ⟨v', hs, hr⟩ := hp
      rename_i v kv vs0 ch0 _
      by_cases hch : ch0 = []
      · subst hch
        rename_i hrest
        cases hrest
        exact ⟨[v'], .cons hs .nil, .cons hr .nil⟩
      · obtain ⟨vs', h1, h2⟩ := ih hch
        exact ⟨v' :: vs', .cons hs h1, .cons hr h2⟩
  obtain ⟨vs', h1, h2⟩ := this
  exact ⟨vs', (pw_core e' c hc chunk hne vs' c).mpr ⟨rfl, h1⟩, h2⟩

end Fold
end Kvql
