/-
  Aggregated SELECT, end to end — part 2: facts about the plan model `Kvql.Aggr` that the C09
  component theorems do not provide in the form the composition needs (all parametric in the
  evaluation tables `ev`):

    * `prepare_okB`     `prepare` succeeds when the evaluator succeeds where the PLAN looks: group
                        expressions `j < nGroups`, key fields at the positions of key fields, arguments
                        of the calls a field has (C09 `aggr_prepare_total` asks for success at every
                        index, which the tables of `Run.aggrEval` do not give: an index beyond the
                        statement is `malformed`);
    * `RowShape`        the row of a group has the shape of the field list;
    * `finishRow_eq_mapM`, `mapM_ok_of_get`   handing out a row, column by column.
-/
import Kvql.Proofs.AggrProofs

set_option linter.unusedSimpArgs false
set_option linter.unusedVariables false

namespace Kvql.Proofs.RunAggr
open Kvql Kvql.Aggr Kvql.Proofs.Aggr

/-! ### lists -/

theorem mapM_ok_of_get {ε α β : Type} (f : α → Except ε β) : ∀ (l : List α) (out : List β),
    out.length = l.length → (∀ (n : Nat) a, l[n]? = some a → ∃ b, out[n]? = some b ∧ f a = .ok b) → l.mapM f = .ok out
  | [], out, hl, _ => by
    have : out = [] := List.length_eq_zero_iff.mp hl
    subst this; rfl
  | a :: l, out, hl, h => by
    cases out with
    | nil => simp at hl
    | cons b out =>
      obtain ⟨b', hb1, hb2⟩ := h 0 a rfl
      simp only [List.getElem?_cons_zero, Option.some.injEq] at hb1
      subst hb1
      have ih := mapM_ok_of_get f l out (by simpa using hl) (fun n a' hn => by
        obtain ⟨b'', h1, h2⟩ := h (n + 1) a' (by simpa using hn)
        exact ⟨b'', by simpa using h1, h2⟩)
      simp only [List.mapM_cons, hb2, ih, bind_ok, pure_eq_ok]

theorem mapM_ok_get {ε α β : Type} (f : α → Except ε β) : ∀ (l : List α) (out : List β), l.mapM f = .ok out →
    out.length = l.length ∧ ∀ (n : Nat) a, l[n]? = some a → ∃ b, out[n]? = some b ∧ f a = .ok b
  | [], out, h => by
    simp only [List.mapM_nil, pure_eq_ok] at h
    injection h with h
    subst h
    simp
  | a :: l, out, h => by
    simp only [List.mapM_cons] at h
    cases ha : f a with
    | error e => simp [ha] at h
    | ok b =>
      simp only [ha, bind_ok] at h
      cases hl : l.mapM f with
      | error e => simp [hl] at h
      | ok bs =>
        simp only [hl, bind_ok, pure_eq_ok] at h
        injection h with h
        subst h
        obtain ⟨h1, h2⟩ := mapM_ok_get f l bs hl
        refine ⟨by simp [h1], ?_⟩
        intro n a' hn
        cases n with
        | zero =>
          simp only [List.getElem?_cons_zero, Option.some.injEq] at hn
          subst hn
          exact ⟨b, by simp, ha⟩
        | succ n =>
          obtain ⟨b', g1, g2⟩ := h2 n a' (by simpa using hn)
          exact ⟨b', by simpa using g1, g2⟩

/-! ### handing out a row, column by column -/

/-- what `next` / `batch` make of one column -/
def finishCol : Col → Except Err AVal
  | .key v => .ok (.bytes v)
  | .agg accs e => accs.mapM Acc.complete >>= e.eval

theorem finishRow_eq_mapM : ∀ row : Row, finishRow row = row.mapM finishCol
  | [] => rfl
  | .key v :: cs => by
    simp only [finishRow, List.mapM_cons, finishCol, bind_ok, finishRow_eq_mapM cs]
  | .agg accs e :: cs => by
    simp only [finishRow, List.mapM_cons, finishCol, finishRow_eq_mapM cs]
    cases accs.mapM Acc.complete with
    | error x => rfl
    | ok res =>
      simp only [bind_ok]

section
variable {P : Type} (ev : Eval P) (pl : Plan)

/-! ### the shape of a group's row -/

/-- the row has one column per field: a key column for a key field, for an aggregate field its
    expression and one accumulator per call -/
def RowShape (row : Row) : Prop :=
  row.length = pl.fields.length ∧
  (∀ (n : Nat), pl.fields[n]? = some Field.key → ∃ b, row[n]? = some (Col.key b)) ∧
  (∀ (n : Nat) calls e, pl.fields[n]? = some (Field.agg calls e) →
    ∃ accs, row[n]? = some (Col.agg accs e) ∧ accs.length = calls.length)

theorem RowShape.agg_inv {row : Row} (h : RowShape pl row) {n : Nat} {accs : List Acc} {e : AggExpr}
    (hn : row[n]? = some (Col.agg accs e)) :
    ∃ calls, pl.fields[n]? = some (Field.agg calls e) ∧ accs.length = calls.length := by
  obtain ⟨h1, h2, h3⟩ := h
  have hlt : n < row.length := by
    rcases Nat.lt_or_ge n row.length with hlt | hge
    · exact hlt
    · rw [List.getElem?_eq_none hge] at hn; cases hn
  rw [h1] at hlt
  cases hf : pl.fields[n] with
  | key =>
    obtain ⟨b, hb⟩ := h2 n (by rw [List.getElem?_eq_getElem hlt, hf])
    rw [hb] at hn; cases hn
  | agg calls e' =>
    obtain ⟨accs', ha, hl⟩ := h3 n calls e' (by rw [List.getElem?_eq_getElem hlt, hf])
    rw [ha] at hn
    injection hn with hn
    injection hn with hn1 hn2
    subst hn1 hn2
    exact ⟨calls, by rw [List.getElem?_eq_getElem hlt, hf], hl⟩

theorem createRow_shape {p : P} {row : Row} (h : createAggrRow ev pl p = .ok row) : RowShape pl row := by
  obtain ⟨h1, h2, h3⟩ := createCols_spec ev p 0 pl.fields row h
  refine ⟨h1, ?_, ?_⟩
  · intro n hn
    obtain ⟨v, b, _, _, hb⟩ := h2 n hn
    exact ⟨b, hb⟩
  · intro n calls e hn
    exact ⟨_, h3 n calls e hn, by simp⟩

theorem updateRow_shape {p : P} {row row' : Row} (hs : RowShape pl row) (h : updateRow ev p row = .ok row') :
    RowShape pl row' := by
  obtain ⟨h1, h2, h3⟩ := updateCols_spec ev p 0 row row' h
  obtain ⟨s1, s2, s3⟩ := hs
  refine ⟨by rw [h1, s1], ?_, ?_⟩
  · intro n hn
    obtain ⟨b, hb⟩ := s2 n hn
    exact ⟨b, h2 n b hb⟩
  · intro n calls e hn
    obtain ⟨accs, ha, hl⟩ := s3 n calls e hn
    obtain ⟨accs', hu, hr⟩ := h3 n accs e ha
    obtain ⟨hl', _⟩ := updateAccs_spec ev (0 + n) p 0 accs accs' hu
    exact ⟨accs', hr, by rw [hl', hl]⟩

theorem foldUpdate_shape : ∀ (ps : List P) {row row' : Row}, RowShape pl row →
    ps.foldlM (fun r q => updateRow ev q r) row = .ok row' → RowShape pl row'
  | [], row, row', hs, h => by
    simp only [List.foldlM_nil, pure_eq_ok] at h
    injection h with h
    subst h
    exact hs
  | p :: ps, row, row', hs, h => by
    simp only [List.foldlM_cons] at h
    cases hu : updateRow ev p row with
    | error e => simp [hu] at h
    | ok row1 =>
      simp only [hu, bind_ok] at h
      exact foldUpdate_shape ps (updateRow_shape ev pl hs hu) h

theorem groupRow_shape {ps : List P} {row : Row} (h : groupRow ev pl ps = .ok row) : RowShape pl row := by
  cases ps with
  | nil => simp [groupRow] at h
  | cons p0 ps0 =>
    simp only [groupRow] at h
    cases hc : createAggrRow ev pl p0 with
    | error e => simp [hc] at h
    | ok row0 =>
      simp only [hc, bind_ok] at h
      exact foldUpdate_shape ev pl (p0 :: ps0) (createRow_shape ev pl hc) h

/-! ### `prepare` succeeds when the evaluator succeeds where the plan looks -/

/-- the evaluator succeeds on this pair at the places the plan consults -/
structure EvalOkB (p : P) : Prop where
  group : ∀ j, j < pl.nGroups → ∃ v b, ev.group j p = .ok v ∧ convertToBytes v = .ok b
  keyField : ∀ (i : Nat), pl.fields[i]? = some Field.key → ∃ v b, ev.keyField i p = .ok v ∧ convertToBytes v = .ok b
  arg : ∀ (i : Nat) calls e, pl.fields[i]? = some (Field.agg calls e) → ∀ c, c < calls.length → ∃ v, ev.arg i c p = .ok v

theorem updateAccs_okB (i : Nat) (p : P) : ∀ (c0 : Nat) (accs : List Acc),
    (∀ m, m < accs.length → ∃ v, ev.arg i (c0 + m) p = .ok v) → ∃ accs', updateAccs ev i p c0 accs = .ok accs'
  | _, [], _ => ⟨[], rfl⟩
  | c0, a :: as, h => by
    obtain ⟨v, hv⟩ := h 0 (by simp)
    obtain ⟨a', ha⟩ := step_ok a v
    obtain ⟨as', has⟩ := updateAccs_okB i p (c0 + 1) as (fun m hm => by
      obtain ⟨v', hv'⟩ := h (m + 1) (by simp; omega)
      exact ⟨v', by rw [← hv']; congr 1; omega⟩)
    simp only [Nat.add_zero] at hv
    exact ⟨a' :: as', by simp [updateAccs, hv, ha, has]⟩

theorem updateCols_okB (p : P) : ∀ (i0 : Nat) (row : Row),
    (∀ (n : Nat) accs e, row[n]? = some (Col.agg accs e) → ∀ m, m < accs.length → ∃ v, ev.arg (i0 + n) m p = .ok v) →
    ∃ row', updateCols ev p i0 row = .ok row'
  | _, [], _ => ⟨[], rfl⟩
  | i0, .key v :: cs, h => by
    obtain ⟨r, hr⟩ := updateCols_okB p (i0 + 1) cs (fun n accs e hn m hm => by
      obtain ⟨v', hv'⟩ := h (n + 1) accs e (by simpa using hn) m hm
      exact ⟨v', by rw [← hv']; congr 1; omega⟩)
    exact ⟨.key v :: r, by simp [updateCols, hr]⟩
  | i0, .agg accs e :: cs, h => by
    obtain ⟨accs', ha⟩ := updateAccs_okB ev i0 p 0 accs (fun m hm => by
      obtain ⟨v', hv'⟩ := h 0 accs e (by simp) m hm
      exact ⟨v', by simpa using hv'⟩)
    obtain ⟨r, hr⟩ := updateCols_okB p (i0 + 1) cs (fun n accs e hn m hm => by
      obtain ⟨v', hv'⟩ := h (n + 1) accs e (by simpa using hn) m hm
      exact ⟨v', by rw [← hv']; congr 1; omega⟩)
    exact ⟨.agg accs' e :: r, by simp [updateCols, ha, hr]⟩

theorem updateRow_okB {p : P} (hp : EvalOkB ev pl p) {row : Row} (hs : RowShape pl row) :
    ∃ row', updateRow ev p row = .ok row' := by
  apply updateCols_okB
  intro n accs e hn m hm
  obtain ⟨calls, hf, hl⟩ := hs.agg_inv pl hn
  rw [Nat.zero_add]
  exact hp.arg n calls e hf m (by omega)

theorem createCols_okB (p : P) : ∀ (i0 : Nat) (fs : List Field),
    (∀ (n : Nat), fs[n]? = some Field.key → ∃ v b, ev.keyField (i0 + n) p = .ok v ∧ convertToBytes v = .ok b) →
    ∃ row, createCols ev p i0 fs = .ok row
  | _, [], _ => ⟨[], rfl⟩
  | i0, .key :: fs, h => by
    obtain ⟨v, b, hv, hb⟩ := h 0 (by simp)
    obtain ⟨r, hr⟩ := createCols_okB p (i0 + 1) fs (fun n hn => by
      obtain ⟨v', b', h1, h2⟩ := h (n + 1) (by simpa using hn)
      exact ⟨v', b', by rw [← h1]; congr 1; omega, h2⟩)
    simp only [Nat.add_zero] at hv
    exact ⟨.key b :: r, by simp [createCols, hv, hb, hr]⟩
  | i0, .agg calls e :: fs, h => by
    obtain ⟨r, hr⟩ := createCols_okB p (i0 + 1) fs (fun n hn => by
      obtain ⟨v', b', h1, h2⟩ := h (n + 1) (by simpa using hn)
      exact ⟨v', b', by rw [← h1]; congr 1; omega, h2⟩)
    exact ⟨.agg (calls.map Kind.init) e :: r, by simp [createCols, hr]⟩

theorem getAggrKeyLoop_okB {p : P} (hp : EvalOkB ev pl p) : ∀ (js : List Nat) (k : Bytes),
    (∀ j ∈ js, j < pl.nGroups) → ∃ k', getAggrKeyLoop ev p js k = .ok k'
  | [], k, _ => ⟨k, rfl⟩
  | j :: js, k, h => by
    obtain ⟨v, b, hv, hb⟩ := hp.group j (h j (by simp))
    obtain ⟨k', hk⟩ := getAggrKeyLoop_okB hp js (appendAggrKeyPart k b) (fun j' hj => h j' (by simp [hj]))
    exact ⟨k', by simp [getAggrKeyLoop, hv, hb, hk]⟩

theorem getAggrKey_okB {p : P} (hp : EvalOkB ev pl p) : ∃ k, getAggrKey ev pl p = .ok k := by
  unfold getAggrKey
  split
  · exact ⟨_, rfl⟩
  · exact getAggrKeyLoop_okB ev pl hp _ _ (fun j hj => by simpa using hj)

/-- `prepare` has no failure of its own (bounded form of C09 `aggr_prepare_total`) -/
theorem prepare_okB : ∀ (rest : List P) (gs : Groups) (seen : List P), Inv ev pl gs seen →
    (∀ p ∈ rest, EvalOkB ev pl p) → ∃ gs', prepare ev pl gs rest = .ok gs'
  | [], gs, _, _, _ => ⟨gs, rfl⟩
  | p :: ps, gs, seen, hinv, h => by
    have hp := h p (by simp)
    obtain ⟨k, hk⟩ := getAggrKey_okB ev pl hp
    have ha : ∃ gs1, absorb ev pl gs k p = .ok gs1 := by
      unfold absorb
      cases hl : gs.lookup k with
      | some row =>
        have hs : RowShape pl row := groupRow_shape ev pl (hinv.rows k row (lookup_some hl))
        obtain ⟨row', hr⟩ := updateRow_okB ev pl hp hs
        exact ⟨setRow k row' gs, by simp [hr]⟩
      | none =>
        obtain ⟨row0, hc⟩ : ∃ row0, createAggrRow ev pl p = .ok row0 :=
          createCols_okB ev p 0 pl.fields (fun n hn => by
            rw [Nat.zero_add]; exact hp.keyField n hn)
        obtain ⟨row', hr⟩ := updateRow_okB ev pl hp (createRow_shape ev pl hc)
        exact ⟨gs ++ [(k, row')], by simp [hc, hr]⟩
    obtain ⟨gs1, ha⟩ := ha
    obtain ⟨gs', hg⟩ := prepare_okB ps gs1 (seen ++ [p]) (absorb_inv ev pl hinv hk ha)
      (fun q hq => h q (by simp [hq]))
    exact ⟨gs', by simp [prepare, hk, ha, hg]⟩

end

end Kvql.Proofs.RunAggr
