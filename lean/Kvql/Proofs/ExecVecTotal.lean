/-
  `execBatch_total`: with the cache switched off, on a non-empty chunk (or with a nil context),
  `ExecuteBatch` of a cycle-free expression never panics — every failure is an ordinary error.
  (Patched code: the VarArgs minimum is checked on the batch path too, `substr` cannot slice out
  of range, `list()` cannot return a short result.)  The lengths of all intermediate results are
  supplied by `vec_eq_map_core`.
-/
import Kvql.Proofs.ExecVecEqMapThm
import Kvql.Proofs.ExecTotal

namespace Kvql
open Generated

/-! ### loops: with operands of the chunk's length, a failure is a failure of the kernel -/

theorem mapRows_err {f : Value → Except Err Value} (hf : ∀ x, ExBenign (f x)) :
    ∀ (n : Nat) (xs : List Value), xs.length = n → ExBenign (mapRows f n xs)
  | 0, [], _ => .ok _
  | n + 1, x :: xs, h => by
    simp only [mapRows]
    exact .bind (hf x) fun y => .bind (mapRows_err hf n xs (by simpa using h)) fun ys => .ok _

theorem mapRowsFresh_err {f : Value → Value} :
    ∀ (n : Nat) (xs : List Value), xs.length = n → ExBenign (mapRowsFresh f n xs)
  | 0, [], _ => .ok _
  | n + 1, x :: xs, h => by
    simp only [mapRowsFresh]
    exact .bind (mapRowsFresh_err n xs (by simpa using h)) fun ys => .ok _

theorem zipRows_err {f : Value → Value → Except Err Value} (hf : ∀ x z, ExBenign (f x z)) :
    ∀ (n : Nat) (xs ys : List Value), xs.length = n → ys.length = n → ExBenign (zipRows f n xs ys)
  | 0, [], [], _, _ => .ok _
  | n + 1, x :: xs, y :: ys, hx, hy => by
    simp only [zipRows]
    exact .bind (hf x y) fun _ => .bind (zipRows_err hf n xs ys (by simpa using hx) (by simpa using hy)) fun _ => .ok _

theorem zip3Rows_err {f : Value → Value → Value → Except Err Value} (hf : ∀ x y z, ExBenign (f x y z)) :
    ∀ (n : Nat) (xs ys zs : List Value), xs.length = n → ys.length = n → zs.length = n →
      ExBenign (zip3Rows f n xs ys zs)
  | 0, [], [], [], _, _, _ => .ok _
  | n + 1, x :: xs, y :: ys, z :: zs, hx, hy, hz => by
    simp only [zip3Rows]
    exact .bind (hf x y z) fun _ =>
      .bind (zip3Rows_err hf n xs ys zs (by simpa using hx) (by simpa using hy) (by simpa using hz)) fun _ => .ok _

theorem zipRowsLazy_err {f : Value → Option Value → Except Err Value} (hf : ∀ x z, ExBenign (f x (some z))) :
    ∀ (n : Nat) (xs ys : List Value), xs.length = n → ys.length = n → ExBenign (zipRowsLazy f n xs ys)
  | 0, [], [], _, _ => .ok _
  | n + 1, x :: xs, y :: ys, hx, hy => by
    simp only [zipRowsLazy, List.head?_cons, List.tail_cons]
    exact .bind (hf x y) fun _ =>
      .bind (zipRowsLazy_err hf n xs ys (by simpa using hx) (by simpa using hy)) fun _ => .ok _

theorem exb_betweenRow {n : Bool} {left lo hi : Value} : ExBenign (betweenRow n (some left) lo hi) :=
  exb_betweenKernel

theorem betweenRows_err {number : Bool} :
    ∀ (n : Nat) (xs ys zs : List Value), xs.length = n → ys.length = n → zs.length = n →
      ExBenign (betweenRows number n xs ys zs)
  | 0, [], [], [], _, _, _ => .ok _
  | n + 1, x :: xs, y :: ys, z :: zs, hx, hy, hz => by
    simp only [betweenRows, List.head?_cons, List.tail_cons]
    exact .bind exb_betweenRow fun _ =>
      .bind (betweenRows_err n xs ys zs (by simpa using hx) (by simpa using hy) (by simpa using hz)) fun _ => .ok _

theorem exb_inValues {number : Bool} {left : Value} (vals : List Value) : ExBenign (inValues number left vals) :=
  .ok _

theorem inCallRows_err {number : Bool} :
    ∀ (n : Nat) (xs ys : List Value), xs.length = n → ys.length = n → ExBenign (inCallRows number n xs ys)
  | 0, [], [], _, _ => .ok _
  | n + 1, x :: xs, y :: ys, hx, hy => by
    simp only [inCallRows]
    split
    · exact .err benign_operandType
    · exact .bind (exb_inValues _) fun _ =>
        .bind (inCallRows_err n xs ys (by simpa using hx) (by simpa using hy)) fun _ => .ok _

theorem inColumns_err {number : Bool} {left : Value} {i : Nat} :
    ∀ (cols : List (List Value)), (∀ col ∈ cols, i < col.length) → ExBenign (inColumns number left i cols)
  | [], _ => .ok _
  | col :: cols, h => by
    unfold inColumns
    have hi : i < col.length := h col (by simp)
    rw [List.getElem?_eq_getElem hi]
    dsimp only
    intro e he
    cases hc : compareBy number left col[i] .eq with
    | error e0 => rw [hc] at he; cases he; exact exb_compareBy _ hc
    | ok b =>
      rw [hc] at he
      cases b
      · exact inColumns_err cols (fun c hc' => h c (by simp [hc'])) e he
      · cases he

theorem inRows_err {number : Bool} {cols : List (List Value)} :
    ∀ (n i : Nat) (ls : List Value), ls.length = n → (∀ col ∈ cols, col.length = i + n) →
      ExBenign (inRows number cols n i ls)
  | 0, _, [], _, _ => .ok _
  | n + 1, i, l :: ls, h, hc => by
    simp only [inRows]
    refine .bind (inColumns_err cols (fun col hcol => by have := hc col hcol; omega)) fun _ => ?_
    exact .bind (inRows_err n (i + 1) ls (by simpa using h) (fun col hcol => by have := hc col hcol; omega)) fun _ => .ok _

theorem equalBatchFinish_err {not : Bool} {n : Nat} {xs ys : List Value} (hx : xs.length = n) (hy : ys.length = n) :
    ExBenign (equalBatchFinish not n xs ys) := by
  unfold equalBatchFinish
  split
  · exact .ok _
  · exact zipRows_err (fun x z => ExBenign.map (ExBenign.map exb_equalRow)) n xs ys hx hy

theorem exb_distanceRow {dist : List F64 → List F64 → Except Err F64} (hd : ∀ l r, ExBenign (dist l r))
    {l r : Value} : ExBenign (distanceRow dist l (some r)) := by
  rw [distanceRow_some]
  exact .bind exb_toFloatList fun _ => .bind exb_toFloatList fun _ => .bind (hd _ _) fun _ => .ok _

theorem exb_prefixK {x z : Value} : ExBenign (prefixK x z) := by
  unfold prefixK; split <;> first | exact .ok _ | exact .err benign_operandType
theorem exb_regexK {x z : Value} : ExBenign (regexK x z) := by
  unfold regexK
  split
  · split <;> first | exact .ok _ | exact .err benign_data
  · exact .err benign_operandType
theorem exb_andK {x z : Value} : ExBenign (andK x z) := by
  unfold andK; split <;> first | exact .ok _ | exact .err benign_operandType
theorem exb_orK {x z : Value} : ExBenign (orK x z) := by
  unfold orK; split <;> first | exact .ok _ | exact .err benign_operandType
theorem exb_concatK {x z : Value} : ExBenign (concatK x z) := by
  unfold concatK; split <;> first | exact .ok _ | exact .err benign_operandType

/-! ### the batch evaluator at a fixed cache-off context -/

/-- at context `c`: no panic / out-of-fuel outcome -/
def TotalAt {α} (x : M α) (c : Ctx) : Prop := ∀ e c', x c = (.error e, c') → e.benign

theorem TotalAt.of_total {α} {x : M α} (h : Total x) (c : Ctx) : TotalAt x c := fun e c' he => h c e c' he

theorem TotalAt.pure {α} (a : α) (c : Ctx) : TotalAt (Pure.pure a : M α) c := by
  intro e c' h; simp at h
theorem TotalAt.throw {α} {e : Err} (h : e.benign) (c : Ctx) : TotalAt (M.throw e : M α) c := by
  intro e' c' h'; simp at h'; rw [← h'.1]; exact h
theorem TotalAt.lift {α} {x : Except Err α} (h : ExBenign x) (c : Ctx) : TotalAt (M.lift x) c := by
  intro e c' h'; simp at h'; exact h e h'.1

/-- sequencing when a successful first step returns to the same context -/
theorem TotalAt.bind {α β} {x : M α} {f : α → M β} {c : Ctx} (hx : TotalAt x c)
    (hf : ∀ a c1, x c = (.ok a, c1) → c1 = c ∧ TotalAt (f a) c) : TotalAt (x >>= f) c := by
  intro e c' h
  rw [M.bind_run] at h
  split at h
  · rename_i a c1 heq
    obtain ⟨e1, ht⟩ := hf a c1 heq
    rw [e1] at h
    exact ht e c' h
  · rename_i e0 c0 heq
    simp at h; rw [← h.1]; exact hx e0 c0 heq

theorem TotalAt.ite {α} {p : Prop} [Decidable p] {x y : M α} {c : Ctx} (hx : TotalAt x c) (hy : TotalAt y c) :
    TotalAt (if p then x else y) c := by split <;> assumption

theorem forPairs_total {f : Pair → M Value} (hf : ∀ kv, Total (f kv)) : ∀ (chunk : List Pair), Total (forPairs f chunk)
  | [] => by rw [forPairs]; exact .pure _
  | kv :: kvs => by
    rw [forPairs]
    exact .bind (hf kv) fun _ => .bind (forPairs_total hf kvs) fun _ => .pure _

/-- the row body run pair by pair with a nil context (join / list / int_list / float_list in batch) -/
theorem rowWiseNoCtx_totalAt {f : Pair → M Value} (hf : ∀ kv, Total (f kv)) (chunk : List Pair) (c : Ctx) :
    TotalAt (rowWiseNoCtx f chunk) c := by
  intro e c' h
  unfold rowWiseNoCtx at h
  rcases hx : forPairs f chunk Ctx.none with ⟨r, d⟩
  rw [hx] at h; simp at h
  exact forPairs_total hf chunk Ctx.none e d (by rw [hx, h.1])

end Kvql
