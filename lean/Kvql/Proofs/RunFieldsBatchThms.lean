/-
  End-to-end proofs for SELECT statements WITH A FIELD LIST, part 13: the batch-mode theorems of
  Properties/E2EFields.lean and the check of their hypotheses.
-/
import Kvql.Proofs.RunFieldsBatchMain

namespace Kvql.Proofs.RunFields
open Kvql Kvql.Run Kvql.Plans Kvql.Storage Kvql.Cache Kvql.Project Kvql.Proofs.Scan Kvql.Proofs.Typing
open Kvql.Proofs.RunTables Kvql.Proofs.RunScan Kvql.Proofs.RunLimit Kvql.Proofs.RunFold
open Kvql.PlanCheck (planStage finalPlanCheck)

/-- **(1) + (3) + (4), batch mode, judged by the vector evaluator on the folded statement.** -/
theorem runStmt_fields_rows_batch {s : SelectS} (hnf : s.allFields = false) (hnoaggr : finalPlanCheck s = .ok false)
    {f : FoldedSelect} (hf : foldSelect s = .ok f) (hA : AliasOK s f) (hok : f.where_.vecOk = true)
    {store : Store} (hs : store.Sorted) (hev : BatchEvalOK s f store) (ho : OrderHyp s (specRowsB s f store))
    (bs : Nat) (hbs : 1 ≤ bs) (cache : Bool) :
    ∃ R', OrderedBy s (specRowsB s f store) R' ∧
      (runStmt (.select s) store .batch bs cache).fail = none ∧
      (runStmt (.select s) store .batch bs cache).rows = sliceOf s.limit R' ∧
      (s.limit = none → (runStmt (.select s) store .batch bs cache).world.store = store) :=
  runStmt_general hbs hnoaggr hf (projTrace_batch_good hnf hA hok hs hev bs hbs cache) ho

theorem rows_map_both {α β γ : Type} {P : β → γ → Prop} (φ : α → β) (ψ : α → γ) : ∀ (l : List α),
    (∀ a ∈ l, P (φ a) (ψ a)) → Rows P (l.map φ) (l.map ψ)
  | [], _ => .nil
  | a :: l, h => .cons (h a List.mem_cons_self) (rows_map_both φ ψ l (fun x hx => h x (List.mem_cons_of_mem _ hx)))

/-- the rows of batch mode and of row mode agree, row by row and column by column, by content -/
theorem specRows_content {s : SelectS} {f : FoldedSelect} (hvf : ∀ g ∈ selFields s f, g.expr.vecOk = true)
    {store : Store} (hev : BatchEvalOK s f store) :
    Rows (fun rb rn => Rows (fun (vb vr : Value) => Value.contentEq vb vr) rb rn) (specRowsB s f store)
      (specRows s f store) := by
  unfold specRowsB specRows
  apply rows_map_both
  intro p hp
  obtain ⟨hps, hpa⟩ := List.mem_filter.mp hp
  exact batchRow_content hvf (hev.fields p hps hpa)

/-! ### `BatchEvalOK` as a check -/

def isBoolBatch : Except Err (List Value) → Bool
  | .ok [.bool _] => true
  | _ => false

def isOneBatch : Except Err (List Value) → Bool
  | .ok [_] => true
  | _ => false

def batchEvalOKb (s : SelectS) (f : FoldedSelect) (store : Store) : Bool :=
  store.all (fun p => isBoolBatch (execBatch f.where_ [toKv p] Ctx.off).1 &&
    (!Select.accepted f.where_ p || (selFields s f).all (fun g => isOneBatch (execBatch g.expr [toKv p] Ctx.off).1)))

theorem batchEvalOK_of_check {s : SelectS} {f : FoldedSelect} {store : Store} (h : batchEvalOKb s f store = true) :
    BatchEvalOK s f store := by
  unfold batchEvalOKb at h
  rw [List.all_eq_true] at h
  refine ⟨fun p hp => ?_, fun p hp ha g hg => ?_⟩
  · have := h p hp
    simp only [Bool.and_eq_true] at this
    have h1 := this.1
    unfold isBoolBatch at h1
    split at h1
    · rename_i b hb
      exact ⟨b, Kvql.Proofs.C03.batch_ok_ctx f.where_ Ctx.off rfl [toKv p] (by simp) hb⟩
    · cases h1
  · have := h p hp
    simp only [Bool.and_eq_true, Bool.or_eq_true, Bool.not_eq_true', List.all_eq_true] at this
    rcases this.2 with h1 | h1
    · rw [ha] at h1; cases h1
    · have h2 := h1 g hg
      unfold isOneBatch at h2
      split at h2
      · rename_i v hv
        exact ⟨v, Kvql.Proofs.C03.batch_ok_ctx g.expr Ctx.off rfl [toKv p] (by simp) hv⟩
      · cases h2

theorem batchEvalOKb_congr {s s' : SelectS} (h : s.fieldNames = s'.fieldNames) (f : FoldedSelect) (store : Store) :
    batchEvalOKb s f store = batchEvalOKb s' f store := by
  unfold batchEvalOKb selFields; rw [h]

end Kvql.Proofs.RunFields
