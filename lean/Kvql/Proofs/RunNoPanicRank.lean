/-
  RunNoPanic, part 1: the alias graph.
    * `rtF_sufficient`   over an acyclic table the fuel `rtFuel` is enough for `ReturnType()`;
    * `reaches_complete` the depth-first search of `CheckCtx.reaches` finds every path;
    * `acyclic_setField` replacing a field by a tree whose new references do not reach back keeps
                         the graph acyclic;
    * `resolveTop_noCyc` / `resolveTop_wf`  resolving over an acyclic table creates no cycle marker.
-/
import Kvql.Proofs.RunNoPanicRankAux

namespace Kvql.Proofs.RunNoPanic

open Kvql Kvql.Parser Kvql.Proofs.Typing

/-- THE SUFFICIENCY OF `rtFuel`. -/
theorem rtF_sufficient {tbl : Tbl} (hac : Acyclic tbl)
    (hent : ∀ (j : Nat) (nm : Bytes) (f : Expr), tbl[j]? = some (nm, f) → Found tbl f = true ∧ noCyc f = true)
    {e : Expr} (hf : Found tbl e = true) (hn : noCyc e = true) :
    ∃ t, rtF tbl (rtFuel tbl e) e = some t := by
  obtain ⟨rank, hrk⟩ := hac
  have h := rtF_ranked hrk hent (rankBound rank tbl.length) e hf hn
    (fun j hj => rankBound_gt rank tbl.length j (refIdx_lt tbl e j hj)) (rtFuel tbl e)
    (by have := cost_le_nodes tbl rank (rankBound rank tbl.length); simp only [rtFuel]; omega)
  cases hr : rtF tbl (rtFuel tbl e) e with
  | none => simp [hr] at h
  | some t => exact ⟨t, rfl⟩

/-- `ReturnType()` during checking never reaches the cyclic-alias panic over a good table -/
theorem rt_ok (ctx : CheckCtx) (hg : TGood ctx.tbl) {e : Expr} (he : EGood ctx.tbl e) :
    ∃ t, ctx.rt e = .ok t := by
  obtain ⟨t, ht⟩ := rtF_sufficient hg.acyclic
    (fun j nm f hj => ⟨hg.found j nm f hj, (hg.clean j nm f hj).1⟩) he.1 he.2.1
  exact ⟨t, by simp only [CheckCtx.rt, ht]⟩

/-- COMPLETENESS OF THE CYCLE SEARCH: if the search from field `j` for field `target` answers "no",
    there is no chain of alias references from `j` to `target`. -/
theorem reaches_complete {tbl : Tbl} {target j : Nat} (hj : j < tbl.length)
    (h : (tbl.reaches target (tbl.length + 1) j []).1 = false) : ¬ Reach tbl j target := by
  cases hr : tbl.reaches target (tbl.length + 1) j [] with
  | mk b seen' =>
    rw [hr] at h
    dsimp only at h
    subst h
    have hun : unseen tbl.length [] < tbl.length + 1 := by
      have : unseen tbl.length [] ≤ sumTo (fun _ => 1) tbl.length := by
        apply sumTo_le; intro i _; split <;> omega
      have h1 : ∀ n, sumTo (fun _ => 1) n = n := by
        intro n; induction n with
        | zero => rfl
        | succ n ih => simp only [sumTo, ih]
      rw [h1] at this; omega
    obtain ⟨_, hjs, _, hblack⟩ := reachSpec_all tbl target (tbl.length + 1) j [] seen' hj hun hr
    intro hreach
    have hclosed : ∀ k ∈ seen', ∀ m, Edge tbl k m → m ∈ seen' :=
      fun k hk => (hblack k hk (by simp)).2
    have ht := reach_closed hclosed hreach hjs
    exact (hblack target ht (by simp)).1 rfl

set_option linter.unusedVariables false in  -- `hnames` is not needed
/-- the alias graph only depends on the names of the table and on the references of each entry -/
theorem Acyclic.mono {tbl tbl' : Tbl} (h : Acyclic tbl) (hnames : tbl'.map (·.1) = tbl.map (·.1))
    (hsub : ∀ (i : Nat) (nm : Bytes) (e' : Expr), tbl'[i]? = some (nm, e') →
      ∃ e, tbl[i]? = some (nm, e) ∧ ∀ j ∈ e'.refIdx tbl', j ∈ e.refIdx tbl) : Acyclic tbl' := by
  obtain ⟨rank, hrk⟩ := h
  refine ⟨rank, ?_⟩
  intro a b hab
  obtain ⟨nm, e', ha, hb⟩ := hab
  obtain ⟨e, he, hsub'⟩ := hsub a nm e' ha
  exact hrk a b ⟨nm, e, he, hsub' b hb⟩

/-- the references of a tree only depend on the list of names of the table (the index `Tbl.find`
    returns does) -/
theorem refIdx_congr {tbl tbl' : Tbl} (h : tbl'.map (·.1) = tbl.map (·.1)) (e : Expr) :
    e.refIdx tbl' = e.refIdx tbl := refIdx_congr_aux h e

/-- replacing field `i` by a tree each of whose references was there before or does not lead back to
    `i` keeps the graph acyclic -/
theorem acyclic_setField {tbl : Tbl} (h : Acyclic tbl) {i : Nat} {nm0 : Bytes} {e0 e' : Expr}
    (hi : tbl[i]? = some (nm0, e0))
    (hnew : ∀ j ∈ e'.refIdx tbl, j ∈ e0.refIdx tbl ∨ ¬ Reach tbl j i) : Acyclic (tbl.setField i e') := by
  obtain ⟨rank, hrk⟩ := h
  classical
  refine ⟨fun k => if Reach tbl k i then rank k + rankBound rank tbl.length else rank k, ?_⟩
  have old : ∀ a b, Edge tbl a b →
      (if Reach tbl b i then rank b + rankBound rank tbl.length else rank b) <
        (if Reach tbl a i then rank a + rankBound rank tbl.length else rank a) := by
    intro a b hab
    have hlt := hrk a b hab
    by_cases hb : Reach tbl b i
    · rw [if_pos hb, if_pos (Reach.step hab hb)]; omega
    · rw [if_neg hb]; split <;> omega
  intro a b hab
  obtain ⟨nm, f, ha, hb⟩ := hab
  rw [refIdx_congr (setField_names tbl i e') f] at hb
  dsimp only
  rcases setField_get_cases tbl i a e' nm f ha with ⟨_, hget⟩ | ⟨rfl, rfl⟩
  · exact old a b ⟨nm, f, hget, hb⟩
  · rcases hnew b hb with h1 | h2
    · exact old a b ⟨nm0, e0, hi, h1⟩
    · rw [if_neg h2, if_pos (Reach.refl a)]
      have := rankBound_gt rank tbl.length b (refIdx_lt tbl f b hb)
      omega

/-- the references of a tree do not depend on the trees of the table, only on its names -/
theorem refIdx_setField (tbl : Tbl) (i : Nat) (x e : Expr) : e.refIdx (tbl.setField i x) = e.refIdx tbl := by
  exact refIdx_congr (setField_names tbl i x) e

/-- resolving over an acyclic table of cycle-free entries creates no cycle marker -/
theorem resolveTop_noCyc {tbl : Tbl} (hac : Acyclic tbl)
    (hent : ∀ (j : Nat) (nm : Bytes) (f : Expr), tbl[j]? = some (nm, f) → noCyc f = true)
    {e : Expr} (hn : noCyc e = true) : noCyc (resolveTop tbl e) = true := by
  obtain ⟨rank, hrk⟩ := hac
  exact resolve_ranked hrk noCyc (fun _ _ _ => by simp only [noCyc])
    (fun R g hg _ => mapRefs_noCyc hg) hent (tbl.length + 1) [] e hn (fun _ _ q hq => by simp at hq)

/-- … and keeps `Expr.wf` (no cycle marker, list indices non-negative) -/
theorem resolveTop_wf {tbl : Tbl} (hac : Acyclic tbl)
    (hent : ∀ (j : Nat) (nm : Bytes) (f : Expr), tbl[j]? = some (nm, f) → f.wf = true)
    {e : Expr} (hn : e.wf = true) : (resolveTop tbl e).wf = true := by
  obtain ⟨rank, hrk⟩ := hac
  exact resolve_ranked hrk Expr.wf (fun _ _ _ => by simp only [Expr.wf])
    (fun R g hg hi => mapRefs_wf hg hi) hent (tbl.length + 1) [] e hn (fun _ _ q hq => by simp at hq)

/-- … and `numsOK` -/
theorem resolveTop_numsOK {tbl : Tbl}
    (hent : ∀ (j : Nat) (nm : Bytes) (f : Expr), tbl[j]? = some (nm, f) → numsOK f = true)
    {e : Expr} (hn : numsOK e = true) : numsOK (resolveTop tbl e) = true := by
  exact resolve_numsOK hent (tbl.length + 1) [] e hn

set_option linter.unusedVariables false in  -- `hn` is not needed
/-- the top-level references of a resolved tree are those of the tree -/
theorem refIdx_resolveTop (tbl tbl2 : Tbl) (e : Expr) (hn : noCyc (resolveTop tbl e) = true) :
    (resolveTop tbl e).refIdx tbl2 = e.refIdx tbl2 := by
  exact mapRefs_refIdx (rg_nil_ref tbl tbl.length) e

/-- a clean tree is well formed for the evaluators -/
theorem wf_of_clean {e : Expr} (h : Clean e) : e.wf = true := by
  exact wf_of_clean_aux e h.1 h.2

end Kvql.Proofs.RunNoPanic
