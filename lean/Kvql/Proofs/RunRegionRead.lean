/-
  C18 end to end, part 6: the script in terms of the REGION.  Over a strictly ordered store the reads
  of a cursor scan are: `Next` of every stored key of the region in key order, then ONE more `Next` —
  the first stored key past the region (`firstBeyond`), or `Next->end` when there is none.
  What a log whose reads are a prefix of the script can contain (`reads_within`).
-/
import Kvql.Proofs.RunRegionDelete

namespace Kvql.Proofs.RunRegion

open Kvql Kvql.Storage Kvql.Plans Kvql.Proofs.Plan Kvql.Proofs.Scan
open Kvql.Plans.ScanNode (inRegion aboveLow belowHigh startRest)

/-- where a scan starts: the key `Seek` goes to (`none`: no `Seek`) -/
def regionStart : ScanNode → Option Bytes
  | .full => some []
  | .prefix p => some p
  | .range a _ => a
  | _ => none

/-- the stored keys of the region, in key order -/
def regionKeys (node : ScanNode) (store : Store) : List Bytes :=
  (store.filter (fun p => node.inRegion p.1)).map (·.1)

/-- the first stored key past the region: not before the start, outside the region -/
def firstBeyond (node : ScanNode) (store : Store) : Option Bytes :=
  (store.find? (fun p => aboveLow (regionStart node) p.1 && !node.inRegion p.1)).map (·.1)

/-- the keys a MultiGet lists -/
def listedKeys : ScanNode → List Bytes
  | .mget ks => ks
  | _ => []

/-- the calls of one `Init` -/
def initScript (node : ScanNode) : List Call :=
  if node.isCursorScan then .cursor :: (match regionStart node with | some a => [.seek a] | none => []) else []

/-- the reads of a complete scan -/
def readScript (node : ScanNode) (store : Store) : List Call :=
  match node with
  | .empty => []
  | .mget ks => ks.map .get
  | _ => (regionKeys node store).map (fun k => .next (some k)) ++ [.next (firstBeyond node store)]

/-- the complete script of a statement over a scan node (`BuildPlan` runs `Init` twice) -/
def script (node : ScanNode) (store : Store) : List Call :=
  initScript node ++ initScript node ++ readScript node store

theorem initScript_eq (node : ScanNode) : initScript node = initCalls node := by
  cases node with
  | range a b => cases a <;> rfl
  | _ => rfl

theorem nextScript_eq (stop : Bytes → Bool) : ∀ rest : List Storage.Pair,
    nextScript stop rest = (rest.takeWhile (fun p => !stop p.1)).map (fun p => Call.next (some p.1)) ++
      [.next ((rest.find? (fun p => stop p.1)).map (·.1))] := by
  intro rest
  induction rest with
  | nil => rfl
  | cons p r ih =>
    simp only [nextScript]
    by_cases hs : stop p.1 = true
    · simp [hs]
    · have hs' : stop p.1 = false := by simpa using hs
      simp [hs', ih]

/-- the end test of a cursor scan fires exactly on the keys outside the region, from the start on -/
theorem stop_eq (node : ScanNode) (hc : node.isCursorScan = true) (k : Bytes) :
    (aboveLow (regionStart node) k && node.stop k) = (aboveLow (regionStart node) k && !node.inRegion k) := by
  cases node with
  | mget ks => simp [ScanNode.isCursorScan] at hc
  | empty => simp [ScanNode.isCursorScan] at hc
  | full => simp [ScanNode.stop, inRegion]
  | «prefix» p => simp [ScanNode.stop, inRegion]
  | range a b =>
    cases b with
    | none => simp [ScanNode.stop, inRegion, belowHigh, regionStart]
    | some e =>
      simp only [ScanNode.stop, inRegion, belowHigh, regionStart]
      cases h1 : aboveLow a k with
      | false => simp
      | true =>
        by_cases h : k ≤ e
        · simp [h, List.not_lt.mpr h]
        · simp [h, List.not_le.mp h]

theorem startRest_eq (node : ScanNode) (hc : node.isCursorScan = true) {store : Store} (hs : store.Sorted) :
    node.startRest store = store.filter (fun p => aboveLow (regionStart node) p.1) := by
  cases node with
  | mget ks => simp [ScanNode.isCursorScan] at hc
  | empty => simp [ScanNode.isCursorScan] at hc
  | full => simp only [startRest, regionStart, aboveLow]; exact seek_eq_filter hs []
  | «prefix» p => simp only [startRest, regionStart, aboveLow]; exact seek_eq_filter hs p
  | range a b =>
    cases a with
    | some a => simp only [startRest, regionStart, aboveLow]; exact seek_eq_filter hs a
    | none =>
      simp only [startRest, regionStart, aboveLow]
      exact (List.filter_eq_self.mpr (fun _ _ => rfl)).symm

theorem firstBeyond_eq (node : ScanNode) (hc : node.isCursorScan = true) {store : Store} (hs : store.Sorted) :
    ((node.startRest store).find? (fun p => node.stop p.1)).map (·.1) = firstBeyond node store := by
  rw [startRest_eq node hc hs, List.find?_filter]
  unfold firstBeyond
  congr 2
  funext p
  have := stop_eq node hc p.1
  cases h1 : aboveLow (regionStart node) p.1 <;> cases h2 : node.stop p.1 <;> cases h3 : node.inRegion p.1 <;>
    simp [h1, h2, h3] at this ⊢

theorem readScript_eq (node : ScanNode) {store : Store} (hs : store.Sorted) : readScript node store = readsI node store := by
  by_cases hc : node.isCursorScan = true
  · have key : readsI node store = nextScript node.stop (node.startRest store) := by
      cases node <;> simp [ScanNode.isCursorScan] at hc <;> rfl
    have key2 : readScript node store =
        (regionKeys node store).map (fun k => .next (some k)) ++ [.next (firstBeyond node store)] := by
      cases node <;> simp [ScanNode.isCursorScan] at hc <;> rfl
    rw [key, key2, nextScript_eq, region_of_cursor_scan node hc hs, firstBeyond_eq node hc hs]
    simp [regionKeys, List.map_map]
  · cases node with
    | full => simp [ScanNode.isCursorScan] at hc
    | «prefix» p => simp [ScanNode.isCursorScan] at hc
    | range a b => simp [ScanNode.isCursorScan] at hc
    | mget ks => rfl
    | empty => rfl

theorem script_eq (node : ScanNode) {store : Store} (hs : store.Sorted) : script node store = scriptI node store := by
  simp [script, scriptI, initScript_eq, readScript_eq node hs]

/-! ### what a prefix of the script contains -/

def nextKeyOf : Call → Option Bytes
  | .next (some k) => some k
  | _ => none

def getKeyOf : Call → Option Bytes
  | .get k => some k
  | _ => none

/-- the keys handed out by `Next`, in log order -/
def nextKeys (l : List Entry) : List Bytes := l.filterMap (fun e => nextKeyOf e.call)

/-- the keys asked for by `Get`, in log order -/
def getKeys (l : List Entry) : List Bytes := l.filterMap (fun e => getKeyOf e.call)

theorem nextKeys_entries (cs : List Call) : nextKeys (entries cs) = cs.filterMap nextKeyOf := by
  simp [nextKeys, entries, List.filterMap_map, Function.comp_def]

theorem getKeys_entries (cs : List Call) : getKeys (entries cs) = cs.filterMap getKeyOf := by
  simp [getKeys, entries, List.filterMap_map, Function.comp_def]

theorem nextKeys_readsOf (l : List Entry) : nextKeys (readsOf l) = nextKeys l := by
  induction l with
  | nil => rfl
  | cons e r ih =>
    simp only [readsOf, List.filter_cons] at ih ⊢
    cases h : e.call.isRead
    · have : nextKeyOf e.call = none := by
        cases hc : e.call <;> simp [hc, Call.isRead, Call.isWrite] at h <;> rfl
      simp [nextKeys, this] at ih ⊢
      exact ih
    · simp [nextKeys, List.filterMap_cons] at ih ⊢
      rw [ih]

theorem getKeys_readsOf (l : List Entry) : getKeys (readsOf l) = getKeys l := by
  induction l with
  | nil => rfl
  | cons e r ih =>
    simp only [readsOf, List.filter_cons] at ih ⊢
    cases h : e.call.isRead
    · have : getKeyOf e.call = none := by
        cases hc : e.call <;> simp [hc, Call.isRead, Call.isWrite] at h <;> rfl
      simp [getKeys, this] at ih ⊢
      exact ih
    · simp [getKeys, List.filterMap_cons] at ih ⊢
      rw [ih]

theorem initScript_next (node : ScanNode) : (initScript node).filterMap nextKeyOf = [] := by
  unfold initScript
  split
  · cases regionStart node <;> rfl
  · rfl

theorem initScript_get (node : ScanNode) : (initScript node).filterMap getKeyOf = [] := by
  unfold initScript
  split
  · cases regionStart node <;> rfl
  · rfl

theorem filterMap_next_map (ks : List Bytes) : (ks.map (fun k => Call.next (some k))).filterMap nextKeyOf = ks := by
  induction ks with
  | nil => rfl
  | cons k r ih => simp [nextKeyOf, ih]

theorem filterMap_get_map_next (ks : List Bytes) : (ks.map (fun k => Call.next (some k))).filterMap getKeyOf = [] := by
  induction ks with
  | nil => rfl
  | cons k r ih => simp [getKeyOf]

theorem filterMap_get_map (ks : List Bytes) : (ks.map Call.get).filterMap getKeyOf = ks := by
  induction ks with
  | nil => rfl
  | cons k r ih => simp [getKeyOf, ih]

theorem filterMap_next_map_get (ks : List Bytes) : (ks.map Call.get).filterMap nextKeyOf = [] := by
  induction ks with
  | nil => rfl
  | cons k r ih => simp [nextKeyOf]

/-- the `Next` keys of the complete script: the region's stored keys, then the one beyond -/
theorem nextKeys_script (node : ScanNode) (store : Store) :
    nextKeys (entries (script node store)) =
      if node.isCursorScan then regionKeys node store ++ (firstBeyond node store).toList else [] := by
  rw [nextKeys_entries]
  simp only [script, List.filterMap_append, initScript_next, List.nil_append]
  cases node with
  | empty => rfl
  | mget ks =>
    show (ks.map Call.get).filterMap nextKeyOf = _
    rw [filterMap_next_map_get]; rfl
  | full =>
    simp only [readScript, List.filterMap_append, filterMap_next_map, ScanNode.isCursorScan, if_true]
    cases firstBeyond .full store <;> rfl
  | «prefix» p =>
    simp only [readScript, List.filterMap_append, filterMap_next_map, ScanNode.isCursorScan, if_true]
    cases firstBeyond (.prefix p) store <;> rfl
  | range a b =>
    simp only [readScript, List.filterMap_append, filterMap_next_map, ScanNode.isCursorScan, if_true]
    cases firstBeyond (.range a b) store <;> rfl

/-- the `Get` keys of the complete script: the listed keys -/
theorem getKeys_script (node : ScanNode) (store : Store) : getKeys (entries (script node store)) = listedKeys node := by
  rw [getKeys_entries]
  simp only [script, List.filterMap_append, initScript_get, List.nil_append]
  cases node with
  | empty => rfl
  | mget ks =>
    show (ks.map Call.get).filterMap getKeyOf = _
    rw [filterMap_get_map]; rfl
  | full =>
    simp only [readScript, List.filterMap_append, filterMap_get_map_next]; rfl
  | «prefix» p =>
    simp only [readScript, List.filterMap_append, filterMap_get_map_next]; rfl
  | range a b =>
    simp only [readScript, List.filterMap_append, filterMap_get_map_next]; rfl

theorem mem_regionKeys {node : ScanNode} {store : Store} {k : Bytes} (h : k ∈ regionKeys node store) :
    node.inRegion k = true ∧ k ∈ store.keys := by
  simp only [regionKeys, List.mem_map, List.mem_filter] at h
  obtain ⟨p, ⟨hp, hr⟩, rfl⟩ := h
  exact ⟨hr, List.mem_map.mpr ⟨p, hp, rfl⟩⟩

theorem firstBeyond_spec {node : ScanNode} {store : Store} {k : Bytes} (h : firstBeyond node store = some k) :
    node.inRegion k = false ∧ k ∈ store.keys ∧ aboveLow (regionStart node) k = true := by
  simp only [firstBeyond, Option.map_eq_some_iff] at h
  obtain ⟨p, hp, rfl⟩ := h
  have h1 := List.find?_some hp
  have h2 := List.mem_of_find?_eq_some hp
  simp only [Bool.and_eq_true, Bool.not_eq_true'] at h1
  exact ⟨h1.2, List.mem_map.mpr ⟨p, h2, rfl⟩, h1.1⟩

/-- every call of the script -/
theorem mem_script {node : ScanNode} {store : Store} {c : Call} (h : c ∈ script node store) :
    (c = .cursor ∧ node.isCursorScan = true) ∨
    (∃ a, c = .seek a ∧ regionStart node = some a ∧ node.isCursorScan = true) ∨
    (∃ k, c = .next (some k) ∧ node.isCursorScan = true ∧
      (k ∈ regionKeys node store ∨ firstBeyond node store = some k)) ∨
    (c = .next none ∧ node.isCursorScan = true ∧ firstBeyond node store = none) ∨
    (∃ k, c = .get k ∧ k ∈ listedKeys node) := by
  have hinit : c ∈ initScript node → (c = .cursor ∧ node.isCursorScan = true) ∨
      (∃ a, c = .seek a ∧ regionStart node = some a ∧ node.isCursorScan = true) := by
    intro hc
    unfold initScript at hc
    split at hc
    · rename_i hcs
      rcases List.mem_cons.mp hc with h | h
      · exact .inl ⟨h, hcs⟩
      · cases hr : regionStart node with
        | none => rw [hr] at h; simp at h
        | some a => rw [hr] at h; simp at h; exact .inr ⟨a, h, rfl, hcs⟩
    · simp at hc
  simp only [script, List.mem_append] at h
  rcases h with (h | h) | h
  · rcases hinit h with h | h
    · exact .inl h
    · exact .inr (.inl h)
  · rcases hinit h with h | h
    · exact .inl h
    · exact .inr (.inl h)
  · have cur : node.isCursorScan = true →
        c ∈ (regionKeys node store).map (fun k => Call.next (some k)) ++ [.next (firstBeyond node store)] →
        (∃ k, c = .next (some k) ∧ node.isCursorScan = true ∧
          (k ∈ regionKeys node store ∨ firstBeyond node store = some k)) ∨
        (c = .next none ∧ node.isCursorScan = true ∧ firstBeyond node store = none) := by
      intro hcs hm
      rcases List.mem_append.mp hm with hm | hm
      · obtain ⟨k, hk, rfl⟩ := List.mem_map.mp hm
        exact .inl ⟨k, rfl, hcs, .inl hk⟩
      · simp only [List.mem_singleton] at hm
        cases hf : firstBeyond node store with
        | none => rw [hf] at hm; exact .inr ⟨hm, hcs, rfl⟩
        | some k => rw [hf] at hm; exact .inl ⟨k, hm, hcs, .inr rfl⟩
    cases node with
    | empty => simp [readScript] at h
    | mget ks =>
      simp only [readScript, List.mem_map] at h
      obtain ⟨k, hk, rfl⟩ := h
      exact .inr (.inr (.inr (.inr ⟨k, rfl, hk⟩)))
    | full => rcases cur rfl h with h | h; exact .inr (.inr (.inl h)); exact .inr (.inr (.inr (.inl h)))
    | «prefix» p => rcases cur rfl h with h | h; exact .inr (.inr (.inl h)); exact .inr (.inr (.inr (.inl h)))
    | range a b => rcases cur rfl h with h | h; exact .inr (.inr (.inl h)); exact .inr (.inr (.inr (.inl h)))

/-- **what a log whose reads are a prefix of the script contains** -/
theorem reads_within {node : ScanNode} {store : Store} {l : List Entry}
    (h : readsOf l <+: entries (script node store)) :
    (∀ e ∈ l, ∀ k, e.call = .next (some k) →
      (node.inRegion k = true ∨ firstBeyond node store = some k) ∧ k ∈ store.keys) ∧
    (∀ e ∈ l, ∀ k, e.call = .get k → k ∈ listedKeys node) ∧
    (∀ e ∈ l, ∀ a, e.call = .seek a → regionStart node = some a) ∧
    (∀ e ∈ l, (e.call = .cursor ∨ (∃ a, e.call = .seek a) ∨ (∃ k, e.call = .next k)) → node.isCursorScan = true) ∧
    nextKeys l <+: regionKeys node store ++ (firstBeyond node store).toList ∧
    getKeys l <+: listedKeys node ∧
    (∀ e ∈ l, e.call.isRead = true → e.fault = false) ∧
    (node = .empty → readsOf l = []) := by
  have hmem : ∀ e ∈ l, e.call.isRead = true → e.call ∈ script node store ∧ e.fault = false := by
    intro e he hr
    have : e ∈ entries (script node store) := List.IsPrefix.mem (List.mem_filter.mpr ⟨he, hr⟩) h
    simp only [entries, List.mem_map] at this
    obtain ⟨c, hc, rfl⟩ := this
    exact ⟨hc, rfl⟩
  refine ⟨?_, ?_, ?_, ?_, ?_, ?_, fun e he hr => (hmem e he hr).2, ?_⟩
  · intro e he k hk
    have := (hmem e he (by rw [hk]; rfl)).1
    rw [hk] at this
    rcases mem_script this with h | ⟨a, h, _⟩ | ⟨k', h, _, h'⟩ | h | ⟨k', h, _⟩
    · cases h.1
    · cases h
    · simp only [Call.next.injEq, Option.some.injEq] at h
      subst h
      rcases h' with h' | h'
      · exact ⟨.inl (mem_regionKeys h').1, (mem_regionKeys h').2⟩
      · exact ⟨.inr h', (firstBeyond_spec h').2.1⟩
    · cases h.1
    · cases h
  · intro e he k hk
    have := (hmem e he (by rw [hk]; rfl)).1
    rw [hk] at this
    rcases mem_script this with h | ⟨a, h, _⟩ | ⟨k', h, _⟩ | h | ⟨k', h, h'⟩
    · cases h.1
    · cases h
    · cases h
    · cases h.1
    · simp only [Call.get.injEq] at h; subst h; exact h'
  · intro e he a hk
    have := (hmem e he (by rw [hk]; rfl)).1
    rw [hk] at this
    rcases mem_script this with h | ⟨a', h, h', _⟩ | ⟨k', h, _⟩ | h | ⟨k', h, _⟩
    · cases h.1
    · simp only [Call.seek.injEq] at h; subst h; exact h'
    · cases h
    · cases h.1
    · cases h
  · intro e he hk
    have hr : e.call.isRead = true := by
      rcases hk with hk | ⟨a, hk⟩ | ⟨k, hk⟩ <;> rw [hk] <;> rfl
    have := (hmem e he hr).1
    rcases mem_script this with h | ⟨a', _, _, h⟩ | ⟨k', _, h, _⟩ | h | ⟨k', h, _⟩
    · exact h.2
    · exact h
    · exact h
    · exact h.2.1
    · rcases hk with hk | ⟨a, hk⟩ | ⟨k, hk⟩ <;> rw [hk] at h <;> cases h
  · have := List.IsPrefix.filterMap (fun e => nextKeyOf e.call) h
    change nextKeys (readsOf l) <+: nextKeys (entries (script node store)) at this
    rw [nextKeys_readsOf, nextKeys_script] at this
    split at this
    · exact this
    · rw [List.prefix_nil] at this; rw [this]; exact List.nil_prefix
  · have := List.IsPrefix.filterMap (fun e => getKeyOf e.call) h
    change getKeys (readsOf l) <+: getKeys (entries (script node store)) at this
    rw [getKeys_readsOf, getKeys_script] at this
    exact this
  · intro hn
    subst hn
    have : script .empty store = [] := rfl
    rw [this] at h
    simpa using h

end Kvql.Proofs.RunRegion
