/-
  C14 / C05 through alias references: ONE TARGET PER NAME in an accepted statement.

  The alias references of the trees an accepted SELECT carries (the references inside the copies
  included) all hold, under one name, the same copy: `resolve` of the one table entry of that name —
  which, when no cycle marker appears, does not depend on the path by which the reference was reached
  (`resolve_indep`).  This is the hypothesis `Functional` of C05's cache theorems, and what lets the
  cache-on half of `accepted_select_where_alias` be stated without it.
-/
import Kvql.Proofs.TypingAliasAccepted

namespace Kvql.Proofs.Typing

open Kvql Kvql.Generated Kvql.PlanCheck Kvql.Parser

/-- the state of `resolve tbl f path`: `path` lists distinct fields, `f` levels are left -/
def PInv (tbl : Tbl) (f : Nat) (path : List Nat) : Prop :=
  f + path.length = tbl.length + 1 ∧ path.Nodup ∧ ∀ i ∈ path, i < tbl.length

theorem PInv.pos {tbl : Tbl} {f : Nat} {path : List Nat} (h : PInv tbl f path) : ∃ g, f = g + 1 := by
  obtain ⟨h1, h2, h3⟩ := h
  have := List.Nodup.length_le_of_subset (l₂ := List.range tbl.length) h2
    (fun x hx => List.mem_range.mpr (h3 x hx))
  simp only [List.length_range] at this
  exact ⟨f - 1, by omega⟩

theorem PInv.step {tbl : Tbl} {g : Nat} {path : List Nat} (h : PInv tbl (g + 1) path) {i : Nat}
    (hni : i ∉ path) (hi : i < tbl.length) : PInv tbl g (i :: path) := by
  obtain ⟨h1, h2, h3⟩ := h
  refine ⟨by simp only [List.length_cons]; omega, List.nodup_cons.mpr ⟨hni, h2⟩, ?_⟩
  intro j hj
  rcases List.mem_cons.mp hj with rfl | hj'
  · exact hi
  · exact h3 j hj'

theorem PInv.top (tbl : Tbl) : PInv tbl (tbl.length + 1) [] := ⟨by simp, List.nodup_nil, by simp⟩

mutual
  theorem mapRefs_congr {g g' : Nat → Bytes → Expr → Expr}
      (H : ∀ p nm t, noCyc (g p nm t) = true → noCyc (g' p nm t) = true → g p nm t = g' p nm t) :
      ∀ e : Expr, noCyc (mapRefs g e) = true → noCyc (mapRefs g' e) = true → mapRefs g e = mapRefs g' e
    | .binop p op l r, h, h' => by
      simp only [mapRefs, noCyc, Bool.and_eq_true] at h h' ⊢
      rw [mapRefs_congr H l h.1 h'.1, mapRefs_congr H r h.2 h'.2]
    | .not p r, h, h' => by
      simp only [mapRefs, noCyc] at h h' ⊢
      rw [mapRefs_congr H r h h']
    | .call p n args, h, h' => by
      simp only [mapRefs, noCyc, Bool.and_eq_true] at h h' ⊢
      rw [mapRefs_congr H n h.1 h'.1, mapRefsList_congr H args h.2 h'.2]
    | .list p items, h, h' => by
      simp only [mapRefs, noCyc] at h h' ⊢
      rw [mapRefsList_congr H items h h']
    | .access p l f, h, h' => by
      simp only [mapRefs, noCyc, Bool.and_eq_true] at h h' ⊢
      rw [mapRefs_congr H l h.1 h'.1, mapRefs_congr H f h.2 h'.2]
    | .ref p nm t, h, h' => by
      simp only [mapRefs] at h h' ⊢
      exact H p nm t h h'
    | .cycle, _, _ | .field .., _, _ | .str .., _, _ | .name .., _, _ | .num .., _, _ | .float .., _, _
    | .bool .., _, _ => by simp [mapRefs]
  theorem mapRefsList_congr {g g' : Nat → Bytes → Expr → Expr}
      (H : ∀ p nm t, noCyc (g p nm t) = true → noCyc (g' p nm t) = true → g p nm t = g' p nm t) :
      ∀ es : List Expr, noCycList (mapRefsList g es) = true → noCycList (mapRefsList g' es) = true →
        mapRefsList g es = mapRefsList g' es
    | [], _, _ => by simp [mapRefsList]
    | e :: es, h, h' => by
      simp only [mapRefsList, noCycList, Bool.and_eq_true] at h h' ⊢
      rw [mapRefs_congr H e h.1 h'.1, mapRefsList_congr H es h.2 h'.2]
end

/-- when no cycle marker appears, what `resolve` returns does not depend on the path (nor on the
    fuel, as long as the two belong together) -/
theorem resolve_indep (tbl : Tbl) : ∀ (f f' : Nat) (path path' : List Nat) (e : Expr),
    PInv tbl f path → PInv tbl f' path' →
    noCyc (resolve tbl f path e) = true → noCyc (resolve tbl f' path' e) = true →
    resolve tbl f path e = resolve tbl f' path' e
  | f, f', path, path', e, hp, hp', hn, hn' => by
    obtain ⟨g, rfl⟩ := hp.pos
    obtain ⟨g', rfl⟩ := hp'.pos
    rw [resolve_succ] at hn hn' ⊢
    rw [resolve_succ]
    refine mapRefs_congr ?_ e hn hn'
    intro p nm t h1 h2
    unfold rg at h1 h2 ⊢
    cases hf : tbl.find nm with
    | none => rfl
    | some pr =>
      obtain ⟨i, cur⟩ := pr
      simp only [hf] at h1 h2 ⊢
      by_cases hc : path.contains i = true
      · rw [if_pos hc] at h1; simp [noCyc] at h1
      · by_cases hc' : path'.contains i = true
        · rw [if_pos hc'] at h2; simp [noCyc] at h2
        · rw [if_neg hc] at h1 ⊢
          rw [if_neg hc'] at h2 ⊢
          simp only [noCyc] at h1 h2
          have hi := ParserTotal.Tbl.find_lt hf
          have := resolve_indep tbl g g' (i :: path) (i :: path') cur
            (hp.step (fun hm => hc (List.contains_iff_mem.mpr hm)) hi)
            (hp'.step (fun hm => hc' (List.contains_iff_mem.mpr hm)) hi) h1 h2
          rw [this]
termination_by f => f

/-! ### the references of a resolved tree -/

/-- a (name, copy) pair as `resolve` builds them: the copy is `resolve` of the entry of that name -/
def IsRes (tbl : Tbl) (q : Bytes × Expr) : Prop :=
  ∃ i cur f path, tbl.find q.1 = some (i, cur) ∧ PInv tbl f path ∧ q.2 = resolve tbl f path cur

mutual
  theorem refs_mapRefs {al : Bytes → Bool} {g : Nat → Bytes → Expr → Expr} {P : Bytes × Expr → Prop}
      (Hg : ∀ p nm t, al nm = true → ∀ q ∈ Kvql.Cache.refs (g p nm t), P q) :
      ∀ e : Expr, FoundP al e = true → ∀ q ∈ Kvql.Cache.refs (mapRefs g e), P q
    | .binop p op l r, hf, q, hq => by
      simp only [FoundP, Bool.and_eq_true] at hf
      simp only [mapRefs, Kvql.Cache.refs, List.mem_append] at hq
      rcases hq with hq | hq
      · exact refs_mapRefs Hg l hf.1 q hq
      · exact refs_mapRefs Hg r hf.2 q hq
    | .not p r, hf, q, hq => by
      simp only [FoundP] at hf
      simp only [mapRefs, Kvql.Cache.refs] at hq
      exact refs_mapRefs Hg r hf q hq
    | .call p n args, hf, q, hq => by
      simp only [FoundP, Bool.and_eq_true] at hf
      simp only [mapRefs, Kvql.Cache.refs] at hq
      exact refsList_mapRefs Hg args hf.2 q hq
    | .list p items, hf, q, hq => by
      simp only [FoundP] at hf
      simp only [mapRefs, Kvql.Cache.refs] at hq
      exact refsList_mapRefs Hg items hf q hq
    | .access p l f, hf, q, hq => by
      simp only [FoundP, Bool.and_eq_true] at hf
      simp only [mapRefs, Kvql.Cache.refs] at hq
      exact refs_mapRefs Hg l hf.1 q hq
    | .ref p nm t, hf, q, hq => by
      simp only [FoundP] at hf
      simp only [mapRefs] at hq
      exact Hg p nm t hf q hq
    | .cycle, _, q, hq | .field .., _, q, hq | .str .., _, q, hq | .name .., _, q, hq | .num .., _, q, hq
    | .float .., _, q, hq | .bool .., _, q, hq => by
      simp [mapRefs, Kvql.Cache.refs] at hq
  theorem refsList_mapRefs {al : Bytes → Bool} {g : Nat → Bytes → Expr → Expr} {P : Bytes × Expr → Prop}
      (Hg : ∀ p nm t, al nm = true → ∀ q ∈ Kvql.Cache.refs (g p nm t), P q) :
      ∀ es : List Expr, FoundPList al es = true → ∀ q ∈ Kvql.Cache.refsList (mapRefsList g es), P q
    | [], _, q, hq => by simp [mapRefsList, Kvql.Cache.refsList] at hq
    | e :: es, hf, q, hq => by
      simp only [FoundPList, Bool.and_eq_true] at hf
      simp only [mapRefsList, Kvql.Cache.refsList, List.mem_append] at hq
      rcases hq with hq | hq
      · exact refs_mapRefs Hg e hf.1 q hq
      · exact refsList_mapRefs Hg es hf.2 q hq
end

/-- every reference of every entry names a field -/
def TblFound (tbl : Tbl) : Prop :=
  ∀ (j : Nat) (nm : Bytes) (f : Expr), tbl[j]? = some (nm, f) → Found tbl f = true

theorem TblOK.found {tbl : Tbl} (h : TblOK tbl) : TblFound tbl := fun j nm f hj => (h j nm f hj).2

/-- the references of a resolved tree, those inside the copies included, are `resolve` of table entries -/
theorem refs_resolve (tbl : Tbl) (hfound : TblFound tbl) : ∀ (f : Nat) (path : List Nat) (e : Expr),
    PInv tbl f path → Found tbl e = true → ∀ q ∈ Kvql.Cache.refs (resolve tbl f path e), IsRes tbl q
  | f, path, e, hp, hf, q, hq => by
    obtain ⟨g, rfl⟩ := hp.pos
    rw [resolve_succ] at hq
    refine refs_mapRefs (al := aliasP tbl) (g := rg tbl g path) ?_ e hf q hq
    intro p nm t hal q hq
    unfold rg at hq
    cases hfd : tbl.find nm with
    | none => simp [aliasP, hfd] at hal
    | some pr =>
      obtain ⟨i, cur⟩ := pr
      simp only [hfd] at hq
      by_cases hc : path.contains i = true
      · rw [if_pos hc] at hq; simp [Kvql.Cache.refs] at hq
      · rw [if_neg hc] at hq
        simp only [Kvql.Cache.refs, List.mem_cons] at hq
        have hi := ParserTotal.Tbl.find_lt hfd
        have hp' := hp.step (fun hm => hc (List.contains_iff_mem.mpr hm)) hi
        rcases hq with rfl | hq
        · exact ⟨i, cur, g, i :: path, hfd, hp', rfl⟩
        · obtain ⟨n0, hget⟩ := find_get hfd
          exact refs_resolve tbl hfound g (i :: path) cur hp' (hfound i n0 cur hget) q hq
termination_by f => f

mutual
  theorem refs_noCyc : ∀ e : Expr, noCyc e = true → ∀ q ∈ Kvql.Cache.refs e, noCyc q.2 = true
    | .binop p op l r, h, q, hq => by
      simp only [noCyc, Bool.and_eq_true] at h
      simp only [Kvql.Cache.refs, List.mem_append] at hq
      rcases hq with hq | hq
      · exact refs_noCyc l h.1 q hq
      · exact refs_noCyc r h.2 q hq
    | .not p r, h, q, hq => by
      simp only [noCyc] at h
      simp only [Kvql.Cache.refs] at hq
      exact refs_noCyc r h q hq
    | .call p n args, h, q, hq => by
      simp only [noCyc, Bool.and_eq_true] at h
      simp only [Kvql.Cache.refs] at hq
      exact refsList_noCyc args h.2 q hq
    | .list p items, h, q, hq => by
      simp only [noCyc] at h
      simp only [Kvql.Cache.refs] at hq
      exact refsList_noCyc items h q hq
    | .access p l f, h, q, hq => by
      simp only [noCyc, Bool.and_eq_true] at h
      simp only [Kvql.Cache.refs] at hq
      exact refs_noCyc l h.1 q hq
    | .ref p nm t, h, q, hq => by
      simp only [noCyc] at h
      simp only [Kvql.Cache.refs, List.mem_cons] at hq
      rcases hq with rfl | hq
      · exact h
      · exact refs_noCyc t h q hq
    | .cycle, _, q, hq | .field .., _, q, hq | .str .., _, q, hq | .name .., _, q, hq | .num .., _, q, hq
    | .float .., _, q, hq | .bool .., _, q, hq => by
      simp [Kvql.Cache.refs] at hq
  theorem refsList_noCyc : ∀ es : List Expr, noCycList es = true → ∀ q ∈ Kvql.Cache.refsList es, noCyc q.2 = true
    | [], _, q, hq => by simp [Kvql.Cache.refsList] at hq
    | e :: es, h, q, hq => by
      simp only [noCycList, Bool.and_eq_true] at h
      simp only [Kvql.Cache.refsList, List.mem_append] at hq
      rcases hq with hq | hq
      · exact refs_noCyc e h.1 q hq
      · exact refsList_noCyc es h.2 q hq
end

/-- two resolved references of one name without cycle marker hold the same copy -/
theorem isRes_functional {tbl : Tbl} {n : Bytes} {t t' : Expr} (h : IsRes tbl (n, t)) (h' : IsRes tbl (n, t'))
    (hn : noCyc t = true) (hn' : noCyc t' = true) : t = t' := by
  obtain ⟨i, cur, f, path, hf, hp, ht⟩ := h
  obtain ⟨i', cur', f', path', hf', hp', ht'⟩ := h'
  simp only at hf hf' ht ht'
  rw [hf] at hf'
  cases hf'
  subst ht; subst ht'
  exact resolve_indep tbl f f' path path' cur hp hp' hn hn'

variable {pf : Bytes → F64}

/-- the alias table of a SELECT: the references of the filter and of the fields, nested ones included -/
def stmtRefs (s : SelectS) : Kvql.Cache.Aliases :=
  Kvql.Cache.refs s.where_ ++ s.fields.flatMap Kvql.Cache.refs

/-- the references of an accepted SELECT, nested ones included: each holds `resolve` of the table entry
    of its name, without cycle marker; and the select list as the projection sees it -/
theorem accepted_refs {toks : Toks} {s : SelectS} (h : planStage pf toks = .ok (.select s)) :
    ∃ tbl' : Tbl, (∀ q ∈ stmtRefs s, IsRes tbl' q ∧ noCyc q.2 = true) ∧
      s.fieldNames.zip s.fields = tbl'.map (fun p => (p.1, resolveTop tbl' p.2)) ∧
      s.fields = tbl'.map (fun p => resolveTop tbl' p.2) ∧
      (∀ f ∈ s.fields, noCyc f = true) := by
  obtain ⟨tbl', expr', hok, _, hfound, _, hwh, hfl, hc, hwf, hzip⟩ := accepted_select_table h
  have hnf : ∀ f ∈ s.fields, noCyc f = true := fun f hf => walkCalls_noCyc f true (walkFields_ok hwf f hf)
  refine ⟨tbl', ?_, hzip, hfl, hnf⟩
  intro q hq
  simp only [stmtRefs, List.mem_append, List.mem_flatMap] at hq
  rcases hq with hq | ⟨f, hf, hq⟩
  · have hn := callsOk_noCyc hc
    refine ⟨?_, refs_noCyc _ hn q hq⟩
    rw [hwh] at hq
    exact refs_resolve tbl' hok.found _ _ expr' (PInv.top tbl') hfound q hq
  · refine ⟨?_, refs_noCyc _ (hnf f hf) q hq⟩
    rw [hfl] at hf
    obtain ⟨⟨nm, e⟩, hp, rfl⟩ := List.mem_map.mp hf
    obtain ⟨j, hj⟩ := List.mem_iff_getElem?.mp hp
    exact refs_resolve tbl' hok.found _ _ e (PInv.top tbl') (hok.found j nm e hj) q hq

/-- ONE TARGET PER NAME: the alias table of an accepted SELECT is `Functional` (the hypothesis of
    C05's cache theorems), and contains the references of the filter and of every field -/
theorem accepted_functional {toks : Toks} {s : SelectS} (h : planStage pf toks = .ok (.select s)) :
    Kvql.Cache.Functional (stmtRefs s) ∧ Kvql.Cache.WF (stmtRefs s) s.where_ ∧
      ∀ f ∈ s.fields, Kvql.Cache.WF (stmtRefs s) f := by
  obtain ⟨tbl', hall, _, _, _⟩ := accepted_refs h
  refine ⟨?_, ?_, ?_⟩
  · intro n t t' h1 h2
    exact isRes_functional (hall _ h1).1 (hall _ h2).1 (hall _ h1).2 (hall _ h2).2
  · intro q hq
    simp only [stmtRefs, List.mem_append]
    exact .inl hq
  · intro f hf q hq
    simp only [stmtRefs, List.mem_append, List.mem_flatMap]
    exact .inr ⟨f, hf, hq⟩

/-- ACCEPTED ⇒ NO OPERAND-TYPE ERROR WITH THE FIELD CACHE ON, row evaluator, no hypothesis about the
    alias table: from any context whose cache is on and holds, under each name, the cache-free value
    on the current pair of a copy the statement has for that name (`CacheOK (stmtRefs s)`: true of a
    cleared context, re-established by every evaluation), the filter yields a Boolean or fails with
    another error than an operand-type error -/
theorem accepted_select_where_cache_on (toks : Toks) (s : SelectS) (h : planStage pf toks = .ok (.select s))
    (hs : sideOkD s.where_ = true) (kv : Pair) (c : Ctx) (hon : Kvql.Cache.CtxOn c)
    (hok : Kvql.Cache.CacheOK (stmtRefs s) c kv) :
    (∀ v, (exec s.where_ kv c).1 = .ok v → v.hasKind .bool = true) ∧
    (exec s.where_ kv c).1 ≠ .error .operandType ∧
    Kvql.Cache.CtxOn (exec s.where_ kv c).2 ∧ Kvql.Cache.CacheOK (stmtRefs s) (exec s.where_ kv c).2 kv := by
  obtain ⟨hfun, hw, _⟩ := accepted_functional h
  have h1 := (noOperandTypeErrorCacheOn_of_kind (accepted_select_where_kind_alias h hs)).1 _ hfun hw kv c hon hok
  obtain ⟨_, h3, h4⟩ := Kvql.Cache.row_cache_ok hfun s.where_ hw kv c hon hok
  exact ⟨h1.1, h1.2, h3, h4⟩

/-- … and every select field that is not an aggregate, evaluated after the filter in the same context -/
theorem accepted_select_field_cache_on (toks : Toks) (s : SelectS) (h : planStage pf toks = .ok (.select s))
    (f : Expr) (hf : f ∈ s.fields) (hs : sideOkD f = true) (hn : noSiteAggr f = true)
    (kv : Pair) (c : Ctx) (hon : Kvql.Cache.CtxOn c) (hok : Kvql.Cache.CacheOK (stmtRefs s) c kv) :
    ∃ k, k.code = f.retType ∧
      (∀ v, (exec f kv c).1 = .ok v → v.hasKind k = true) ∧
      (exec f kv c).1 ≠ .error .operandType ∧
      Kvql.Cache.CtxOn (exec f kv c).2 ∧ Kvql.Cache.CacheOK (stmtRefs s) (exec f kv c).2 kv := by
  obtain ⟨hfun, _, hwf⟩ := accepted_functional h
  obtain ⟨k, hk, hc⟩ := accepted_select_field_kind_alias h f hf hs hn
  have h1 := (noOperandTypeErrorCacheOn_of_kind hk).1 _ hfun (hwf f hf) kv c hon hok
  obtain ⟨_, h3, h4⟩ := Kvql.Cache.row_cache_ok hfun f (hwf f hf) kv c hon hok
  exact ⟨k, hc, h1.1, h1.2, h3, h4⟩

/-- … the batch evaluator with the chunk cache ON: on the chunk `E.ch` of an environment whose alias
    table is the statement's (`E.A = stmtRefs s`; the chunk non-empty, one of `E.V`, no other chunk of
    `E.V` starting with the same key — C05's `BEnv.Ok` without its `Functional` field, which is proved
    here), from any context that satisfies C05's chunk-cache invariant `BInv E` -/
theorem accepted_select_where_cache_on_batch (toks : Toks) (s : SelectS) (h : planStage pf toks = .ok (.select s))
    (hs : sideOkD s.where_ = true) (E : Kvql.Cache.BEnv) (hA : E.A = stmtRefs s) (hne : E.ch ≠ [])
    (hmem : E.ch ∈ E.V) (huniq : ∀ ch' ∈ E.V, Kvql.Cache.fk ch' = Kvql.Cache.fk E.ch → ch' = E.ch)
    (c : Ctx) (hinv : Kvql.Cache.BInv E c) :
    (∀ vs, (execBatch s.where_ E.ch c).1 = .ok vs → vs.length = E.ch.length ∧ ∀ v ∈ vs, v.hasKind .bool = true) ∧
    (execBatch s.where_ E.ch c).1 ≠ .error .operandType := by
  obtain ⟨hfun, hw, _⟩ := accepted_functional h
  have hE : E.Ok := ⟨by rw [hA]; exact hfun, hne, hmem, huniq⟩
  exact (noOperandTypeErrorCacheOn_of_kind (accepted_select_where_kind_alias h hs)).2 E hE (by rw [hA]; exact hw) c hinv

/-- cycles are rejected: the trees of an accepted SELECT carry no cycle marker, however deep -/
theorem accepted_no_cycle {toks : Toks} {s : SelectS} (h : planStage pf toks = .ok (.select s)) :
    noCyc s.where_ = true ∧ ∀ f ∈ s.fields, noCyc f = true := by
  obtain ⟨_, _, _, _, _, _, _, _, hc, hwf, _⟩ := accepted_select_table h
  exact ⟨callsOk_noCyc hc, fun f hf => walkCalls_noCyc f true (walkFields_ok hwf f hf)⟩

end Kvql.Proofs.Typing
