/-
  A computable equality test on expression trees with its soundness — `Expr` derives no
  `DecidableEq` (nested through `List Expr`).  Used only to pin the tree `planStage` returns for a
  concrete statement text in non-vacuity examples (kernel evaluation of the front end).
-/
import Kvql.Model.Expr

namespace Kvql

mutual
  def Expr.same : Expr → Expr → Bool
    | .binop p o l r, .binop p' o' l' r' => p == p' && o == o' && Expr.same l l' && Expr.same r r'
    | .field p k, .field p' k' => p == p' && k == k'
    | .str p d, .str p' d' => p == p' && d == d'
    | .not p r, .not p' r' => p == p' && Expr.same r r'
    | .call p n a, .call p' n' a' => p == p' && Expr.same n n' && Expr.sameList a a'
    | .name p d, .name p' d' => p == p' && d == d'
    | .ref p n t, .ref p' n' t' => p == p' && n == n' && Expr.same t t'
    | .cycle, .cycle => true
    | .num p d v, .num p' d' v' => p == p' && d == d' && v == v'
    | .float p d v, .float p' d' v' => p == p' && d == d' && v == v'
    | .bool p d v, .bool p' d' v' => p == p' && d == d' && v == v'
    | .list p a, .list p' a' => p == p' && Expr.sameList a a'
    | .access p l f, .access p' l' f' => p == p' && Expr.same l l' && Expr.same f f'
    | _, _ => false
  def Expr.sameList : List Expr → List Expr → Bool
    | [], [] => true
    | x :: xs, y :: ys => Expr.same x y && Expr.sameList xs ys
    | _, _ => false
end

mutual
  theorem Expr.eq_of_same : ∀ (a b : Expr), Expr.same a b = true → a = b
    | .binop p o l r, b, h => by
      cases b <;> simp [Expr.same] at h
      obtain ⟨⟨⟨h1, h2⟩, h3⟩, h4⟩ := h
      rw [h1, h2, Expr.eq_of_same _ _ h3, Expr.eq_of_same _ _ h4]
    | .field p k, b, h => by
      cases b <;> simp [Expr.same] at h
      rw [h.1, h.2]
    | .str p d, b, h => by
      cases b <;> simp [Expr.same] at h
      rw [h.1, h.2]
    | .not p r, b, h => by
      cases b <;> simp [Expr.same] at h
      rw [h.1, Expr.eq_of_same _ _ h.2]
    | .call p n a, b, h => by
      cases b <;> simp [Expr.same] at h
      obtain ⟨⟨h1, h2⟩, h3⟩ := h
      rw [h1, Expr.eq_of_same _ _ h2, Expr.eq_of_sameList _ _ h3]
    | .name p d, b, h => by
      cases b <;> simp [Expr.same] at h
      rw [h.1, h.2]
    | .ref p n t, b, h => by
      cases b <;> simp [Expr.same] at h
      obtain ⟨⟨h1, h2⟩, h3⟩ := h
      rw [h1, h2, Expr.eq_of_same _ _ h3]
    | .cycle, b, h => by
      cases b <;> simp [Expr.same] at h
      rfl
    | .num p d v, b, h => by
      cases b <;> simp [Expr.same] at h
      obtain ⟨⟨h1, h2⟩, h3⟩ := h
      rw [h1, h2, h3]
    | .float p d v, b, h => by
      cases b <;> simp [Expr.same] at h
      obtain ⟨⟨h1, h2⟩, h3⟩ := h
      rw [h1, h2, h3]
    | .bool p d v, b, h => by
      cases b <;> simp [Expr.same] at h
      obtain ⟨⟨h1, h2⟩, h3⟩ := h
      rw [h1, h2, h3]
    | .list p a, b, h => by
      cases b <;> simp [Expr.same] at h
      rw [h.1, Expr.eq_of_sameList _ _ h.2]
    | .access p l f, b, h => by
      cases b <;> simp [Expr.same] at h
      obtain ⟨⟨h1, h2⟩, h3⟩ := h
      rw [h1, Expr.eq_of_same _ _ h2, Expr.eq_of_same _ _ h3]
  theorem Expr.eq_of_sameList : ∀ (a b : List Expr), Expr.sameList a b = true → a = b
    | [], b, h => by
      cases b <;> simp [Expr.sameList] at h
      rfl
    | x :: xs, b, h => by
      cases b <;> simp [Expr.sameList] at h
      rw [Expr.eq_of_same _ _ h.1, Expr.eq_of_sameList _ _ h.2]
end

end Kvql
