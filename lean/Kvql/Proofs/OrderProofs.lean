/-
  Proofs for C07 (sorting machinery of order_plan.go), generic part: Go's container/heap as
  modelled in Kvql/Model/Order.lean keeps the heap invariant, heap sort returns a sorted
  permutation, and the two drain modes of `FinalOrderPlan` agree.

  Generic in the row type `α` and in the comparison.  `SWO P less`: `less` is a strict weak
  order on the rows satisfying `P`; `LessOK P lessR less`: on those rows the model's
  (possibly panicking) comparison `lessR` returns `less`.
-/
import Kvql.Model.Order
open Kvql.Order

namespace Kvql.Proofs.Order

/-- strict weak order on the elements satisfying `P` -/
structure SWO {α : Type} (P : α → Prop) (less : α → α → Bool) : Prop where
  irrefl : ∀ a, P a → less a a = false
  trans : ∀ a b c, P a → P b → P c → less a b = true → less b c = true → less a c = true
  incomp : ∀ a b c, P a → P b → P c → less a b = false → less b a = false →
    less b c = false → less c b = false → less a c = false ∧ less c a = false

variable {α : Type} {P : α → Prop} {less : α → α → Bool}

theorem SWO.asymm (h : SWO P less) {a b : α} (ha : P a) (hb : P b) (hab : less a b = true) : less b a = false := by
  cases hba : less b a
  · rfl
  · have := h.trans a b a ha hb ha hab hba
    have := h.irrefl a ha
    simp_all

/-- `a ≤ b := ¬ b < a` is transitive -/
theorem SWO.le_trans (h : SWO P less) {a b c : α} (ha : P a) (hb : P b) (hc : P c)
    (hab : less b a = false) (hbc : less c b = false) : less c a = false := by
  cases hca : less c a
  · rfl
  · exfalso
    cases hbc' : less b c
    · -- b ~ c
      cases hab' : less a b
      · -- a ~ b
        have := (h.incomp a b c ha hb hc hab' hab hbc' hbc).2
        simp_all
      · have := h.trans c a b hc ha hb hca hab'
        simp_all
    · have := h.trans b c a hb hc ha hbc' hca
      simp_all

theorem SWO.lt_le_trans (h : SWO P less) {a b c : α} (ha : P a) (hb : P b) (hc : P c)
    (hab : less a b = true) (hbc : less c b = false) : less c a = false :=
  h.le_trans ha hb hc (h.asymm ha hb hab) hbc


variable {lessR : α → α → Res Bool}

/-- the model's comparison never panics on `P` and computes `less` -/
def LessOK (P : α → Prop) (lessR : α → α → Res Bool) (less : α → α → Bool) : Prop :=
  ∀ a b, P a → P b → lessR a b = .ok (less a b)

theorem lessAt_ok (hl : LessOK P lessR less) {h : Array α} (hP : ∀ x ∈ h, P x) {i j : Nat}
    (hi : i < h.size) (hj : j < h.size) : lessAt lessR h i j = .ok (less h[i] h[j]) := by
  simp [lessAt, hi, hj, hl _ _ (hP _ (Array.getElem_mem hi)) (hP _ (Array.getElem_mem hj))]

theorem swapAt_ok {h : Array α} {i j : Nat} (hi : i < h.size) (hj : j < h.size) :
    swapAt h i j = .ok (h.swap i j) := by
  simp [swapAt, hi, hj]

/-- heap property on the prefix of length `n`: no element is less than its parent -/
def HeapInv (less : α → α → Bool) (h : Array α) (n : Nat) : Prop :=
  ∀ k (hk : k < h.size), 0 < k → k < n → less h[k] (h[(k - 1) / 2]'(by omega)) = false

/-- heap property except at `j`, whose children are not less than its parent -/
def UpInv (less : α → α → Bool) (h : Array α) (j : Nat) : Prop :=
  ∀ k (hk : k < h.size), 0 < k →
    (k ≠ j → less h[k] (h[(k - 1) / 2]'(by omega)) = false) ∧
    ((k - 1) / 2 = j → 0 < j → less h[k] (h[((k - 1) / 2 - 1) / 2]'(by omega)) = false)

theorem up_spec (hs : SWO P less) (hl : LessOK P lessR less) :
    ∀ (j : Nat) (h : Array α), (∀ x ∈ h, P x) → j < h.size → UpInv less h j →
      ∃ h', up lessR h j = .ok h' ∧ h'.Perm h ∧ HeapInv less h' h'.size := by
  intro j
  induction j using Nat.strongRecOn with
  | _ j ih =>
    intro h hP hj hinv
    unfold up
    by_cases hij : (j - 1) / 2 = j
    · refine ⟨h, by simp [hij], Array.Perm.refl _, ?_⟩
      intro k hk hk0 _
      exact (hinv k hk hk0).1 (by omega)
    · have hi : (j - 1) / 2 < h.size := by omega
      simp only [hij, ↓reduceIte, lessAt_ok hl hP hj hi]
      cases hlt : less h[j] h[(j - 1) / 2]
      · refine ⟨h, rfl, Array.Perm.refl _, ?_⟩
        intro k hk hk0 _
        by_cases hkj : k = j
        · subst hkj; exact hlt
        · exact (hinv k hk hk0).1 hkj
      · simp only [swapAt_ok hi hj]
        have hperm : (h.swap ((j - 1) / 2) j hi hj).Perm h := Array.swap_perm hi hj
        have hP' : ∀ x ∈ h.swap ((j - 1) / 2) j hi hj, P x := fun x hx => hP x (hperm.mem_iff.mp hx)
        obtain ⟨h', e, p, hv⟩ := ih ((j - 1) / 2) (by omega) (h.swap ((j - 1) / 2) j hi hj) hP' (by simpa using hi) (by
          intro k hk hk0
          have hk' : k < h.size := by simpa using hk
          have Pk := hP _ (Array.getElem_mem hk')
          have Pj := hP _ (Array.getElem_mem hj)
          have Pi := hP _ (Array.getElem_mem hi)
          have hkpar : (k - 1) / 2 < h.size := by omega
          have Pkp := hP _ (Array.getElem_mem hkpar)
          have hipar : ((j - 1) / 2 - 1) / 2 < h.size := by omega
          have Pip := hP _ (Array.getElem_mem hipar)
          have ik := hinv k hk' hk0
          have asym := hs.asymm Pj Pi hlt
          constructor
          · intro hki
            simp only [Array.getElem_swap]
            by_cases hkj : k = j
            · have e0 : ¬ j = (j - 1) / 2 := fun e => hij e.symm
              simp only [hkj, e0, ↓reduceIte]
              exact asym
            · simp only [hki, hkj, ↓reduceIte]
              by_cases hp1 : (k - 1) / 2 = (j - 1) / 2
              · simp only [hp1, ↓reduceIte]
                have := ik.1 hkj
                simp only [hp1] at this
                exact hs.lt_le_trans Pj Pi Pk hlt this
              · simp only [hp1, ↓reduceIte]
                by_cases hp2 : (k - 1) / 2 = j
                · simp only [hp2, ↓reduceIte]
                  have := ik.2 hp2 (by omega)
                  simpa only [hp2] using this
                · simp only [hp2, ↓reduceIte]
                  exact ik.1 hkj
          · intro hp hi0
            simp only [Array.getElem_swap]
            have e1 : ¬ ((k - 1) / 2 - 1) / 2 = (j - 1) / 2 := by omega
            have e2 : ¬ ((k - 1) / 2 - 1) / 2 = j := by omega
            have e3 : ¬ k = (j - 1) / 2 := by omega
            simp only [e1, e2, e3, ↓reduceIte]
            have ii := (hinv ((j - 1) / 2) hi hi0).1 (by omega)
            simp only [hp]
            by_cases hkj : k = j
            · simp only [hkj, ↓reduceIte]
              exact ii
            · simp only [hkj, ↓reduceIte]
              have := ik.1 hkj
              simp only [hp] at this
              exact hs.le_trans Pip Pi Pk ii this)
        exact ⟨h', e, p.trans hperm, hv⟩


/-- heap property on the prefix `n` except below `i`, whose children are not less than its parent -/
def DownInv (less : α → α → Bool) (h : Array α) (n i : Nat) : Prop :=
  ∀ k (hk : k < h.size), 0 < k → k < n →
    ((k - 1) / 2 ≠ i → less h[k] (h[(k - 1) / 2]'(by omega)) = false) ∧
    ((k - 1) / 2 = i → 0 < i → less h[k] (h[((k - 1) / 2 - 1) / 2]'(by omega)) = false)

theorem down_stop (hs : SWO P less) {h : Array α} (hP : ∀ x ∈ h, P x) {n i j : Nat}
    (hinv : DownInv less h n i) (hj : j < h.size) (hj0 : 0 < j) (hpar : (j - 1) / 2 = i)
    (hmin : ∀ c (hc : c < h.size), 0 < c → c < n → (c - 1) / 2 = i → less h[c] h[j] = false)
    (hlt : less h[j] (h[i]'(by omega)) = false) : HeapInv less h n := by
  intro k hk hk0 hkn
  by_cases hp : (k - 1) / 2 = i
  · have hi : i < h.size := by omega
    have := hs.le_trans (hP _ (Array.getElem_mem hi)) (hP _ (Array.getElem_mem hj))
      (hP _ (Array.getElem_mem hk)) hlt (hmin k hk hk0 hkn hp)
    simpa only [hp] using this
  · exact (hinv k hk hk0 hkn).1 hp

theorem down_swap (hs : SWO P less) {h : Array α} (hP : ∀ x ∈ h, P x) {n i j : Nat}
    (hinv : DownInv less h n i) (hj : j < h.size) (hjn : j < n) (hj0 : 0 < j) (hpar : (j - 1) / 2 = i)
    (hmin : ∀ c (hc : c < h.size), 0 < c → c < n → (c - 1) / 2 = i → less h[c] h[j] = false)
    (hlt : less h[j] (h[i]'(by omega)) = true) :
    DownInv less (h.swap i j (by omega) hj) n j := by
  have hi : i < h.size := by omega
  have Pi := hP _ (Array.getElem_mem hi)
  have Pj := hP _ (Array.getElem_mem hj)
  intro k hk hk0 hkn
  have hk' : k < h.size := by simpa using hk
  have Pk := hP _ (Array.getElem_mem hk')
  have ik := hinv k hk' hk0 hkn
  constructor
  · intro hkp
    simp only [Array.getElem_swap]
    by_cases hki : k = i
    · -- the element that came down from j sits at i: compare with the parent of i
      have e1 : ¬ (i - 1) / 2 = i := by omega
      have e2 : ¬ (i - 1) / 2 = j := by omega
      simp only [hki, e1, e2, ↓reduceIte]
      have := (hinv j hj hj0 hjn).2 hpar (by omega)
      simpa only [hpar] using this
    · by_cases hkj : k = j
      · have e1 : ¬ j = i := by omega
        simp only [hkj, e1, hpar, ↓reduceIte]
        exact hs.asymm Pj Pi hlt
      · simp only [hki, hkj, ↓reduceIte]
        by_cases hp : (k - 1) / 2 = i
        · -- the other child of i
          simp only [hp, ↓reduceIte]
          exact hmin k hk' hk0 hkn hp
        · simp only [hp, hkp, ↓reduceIte]
          exact ik.1 hp
  · intro hkp hj0'
    simp only [Array.getElem_swap]
    have e1 : ¬ k = i := by omega
    have e2 : ¬ k = j := by omega
    have e3 : ((k - 1) / 2 - 1) / 2 = i := by omega
    simp only [e1, e2, e3, ↓reduceIte]
    have := ik.1 (by omega)
    simpa only [hkp] using this

theorem down_spec (hs : SWO P less) (hl : LessOK P lessR less) (n : Nat) :
    ∀ (m i : Nat) (h : Array α), n - i = m → (∀ x ∈ h, P x) → n ≤ h.size → DownInv less h n i →
      ∃ h', down lessR h i n = .ok h' ∧ h'.Perm h ∧ HeapInv less h' n ∧
        ∀ k (hk : k < h.size) (hk' : k < h'.size), n ≤ k → h'[k] = h[k] := by
  intro m
  induction m using Nat.strongRecOn with
  | _ m ih =>
    intro i h hm hP hn hinv
    unfold down
    by_cases hj1 : 2 * i + 1 ≥ n
    · refine ⟨h, by simp [hj1], Array.Perm.refl _, ?_, fun _ _ _ _ => rfl⟩
      intro k hk hk0 hkn
      exact (hinv k hk hk0 hkn).1 (by omega)
    · simp only [hj1, ↓reduceIte]
      have h1 : 2 * i + 1 < h.size := by omega
      have hi : i < h.size := by omega
      -- the step shared by the three ways of choosing the smaller child
      have step : ∀ j (hj : j < h.size), j < n → 0 < j → (j - 1) / 2 = i →
          (∀ c (hc : c < h.size), 0 < c → c < n → (c - 1) / 2 = i → less h[c] h[j] = false) →
          ∃ h', (match lessAt lessR h j i with
            | .panic => .panic
            | .ok false => .ok h
            | .ok true =>
              match swapAt h i j with
              | .panic => .panic
              | .ok h' => down lessR h' j n : Res (Array α)) = .ok h' ∧ h'.Perm h ∧ HeapInv less h' n ∧
            ∀ k (hk : k < h.size) (hk' : k < h'.size), n ≤ k → h'[k] = h[k] := by
        intro j hj hjn hj0 hpar hmin
        simp only [lessAt_ok hl hP hj hi]
        cases hlt : less h[j] h[i]
        · exact ⟨h, rfl, Array.Perm.refl _, down_stop hs hP hinv hj hj0 hpar hmin hlt, fun _ _ _ _ => rfl⟩
        · simp only [swapAt_ok hi hj]
          have hperm : (h.swap i j hi hj).Perm h := Array.swap_perm hi hj
          have hP' : ∀ x ∈ h.swap i j hi hj, P x := fun x hx => hP x (hperm.mem_iff.mp hx)
          obtain ⟨h', e, p, hv, hfix⟩ := ih (n - j) (by omega) j (h.swap i j hi hj) rfl hP' (by simpa using hn)
            (down_swap hs hP hinv hj hjn hj0 hpar hmin hlt)
          refine ⟨h', e, p.trans hperm, hv, ?_⟩
          intro k hk hk' hnk
          rw [hfix k (by simpa using hk) hk' hnk, Array.getElem_swap]
          have e1 : ¬ k = i := by omega
          have e2 : ¬ k = j := by omega
          simp only [e1, e2, ↓reduceIte]
      by_cases hj2 : 2 * i + 1 + 1 < n
      · have h2 : 2 * i + 1 + 1 < h.size := by omega
        simp only [hj2, ↓reduceIte, lessAt_ok hl hP h2 h1]
        cases hb : less h[2 * i + 1 + 1] h[2 * i + 1]
        · simp only [Bool.false_eq_true, ↓reduceIte]
          apply step (2 * i + 1) h1 (by omega) (by omega) (by omega)
          intro c hc hc0 hcn hcp
          have : c = 2 * i + 1 ∨ c = 2 * i + 1 + 1 := by omega
          rcases this with rfl | rfl
          · exact hs.irrefl _ (hP _ (Array.getElem_mem h1))
          · exact hb
        · simp only [↓reduceIte]
          apply step (2 * i + 1 + 1) h2 (by omega) (by omega) (by omega)
          intro c hc hc0 hcn hcp
          have : c = 2 * i + 1 ∨ c = 2 * i + 1 + 1 := by omega
          rcases this with rfl | rfl
          · exact hs.asymm (hP _ (Array.getElem_mem h2)) (hP _ (Array.getElem_mem h1)) hb
          · exact hs.irrefl _ (hP _ (Array.getElem_mem h2))
      · simp only [hj2, ↓reduceIte, Bool.false_eq_true]
        apply step (2 * i + 1) h1 (by omega) (by omega) (by omega)
        intro c hc hc0 hcn hcp
        have : c = 2 * i + 1 := by omega
        subst this
        exact hs.irrefl _ (hP _ (Array.getElem_mem h1))


theorem push_spec (hs : SWO P less) (hl : LessOK P lessR less) {h : Array α} {x : α}
    (hP : ∀ y ∈ h, P y) (hx : P x) (hinv : HeapInv less h h.size) :
    ∃ h', push lessR h x = .ok h' ∧ h'.Perm (h.push x) ∧ HeapInv less h' h'.size := by
  unfold push
  have hP' : ∀ y ∈ h.push x, P y := by
    intro y hy
    rcases Array.mem_push.mp hy with hy | rfl
    · exact hP y hy
    · exact hx
  apply up_spec hs hl _ _ hP' (by simp)
  intro k hk hk0
  have hk' : k < h.size + 1 := by simpa using hk
  constructor
  · intro hne
    have hne' : k ≠ h.size := by simpa using hne
    have hk2 : k < h.size := by omega
    have hk3 : (k - 1) / 2 < h.size := by omega
    simp only [Array.getElem_push, hk2, hk3, ↓reduceDIte]
    exact hinv k hk2 hk0 hk2
  · intro hp
    simp at hp
    omega

theorem root_min (hs : SWO P less) {h : Array α} (hP : ∀ y ∈ h, P y) {n : Nat} (_hn : n ≤ h.size)
    (hinv : HeapInv less h n) : ∀ k (hk : k < h.size), k < n → less h[k] (h[0]'(by omega)) = false := by
  intro k
  induction k using Nat.strongRecOn with
  | _ k ih =>
    intro hk hkn
    by_cases hk0 : k = 0
    · subst hk0; exact hs.irrefl _ (hP _ (Array.getElem_mem hk))
    · have hp : (k - 1) / 2 < h.size := by omega
      have h0 : 0 < h.size := by omega
      exact hs.le_trans (hP _ (Array.getElem_mem h0)) (hP _ (Array.getElem_mem hp)) (hP _ (Array.getElem_mem hk))
        (ih ((k - 1) / 2) (by omega) hp (by omega)) (hinv k hk (by omega) hkn)

theorem pop_spec (hs : SWO P less) (hl : LessOK P lessR less) {h : Array α}
    (hP : ∀ y ∈ h, P y) (hpos : 0 < h.size) (hinv : HeapInv less h h.size) :
    ∃ x h', pop lessR h = .ok (x, h') ∧ (h'.push x).Perm h ∧ HeapInv less h' h'.size ∧
      ∀ y ∈ h, less y x = false := by
  unfold pop
  have hne : ¬ h.size = 0 := by omega
  have hlast : h.size - 1 < h.size := by omega
  simp only [hne, ↓reduceIte, swapAt_ok hpos hlast]
  have hperm : (h.swap 0 (h.size - 1) hpos hlast).Perm h := Array.swap_perm hpos hlast
  have hP' : ∀ y ∈ h.swap 0 (h.size - 1) hpos hlast, P y := fun y hy => hP y (hperm.mem_iff.mp hy)
  obtain ⟨h2, e, p, hv, hfix⟩ := down_spec hs hl (h.size - 1) (h.size - 1 - 0) 0 (h.swap 0 (h.size - 1) hpos hlast) rfl hP'
    (by simp) (by
      intro k hk hk0 hkn
      have hk' : k < h.size := by simpa using hk
      constructor
      · intro hp
        simp only [Array.getElem_swap]
        have e1 : ¬ k = 0 := by omega
        have e2 : ¬ k = h.size - 1 := by omega
        have e3 : ¬ (k - 1) / 2 = 0 := hp
        have e4 : ¬ (k - 1) / 2 = h.size - 1 := by omega
        simp only [e1, e2, e3, e4, ↓reduceIte]
        exact hinv k hk' hk0 hk'
      · intro _ h00; omega)
  simp only [e]
  have hsz : h2.size = h.size := by simpa using p.size_eq
  have hlast2 : h2.size - 1 < h2.size := by omega
  have hback : h2.back? = some h[0] := by
    rw [Array.back?_eq_getElem?, Array.getElem?_eq_getElem hlast2]
    have := hfix (h.size - 1) (by simpa using hlast) (by omega) (Nat.le_refl _)
    simp only [hsz]
    rw [this, Array.getElem_swap]
    by_cases h1 : h.size - 1 = 0
    · simp [h1]
    · simp [h1]
  simp only [hback]
  refine ⟨h[0], h2.pop, rfl, ?_, ?_, ?_⟩
  · have : h2.pop.push h[0] = h2 := by
      have hb : h2.back? = some h[0] := hback
      apply Array.ext
      · simp; omega
      · intro i hi1 hi2
        simp only [Array.getElem_push, Array.size_pop]
        by_cases hi : i < h2.size - 1
        · simp [hi]
        · have : i = h2.size - 1 := by simp at hi1; omega
          subst this
          rw [Array.back?_eq_getElem?, Array.getElem?_eq_getElem hlast2] at hb
          simp at hb
          simp [hb]
    rw [this]
    exact p.trans hperm
  · intro k hk hk0 _
    have hk' : k < h2.size - 1 := by simpa using hk
    simp only [Array.getElem_pop]
    exact hv k (by omega) hk0 (by omega)
  · intro y hy
    obtain ⟨k, hk, rfl⟩ := Array.mem_iff_getElem.mp hy
    exact root_min hs hP (Nat.le_refl _) hinv k hk hk


/-! ### sorting: push everything, pop everything -/

/-- `heap.Pop` k times: the popped elements in order and the remaining heap -/
def popN (lessR : α → α → Res Bool) : Nat → Array α → Res (List α × Array α)
  | 0, h => .ok ([], h)
  | k + 1, h =>
    match pop lessR h with
    | .panic => .panic
    | .ok (x, h') =>
      match popN lessR k h' with
      | .panic => .panic
      | .ok (xs, h'') => .ok (x :: xs, h'')

theorem pushAll_spec (hs : SWO P less) (hl : LessOK P lessR less) :
    ∀ (rows : List α) (st : St α), (∀ y ∈ st.sorted, P y) → (∀ y ∈ rows, P y) →
      HeapInv less st.sorted st.sorted.size →
      ∃ st', pushAll lessR st rows = .ok st' ∧ st'.pos = st.pos ∧ st'.total = st.total + rows.length ∧
        st'.sorted.toList.Perm (st.sorted.toList ++ rows) ∧ HeapInv less st'.sorted st'.sorted.size := by
  intro rows
  induction rows with
  | nil => intro st _ _ hinv; exact ⟨st, rfl, rfl, rfl, by simp, hinv⟩
  | cons r rows ih =>
    intro st hP hR hinv
    obtain ⟨h', e, p, hv⟩ := push_spec hs hl hP (hR r (by simp)) hinv
    have hP' : ∀ y ∈ h', P y := by
      intro y hy
      rcases Array.mem_push.mp (p.mem_iff.mp hy) with hy | rfl
      · exact hP y hy
      · exact hR _ (by simp)
    obtain ⟨st', e', hpos, htot, p', hv'⟩ := ih { st with sorted := h', total := st.total + 1 } hP'
      (fun y hy => hR y (by simp [hy])) hv
    refine ⟨st', by simp only [pushAll, e, e'], hpos, by simp at htot; simp; omega, ?_, hv'⟩
    refine p'.trans ?_
    have : h'.toList.Perm (st.sorted.toList ++ [r]) := by simpa using p.toList
    simpa using (this.append_right rows)

theorem popN_spec (hs : SWO P less) (hl : LessOK P lessR less) :
    ∀ (k : Nat) (h : Array α), (∀ y ∈ h, P y) → k ≤ h.size → HeapInv less h h.size →
      ∃ out h', popN lessR k h = .ok (out, h') ∧ out.length = k ∧ (out ++ h'.toList).Perm h.toList ∧
        HeapInv less h' h'.size ∧ out.Pairwise (fun a b => less b a = false) ∧
        ∀ a ∈ out, ∀ b ∈ h', less b a = false := by
  intro k
  induction k with
  | zero => intro h _ _ hinv; exact ⟨[], h, rfl, rfl, by simp, hinv, by simp, by simp⟩
  | succ k ih =>
    intro h hP hk hinv
    obtain ⟨x, h1, e, p, hv, hmin⟩ := pop_spec hs hl hP (by omega) hinv
    have hsz : h1.size + 1 = h.size := by simpa using p.size_eq
    have hsub : ∀ y ∈ h1, y ∈ h := fun y hy => p.mem_iff.mp (Array.mem_push.mpr (Or.inl hy))
    obtain ⟨out, h', e', hlen, p', hv', hpw, hle⟩ := ih h1 (fun y hy => hP y (hsub y hy)) (by omega) hv
    refine ⟨x :: out, h', by simp only [popN, e, e'], by simp [hlen], ?_, hv', ?_, ?_⟩
    · have h1p : (x :: h1.toList).Perm h.toList := by
        have := p.toList
        simp only [Array.toList_push] at this
        exact (List.perm_append_singleton x h1.toList).symm.trans this
      exact (List.Perm.cons x p').trans h1p
    · refine List.pairwise_cons.mpr ⟨?_, hpw⟩
      intro b hb
      have : b ∈ h1.toList := p'.mem_iff.mp (List.mem_append_left _ hb)
      exact hmin b (hsub b (by simpa using this))
    · intro a ha b hb
      rcases List.mem_cons.mp ha with rfl | ha
      · have : b ∈ h1.toList := p'.mem_iff.mp (List.mem_append_right _ (by simpa using hb))
        exact hmin b (hsub b (by simpa using this))
      · exact hle a ha b hb

/-- (b) pushing all rows and popping as many yields a sorted permutation -/
theorem heap_sort (hs : SWO P less) (hl : LessOK P lessR less) (rows : List α) (hR : ∀ y ∈ rows, P y) :
    ∃ st out, pushAll lessR {} rows = .ok st ∧ st.total = rows.length ∧ st.pos = 0 ∧
      popN lessR st.total st.sorted = .ok (out, #[]) ∧ out.Perm rows ∧
      out.Pairwise (fun a b => less b a = false) := by
  obtain ⟨st, e, hpos, htot, p, hv⟩ := pushAll_spec hs hl rows ({} : St α) (by simp) hR
    (by intro k hk; simp at hk)
  have htot' : st.total = rows.length := by simpa using htot
  have hsz : st.sorted.size = rows.length := by
    have := p.length_eq; simpa using this
  have hP : ∀ y ∈ st.sorted, P y := by
    intro y hy
    have : y ∈ st.sorted.toList := by simpa using hy
    have := p.mem_iff.mp this
    simp at this
    exact hR y this
  obtain ⟨out, h', e', hlen, p', _, hpw, _⟩ := popN_spec hs hl st.total st.sorted hP (by omega) hv
  have hsz' : h'.size = 0 := by
    have := p'.length_eq
    simp at this
    omega
  have hemp : h' = #[] := Array.eq_empty_of_size_eq_zero hsz'
  subst hemp
  refine ⟨st, out, e, htot', hpos, e', ?_, hpw⟩
  have : out.Perm st.sorted.toList := by simpa using p'
  exact this.trans (by simpa using p)


/-! ### the plan: `Next` and `Batch` both pop the prepared heap -/

theorem popN_add (a b : Nat) (h : Array α) :
    popN lessR (a + b) h =
      match popN lessR a h with
      | .panic => .panic
      | .ok (xs, h1) =>
        match popN lessR b h1 with
        | .panic => .panic
        | .ok (ys, h2) => .ok (xs ++ ys, h2) := by
  induction a generalizing h with
  | zero =>
    simp only [Nat.zero_add, popN]
    cases popN lessR b h with
    | panic => rfl
    | ok r => rfl
  | succ a ih =>
    rw [show a + 1 + b = (a + b) + 1 by omega]
    simp only [popN]
    cases pop lessR h with
    | panic => rfl
    | ok r =>
      obtain ⟨x, h'⟩ := r
      simp only [ih]
      cases popN lessR a h' with
      | panic => rfl
      | ok r1 =>
        obtain ⟨xs, h1⟩ := r1
        simp only
        cases popN lessR b h1 with
        | panic => rfl
        | ok r2 => rfl

theorem popN_length : ∀ (k : Nat) (h : Array α) (xs : List α) (h' : Array α),
    popN lessR k h = .ok (xs, h') → xs.length = k := by
  intro k
  induction k with
  | zero => intro h xs h' e; simp [popN] at e; simp [e.1.symm]
  | succ k ih =>
    intro h xs h' e
    simp only [popN] at e
    cases hp : pop lessR h with
    | panic => simp [hp] at e
    | ok r =>
      obtain ⟨x, h1⟩ := r
      simp only [hp] at e
      cases hq : popN lessR k h1 with
      | panic => simp [hq] at e
      | ok r1 =>
        obtain ⟨ys, h2⟩ := r1
        simp only [hq, Res.ok.injEq, Prod.mk.injEq] at e
        have := ih h1 ys h2 hq
        simp [← e.1, this]

/-- what is left to return: pop `total - pos` times -/
def rest (lessR : α → α → Res Bool) (st : St α) : Res (List α) :=
  (popN lessR (st.total - st.pos) st.sorted).map (·.1)

theorem pushAll_counts : ∀ (rows : List α) (st st' : St α), pushAll lessR st rows = .ok st' →
    st'.pos = st.pos ∧ st'.total = st.total + rows.length := by
  intro rows
  induction rows with
  | nil => intro st st' e; simp [pushAll] at e; simp [e]
  | cons r rows ih =>
    intro st st' e
    simp only [pushAll] at e
    cases hp : push lessR st.sorted r with
    | panic => simp [hp] at e
    | ok h =>
      simp only [hp] at e
      have := ih _ _ e
      simp at this
      simp; omega

theorem pushAll_append (a b : List α) (st : St α) :
    pushAll lessR st (a ++ b) =
      match pushAll lessR st a with
      | .panic => .panic
      | .ok st1 => pushAll lessR st1 b := by
  induction a generalizing st with
  | nil => simp [pushAll]
  | cons r a ih =>
    simp only [List.cons_append, pushAll]
    cases push lessR st.sorted r with
    | panic => rfl
    | ok h => simp only [ih]

/-- `Next` after the heap was filled -/
theorem drainNext_prepared : ∀ (fuel : Nat) (st : St α) (child : List α),
    st.total ≠ 0 → st.pos ≤ st.total → st.total - st.pos < fuel →
    drainNext lessR fuel st child = rest lessR st := by
  intro fuel
  induction fuel with
  | zero => intro st child _ _ h; omega
  | succ fuel ih =>
    intro st child ht hp hf
    have ht' : (st.total == 0) = false := by simp [ht]
    simp only [drainNext, next, ht', Bool.false_eq_true, ↓reduceIte]
    by_cases hlt : st.pos < st.total
    · simp only [hlt, ↓reduceIte, rest]
      rw [show st.total - st.pos = (st.total - (st.pos + 1)) + 1 by omega]
      simp only [popN]
      cases hpop : pop lessR st.sorted with
      | panic => rfl
      | ok r =>
        obtain ⟨row, h⟩ := r
        simp only
        have := ih { st with sorted := h, pos := st.pos + 1 } child ht (by simp; omega) (by simp; omega)
        simp only [this, rest]
        cases popN lessR (st.total - (st.pos + 1)) h with
        | panic => rfl
        | ok r1 => rfl
    · simp only [hlt, ↓reduceIte, rest]
      rw [show st.total - st.pos = 0 by omega]
      rfl

/-- `Next` from the initial state: fill the heap with the child's rows, then pop them all -/
theorem drainNext_init (fuel : Nat) (rows : List α) (hf : rows.length < fuel) :
    drainNext lessR fuel {} rows =
      match pushAll lessR {} rows with
      | .panic => .panic
      | .ok st => rest lessR st := by
  cases fuel with
  | zero => omega
  | succ fuel =>
    simp only [drainNext, next, prepare, BEq.rfl, ↓reduceIte]
    cases hpa : pushAll lessR {} rows with
    | panic => rfl
    | ok st =>
      have hc := pushAll_counts rows _ _ hpa
      simp only at hc
      simp only [Nat.zero_add] at hc
      simp only
      by_cases hlt : st.pos < st.total
      · simp only [hlt, ↓reduceIte, rest]
        rw [show st.total - st.pos = (st.total - (st.pos + 1)) + 1 by omega]
        simp only [popN]
        cases hpop : pop lessR st.sorted with
        | panic => rfl
        | ok r =>
          obtain ⟨row, h⟩ := r
          simp only
          have := drainNext_prepared (lessR := lessR) fuel { st with sorted := h, pos := st.pos + 1 } []
            (by simp; omega) (by simp; omega) (by simp; omega)
          simp only [this, rest]
          cases popN lessR (st.total - (st.pos + 1)) h with
          | panic => rfl
          | ok r1 => rfl
      · simp only [hlt, ↓reduceIte, rest]
        rw [show st.total - st.pos = 0 by omega]
        rfl


theorem batchLoop_spec (bs : Nat) : ∀ (fuel : Nat) (st : St α) (count : Nat) (acc : List α),
    count < bs → st.pos ≤ st.total → st.total - st.pos ≤ fuel →
    batchLoop lessR bs fuel st count acc =
      match popN lessR (min (bs - count) (st.total - st.pos)) st.sorted with
      | .panic => .panic
      | .ok (xs, h') =>
        .ok (acc ++ xs, { st with sorted := h', pos := st.pos + min (bs - count) (st.total - st.pos) }) := by
  intro fuel
  induction fuel with
  | zero =>
    intro st count acc _ _ hf
    rw [show st.total - st.pos = 0 by omega]
    simp [batchLoop, popN]
  | succ fuel ih =>
    intro st count acc hc hp hf
    simp only [batchLoop]
    by_cases hlt : st.pos < st.total
    · simp only [hlt, ↓reduceIte]
      have hm : min (bs - count) (st.total - st.pos) = (min (bs - count) (st.total - st.pos) - 1) + 1 := by omega
      rw [hm]
      simp only [popN]
      cases hpop : pop lessR st.sorted with
      | panic => rfl
      | ok r =>
        obtain ⟨row, h⟩ := r
        simp only
        by_cases hge : count + 1 ≥ bs
        · simp only [hge, ↓reduceIte]
          rw [show min (bs - count) (st.total - st.pos) - 1 = 0 by omega]
          simp [popN]
        · simp only [hge, ↓reduceIte]
          rw [ih _ _ _ (by omega) (by simp; omega) (by simp; omega)]
          simp only
          rw [show min (bs - (count + 1)) (st.total - (st.pos + 1)) = min (bs - count) (st.total - st.pos) - 1 by omega]
          cases popN lessR (min (bs - count) (st.total - st.pos) - 1) h with
          | panic => rfl
          | ok r1 =>
            obtain ⟨xs, h'⟩ := r1
            simp only [List.append_assoc, List.singleton_append, Res.ok.injEq, Prod.mk.injEq, true_and]
            congr 1
            omega
    · simp only [hlt, ↓reduceIte]
      rw [show st.total - st.pos = 0 by omega]
      simp [popN]

/-- one unfolding of the drain loop after the heap was filled, given the claim for the tail -/
theorem drain_after (bs : Nat) (hbs : 1 ≤ bs) (fuel : Nat) (st : St α) (child : List (List α))
    (hp : st.pos ≤ st.total) (hf : st.total - st.pos < fuel + 1)
    (IH : ∀ (st' : St α) (c' : List (List α)), st'.total ≠ 0 → st'.pos ≤ st'.total → st'.total - st'.pos < fuel →
      (drainBatch lessR bs fuel st' c').map List.flatten = rest lessR st')
    (st0 : St α) (child0 : List (List α)) (hb : batch lessR bs st0 child0 = batchBody lessR bs st child) :
    (drainBatch lessR bs (fuel + 1) st0 child0).map List.flatten = rest lessR st := by
  simp only [drainBatch, hb]
  simp only [batchBody, batchLoop_spec (lessR := lessR) bs _ st 0 [] (by omega) hp (Nat.le_refl _), Nat.sub_zero,
    List.nil_append]
  by_cases hz : st.total - st.pos = 0
  · simp [rest, hz, popN, Res.map]
  · have hsplit : st.total - st.pos = min bs (st.total - st.pos) + (st.total - st.pos - min bs (st.total - st.pos)) := by omega
    have hmpos : 0 < min bs (st.total - st.pos) := by omega
    simp only [rest]
    conv => rhs; rw [hsplit, popN_add]
    cases hq : popN lessR (min bs (st.total - st.pos)) st.sorted with
    | panic => rfl
    | ok r =>
      obtain ⟨xs, h'⟩ := r
      have hlen := popN_length _ _ _ _ hq
      cases xs with
      | nil => simp at hlen; omega
      | cons x xs =>
        simp only
        have := IH { st with sorted := h', pos := st.pos + min bs (st.total - st.pos) } child
          (by simp; omega) (by simp; omega) (by simp; omega)
        simp only [rest] at this
        rw [show st.total - (st.pos + min bs (st.total - st.pos)) = st.total - st.pos - min bs (st.total - st.pos) by omega] at this
        cases hd : drainBatch lessR bs fuel { st with sorted := h', pos := st.pos + min bs (st.total - st.pos) } child with
        | panic =>
          simp only [hd, Res.map] at this
          cases hr : popN lessR (st.total - st.pos - min bs (st.total - st.pos)) h' with
          | panic => rfl
          | ok r2 => simp [hr] at this
        | ok bss =>
          simp only [hd, Res.map] at this
          cases hr : popN lessR (st.total - st.pos - min bs (st.total - st.pos)) h' with
          | panic => simp [hr] at this
          | ok r2 =>
            simp only [hr, Res.ok.injEq] at this
            simp [Res.map, this]

theorem drainBatch_prepared (bs : Nat) (hbs : 1 ≤ bs) : ∀ (fuel : Nat) (st : St α) (child : List (List α)),
    st.total ≠ 0 → st.pos ≤ st.total → st.total - st.pos < fuel →
    (drainBatch lessR bs fuel st child).map List.flatten = rest lessR st := by
  intro fuel
  induction fuel with
  | zero => intro st child _ _ h; omega
  | succ fuel ih =>
    intro st child ht hp hf
    have ht' : (st.total == 0) = false := by simp [ht]
    exact drain_after (lessR := lessR) bs hbs fuel st child hp hf ih st child
      (by simp only [batch, ht', Bool.false_eq_true, ↓reduceIte, batchBody])

theorem prepareBatch_eq : ∀ (chunks : List (List α)) (st : St α), (∀ c ∈ chunks, c ≠ []) →
    prepareBatch lessR st chunks =
      match pushAll lessR st chunks.flatten with
      | .panic => .panic
      | .ok st' => .ok (st', []) := by
  intro chunks
  induction chunks with
  | nil => intro st _; simp [prepareBatch, pushAll]
  | cons c chunks ih =>
    intro st hne
    have hc : c.isEmpty = false := by
      have := hne c (by simp)
      cases c <;> simp_all
    simp only [prepareBatch, hc, Bool.false_eq_true, ↓reduceIte, List.flatten_cons, pushAll_append]
    cases pushAll lessR st c with
    | panic => rfl
    | ok st1 => exact ih st1 (fun c' hc' => hne c' (by simp [hc']))

theorem drainBatch_init (bs : Nat) (hbs : 1 ≤ bs) (fuel : Nat) (chunks : List (List α))
    (hne : ∀ c ∈ chunks, c ≠ []) (hf : chunks.flatten.length < fuel) :
    (drainBatch lessR bs fuel {} chunks).map List.flatten =
      match pushAll lessR {} chunks.flatten with
      | .panic => .panic
      | .ok st => rest lessR st := by
  cases fuel with
  | zero => omega
  | succ fuel =>
    cases hpa : pushAll lessR {} chunks.flatten with
    | panic =>
      simp [drainBatch, batch, prepareBatch_eq chunks _ hne, hpa, Res.map]
    | ok st =>
      have hc := pushAll_counts _ _ _ hpa
      simp only [Nat.zero_add] at hc
      exact drain_after (lessR := lessR) bs hbs fuel st [] (by omega) (by omega)
        (fun st' c' => drainBatch_prepared bs hbs fuel st' c') {} chunks
        (by simp [batch, prepareBatch_eq chunks _ hne, hpa, batchBody])

/-- (c) draining by `Next` and by `Batch` give the same sequence (or both panic) -/
theorem next_eq_batch (bs : Nat) (hbs : 1 ≤ bs) (chunks : List (List α)) (hne : ∀ c ∈ chunks, c ≠ [])
    (fuel fuel' : Nat) (hf : chunks.flatten.length < fuel) (hf' : chunks.flatten.length < fuel') :
    (drainBatch lessR bs fuel {} chunks).map List.flatten = drainNext lessR fuel' {} chunks.flatten := by
  rw [drainBatch_init bs hbs fuel chunks hne hf, drainNext_init fuel' _ hf']

/-- under a strict weak order that the model's comparison computes, the plan returns a sorted
    permutation of the child's rows (row mode) -/
theorem plan_sorted_next (hs : SWO P less) (hl : LessOK P lessR less) (rows : List α)
    (hR : ∀ y ∈ rows, P y) (fuel : Nat) (hf : rows.length < fuel) :
    ∃ out, drainNext lessR fuel {} rows = .ok out ∧ out.Perm rows ∧
      out.Pairwise (fun a b => less b a = false) := by
  obtain ⟨st, out, e, htot, hpos, e', p, hpw⟩ := heap_sort hs hl rows hR
  refine ⟨out, ?_, p, hpw⟩
  rw [drainNext_init fuel rows hf, e]
  simp only [rest, hpos, Nat.sub_zero, e', Res.map]

/-- the same in batch mode: the concatenated batches -/
theorem plan_sorted_batch (hs : SWO P less) (hl : LessOK P lessR less) (bs : Nat) (hbs : 1 ≤ bs)
    (chunks : List (List α)) (hne : ∀ c ∈ chunks, c ≠ []) (hR : ∀ y ∈ chunks.flatten, P y)
    (fuel : Nat) (hf : chunks.flatten.length < fuel) :
    ∃ out, (drainBatch lessR bs fuel {} chunks).map List.flatten = .ok out ∧ out.Perm chunks.flatten ∧
      out.Pairwise (fun a b => less b a = false) := by
  obtain ⟨out, e, p, hpw⟩ := plan_sorted_next hs hl chunks.flatten hR fuel hf
  exact ⟨out, by rw [next_eq_batch bs hbs chunks hne fuel fuel hf hf, e], p, hpw⟩

end Kvql.Proofs.Order
