/-
  End-to-end proofs for SELECT statements WITH A FIELD LIST, part 6: batch mode, relative to the success
  of the projection.

  In batch mode the storage side (`Plans`: the scan's `Batch` over the storage machine) and the
  evaluation side (`Project.drainBatchFuel`) are laid over each other by `zipProj`; that they hand out
  the same number of rows at every poll is checked by the model (and proved in RunFieldsLock*.lean under
  `BatchEvalOK`).  Here, without any hypothesis on the evaluators: whenever the projection trace ends
  without failure it ends WELL (`projTrace_good_of_ok`: every poll hands out at least one row), so ORDER BY
  (C07) and LIMIT (C08) over it are covered by `orderTrace_good` / `Good.limit` in either mode.
-/
import Kvql.Proofs.RunFieldsSpec

namespace Kvql.Proofs.RunFields
open Kvql Kvql.Run Kvql.Plans Kvql.Storage Kvql.Cache Kvql.Project Kvql.Proofs.Scan Kvql.Proofs.Typing
open Kvql.Proofs.RunTables Kvql.Proofs.RunScan Kvql.Proofs.RunLimit Kvql.Proofs.RunFold
open Kvql.PlanCheck (planStage finalPlanCheck)

/-- every poll `zipProj` records hands out at least one row -/
theorem zipProj_nonempty (polls : List (List SPair × Storage.World)) (fin : Option Fail × Storage.World)
    (rss : List (List Project.Row)) (err : Option Project.PErr) (w0 : Storage.World)
    (acc : List (List (List Value) × Storage.World))
    (hp : ∀ p ∈ polls, p.1 ≠ []) (hacc : ∀ q ∈ acc, q.1 ≠ []) :
    ∀ q ∈ (zipProj polls fin rss err w0 acc).polls, q.1 ≠ [] := by
  fun_induction zipProj polls fin rss err w0 acc <;> try (exact hacc)
  rename_i pairs w ps fin rows rs err w0 acc hlen ih
  refine ih (fun p hp' => hp p (List.mem_cons_of_mem _ hp')) ?_
  intro q hq
  rcases List.mem_append.mp hq with h | h
  · exact hacc q h
  · simp only [List.mem_singleton] at h
    subst h
    have h0 := hp (pairs, w) List.mem_cons_self
    have hl : rows.length = pairs.length := by simpa using hlen
    intro e
    have e' : rows = [] := e
    rw [e'] at hl
    exact h0 (List.length_eq_zero_iff.mp hl.symm)

/-- the projection trace hands out at least one row at every poll (either mode, `select *` or fields) -/
theorem projTrace_nonempty (s : SelectS) (f : FoldedSelect) (store : Store) (kind : PollKind) (bs : Nat) (cache : Bool) :
    ∀ q ∈ (projTrace s f store kind bs cache).polls, q.1 ≠ [] := by
  have hmap : ∀ (st : Trace SPair), (∀ p ∈ st.polls, p.1 ≠ []) → ∀ q ∈ (st.map pairRow).polls, q.1 ≠ [] := by
    intro st hst q hq
    simp only [Trace.map, List.mem_map] at hq
    obtain ⟨p, hp, rfl⟩ := hq
    simp only
    intro e
    exact hst p hp (List.map_eq_nil_iff.mp e)
  unfold projTrace
  cases kind with
  | next =>
    simp only
    split
    · exact hmap _ (scanTrace_nonempty _ _ _ _ _)
    · exact zipProj_nonempty _ _ _ _ _ _ (scanTrace_nonempty _ _ _ _ _) (by simp)
  | batch =>
    simp only
    split
    · exact hmap _ (scanTrace_nonempty _ _ _ _ _)
    · exact zipProj_nonempty _ _ _ _ _ _ (scanTrace_nonempty _ _ _ _ _) (by simp)

/-- a projection trace that ends without failure ends well -/
theorem projTrace_good_of_ok {s : SelectS} {f : FoldedSelect} {store : Store} {kind : PollKind} {bs : Nat} {cache : Bool}
    (h : (projTrace s f store kind bs cache).fin.1 = none) :
    Good (projTrace s f store kind bs cache) (allRows (projTrace s f store kind bs cache))
      (projTrace s f store kind bs cache).fin.2.store :=
  ⟨h, rfl, projTrace_nonempty s f store kind bs cache, rfl⟩

end Kvql.Proofs.RunFields
