/-
  RunNoPanic, part 15d: what `runAggrSelect` does with the rows `prepare` built — `aggrInner`, the pushed LIMIT,
  `traceValues`, ORDER BY, LIMIT (`aggrTail`, a copy of that part of `runAggrSelect`).
-/
import Kvql.Proofs.RunNoPanicAggrC

namespace Kvql.Proofs.RunNoPanic.AggrNP

open Kvql Kvql.Run Kvql.Plans Kvql.Storage Kvql.Aggr
open Kvql.Proofs.RunNoPanic.LockBatch (mapM_option_mem mapM_option_length)

/-! ### `aggrInner` -/

theorem aggrInner_good (fs : List Aggr.Field) (hf : ∀ f ∈ fs, FieldOK f) (rows : List Aggr.Row)
    (hr : ∀ r ∈ rows, RowOK fs r) (kind : PollKind) (bs : Nat) (w : Storage.World) :
    (∀ fl, (aggrInner rows kind bs w).fin.1 = some fl → isExec fl) ∧
    (∀ p ∈ (aggrInner rows kind bs w).polls, ∀ r ∈ p.1, r.length = fs.length) := by
  unfold aggrInner
  cases kind with
  | next =>
    obtain ⟨d1, d2⟩ := drainNext_good fs hf rows hr
    rcases hd : drainNext rows with ⟨outs, err⟩
    rw [hd] at d1 d2
    simp only
    constructor
    · intro fl h
      cases err with
      | none => cases h
      | some e => cases h; exact aggrFail_good (d1 e rfl)
    · intro p hp r hr'
      obtain ⟨o, ho, rfl⟩ := List.mem_map.mp hp
      simp only [List.mem_singleton] at hr'
      subst hr'
      exact d2 _ ho
  | batch =>
    obtain ⟨d1, d2⟩ := drainBatch_good fs hf bs (rows.length + 1) rows hr
    rcases hd : drainBatch bs (rows.length + 1) rows with ⟨bss, err⟩
    rw [hd] at d1 d2
    simp only
    constructor
    · intro fl h
      cases err with
      | none => cases h
      | some e => cases h; exact aggrFail_good (d1 e rfl)
    · intro p hp r hr'
      obtain ⟨b, hb, rfl⟩ := List.mem_map.mp hp
      exact d2 b hb r hr'

/-! ### `traceValues` -/

theorem traceValues_some {t : Trace (List AVal)} {t' : Trace (List Value)} (h : traceValues t = some t') :
    t'.fin = t.fin ∧ ∀ p' ∈ t'.polls, ∀ r' ∈ p'.1, ∃ p ∈ t.polls, ∃ r ∈ p.1, r'.length = r.length := by
  unfold traceValues at h
  simp only [Option.bind_eq_bind, Option.bind_eq_some_iff] at h
  obtain ⟨polls, hp, h⟩ := h
  simp only [Option.pure_def, Option.some.injEq] at h
  subst h
  refine ⟨rfl, ?_⟩
  intro p' hp' r' hr'
  obtain ⟨p, hpm, hpe⟩ := mapM_option_mem hp p' hp'
  simp only [Option.bind_eq_some_iff] at hpe
  obtain ⟨rows, hrows', hpe⟩ := hpe
  simp only [Option.pure_def, Option.some.injEq] at hpe
  subst hpe
  obtain ⟨r, hrm, hre⟩ := mapM_option_mem hrows' r' hr'
  exact ⟨p, hpm, r, hrm, mapM_option_length hre⟩

/-! ### ORDER BY and LIMIT over the AggregatePlan -/

/-- the part of `runAggrSelect` above the AggregatePlan -/
def aggrFinal (s : SelectS) (store : Store) (kind : PollKind) (bs : Nat) (ta : Trace (List Value)) : Run.Outcome :=
  match s.order with
  | none => ta.outcome
  | some o =>
    match orderKeys s.fieldNames s.fieldTypes o with
    | none => rejected (.glue "order field not in the select list") store
    | some keys =>
      let t1 := orderTrace keys kind bs ta
      match s.limit with
      | none => t1.outcome
      | some l => (limitTrace (limitNat l).1 (limitNat l).2 kind bs t1).outcome

theorem aggrFinal_safe (s : SelectS) (store : Store) (kind : PollKind) (bs : Nat) (ta : Trace (List Value)) (n : Nat)
    (hfin : ∀ fl, ta.fin.1 = some fl → isExec fl)
    (hrows : s.order.isSome = true → ∀ p ∈ ta.polls, ∀ r ∈ p.1, r.length = n)
    (horder : ∀ o, s.order = some o →
      ∃ keys, orderKeys s.fieldNames s.fieldTypes o = some keys ∧ ∀ k ∈ keys, k.pos < n)
    (fl : Run.Fail) (h : (aggrFinal s store kind bs ta).fail = some fl) : isExec fl := by
  unfold aggrFinal at h
  cases ho : s.order with
  | none =>
    rw [ho] at h
    exact hfin fl h
  | some o =>
    rw [ho] at h
    simp only at h
    obtain ⟨keys, hk, hpos⟩ := horder o ho
    rw [hk] at h
    simp only at h
    have h1 := orderTrace_fin keys kind bs ta n hpos (hrows (by simp [ho]))
    split at h
    · simp only [Trace.outcome] at h
      rw [h1] at h
      exact hfin fl h
    · rename_i l _
      simp only [Trace.outcome] at h
      rcases limitTrace_fin (limitNat l).1 (limitNat l).2 kind bs (orderTrace keys kind bs ta) with h2 | h2
      · rw [h2] at h; cases h
      · rw [h2, h1] at h
        exact hfin fl h

/-- the part of `runAggrSelect` after `prepare` -/
def aggrTail (s : SelectS) (store : Store) (kind : PollKind) (bs : Nat) (w0 wf : Storage.World)
    (prep : Except Fail (List Aggr.Row)) : Run.Outcome :=
  let pushed := s.limit.isSome && s.order.isNone
  let ta? : Except Fail (Trace (List Value)) :=
    match prep with
    | .error fl => .ok { w0 := w0, polls := [], fin := (some fl, wf) }
    | .ok rows =>
      let inner := aggrInner rows kind bs wf
      let inner := match s.limit, pushed with
        | some l, true => limitTrace (limitNat l).1 (limitNat l).2 kind bs inner
        | _, _ => inner
      match traceValues inner with
      | none => .error (.unsupported "aggregate column of list kind")
      | some t => .ok { t with w0 := w0 }
  match ta? with
  | .error fl => rejected fl store
  | .ok ta => aggrFinal s store kind bs ta

theorem aggrTail_safe (s : SelectS) (store : Store) (kind : PollKind) (bs : Nat) (w0 wf : Storage.World)
    (prep : Except Fail (List Aggr.Row)) (fs : List Aggr.Field) (hf : ∀ f ∈ fs, FieldOK f)
    (hprep1 : ∀ fl, prep = .error fl → isExec fl)
    (hprep2 : ∀ rows, prep = .ok rows → ∀ r ∈ rows, RowOK fs r)
    (horder : ∀ o, s.order = some o →
      ∃ keys, orderKeys s.fieldNames s.fieldTypes o = some keys ∧ ∀ k ∈ keys, k.pos < fs.length)
    (fl : Run.Fail) (h : (aggrTail s store kind bs w0 wf prep).fail = some fl) :
    isExec fl ∨ fl = .unsupported "aggregate column of list kind" := by
  unfold aggrTail at h
  simp only at h
  cases prep with
  | error fl0 =>
    simp only at h
    left
    refine aggrFinal_safe s store kind bs _ fs.length ?_ ?_ horder fl h
    · intro fl' h'
      simp only [Option.some.injEq] at h'
      subst h'
      exact hprep1 _ rfl
    · intro _ p hp
      cases hp
  | ok rows =>
    simp only at h
    obtain ⟨i1, i2⟩ := aggrInner_good fs hf rows (hprep2 rows rfl) kind bs wf
    split at h
    · -- `traceValues` gave up: unsupported
      rename_i fl' heq
      split at heq
      · cases heq
        simp only [rejected, Option.some.injEq] at h
        exact .inr h.symm
      · cases heq
    · rename_i ta heq
      split at heq
      · cases heq
      · rename_i t ht
        cases heq
        left
        obtain ⟨e1, e2⟩ := traceValues_some ht
        cases ho : s.order with
        | none =>
          -- no ORDER BY: only the end of the trace matters
          refine aggrFinal_safe s store kind bs _ fs.length ?_ (by simp [ho]) horder fl h
          intro fl' h'
          simp only at h'
          rw [e1] at h'
          split at h'
          · rename_i l _ _
            rcases limitTrace_fin (limitNat l).1 (limitNat l).2 kind bs (aggrInner rows kind bs wf) with h2 | h2
            · rw [h2] at h'; cases h'
            · rw [h2] at h'; exact i1 fl' h'
          · exact i1 fl' h'
        | some o =>
          -- ORDER BY: the LIMIT is not pushed into the AggregatePlan
          have hin : (match s.limit, s.limit.isSome && s.order.isNone with
              | some l, true => limitTrace (limitNat l).1 (limitNat l).2 kind bs (aggrInner rows kind bs wf)
              | _, _ => aggrInner rows kind bs wf) = aggrInner rows kind bs wf := by
            rw [ho]
            cases s.limit <;> rfl
          rw [hin] at e1 e2
          refine aggrFinal_safe s store kind bs _ fs.length ?_ ?_ horder fl h
          · intro fl' h'
            simp only at h'
            rw [e1] at h'
            exact i1 fl' h'
          · intro _ p' hp' r' hr'
            obtain ⟨p, hp, r, hr, hl⟩ := e2 p' hp' r' hr'
            rw [hl]
            exact i2 p hp r hr

end Kvql.Proofs.RunNoPanic.AggrNP
