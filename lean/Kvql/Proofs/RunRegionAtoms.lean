/-
  C18 end to end, part 7: the key-pinning conjuncts AS WRITTEN.
  `pinOf c`: the set / prefix / closed range the documentation gives a key-pinning atom `c`
  (`key = 'k'`, `'k' = key`, `key in ('a', 'b')`, `key ^= 'p'`, `key > 'a'` … with the literal on either
  side, `key between 'a' and 'b'`) — defined on the syntax, independently of filter_optimizer.go.
  * `pin_atom_region`: the scan type the optimizer infers for such an atom pins the key and its
    region lies within `pinOf c`;
  * `point_conjunct_within`: a conjunct that is inferred as point reads (MGET / EMPTY) bounds the whole
    conjunction — whatever the other conjuncts are, the inferred region is within ITS key set
    (for PREFIX / RANGE conjuncts only "within one of the pinning conjuncts" holds: `and_narrows`).
-/
import Kvql.Proofs.ScanUnsat
import Kvql.Proofs.ScanNarrow

namespace Kvql.Scan

open Kvql
open Kvql.Bytes (Pre)

/-! ### point kinds absorb -/

theorem intersectionMget_within_right (a b : List Bytes) : within (intersectionMget a b) (.mget b) := by
  unfold intersectionMget
  exact mget_like_within (fun k hk => by
    simp only [mem_sort, List.mem_filter, mem_dedup, List.contains_iff_mem] at hk; exact hk.2)

theorem andScan_within_point_left {l r : Scan} (h : pointKind l) : within (andScan l r) l := by
  cases l <;> cases r <;> scan_kinds <;> simp [pointKind] at h <;>
    first
    | exact within_refl _
    | exact empty_within _
    | exact intersectionMget_within _ _
    | exact intersectionMgetAndPrefix_within _ _
    | exact intersectionMgetAndRange_within _ _ _

theorem andScan_within_point_right {l r : Scan} (h : pointKind r) : within (andScan l r) r := by
  cases l <;> cases r <;> scan_kinds <;> simp [pointKind] at h <;>
    first
    | exact within_refl _
    | exact empty_within _
    | exact intersectionMget_within_right _ _
    | exact intersectionMgetAndPrefix_within _ _
    | exact intersectionMgetAndRange_within _ _ _

theorem within_trans {a b c : Scan} (h1 : within a b) (h2 : within b c) : within a c :=
  fun k hk => h2 k (h1 k hk)

theorem point_conjunct_tree {c e : Expr} (hc : Conjunct c e) (h : pointKind (optimizeExpr c)) :
    (pointKind (andTree e) ∧ within (andTree e) (optimizeExpr c)) ∨ emptyPair (leafTypes e) = true := by
  induction hc with
  | self =>
    have h' := h
    rw [optimizeExpr_eq] at h' ⊢
    cases hp : emptyPair (leafTypes c) with
    | true => exact Or.inr rfl
    | false => simp [hp] at h' ⊢; exact ⟨h', within_refl _⟩
  | andL hc' ih =>
    rcases ih with ⟨ih1, ih2⟩ | ih
    · left; rw [andTree_and]
      exact ⟨andScan_point (Or.inl ih1), within_trans (andScan_within_point_left ih1) ih2⟩
    · right; rw [leafTypes_and]; exact emptyPair_sublist (List.sublist_append_left _ _) ih
  | andR hc' ih =>
    rcases ih with ⟨ih1, ih2⟩ | ih
    · left; rw [andTree_and]
      exact ⟨andScan_point (Or.inr ih1), within_trans (andScan_within_point_right ih1) ih2⟩
    · right; rw [leafTypes_and]; exact emptyPair_sublist (List.sublist_append_right _ _) ih
  | kwAndL hc' ih =>
    rcases ih with ⟨ih1, ih2⟩ | ih
    · left; rw [andTree_kwAnd]
      exact ⟨andScan_point (Or.inl ih1), within_trans (andScan_within_point_left ih1) ih2⟩
    · right; rw [leafTypes_kwAnd]; exact emptyPair_sublist (List.sublist_append_left _ _) ih
  | kwAndR hc' ih =>
    rcases ih with ⟨ih1, ih2⟩ | ih
    · left; rw [andTree_kwAnd]
      exact ⟨andScan_point (Or.inr ih1), within_trans (andScan_within_point_right ih1) ih2⟩
    · right; rw [leafTypes_kwAnd]; exact emptyPair_sublist (List.sublist_append_right _ _) ih

/-- a conjunct inferred as point reads bounds the whole conjunction -/
theorem point_conjunct_within {c e : Expr} (hc : Conjunct c e) (h : pointKind (optimizeExpr c)) :
    within (optimizeExpr e) (optimizeExpr c) := by
  rw [optimizeExpr_eq e]
  rcases point_conjunct_tree hc h with ⟨_, h2⟩ | h2
  · split
    · exact empty_within _
    · exact h2
  · simp only [h2, if_true]; exact empty_within _

/-- a conjunct is one of the leaves, or an `&` / `and` node -/
theorem conjunct_mem_conjuncts {c e : Expr} (hc : Conjunct c e) (hleaf : isAnd c = false) : c ∈ conjuncts e := by
  induction hc with
  | self =>
    cases c with
    | binop p op l r => cases op <;> simp [isAnd] at hleaf <;> simp [conjuncts]
    | _ => simp [conjuncts]
  | andL _ ih => simp only [conjuncts, List.mem_append]; exact .inl ih
  | andR _ ih => simp only [conjuncts, List.mem_append]; exact .inr ih
  | kwAndL _ ih => simp only [conjuncts, List.mem_append]; exact .inl ih
  | kwAndR _ ih => simp only [conjuncts, List.mem_append]; exact .inr ih

/-! ### the atoms as written -/

/-- the key set / prefix / closed range a key-pinning atom stands for -/
inductive KeyRegion
  /-- `key = 'k'`, `key in ('a', 'b')` -/
  | keys (ks : List Bytes)
  /-- `key ^= 'p'` -/
  | pre (p : Bytes)
  /-- a closed range; `none`: unbounded on that side -/
  | between (lo hi : Option Bytes)
deriving Repr, DecidableEq

def KeyRegion.mem : KeyRegion → Bytes → Prop
  | .keys ks, k => k ∈ ks
  | .pre p, k => p <+: k
  | .between lo hi, k => (∀ l, lo = some l → l ≤ k) ∧ (∀ h, hi = some h → k ≤ h)

/-- `key` on the first side, a string literal on the second -/
def keyLit : Expr → Expr → Option Bytes
  | .field _ .key, .str _ lit => some lit
  | _, _ => none

/-- `key >(=) 'lit'`: the closed half-line from `lit` (`key > ''` does not pin: every key qualifies) -/
def fromLit (lit : Bytes) : Option KeyRegion := if lit.isEmpty then none else some (.between (some lit) none)

/-- `key <(=) 'lit'`: the closed half-line up to `lit` -/
def uptoLit (lit : Bytes) : KeyRegion := .between none (some lit)

/-- the region pinned by an atom of the WHERE clause, as written (literal on either side) -/
def pinOf : Expr → Option KeyRegion
  | .binop _ op l r =>
    match op with
    | .eq =>
      match keyLit l r with
      | some lit => some (.keys [lit])
      | none => (keyLit r l).map (fun lit => .keys [lit])
    | .prefixMatch => (keyLit l r).map .pre
    | .gt | .gte =>
      match keyLit l r with
      | some lit => fromLit lit                       -- key > 'lit'
      | none => (keyLit r l).map uptoLit              -- 'lit' > key
    | .lt | .lte =>
      match keyLit l r with
      | some lit => some (uptoLit lit)                -- key < 'lit'
      | none => (keyLit r l).bind fromLit             -- 'lit' < key
    | .in_ =>
      match l, r with
      | .field _ .key, .list _ items =>
        if (stringItems items).2 && !(stringItems items).1.isEmpty then some (.keys (stringItems items).1) else none
      | _, _ => none
    | .between =>
      match l, r with
      | .field _ .key, .list _ [.str _ lo, .str _ hi] =>
        -- the closed interval between the two literals, in either order
        some (if Bytes.lt hi lo then .between (some hi) (some lo) else .between (some lo) (some hi))
      | _, _ => none
    | _ => none
  | _ => none

theorem keyLit_some {l r : Expr} {lit : Bytes} (h : keyLit l r = some lit) :
    ∃ p1 p2, l = .field p1 .key ∧ r = .str p2 lit := by
  unfold keyLit at h
  split at h
  · rename_i p1 p2 lit'
    simp only [Option.some.injEq] at h
    subst h
    exact ⟨p1, p2, rfl, rfl⟩
  · cases h

/-- the shapes `pinOf` accepts -/
inductive PinShape : Expr → Prop
  | keyStr (p : Nat) (op : Op) (p1 p2 : Nat) (lit : Bytes) : PinShape (.binop p op (.field p1 .key) (.str p2 lit))
  | strKey (p : Nat) (op : Op) (p1 p2 : Nat) (lit : Bytes) : PinShape (.binop p op (.str p1 lit) (.field p2 .key))
  | keyList (p : Nat) (op : Op) (p1 p2 : Nat) (items : List Expr) : (stringItems items).2 = true →
      PinShape (.binop p op (.field p1 .key) (.list p2 items))

/-- an operator of a key-pinning atom -/
def pinOp : Op → Bool
  | .eq | .prefixMatch | .gt | .gte | .lt | .lte | .in_ | .between => true
  | _ => false

theorem stringItems_pair (p3 p4 : Nat) (lo hi : Bytes) : (stringItems [.str p3 lo, .str p4 hi]).2 = true := by
  simp [stringItems]

/-- `pinOf` is defined only on atoms of the three shapes, with a comparison / `in` / `between` operator -/
theorem pinOf_shape {c : Expr} {R : KeyRegion} (h : pinOf c = some R) :
    PinShape c ∧ ∃ p op l r, c = .binop p op l r ∧ pinOp op = true := by
  cases c with
  | binop p op l r =>
    refine ⟨?_, p, op, l, r, rfl, ?_⟩
    · unfold pinOf at h
      cases op <;> simp only [] at h <;> try (cases h)
      -- eq
      · cases hk : keyLit l r with
        | some lit => obtain ⟨p1, p2, rfl, rfl⟩ := keyLit_some hk; exact .keyStr ..
        | none =>
          rw [hk] at h
          cases hk2 : keyLit r l with
          | some lit => obtain ⟨p1, p2, rfl, rfl⟩ := keyLit_some hk2; exact .strKey ..
          | none => rw [hk2] at h; cases h
      -- prefixMatch
      · cases hk : keyLit l r with
        | some lit => obtain ⟨p1, p2, rfl, rfl⟩ := keyLit_some hk; exact .keyStr ..
        | none => rw [hk] at h; cases h
      -- gt
      · cases hk : keyLit l r with
        | some lit => obtain ⟨p1, p2, rfl, rfl⟩ := keyLit_some hk; exact .keyStr ..
        | none =>
          rw [hk] at h
          cases hk2 : keyLit r l with
          | some lit => obtain ⟨p1, p2, rfl, rfl⟩ := keyLit_some hk2; exact .strKey ..
          | none => rw [hk2] at h; cases h
      -- gte
      · cases hk : keyLit l r with
        | some lit => obtain ⟨p1, p2, rfl, rfl⟩ := keyLit_some hk; exact .keyStr ..
        | none =>
          rw [hk] at h
          cases hk2 : keyLit r l with
          | some lit => obtain ⟨p1, p2, rfl, rfl⟩ := keyLit_some hk2; exact .strKey ..
          | none => rw [hk2] at h; cases h
      -- lt
      · cases hk : keyLit l r with
        | some lit => obtain ⟨p1, p2, rfl, rfl⟩ := keyLit_some hk; exact .keyStr ..
        | none =>
          rw [hk] at h
          cases hk2 : keyLit r l with
          | some lit => obtain ⟨p1, p2, rfl, rfl⟩ := keyLit_some hk2; exact .strKey ..
          | none => rw [hk2] at h; cases h
      -- lte
      · cases hk : keyLit l r with
        | some lit => obtain ⟨p1, p2, rfl, rfl⟩ := keyLit_some hk; exact .keyStr ..
        | none =>
          rw [hk] at h
          cases hk2 : keyLit r l with
          | some lit => obtain ⟨p1, p2, rfl, rfl⟩ := keyLit_some hk2; exact .strKey ..
          | none => rw [hk2] at h; cases h
      -- in
      · split at h
        · split at h
          · rename_i hc
            simp only [Bool.and_eq_true] at hc
            exact .keyList _ _ _ _ _ hc.1
          · cases h
        · cases h
      -- between
      · split at h
        · exact .keyList _ _ _ _ _ (stringItems_pair ..)
        · cases h
    · unfold pinOf at h
      cases op <;> first | rfl | (simp only [] at h; cases h)
  | _ => simp [pinOf] at h

theorem pre_iff (p k : Bytes) : Pre p k ↔ p <+: k := Iff.rfl

/-- **the atoms**: the scan type inferred for a key-pinning atom pins the key (is not FULL), is well
    formed, and its region lies within the region the atom stands for as written -/
theorem pin_atom_region {c : Expr} {R : KeyRegion} (h : pinOf c = some R) :
    pinned (optimizeExpr c) ∧ ∀ k, region (optimizeExpr c) k → R.mem k := by
  obtain ⟨_, p, op, l, r, rfl, _⟩ := pinOf_shape h
  unfold pinOf at h
  cases op <;> simp only [] at h <;> try (cases h)
  -- eq
  · cases hk : keyLit l r with
    | some lit =>
      obtain ⟨p1, p2, rfl, rfl⟩ := keyLit_some hk
      rw [hk] at h; simp only [Option.some.injEq] at h; subst h
      simp [optimizeExpr, infer, Conj.single, optimizeEqualExpr, operands, pinned, region, KeyRegion.mem]
    | none =>
      rw [hk] at h
      cases hk2 : keyLit r l with
      | none => rw [hk2] at h; cases h
      | some lit =>
        obtain ⟨p1, p2, rfl, rfl⟩ := keyLit_some hk2
        rw [hk2] at h; simp only [Option.map_some, Option.some.injEq] at h; subst h
        simp [optimizeExpr, infer, Conj.single, optimizeEqualExpr, operands, pinned, region, KeyRegion.mem]
  -- prefixMatch
  · cases hk : keyLit l r with
    | none => rw [hk] at h; cases h
    | some lit =>
      obtain ⟨p1, p2, rfl, rfl⟩ := keyLit_some hk
      rw [hk] at h; simp only [Option.map_some, Option.some.injEq] at h; subst h
      simp [optimizeExpr, infer, Conj.single, optimizePrefixMatchExpr, operands, pinned, region, KeyRegion.mem, Pre]
  -- gt
  · cases hk : keyLit l r with
    | some lit =>
      obtain ⟨p1, p2, rfl, rfl⟩ := keyLit_some hk
      rw [hk] at h; simp only [fromLit] at h
      split at h
      · cases h
      · rename_i hne
        simp only [Option.some.injEq] at h; subst h
        simp [optimizeExpr, infer, Conj.single, isStr, optimizeGtGteExpr, operands, hne, pinned, region, KeyRegion.mem]
    | none =>
      rw [hk] at h
      cases hk2 : keyLit r l with
      | none => rw [hk2] at h; cases h
      | some lit =>
        obtain ⟨p1, p2, rfl, rfl⟩ := keyLit_some hk2
        rw [hk2] at h; simp only [Option.map_some, Option.some.injEq, uptoLit] at h; subst h
        by_cases he : lit.isEmpty = true
        · have : lit = [] := List.isEmpty_iff.mp he
          subst this
          simp [optimizeExpr, infer, Conj.single, isStr, optimizeLtLteExpr, operands, pinned, region, KeyRegion.mem]
        · simp [optimizeExpr, infer, Conj.single, isStr, optimizeLtLteExpr, operands, he, pinned, region, KeyRegion.mem]
  -- gte
  · cases hk : keyLit l r with
    | some lit =>
      obtain ⟨p1, p2, rfl, rfl⟩ := keyLit_some hk
      rw [hk] at h; simp only [fromLit] at h
      split at h
      · cases h
      · rename_i hne
        simp only [Option.some.injEq] at h; subst h
        simp [optimizeExpr, infer, Conj.single, isStr, optimizeGtGteExpr, operands, hne, pinned, region, KeyRegion.mem]
    | none =>
      rw [hk] at h
      cases hk2 : keyLit r l with
      | none => rw [hk2] at h; cases h
      | some lit =>
        obtain ⟨p1, p2, rfl, rfl⟩ := keyLit_some hk2
        rw [hk2] at h; simp only [Option.map_some, Option.some.injEq, uptoLit] at h; subst h
        by_cases he : lit.isEmpty = true
        · have : lit = [] := List.isEmpty_iff.mp he
          subst this
          simp [optimizeExpr, infer, Conj.single, isStr, optimizeLtLteExpr, operands, pinned, region, KeyRegion.mem]
        · simp [optimizeExpr, infer, Conj.single, isStr, optimizeLtLteExpr, operands, he, pinned, region, KeyRegion.mem]
  -- lt
  · cases hk : keyLit l r with
    | some lit =>
      obtain ⟨p1, p2, rfl, rfl⟩ := keyLit_some hk
      rw [hk] at h; simp only [Option.some.injEq, uptoLit] at h; subst h
      by_cases he : lit.isEmpty = true
      · have : lit = [] := List.isEmpty_iff.mp he
        subst this
        simp [optimizeExpr, infer, Conj.single, isStr, optimizeLtLteExpr, operands, pinned, region, KeyRegion.mem]
      · simp [optimizeExpr, infer, Conj.single, isStr, optimizeLtLteExpr, operands, he, pinned, region, KeyRegion.mem]
    | none =>
      rw [hk] at h
      cases hk2 : keyLit r l with
      | none => rw [hk2] at h; cases h
      | some lit =>
        obtain ⟨p1, p2, rfl, rfl⟩ := keyLit_some hk2
        rw [hk2] at h; simp only [Option.bind_some, fromLit] at h
        split at h
        · cases h
        · rename_i hne
          simp only [Option.some.injEq] at h; subst h
          simp [optimizeExpr, infer, Conj.single, isStr, optimizeGtGteExpr, operands, hne, pinned, region, KeyRegion.mem]
  -- lte
  · cases hk : keyLit l r with
    | some lit =>
      obtain ⟨p1, p2, rfl, rfl⟩ := keyLit_some hk
      rw [hk] at h; simp only [Option.some.injEq, uptoLit] at h; subst h
      by_cases he : lit.isEmpty = true
      · have : lit = [] := List.isEmpty_iff.mp he
        subst this
        simp [optimizeExpr, infer, Conj.single, isStr, optimizeLtLteExpr, operands, pinned, region, KeyRegion.mem]
      · simp [optimizeExpr, infer, Conj.single, isStr, optimizeLtLteExpr, operands, he, pinned, region, KeyRegion.mem]
    | none =>
      rw [hk] at h
      cases hk2 : keyLit r l with
      | none => rw [hk2] at h; cases h
      | some lit =>
        obtain ⟨p1, p2, rfl, rfl⟩ := keyLit_some hk2
        rw [hk2] at h; simp only [Option.bind_some, fromLit] at h
        split at h
        · cases h
        · rename_i hne
          simp only [Option.some.injEq] at h; subst h
          simp [optimizeExpr, infer, Conj.single, isStr, optimizeGtGteExpr, operands, hne, pinned, region, KeyRegion.mem]
  -- in
  · split at h
    · rename_i p1 p2 items
      split at h
      · rename_i hc
        simp only [Option.some.injEq] at h; subst h
        simp only [Bool.and_eq_true, Bool.not_eq_true'] at hc
        simp [optimizeExpr, infer, Conj.single, optimizeInExpr, leftField, hc.1, hc.2, pinned, region, KeyRegion.mem]
      · cases h
    · cases h
  -- between
  · split at h
    · simp only [Option.some.injEq] at h; subst h
      rename_i q1 q2 q3 lo q4 hi _
      simp only [optimizeExpr, infer, Conj.single, optimizeBetweenExpr, leftField]
      have hkk : (KW.key == KW.key) = true := by decide
      simp only [hkk, if_true]
      cases hlt : Bytes.lt hi lo <;> simp [pinned, region, KeyRegion.mem]
    · cases h

/-- equalities and IN lists are inferred as point reads -/
theorem pin_keys_point {c : Expr} {ks : List Bytes} (h : pinOf c = some (.keys ks)) : pointKind (optimizeExpr c) := by
  obtain ⟨_, p, op, l, r, rfl, _⟩ := pinOf_shape h
  unfold pinOf at h
  cases op <;> simp only [] at h <;> try (cases h)
  · cases hk : keyLit l r with
    | some lit =>
      obtain ⟨p1, p2, rfl, rfl⟩ := keyLit_some hk
      simp [optimizeExpr, infer, Conj.single, optimizeEqualExpr, operands, pointKind]
    | none =>
      rw [hk] at h
      cases hk2 : keyLit r l with
      | none => rw [hk2] at h; cases h
      | some lit =>
        obtain ⟨p1, p2, rfl, rfl⟩ := keyLit_some hk2
        simp [optimizeExpr, infer, Conj.single, optimizeEqualExpr, operands, pointKind]
  · cases hk : keyLit l r with
    | none => rw [hk] at h; cases h
    | some lit => rw [hk] at h; simp at h
  · cases hk : keyLit l r with
    | some lit => rw [hk] at h; simp only [fromLit] at h; split at h <;> cases h
    | none =>
      rw [hk] at h
      cases hk2 : keyLit r l with
      | none => rw [hk2] at h; cases h
      | some lit => rw [hk2] at h; simp [uptoLit] at h
  · cases hk : keyLit l r with
    | some lit => rw [hk] at h; simp only [fromLit] at h; split at h <;> cases h
    | none =>
      rw [hk] at h
      cases hk2 : keyLit r l with
      | none => rw [hk2] at h; cases h
      | some lit => rw [hk2] at h; simp [uptoLit] at h
  · cases hk : keyLit l r with
    | some lit => rw [hk] at h; simp [uptoLit] at h
    | none =>
      rw [hk] at h
      cases hk2 : keyLit r l with
      | none => rw [hk2] at h; cases h
      | some lit => rw [hk2] at h; simp only [Option.bind_some, fromLit] at h; split at h <;> cases h
  · cases hk : keyLit l r with
    | some lit => rw [hk] at h; simp [uptoLit] at h
    | none =>
      rw [hk] at h
      cases hk2 : keyLit r l with
      | none => rw [hk2] at h; cases h
      | some lit => rw [hk2] at h; simp only [Option.bind_some, fromLit] at h; split at h <;> cases h
  · split at h
    · rename_i p1 p2 items
      split at h
      · rename_i hc
        simp only [Bool.and_eq_true, Bool.not_eq_true'] at hc
        simp [optimizeExpr, infer, Conj.single, optimizeInExpr, leftField, hc.1, hc.2, pointKind]
      · cases h
    · cases h
  · split at h
    · simp only [Option.some.injEq] at h
      split at h <;> cases h
    · cases h

end Kvql.Scan
