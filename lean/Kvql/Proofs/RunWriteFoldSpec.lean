/-
  Constant folding against the REFERENCE evaluator: `ExpressionOptimizer.Optimize()` (Model/Fold.lean)
  keeps an expression of the core language in the core language, with its README kind, and with the
  reference's value on every pair on which the reference evaluates the original:

      CoreLang w,  Fold.optimize w = ok fw   ⇒   CoreLang fw  ∧  (Spec.eval w kv = some s → Spec.eval fw kv = some s).

  C04 proves value preservation for the engine's ROW evaluator (`fold_preserves`); the engine's vector
  evaluator is reached through this statement and `batch_refines_spec`: the folded tree is still
  reference-evaluable, hence `ExecuteBatch` is defined on it.

  Same recursion as C04's `pass_ok` (Proofs/FoldSpec.lean): `FS e e'` is the invariant, with
  congruence for the node that stays, the two folding steps (`foldBinary`, `foldCall`: the literal is
  what the row evaluator computes on the empty pair, which by C01 `exec_refines_spec` is the
  reference's value), `tryOptimizeAndOr` and the guarded re-association.
-/
import Kvql.Proofs.ExecRefinesSpec
import Kvql.Proofs.FoldSpec
import Kvql.Proofs.FoldTotal

namespace Kvql.Fold.Ref
open Kvql Kvql.Fold Kvql.Refine Kvql.Spec Generated

/-- `e'` is as good as `e` for the reference evaluator: kind, core language, value -/
def FS (e e' : Expr) : Prop :=
  ∀ k, kindOf e = some k → core e = true →
    kindOf e' = some k ∧ core e' = true ∧ ∀ kv s, Spec.eval e kv = some s → Spec.eval e' kv = some s

theorem FS.refl (e : Expr) : FS e e := fun _ hk hc => ⟨hk, hc, fun _ _ h => h⟩

theorem FS.trans {a b c : Expr} (h1 : FS a b) (h2 : FS b c) : FS a c := by
  intro k hk hc
  obtain ⟨k1, c1, s1⟩ := h1 k hk hc
  obtain ⟨k2, c2, s2⟩ := h2 k k1 c1
  exact ⟨k2, c2, fun kv s h => s2 kv s (s1 kv s h)⟩

/-! ### kinds of the operands of a well-kinded node -/

theorem kind_left {p : Nat} {op : Op} {l r : Expr} {k : Kind} (h : kindOf (.binop p op l r) = some k) :
    ∃ kl, kindOf l = some kl := by
  cases hl : kindOf l with
  | some kl => exact ⟨kl, rfl⟩
  | none =>
    exfalso
    cases op
    case between =>
      cases r with
      | list q items =>
        match items, h with
        | [lo, hi], h => simp [kindOf, hl] at h
        | [], h | [_], h | _ :: _ :: _ :: _, h => simp [kindOf] at h
      | _ => simp [kindOf] at h
    case in_ =>
      cases r <;> simp only [kindOf, hl] at h <;> simp at h
    all_goals (simp only [kindOf, hl, isScalar] at h)
    all_goals ((repeat' split at h) <;> simp_all)

theorem kind_right {p : Nat} {op : Op} {l r : Expr} {k : Kind} (h : kindOf (.binop p op l r) = some k)
    (hop : op ≠ .in_ ∧ op ≠ .between) : ∃ kr, kindOf r = some kr := by
  cases hr : kindOf r with
  | some kr => exact ⟨kr, rfl⟩
  | none =>
    exfalso
    obtain ⟨h1, h2⟩ := hop
    cases op
    case between => exact h2 rfl
    case in_ => exact h1 rfl
    all_goals (simp only [kindOf, hr, isScalar] at h)
    all_goals ((repeat' split at h) <;> simp_all <;> grind)

theorem not_list_of_kind {e : Expr} {k : Kind} (h : kindOf e = some k) : Refine.isListNode e = false := by
  cases e <;> first | rfl | simp [kindOf] at h

/-- the kind of a binary node is a function of the kinds of its operands — and of the right operand
    itself for `in` / `between` -/
theorem kindOf_binop_congr {p : Nat} {op : Op} {l l' r r' : Expr} (hl : kindOf l' = kindOf l)
    (hr : r' = r ∨ (kindOf r' = kindOf r ∧ op ≠ .in_ ∧ op ≠ .between)) :
    kindOf (.binop p op l' r') = kindOf (.binop p op l r) := by
  rcases hr with rfl | ⟨hr, h1, h2⟩
  · cases op
    case between =>
      cases r' with
      | list q items =>
        match items with
        | [lo, hi] => simp only [kindOf, hl]
        | [] | [_] | _ :: _ :: _ :: _ => simp [kindOf]
      | _ => simp [kindOf]
    case in_ =>
      cases r' <;> first | (simp only [kindOf, hl]; done) | (simp only [kindOf, hl]; rfl) | (rw [kindOf, kindOf, hl])
    all_goals simp only [kindOf, hl]
  · cases op
    case between => exact absurd rfl h2
    case in_ => exact absurd rfl h1
    all_goals simp only [kindOf, hl, hr]

/-- congruence: rewritten operands inside the node that stays (a list node on the right is never
    rewritten) -/
theorem FS.binop (p : Nat) (op : Op) {l l' r r' : Expr} (hl : FS l l') (hr : FS r r')
    (hlist : Refine.isListNode r = true → r' = r) : FS (.binop p op l r) (.binop p op l' r') := by
  intro k hk hcore
  obtain ⟨kl, hkl⟩ := kind_left hk
  have hcl := (core_binop hcore).1
  have hcr := (core_binop hcore).2
  obtain ⟨kl', cl', sl'⟩ := hl kl hkl hcl
  by_cases hlst : Refine.isListNode r = true
  · -- `in` / `between` over a list node, or a list node where none is allowed (not well-kinded)
    have e := hlist hlst
    subst e
    refine ⟨?_, ?_, ?_⟩
    · rw [kindOf_binop_congr (kl'.trans hkl.symm) (.inl rfl)]; exact hk
    · cases op <;> simp only [core, Bool.and_eq_true] at hcore ⊢ <;>
        first | exact ⟨⟨cl', hcore.1.2⟩, hcore.2⟩ | cases hcore
    · intro kv s hs
      obtain ⟨a, b, ha, hb, hop⟩ := eval_binop hs
      rw [Spec.eval, sl' kv a ha, hb]
      exact hop
  · have hnl : Refine.isListNode r = false := by simpa using hlst
    have hop : op ≠ .in_ ∧ op ≠ .between := by
      constructor <;> (intro e; subst e; simp [core, hnl] at hcore)
    obtain ⟨kr, hkr⟩ := kind_right hk hop
    obtain ⟨kr', cr', sr'⟩ := hr kr hkr hcr
    refine ⟨?_, ?_, ?_⟩
    · rw [kindOf_binop_congr (kl'.trans hkl.symm) (.inr ⟨kr'.trans hkr.symm, hop.1, hop.2⟩)]; exact hk
    · have hnl' := not_list_of_kind kr'
      cases op <;> simp only [core, Bool.and_eq_true] at hcore ⊢ <;>
        first
          | exact absurd rfl hop.1
          | exact absurd rfl hop.2
          | exact ⟨⟨cl', cr'⟩, by simp [hnl']⟩
          | cases hcore
    · intro kv s hs
      obtain ⟨a, b, ha, hb, hop'⟩ := eval_binop hs
      rw [Spec.eval, sl' kv a ha, sr' kv b hb]
      exact hop'

/-! ### literals -/

theorem core_lit {e : Expr} (h : isLit4 e = true) : core e = true := by
  cases e <;> simp [isLit4] at h <;> rfl

/-- the reference's value of a literal does not depend on the pair -/
theorem eval_lit_indep {e : Expr} (h : isLit4 e = true) (kv kv' : Pair) : Spec.eval e kv = Spec.eval e kv' := by
  cases e <;> simp [isLit4] at h <;> simp [Spec.eval]

theorem eval_binop_lit_indep {p : Nat} {op : Op} {l r : Expr} (hl : isLit4 l = true) (hr : isLit4 r = true)
    (kv kv' : Pair) : Spec.eval (.binop p op l r) kv = Spec.eval (.binop p op l r) kv' := by
  rw [Spec.eval, Spec.eval, eval_lit_indep hl kv kv', eval_lit_indep hr kv kv']

theorem evalList_lit_indep : ∀ {args : List Expr}, args.all isLit4 = true → ∀ (kv kv' : Pair),
    Spec.evalList args kv = Spec.evalList args kv'
  | [], _, _, _ => by simp [Spec.evalList]
  | a :: rest, h, kv, kv' => by
    simp only [List.all_cons, Bool.and_eq_true] at h
    rw [Spec.evalList, Spec.evalList, eval_lit_indep h.1 kv kv', evalList_lit_indep h.2 kv kv']

/-- the value relation read from the engine's side -/
theorem rel_str {x : Bytes} {s : SVal} (h : Value.str x ≈ s) : s = .text x := by
  cases s <;> simp [Refine.Rel] at h; rw [h]
theorem rel_int {i : Int64} {s : SVal} (h : Value.int i ≈ s) : s = .int i := by
  cases s <;> simp [Refine.Rel] at h; rw [h]
theorem rel_float {f : F64} {s : SVal} (h : Value.float f ≈ s) : s = .float f := by
  cases s <;> simp [Refine.Rel] at h; rw [h]
theorem rel_bool {b : Bool} {s : SVal} (h : Value.bool b ≈ s) : s = .bool b := by
  cases s <;> simp [Refine.Rel] at h; rw [h]

/-- constant evaluation of a core, well-kinded, reference-evaluable node gives the reference's value -/
theorem constExec_spec {n : Expr} {k : Kind} (hk : kindOf n = some k) (hc : core n = true) {s : SVal}
    (hs : Spec.eval n emptyPair = some s) : ∃ v, constExec n = .ok v ∧ v ≈ s ∧ v.hasKind k = true := by
  obtain ⟨v, hv, hr⟩ := refines n k hk hc emptyPair Ctx.none rfl s hs
  refine ⟨v, ?_, hr, (exec_sound n k hk emptyPair Ctx.none rfl).1 v Ctx.none hv⟩
  unfold constExec
  rw [hv]

/-! ### the two folding steps: the literal of the value constant evaluation finds -/

/-- the literal `foldBinary` / `foldCall` build from the constant value -/
def LitOf (c : Expr) (ret : Value) : Prop :=
  (∃ q x, c = .str q x ∧ ret = .str x) ∨ (∃ q d i, c = .num q d i ∧ ret = .int i) ∨
  (∃ q d f, c = .float q d f ∧ ret = .float f) ∨ (∃ q b, c = mkBool q b ∧ ret = .bool b)

theorem constExec_run {n : Expr} {ret : Value} (h : constExec n = .ok ret) :
    exec n emptyPair Ctx.none = (.ok ret, (exec n emptyPair Ctx.none).2) := by
  unfold constExec at h
  rw [← h]

/-- a node whose reference value does not depend on the pair, replaced by the literal of its constant value -/
theorem lit_of_value_fs {n c : Expr} {ret : Value} (hce : constExec n = .ok ret)
    (hind : ∀ kv kv', Spec.eval n kv = Spec.eval n kv') (hc : LitOf c ret) : FS n c := by
  intro k hk hcore
  have hkind : ret.hasKind k = true := (exec_sound n k hk emptyPair Ctx.none rfl).1 ret _ (constExec_run hce)
  have hval : ∀ kv s, Spec.eval n kv = some s → ret ≈ s := by
    intro kv s hs
    rw [hind kv emptyPair] at hs
    obtain ⟨v, hv, hr, _⟩ := constExec_spec hk hcore hs
    rw [hce] at hv
    cases hv
    exact hr
  rcases hc with ⟨q, x, rfl, rfl⟩ | ⟨q, d, i, rfl, rfl⟩ | ⟨q, d, f, rfl, rfl⟩ | ⟨q, b, rfl, rfl⟩
  · have : k = .text := by cases k <;> simp [Value.hasKind] at hkind <;> rfl
    subst this
    refine ⟨rfl, rfl, fun kv s hs => ?_⟩
    rw [rel_str (hval kv s hs)]; simp [Spec.eval]
  · have : k = .num := by cases k <;> simp [Value.hasKind] at hkind <;> rfl
    subst this
    refine ⟨rfl, rfl, fun kv s hs => ?_⟩
    rw [rel_int (hval kv s hs)]; simp [Spec.eval]
  · have : k = .num := by cases k <;> simp [Value.hasKind] at hkind <;> rfl
    subst this
    refine ⟨rfl, rfl, fun kv s hs => ?_⟩
    rw [rel_float (hval kv s hs)]; simp [Spec.eval]
  · have : k = .bool := by cases k <;> simp [Value.hasKind] at hkind <;> rfl
    subst this
    refine ⟨rfl, rfl, fun kv s hs => ?_⟩
    rw [rel_bool (hval kv s hs)]; simp [mkBool, Spec.eval]

theorem foldBinary_lit {p : Nat} {op : Op} {l r c : Expr} (h : foldBinary (.binop p op l r) = .ok (some c)) :
    ∃ ret, constExec (.binop p op l r) = .ok ret ∧ LitOf c ret := by
  by_cases hm : ∃ mop, mathOpOf op = some mop
  · obtain ⟨mop, hm⟩ := hm
    have h' : (match constExec (.binop p op l r) with
        | .error _ => (pure none : R (Option Expr))
        | .ok ret =>
          match ret with
          | .str s => pure (some (.str l.pos s))
          | .int c => pure (some (.num l.pos (formatInt c) c))
          | .float c => pure (some (.float l.pos [] c))
          | _ => pure none) = .ok (some c) := by
      cases op <;> simp [mathOpOf] at hm <;> exact h
    cases hk : constExec (.binop p op l r) with
    | error e => simp [hk, pure, Except.pure] at h'
    | ok ret =>
      simp only [hk] at h'
      refine ⟨ret, rfl, ?_⟩
      cases ret <;> simp [pure, Except.pure] at h' <;> subst h'
      · exact .inl ⟨_, _, rfl, rfl⟩
      · exact .inr (.inl ⟨_, _, _, rfl, rfl⟩)
      · exact .inr (.inr (.inl ⟨_, _, _, rfl, rfl⟩))
  · by_cases hb : op = .and ∨ op = .or ∨ op = .eq ∨ op = .neq ∨ op = .gt ∨ op = .gte ∨ op = .lt ∨ op = .lte
    · have h' : (match constExec (.binop p op l r) with
          | .error _ => (pure none : R (Option Expr))
          | .ok ret =>
            match ret with
            | .bool b => pure (some (mkBool l.pos b))
            | _ => throw "tryOptimizeBinaryOpExecute: ret.(bool)") = .ok (some c) := by
        rcases hb with h1 | h1 | h1 | h1 | h1 | h1 | h1 | h1 <;> subst h1 <;> exact h
      cases hk : constExec (.binop p op l r) with
      | error e => simp [hk, pure, Except.pure] at h'
      | ok ret =>
        simp only [hk] at h'
        refine ⟨ret, rfl, ?_⟩
        cases ret <;> simp [pure, Except.pure, throw, throwThe, MonadExceptOf.throw] at h'
        subst h'
        exact .inr (.inr (.inr ⟨_, _, rfl, rfl⟩))
    · exfalso
      cases op <;> simp [mathOpOf] at hm hb <;> simp [foldBinary, pure, Except.pure] at h

theorem foldBinary_fs {p : Nat} {op : Op} {l r c : Expr} (hl : isLit4 l = true) (hr : isLit4 r = true)
    (h : foldBinary (.binop p op l r) = .ok (some c)) : FS (.binop p op l r) c := by
  obtain ⟨ret, hce, hlit⟩ := foldBinary_lit h
  exact lit_of_value_fs hce (eval_binop_lit_indep hl hr) hlit

theorem foldCall_lit {p : Nat} {nm : Expr} {args : List Expr} {c : Expr}
    (h : foldCall (.call p nm args) = .ok (some c)) :
    ∃ ret, constExec (.call p nm args) = .ok ret ∧ LitOf c ret := by
  simp only [foldCall] at h
  split at h
  · simp [pure, Except.pure] at h
  · cases hk : constExec (.call p nm args) with
    | error e => simp [hk, pure, Except.pure] at h
    | ok ret =>
      simp only [hk] at h
      refine ⟨ret, rfl, ?_⟩
      split at h
      · cases ret <;> simp [pure, Except.pure, throw, throwThe, MonadExceptOf.throw] at h
        subst h
        exact .inl ⟨_, _, rfl, rfl⟩
      · split at h
        · cases ret <;> simp [pure, Except.pure] at h
          · subst h; exact .inr (.inl ⟨_, _, _, rfl, rfl⟩)
          · subst h; exact .inr (.inr (.inl ⟨_, _, _, rfl, rfl⟩))
        · split at h
          · cases ret <;> simp [pure, Except.pure, throw, throwThe, MonadExceptOf.throw] at h
            subst h
            exact .inr (.inr (.inr ⟨_, _, rfl, rfl⟩))
          · simp [pure, Except.pure] at h

theorem eval_call_lit_indep {p : Nat} {nm : Expr} {args : List Expr} (hl : args.all isLit4 = true) (kv kv' : Pair) :
    Spec.eval (.call p nm args) kv = Spec.eval (.call p nm args) kv' := by
  cases nm <;> first
    | (rw [Spec.eval, Spec.eval, evalList_lit_indep hl kv kv'])
    | simp [Spec.eval]

theorem foldCall_fs {p : Nat} {nm : Expr} {args : List Expr} {c : Expr} (hl : args.all isLit4 = true)
    (h : foldCall (.call p nm args) = .ok (some c)) : FS (.call p nm args) c := by
  obtain ⟨ret, hce, hlit⟩ := foldCall_lit h
  exact lit_of_value_fs hce (eval_call_lit_indep hl) hlit

/-! ### tryOptimizeAndOr -/

theorem kind_andor {p : Nat} {op : Op} {l r : Expr} {k : Kind} (hop : op = .and ∨ op = .or)
    (h : kindOf (.binop p op l r) = some k) : k = .bool ∧ kindOf l = some .bool ∧ kindOf r = some .bool := by
  have hk : op = .and ∨ op = .kwAnd ∨ op = .or ∨ op = .kwOr := by
    rcases hop with h | h
    · exact .inl h
    · exact .inr (.inr (.inl h))
  obtain ⟨h1, h2⟩ := kind_logic hk h
  refine ⟨?_, h1, h2⟩
  rcases hop with rfl | rfl <;> simp [kindOf, h1, h2] at h <;> exact h.symm

theorem spec_andor {p : Nat} {op : Op} {l r : Expr} {kv : Pair} {s : SVal} (hop : op = .and ∨ op = .or)
    (h : Spec.eval (.binop p op l r) kv = some s) :
    ∃ x y, Spec.eval l kv = some (.bool x) ∧ Spec.eval r kv = some (.bool y) ∧
      s = .bool (if op == .and then x && y else x || y) := by
  obtain ⟨a, b, ha, hb, hbin⟩ := eval_binop h
  rcases hop with rfl | rfl <;> simp only [Spec.binop] at hbin <;> split at hbin <;>
    first
      | (rename_i x y; cases hbin; exact ⟨x, y, ha, hb, rfl⟩)
      | cases hbin

theorem fs_mkBool_of {e : Expr} (q : Nat) (b : Bool) (hk : ∀ k, kindOf e = some k → k = .bool)
    (hv : ∀ kv s, Spec.eval e kv = some s → s = .bool b) : FS e (mkBool q b) := by
  intro k hk' _
  have := hk k hk'
  subst this
  exact ⟨rfl, rfl, fun kv s hs => by rw [hv kv s hs]; simp [mkBool, Spec.eval]⟩

theorem andOr_fs (e : Expr) : FS e (andOr e).1 := by
  cases e with
  | binop p op l r =>
    by_cases hop : op = .and ∨ op = .or
    · have hne : (op != .and && op != .or) = false := by rcases hop with h | h <;> subst h <;> rfl
      have hkb : ∀ k, kindOf (.binop p op l r) = some k → k = .bool := fun k hk => (kind_andor hop hk).1
      have evb : ∀ q d b kv, Spec.eval (.bool q d b) kv = some (.bool b) := fun q d b kv => by simp [Spec.eval]
      rcases notBool_cases l with ⟨pl, dl, lv, rfl⟩ | hl
      · rcases notBool_cases r with ⟨pr, dr, rv, rfl⟩ | hr
        · rw [andOr_bothLit pl dl lv pr dr rv hne]
          rcases hop with h | h <;> subst h
          · simp only [beq_self_eq_true, if_true]
            refine fs_mkBool_of _ _ hkb fun kv s hs => ?_
            obtain ⟨x, y, hx, hy, rfl⟩ := spec_andor (.inl rfl) hs
            rw [evb] at hx hy
            cases hx; cases hy; rfl
          · have : (Op.or == Op.and) = false := rfl
            simp only [this, Bool.false_eq_true, if_false]
            refine fs_mkBool_of _ _ hkb fun kv s hs => ?_
            obtain ⟨x, y, hx, hy, rfl⟩ := spec_andor (.inr rfl) hs
            rw [evb] at hx hy
            cases hx; cases hy; rfl
        · rw [andOr_leftLit pl dl lv hne hr]
          have keep : ∀ (hlv : lv = (op == .and)), FS (.binop p op (.bool pl dl lv) r) r := by
            intro hlv k hk hcore
            obtain ⟨rfl, _, hkr⟩ := kind_andor hop hk
            refine ⟨hkr, (core_binop hcore).2, fun kv s hs => ?_⟩
            obtain ⟨x, y, hx, hy, rfl⟩ := spec_andor hop hs
            rw [evb] at hx
            cases hx
            rw [hy, hlv]
            cases h : (op == Op.and) <;> simp
          have drop : ∀ (hlv : lv ≠ (op == .and)), FS (.binop p op (.bool pl dl lv) r) (mkBool pl lv) := by
            intro hlv
            refine fs_mkBool_of _ _ hkb fun kv s hs => ?_
            obtain ⟨x, y, hx, hy, rfl⟩ := spec_andor hop hs
            rw [evb] at hx
            cases hx
            cases h : (op == Op.and) <;> cases lv <;> simp_all
          rcases hop with h | h <;> subst h
          · cases lv
            · exact drop (by decide)
            · exact keep rfl
          · cases lv
            · exact keep rfl
            · exact drop (by decide)
      · rcases notBool_cases r with ⟨pr, dr, rv, rfl⟩ | hr
        · rw [andOr_rightLit pr dr rv hne hl]
          have keep : ∀ (hrv : rv = (op == .and)), FS (.binop p op l (.bool pr dr rv)) l := by
            intro hrv k hk hcore
            obtain ⟨rfl, hkl, _⟩ := kind_andor hop hk
            refine ⟨hkl, (core_binop hcore).1, fun kv s hs => ?_⟩
            obtain ⟨x, y, hx, hy, rfl⟩ := spec_andor hop hs
            rw [evb] at hy
            cases hy
            rw [hx, hrv]
            cases h : (op == Op.and) <;> simp
          have drop : ∀ (hrv : rv ≠ (op == .and)), FS (.binop p op l (.bool pr dr rv)) (mkBool pr rv) := by
            intro hrv
            refine fs_mkBool_of _ _ hkb fun kv s hs => ?_
            obtain ⟨x, y, hx, hy, rfl⟩ := spec_andor hop hs
            rw [evb] at hy
            cases hy
            cases h : (op == Op.and) <;> cases x <;> cases rv <;> simp_all
          rcases hop with h | h <;> subst h
          · cases rv
            · exact drop (by decide)
            · exact keep rfl
          · cases rv
            · exact keep rfl
            · exact drop (by decide)
        · rw [andOr_noLit hl hr]
          exact .refl _
    · have : (op != .and && op != .or) = true := by
        cases op <;> simp at hop <;> rfl
      simp only [andOr, this, if_true]
      exact .refl _
  | _ => simp only [andOr]; exact .refl _

/-! ### the guarded re-association `(x op c1) op c2 ⇒ x op (c1 op c2)` -/

/-- the reference's value of a well-kinded core expression has the README kind -/
theorem spec_kind {e : Expr} {k : Kind} (hk : kindOf e = some k) (hc : core e = true) {kv : Pair} {s : SVal}
    (hs : Spec.eval e kv = some s) : ∃ v, v ≈ s ∧ v.hasKind k = true := by
  obtain ⟨v, _, hr, hkv⟩ := (refines e k hk hc).kinded hk (c := Ctx.off) rfl hs
  exact ⟨v, hr, hkv⟩

theorem spec_text {e : Expr} (hk : kindOf e = some .text) (hc : core e = true) {kv : Pair} {s : SVal}
    (hs : Spec.eval e kv = some s) : ∃ t, s = .text t := by
  obtain ⟨v, hr, hkv⟩ := spec_kind hk hc hs
  exact hr.kind_text hkv

/-- `isIntegerExpr`: the reference's value is an integer -/
theorem spec_int : ∀ (e : Expr), isIntegerExpr e = true → ∀ k, kindOf e = some k → core e = true →
    ∀ kv s, Spec.eval e kv = some s → ∃ i, s = .int i
  | .num p d i, _, _, _, _, kv, s, hs => by
    simp [Spec.eval] at hs
    exact ⟨i, hs.symm⟩
  | .binop p op l r, h, k, hk, hcore, kv, s, hs => by
    simp only [isIntegerExpr, Bool.and_eq_true, Bool.or_eq_true, beq_iff_eq] at h
    have hop : op ≠ .in_ ∧ op ≠ .between := by
      rcases h.1.1 with ((h1 | h1) | h1) | h1 <;> subst h1 <;> simp
    obtain ⟨kl, hkl⟩ := kind_left hk
    obtain ⟨kr, hkr⟩ := kind_right hk hop
    obtain ⟨a, b, ha, hb, hbin⟩ := eval_binop hs
    obtain ⟨i, rfl⟩ := spec_int l h.1.2 kl hkl (core_binop hcore).1 kv a ha
    obtain ⟨j, rfl⟩ := spec_int r h.2 kr hkr (core_binop hcore).2 kv b hb
    rcases h.1.1 with ((h1 | h1) | h1) | h1 <;> subst h1 <;> simp only [Spec.binop, Spec.arith] at hbin
    · exact ⟨_, (Option.some.inj hbin).symm⟩
    · exact ⟨_, (Option.some.inj hbin).symm⟩
    · exact ⟨_, (Option.some.inj hbin).symm⟩
    · split at hbin
      · cases hbin
      · exact ⟨_, (Option.some.inj hbin).symm⟩
  | .call p nm args, h, k, hk, hcore, kv, s, hs => by
    simp only [isIntegerExpr] at h
    obtain ⟨q, d, rfl, hd⟩ := intName_cases h
    obtain ⟨fn, ss, hfn, hss, happ⟩ := eval_call hs
    have e : d.map Spec.lowerByte = toLower d := rfl
    have hfn' : fn = .int ∨ fn = .strlen := by
      unfold Fn.ofName at hfn
      simp only [e] at hfn
      rcases hd with hd | hd | hd <;> rw [hd] at hfn
      · exact .inl (by
          have : Fn.int = fn := by simpa [Spec.ascii, asciiBytes] using hfn
          exact this.symm)
      · exact .inr (by
          have : Fn.strlen = fn := by simpa [Spec.ascii, asciiBytes] using hfn
          exact this.symm)
      · exfalso
        simp [Spec.ascii, asciiBytes] at hfn
    rcases hfn' with rfl | rfl
    · match ss, happ with
      | [x], happ =>
        simp only [Spec.apply] at happ
        cases hx : Spec.toInt x with
        | none => simp [hx] at happ
        | some i => simp [hx] at happ; exact ⟨i, happ.symm⟩
      | [], happ => simp [Spec.apply] at happ
      | _ :: _ :: _, happ => simp [Spec.apply] at happ
    · match ss, happ with
      | [x], happ =>
        simp only [Spec.apply] at happ
        cases hx : Spec.toStr x with
        | none => simp [hx] at happ
        | some t => simp [hx] at happ; exact ⟨_, happ.symm⟩
      | [], happ => simp [Spec.apply] at happ
      | _ :: _ :: _, happ => simp [Spec.apply] at happ
  | .field .., h, _, _, _, _, _, _ | .str .., h, _, _, _, _, _, _ | .not .., h, _, _, _, _, _, _
  | .name .., h, _, _, _, _, _, _ | .ref .., h, _, _, _, _, _, _ | .cycle, h, _, _, _, _, _, _
  | .float .., h, _, _, _, _, _, _ | .bool .., h, _, _, _, _, _, _ | .list .., h, _, _, _, _, _, _
  | .access .., h, _, _, _, _, _, _ => by simp [isIntegerExpr] at h

theorem core_of3 {p : Nat} {op : Op} {x c1 c2 : Expr} {k2 : Kind} (hop : op = .add ∨ op = .mul)
    (hx : core x = true) (h1 : core c1 = true) (h2 : core c2 = true) (hk2 : kindOf c2 = some k2) :
    core (.binop p op x (.binop p op c1 c2)) = true := by
  have n2 := not_list_of_kind hk2
  rcases hop with rfl | rfl <;> simp [core, hx, h1, h2, n2] <;> rfl

theorem kindOf_add_of {p : Nat} {l r : Expr} {kk : Kind} (hkk : kk = .text ∨ kk = .num) (hl : kindOf l = some kk)
    (hr : kindOf r = some kk) : kindOf (.binop p .add l r) = some kk := by
  rcases hkk with rfl | rfl <;> simp [kindOf, hl, hr]

theorem kindOf_mul_of {p : Nat} {l r : Expr} (hl : kindOf l = some .num) (hr : kindOf r = some .num) :
    kindOf (.binop p .mul l r) = some .num := by
  simp [kindOf, hl, hr]

theorem assoc_fs (p q : Nat) {op : Op} (hop : op = .add ∨ op = .mul) {x c1 c2 : Expr}
    (h : canReassociate op x c1 c2 = true) :
    FS (.binop p op (.binop q op x c1) c2) (.binop p op x (.binop p op c1 c2)) := by
  intro k hk hcore
  have hopne : op ≠ .in_ ∧ op ≠ .between := by rcases hop with rfl | rfl <;> simp
  obtain ⟨ki, hki⟩ := kind_left hk
  obtain ⟨k2, hk2⟩ := kind_right hk hopne
  obtain ⟨kx, hkx⟩ := kind_left hki
  obtain ⟨k1, hk1⟩ := kind_right hki hopne
  have hci := (core_binop hcore).1
  have hc2 := (core_binop hcore).2
  have hcx := (core_binop hci).1
  have hc1 := (core_binop hci).2
  simp only [canReassociate, Bool.or_eq_true, Bool.and_eq_true, beq_iff_eq] at h
  -- the kinds: all three operands have the kind of the whole
  have hkinds : (kx = .text ∧ k1 = .text ∧ k2 = .text ∧ k = .text ∧ op = .add) ∨
      (kx = .num ∧ k1 = .num ∧ k2 = .num ∧ k = .num) := by
    rcases hop with rfl | rfl
    · rcases kind_add hk with ⟨a1, a2⟩ | ⟨a1, a2⟩
      · rcases kind_add a1 with ⟨b1, b2⟩ | ⟨b1, b2⟩
        · left
          rw [kindOf_add_of (.inl rfl) a1 a2] at hk
          rw [hkx] at b1; rw [hk1] at b2; rw [hk2] at a2
          exact ⟨Option.some.inj b1, Option.some.inj b2, Option.some.inj a2, (Option.some.inj hk).symm, rfl⟩
        · exfalso; simp [kindOf, b1, b2] at a1
      · rcases kind_add a1 with ⟨b1, b2⟩ | ⟨b1, b2⟩
        · exfalso; simp [kindOf, b1, b2] at a1
        · right
          rw [kindOf_add_of (.inr rfl) a1 a2] at hk
          rw [hkx] at b1; rw [hk1] at b2; rw [hk2] at a2
          exact ⟨Option.some.inj b1, Option.some.inj b2, Option.some.inj a2, (Option.some.inj hk).symm⟩
    · right
      obtain ⟨a1, a2⟩ := kind_arith (.inr (.inl rfl)) hk
      obtain ⟨b1, b2⟩ := kind_arith (.inr (.inl rfl)) a1
      rw [kindOf_mul_of a1 a2] at hk
      rw [hkx] at b1; rw [hk1] at b2; rw [hk2] at a2
      exact ⟨Option.some.inj b1, Option.some.inj b2, Option.some.inj a2, (Option.some.inj hk).symm⟩
  refine ⟨?_, core_of3 hop hcx hc1 hc2 hk2, ?_⟩
  · rcases hkinds with ⟨rfl, rfl, rfl, rfl, rfl⟩ | ⟨rfl, rfl, rfl, rfl⟩
    · simp [kindOf, hkx, hk1, hk2]
    · rcases hop with rfl | rfl <;> simp [kindOf, hkx, hk1, hk2]
  · intro kv s hs
    obtain ⟨a, sc2, ha, h2, hout⟩ := eval_binop hs
    obtain ⟨sx, s1, hx, h1, hin⟩ := eval_binop ha
    rcases hkinds with ⟨rfl, rfl, rfl, rfl, rfl⟩ | ⟨rfl, rfl, rfl, rfl⟩
    · obtain ⟨tx, rfl⟩ := spec_text hkx hcx hx
      obtain ⟨t1, rfl⟩ := spec_text hk1 hc1 h1
      obtain ⟨t2, rfl⟩ := spec_text hk2 hc2 h2
      simp only [Spec.binop, Option.some.injEq] at hin
      subst hin
      simp only [Spec.binop, Option.some.injEq] at hout
      subst hout
      rw [Spec.eval, hx, Spec.eval, h1, h2]
      simp [Spec.binop, List.append_assoc]
    · -- numbers: `canReassociate` holds through `isIntegerExpr`
      have hint : isIntegerExpr x = true ∧ isIntegerExpr c1 = true ∧ isIntegerExpr c2 = true := by
        rcases h with ⟨⟨_, hx'⟩, _⟩ | ⟨⟨hx', h1'⟩, h2'⟩
        · exfalso
          have := retType_of_kind x .num hkx
          rw [hx'] at this
          exact absurd this (by decide)
        · exact ⟨hx', h1', h2'⟩
      obtain ⟨i, rfl⟩ := spec_int x hint.1 _ hkx hcx kv sx hx
      obtain ⟨j, rfl⟩ := spec_int c1 hint.2.1 _ hk1 hc1 kv s1 h1
      obtain ⟨l, rfl⟩ := spec_int c2 hint.2.2 _ hk2 hc2 kv sc2 h2
      rcases hop with rfl | rfl
      · simp only [Spec.binop, Spec.arith, Option.some.injEq] at hin
        subst hin
        simp only [Spec.binop, Spec.arith, Option.some.injEq] at hout
        subst hout
        rw [Spec.eval, hx, Spec.eval, h1, h2]
        simp [Spec.binop, Spec.arith, Int64.add_assoc]
      · simp only [Spec.binop, Spec.arith, Option.some.injEq] at hin
        subst hin
        simp only [Spec.binop, Spec.arith, Option.some.injEq] at hout
        subst hout
        rw [Spec.eval, hx, Spec.eval, h1, h2]
        simp [Spec.binop, Spec.arith, Int64.mul_assoc]

theorem reorder_nonbinop {e : Expr} (h : Refine.isListNode e = true) : reorder e = e := by
  cases e <;> simp [Refine.isListNode] at h
  simp [reorder]

theorem reorder_fs : ∀ e : Expr, FS e (reorder e)
  | .binop p op l r => by
    have hl := reorder_fs l
    have hr := reorder_fs r
    have hcong := FS.binop p op hl hr (fun h => reorder_nonbinop h)
    rw [reorder]
    split
    · exact hcong
    · rename_i hop
      have hop' : op = .add ∨ op = .mul := by
        cases op <;> simp at hop <;> simp
      split
      · rename_i q lop ll lr heq
        split
        · rename_i hcond
          simp only [Bool.and_eq_true, beq_iff_eq] at hcond
          obtain ⟨⟨⟨_, hlop⟩, hre⟩, _⟩ := hcond
          subst hlop
          rw [heq] at hcong
          exact hcong.trans (assoc_fs p q hop' hre)
        · exact hcong
      · exact hcong
  | .field .. | .str .. | .name .. | .cycle | .num .. | .float .. | .bool .. | .not .. | .call .. | .ref ..
  | .list .. | .access .. => by simp only [reorder]; exact .refl _

/-! ### a call with rewritten arguments -/

theorem coreList_mem : ∀ {es : List Expr}, coreList es = true → ∀ e ∈ es, core e = true
  | [], _, e, he => by cases he
  | x :: xs, h, e, he => by
    simp only [coreList, Bool.and_eq_true] at h
    rcases List.mem_cons.mp he with rfl | he'
    · exact h.1
    · exact coreList_mem h.2 e he'

/-- what the arguments of a core, well-kinded call keep under `FS` -/
theorem rows_strengthen : ∀ {args args' : List Expr}, Rows FS args args' →
    (∀ e ∈ args, core e = true) → (∀ e ∈ args, (kindOf e).isSome = true) →
    Rows (fun a a' => kindOf a' = kindOf a ∧ core a' = true ∧
      ∀ kv s, Spec.eval a kv = some s → Spec.eval a' kv = some s) args args'
  | _, _, .nil, _, _ => .nil
  | _, _, .cons (a := a) h t, hc, hk => by
    obtain ⟨k, hka⟩ := Option.isSome_iff_exists.mp (hk a List.mem_cons_self)
    obtain ⟨h1, h2, h3⟩ := h k hka (hc a List.mem_cons_self)
    exact .cons ⟨h1.trans hka.symm, h2, h3⟩
      (rows_strengthen t (fun e he => hc e (List.mem_cons_of_mem _ he)) (fun e he => hk e (List.mem_cons_of_mem _ he)))

theorem argsOk_congr_fn (fn : Fn) {args args' : List Expr}
    (hr : Rows (fun a a' => kindOf a' = kindOf a) args args') (h : argsOk (bodyOf fn) args = true) :
    argsOk (bodyOf fn) args' = true := by
  cases hr with
  | nil => exact h
  | cons h0 t =>
    cases t with
    | nil =>
      cases fn <;> simp only [bodyOf, argsOk] at h ⊢ <;> first | (rw [h0]; exact h) | cases h
    | cons h1 t2 =>
      cases t2 with
      | nil => cases fn <;> simp [bodyOf, argsOk] at h
      | cons h2 t3 =>
        cases t3 with
        | nil =>
          cases fn <;> simp only [bodyOf, argsOk] at h ⊢ <;> first | (rw [h0, h1, h2]; exact h) | cases h
        | cons h3 t4 => cases fn <;> simp [bodyOf, argsOk] at h

theorem coreList_of_rows : ∀ {args args' : List Expr},
    Rows (fun a a' => kindOf a' = kindOf a ∧ core a' = true ∧
      ∀ kv s, Spec.eval a kv = some s → Spec.eval a' kv = some s) args args' → coreList args' = true
  | _, _, .nil => rfl
  | _, _, .cons h t => by simp [coreList, h.2.1, coreList_of_rows t]

theorem evalList_of_rows : ∀ {args args' : List Expr},
    Rows (fun a a' => kindOf a' = kindOf a ∧ core a' = true ∧
      ∀ kv s, Spec.eval a kv = some s → Spec.eval a' kv = some s) args args' →
    ∀ kv ss, Spec.evalList args kv = some ss → Spec.evalList args' kv = some ss
  | _, _, .nil, _, _, h => h
  | _, _, .cons h t, kv, ss, hs => by
    obtain ⟨s, rest, he, hrest, rfl⟩ := evalList_cons hs
    rw [Spec.evalList, h.2.2 kv s he, evalList_of_rows t kv rest hrest]

theorem FS.call (p : Nat) (nm : Expr) {args args' : List Expr} (h : Rows FS args args') :
    FS (.call p nm args) (.call p nm args') := by
  intro k hk hcore
  obtain ⟨fname, fo, b, hn, hf, h1, h2, hb, hargs, rfl⟩ := kindOf_call hk
  simp only [core, Bool.and_eq_true] at hcore
  cases nm with
  | name q f =>
    obtain ⟨fn, hfn⟩ := Option.isSome_iff_exists.mp (by simpa [coreName] using hcore.1)
    obtain ⟨fo', hf', hb'⟩ := ofName_lookup hfn
    have hfname : fname = toLower f := by
      simp only [funcNameOf, Except.ok.injEq] at hn; exact hn.symm
    subst hfname
    rw [hf] at hf'; cases hf'
    rw [hb] at hb'; cases hb'
    have hrows := rows_strengthen h (coreList_mem hcore.2) (argsOk_kinds hargs)
    have hlen : args'.length = args.length := (Rows.length_eq hrows).symm
    have hargs' : argsOk (bodyOf fn) args' = true := argsOk_congr_fn fn (hrows.imp fun _ _ hh => hh.1) hargs
    refine ⟨?_, ?_, ?_⟩
    · rw [kindOf]
      simp only [hn, hf, hb, hlen]
      simp [h1, h2, hargs']
    · simp [core, hcore.1, coreList_of_rows hrows]
    · intro kv s hs
      obtain ⟨fn', ss, hfn', hss, happ⟩ := eval_call hs
      rw [Spec.eval, hfn', evalList_of_rows hrows kv ss hss]
      exact happ
  | _ => simp [coreName] at hcore

/-! ### the recursion of `optimize` -/

/-- what a helper hands back, for the reference -/
structure OutFS (e : Expr) (o : Out) : Prop where
  fs : FS e o.ret
  lit : o.isValue = true → isLit4 o.ret = true
  list : Refine.isListNode e = true → o.ret = e

theorem OutFS.refl (e : Expr) (b : Bool) (hb : b = true → isLit4 e = true) : OutFS e ⟨e, b, e⟩ :=
  ⟨.refl e, hb, fun _ => rfl⟩

mutual
  theorem pass_fs : ∀ (e : Expr) (r : Pass), pass e = .ok r → FS e r.ret
    | .binop p op l r, res, h => by
      rw [pass] at h
      obtain ⟨o, ho, h⟩ := except_bind_ok h
      have oo := binExec_fs (reorder (.binop p op l r)) o ho
      have hre := reorder_fs (.binop p op l r)
      split at h
      · rename_i hv
        cases h
        rw [andOr_lit (oo.lit hv)]
        exact hre.trans oo.fs
      · cases h
        exact (hre.trans oo.fs).trans (andOr_fs o.ret)
    | .call p nm args, res, h => by
      rw [pass] at h
      obtain ⟨o, ho, h⟩ := except_bind_ok h
      have oo := callFold_fs (.call p nm args) o ho
      cases h
      exact oo.fs
    | .field p k, res, h | .str p d, res, h | .not p r, res, h | .name p d, res, h | .ref p n t, res, h
    | .cycle, res, h | .num p d v, res, h | .float p d v, res, h | .bool p d v, res, h | .list p items, res, h
    | .access p l f, res, h => by
      simp only [pass] at h
      cases h
      exact .refl _
  termination_by e => (size e, 2)
  decreasing_by
    · rw [size_reorder]; exact Prod.Lex.right _ (by omega)
    · exact Prod.Lex.right _ (by omega)

  theorem binExec_fs : ∀ (e : Expr) (o : Out), binExec e = .ok o → OutFS e o
    | .binop p op l r, o, h => by
      rw [binExec] at h
      obtain ⟨lo, hlo, h⟩ := except_bind_ok h
      obtain ⟨ro, hro, h⟩ := except_bind_ok h
      have ol := operand_fs l lo hlo
      have or_ := operand_fs r ro hro
      have hnode := FS.binop p op ol.fs or_.fs or_.list
      simp only [] at h
      split at h
      · cases h
        exact ⟨hnode, (fun h => by cases h), fun h => by simp [Refine.isListNode] at h⟩
      · rename_i hv
        simp only [Bool.not_eq_eq_eq_not, Bool.not_true, Bool.and_eq_true, Bool.not_eq_false] at hv
        obtain ⟨fc, hfc, h⟩ := except_bind_ok h
        cases fc with
        | none =>
          cases h
          exact ⟨hnode, (fun h => by cases h), fun h => by simp [Refine.isListNode] at h⟩
        | some k =>
          cases h
          have hl4 := ol.lit (by simpa using hv.1)
          have hr4 := or_.lit (by simpa using hv.2)
          have hk := foldBinary_fs hl4 hr4 hfc
          exact ⟨hnode.trans hk, fun _ => (foldBinary_ok hl4 hr4 hfc).2, fun h => by simp [Refine.isListNode] at h⟩
    | .field p k, o, h | .str p d, o, h | .not p r, o, h | .name p d, o, h | .ref p n t, o, h
    | .cycle, o, h | .num p d v, o, h | .float p d v, o, h | .bool p d v, o, h | .list p items, o, h
    | .access p l f, o, h | .call p nm args, o, h => by
      simp only [binExec] at h
      cases h
      exact .refl _ false (fun h => by cases h)
  termination_by e => (size e, 1)
  decreasing_by
    · exact Prod.Lex.left _ _ (by simp only [size]; omega)
    · exact Prod.Lex.left _ _ (by simp only [size]; omega)

  theorem operand_fs : ∀ (e : Expr) (o : Out), operand e = .ok o → OutFS e o
    | .binop p op l r, o, h => by
      rw [operand] at h
      exact binExec_fs (.binop p op l r) o h
    | .call p nm args, o, h => by
      rw [operand] at h
      exact callFold_fs (.call p nm args) o h
    | .str p d, o, h | .num p d v, o, h | .float p d v, o, h | .bool p d v, o, h => by
      simp only [operand] at h
      cases h
      exact .refl _ true (fun _ => rfl)
    | .field p k, o, h | .not p r, o, h | .name p d, o, h | .ref p n t, o, h
    | .cycle, o, h | .list p items, o, h | .access p l f, o, h => by
      simp only [operand] at h
      cases h
      exact .refl _ false (fun h => by cases h)
  termination_by e => (size e, 2)
  decreasing_by
    · exact Prod.Lex.right _ (by omega)
    · exact Prod.Lex.right _ (by omega)

  theorem callFold_fs : ∀ (e : Expr) (o : Out), callFold e = .ok o → OutFS e o
    | .call p nm args, o, h => by
      rw [callFold] at h
      obtain ⟨args', hargs, h⟩ := except_bind_ok h
      have hrows := optArgs_fs args args' hargs
      have hnode := FS.call p nm hrows
      simp only [] at h
      split at h
      · cases h
        exact ⟨hnode, (fun h => by cases h), fun h => by simp [Refine.isListNode] at h⟩
      · rename_i hv
        simp only [Bool.not_eq_eq_eq_not, Bool.not_true, Bool.and_eq_true, Bool.not_eq_false] at hv
        obtain ⟨fc, hfc, h⟩ := except_bind_ok h
        cases fc with
        | none =>
          cases h
          exact ⟨hnode, (fun h => by cases h), fun h => by simp [Refine.isListNode] at h⟩
        | some k =>
          cases h
          have hall : args'.all isLit4 = true := by simpa using hv.1
          have hk := foldCall_fs hall hfc
          exact ⟨hnode.trans hk, fun _ => (foldCall_ok hall hfc).2, fun h => by simp [Refine.isListNode] at h⟩
    | .field p k, o, h | .str p d, o, h | .not p r, o, h | .name p d, o, h | .ref p n t, o, h
    | .cycle, o, h | .num p d v, o, h | .float p d v, o, h | .bool p d v, o, h | .list p items, o, h
    | .access p l f, o, h | .binop p op l r, o, h => by
      simp only [callFold] at h
      cases h
      exact .refl _ false (fun h => by cases h)
  termination_by e => (size e, 1)
  decreasing_by
    · exact Prod.Lex.left _ _ (by simp only [size]; omega)

  theorem optArgs_fs : ∀ (args args' : List Expr), optArgs args = .ok args' → Rows FS args args'
    | [], args', h => by
      simp only [optArgs] at h
      cases h
      exact .nil
    | a :: rest, args', h => by
      rw [optArgs] at h
      obtain ⟨pa, hpa, h⟩ := except_bind_ok h
      obtain ⟨rest', hrest, h⟩ := except_bind_ok h
      cases h
      exact .cons (pass_fs a pa hpa) (optArgs_fs rest rest' hrest)
  termination_by args => (sizeList args, 0)
  decreasing_by
    · exact Prod.Lex.left _ _ (by simp only [sizeList]; omega)
    · exact Prod.Lex.left _ _ (by simp only [sizeList]; omega)
end

/-- **`Optimize()` against the reference evaluator** -/
theorem optimize_fs {e fw : Expr} (h : Fold.optimize e = .ok fw) : FS e fw := by
  obtain ⟨r, n, hb⟩ := optimizeBoth_total e
  have : r = fw := by
    simp only [Fold.optimize, hb, Except.map] at h
    injection h
  subst this
  rw [optimizeBoth] at hb
  obtain ⟨p1, h1, hb⟩ := except_bind_ok hb
  obtain ⟨p2, h2, hb⟩ := except_bind_ok hb
  cases hb
  exact (pass_fs e p1 h1).trans (pass_fs p1.ret p2 h2)

/-- folding keeps a core-language expression in the core language and reference-evaluable -/
theorem coreLang_fold {w fw : Expr} (hw : CoreLang w) (h : Fold.optimize w = .ok fw) :
    CoreLang fw ∧ ∀ kv, Spec.evaluable w kv = true → Spec.evaluable fw kv = true := by
  obtain ⟨k, hk⟩ := Option.isSome_iff_exists.mp hw.2
  obtain ⟨h1, h2, h3⟩ := optimize_fs h k hk hw.1
  refine ⟨⟨h2, by rw [h1]; rfl⟩, fun kv hev => ?_⟩
  obtain ⟨b, hb⟩ := evaluable_iff.mp hev
  exact evaluable_iff.mpr ⟨b, h3 kv _ hb⟩

end Kvql.Fold.Ref
