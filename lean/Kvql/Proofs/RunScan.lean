/-
  End-to-end proofs, plan half: the trace of a scan (`Run.scanTrace`: `Plans.drain` with the world
  recorded after every poll) IS the run of the plan model, and with a verdict table that is defined
  on the stored pairs of the node's region the outcome of `select *` is the filtered store
  (`scan_rows`, Proofs/ScanRows.lean).
-/
import Kvql.Model.Run
import Kvql.Proofs.ScanRows

namespace Kvql.Proofs.RunScan
open Kvql Kvql.Run Kvql.Plans Kvql.Storage Kvql.Proofs.Scan

/-! ### `scanTraceLoop` = `Plans.drain` -/

theorem pairsOfRows_map (l : List SPair) : pairsOfRows (l.map Row.pair) = l := by
  induction l with
  | nil => rfl
  | cons x r ih => simp only [pairsOfRows, List.map_cons, List.filterMap_cons] at ih ⊢; rw [ih]

theorem pairsOfRows_append (a b : List Row) : pairsOfRows (a ++ b) = pairsOfRows a ++ pairsOfRows b := by
  simp [pairsOfRows, List.filterMap_append]

theorem pairsOfRows_flatten (l : List (List Row)) : pairsOfRows l.flatten = (l.map pairsOfRows).flatten := by
  induction l with
  | nil => rfl
  | cons x r ih => simp [pairsOfRows_append, ih]

/-- when the drain of the plan model succeeds, the trace ends without failure in the same world and
    has handed out, poll by poll, the same pairs -/
theorem scanTraceLoop_ok (cls : Option Project.PErr) (kind : PollKind) (bs : Nat) (w0 : Storage.World) :
    ∀ (fuel : Nat) (plan : Plan) (w : Storage.World) (acc : List (List SPair × Storage.World)) (accR : List (List Row)),
      (drain kind bs fuel plan accR none w).1.outcome = .ok →
      acc.map (·.1) = accR.map pairsOfRows →
      (scanTraceLoop cls kind bs w0 fuel plan w acc).fin = (none, (drain kind bs fuel plan accR none w).2) ∧
      (scanTraceLoop cls kind bs w0 fuel plan w acc).polls.map (·.1) =
        (drain kind bs fuel plan accR none w).1.polls.map pairsOfRows ∧
      (scanTraceLoop cls kind bs w0 fuel plan w acc).w0 = w0
  | 0, plan, w, acc, accR, h, _ => by simp [drain] at h
  | fuel + 1, plan, w, acc, accR, h, hacc => by
    rcases hp : plan.poll kind bs none w with ⟨⟨rows, err, plan'⟩, w'⟩
    cases err with
    | some e => simp [drain, hp] at h
    | none =>
      cases rows with
      | nil => simp [drain, scanTraceLoop, hp, hacc]
      | cons r rs =>
        have hd : drain kind bs (fuel + 1) plan accR none w = drain kind bs fuel plan' (accR ++ [r :: rs]) none w' := by
          simp [drain, hp]
        have ht : scanTraceLoop cls kind bs w0 (fuel + 1) plan w acc =
            scanTraceLoop cls kind bs w0 fuel plan' w' (acc ++ [(pairsOfRows (r :: rs), w')]) := by
          simp [scanTraceLoop, hp]
        rw [hd] at h ⊢
        rw [ht]
        exact scanTraceLoop_ok cls kind bs w0 fuel plan' w' _ _ h (by simp [hacc])

/-- the trace of `select *` over a node when the run of the plan model succeeds -/
theorem scanTrace_ok (node : ScanNode) (v : Verdicts) (kind : PollKind) (bs : Nat) (store : Store)
    (h : (run (.select node (filterOfV v)) kind bs none store).1.outcome = .ok) :
    (scanTrace node v kind bs store).fin = (none, (run (.select node (filterOfV v)) kind bs none store).2) ∧
    (scanTrace node v kind bs store).polls.flatMap (·.1) =
      pairsOfRows (rowsOf (run (.select node (filterOfV v)) kind bs none store)) := by
  unfold scanTrace
  unfold run runG at h ⊢
  rcases hb : buildPlan (.select node (filterOfV v)) none { store := store } with ⟨r, w⟩
  rw [hb] at h
  cases r with
  | error e => simp at h
  | ok plan =>
    simp only at h ⊢
    obtain ⟨h1, h2, _⟩ := scanTraceLoop_ok (firstErr v) kind bs w (plan.size + 2) plan w [] [] h rfl
    refine ⟨h1, ?_⟩
    rw [rowsOf, pairsOfRows_flatten, ← h2, List.flatMap_def]

/-! ### `select *` with a verdict table defined on the region -/

theorem accepts_filterOfV {v : Verdicts} {p : SPair} {b : Bool} (h : v.lookup p.1 = some (.ok b)) :
    accepts (filterOfV v) p = b := by
  unfold accepts filterOfV
  rw [h]
  cases b <;> rfl

theorem evaluable_filterOfV {v : Verdicts} {p : SPair} {b : Bool} (h : v.lookup p.1 = some (.ok b)) :
    Evaluable (filterOfV v) p := ⟨b, by unfold filterOfV; rw [h]⟩

/-- **the plan half of C01 over the end-to-end model.**  If the verdict table gives, for every
    stored pair of the node's region, the verdict `g`, and `g` is false outside the region, then
    `select *` (either mode, every batch size ≥ 1) succeeds, returns the stored pairs with `g`,
    in store order, and leaves the store as it was. -/
theorem star_outcome_of_table (node : ScanNode) (hwf : ScanNode.WellFormed node) (store : Store) (hs : store.Sorted)
    (v : Verdicts) (g : SPair → Bool)
    (hv : ∀ p ∈ store, node.inRegion p.1 = true → v.lookup p.1 = some (.ok (g p)))
    (hcover : ∀ p ∈ store, g p = true → node.inRegion p.1 = true)
    (kind : PollKind) (bs : Nat) (hbs : 1 ≤ bs) :
    (((scanTrace node v kind bs store).map pairRow).outcome).fail = none ∧
    (((scanTrace node v kind bs store).map pairRow).outcome).rows = (store.filter g).map pairRow ∧
    (((scanTrace node v kind bs store).map pairRow).outcome).world.store = store := by
  have hev : ∀ p ∈ store, node.inRegion p.1 = true → Evaluable (filterOfV v) p :=
    fun p hp hr => evaluable_filterOfV (hv p hp hr)
  obtain ⟨h1, h2, h3⟩ := scan_rows node hwf (filterOfV v) store hs hev kind bs hbs
  obtain ⟨t1, t2⟩ := scanTrace_ok node v kind bs store h1
  have hexp : expectedRows node (filterOfV v) store = store.filter g := by
    rw [expectedRows, List.filter_filter]
    apply List.filter_congr
    intro p hp
    cases hr : node.inRegion p.1 with
    | true => simp [accepts_filterOfV (hv p hp hr)]
    | false =>
      cases hg : g p with
      | false => simp
      | true => rw [hcover p hp hg] at hr; cases hr
  refine ⟨?_, ?_, ?_⟩
  · simp [Trace.outcome, Trace.map, t1]
  · simp only [Trace.outcome, Trace.map, List.map_map]
    have : (List.map ((fun (x : List (List Value) × Storage.World) => x.1) ∘ fun (p : List SPair × Storage.World) => (List.map pairRow p.1, p.2))
        (scanTrace node v kind bs store).polls).flatten =
        ((scanTrace node v kind bs store).polls.flatMap (·.1)).map pairRow := by
      rw [List.flatMap_def, List.map_flatten, List.map_map]
      rfl
    rw [this, t2, h2, pairsOfRows_map, hexp]
  · simp [Trace.outcome, Trace.map, t1, h3]

/-! ### the polls of a scan trace are non-empty -/

/-- the final plan of a `select *`: ProjectionPlan{AllFields} over a scan -/
def IsSelect (plan : Plan) : Prop := ∃ node filter st, plan = .select node filter st

/-- a poll of `select *` hands out pairs, and the plan stays what it is -/
theorem poll_select {plan : Plan} (hp : IsSelect plan) (kind : PollKind) (bs : Nat) (w : Storage.World) :
    (∃ ps : List SPair, (plan.poll kind bs none w).1.rows = ps.map Row.pair) ∧ IsSelect (plan.poll kind bs none w).1.plan := by
  obtain ⟨node, filter, st, rfl⟩ := hp
  cases kind with
  | next =>
    simp only [Plan.poll]
    rcases hn : node.next filter st none w with ⟨r, w'⟩
    cases r with
    | error e => exact ⟨⟨[], rfl⟩, _, _, _, rfl⟩
    | ok x =>
      obtain ⟨o, st'⟩ := x
      cases o with
      | none => exact ⟨⟨[], rfl⟩, _, _, _, rfl⟩
      | some p => exact ⟨⟨[p], rfl⟩, _, _, _, rfl⟩
  | batch =>
    simp only [Plan.poll]
    rcases hn : node.batch filter bs st none w with ⟨r, w'⟩
    cases r with
    | error e => exact ⟨⟨[], rfl⟩, _, _, _, rfl⟩
    | ok x =>
      obtain ⟨rows, st'⟩ := x
      exact ⟨⟨rows, rfl⟩, _, _, _, rfl⟩

theorem scanTraceLoop_nonempty (cls : Option Project.PErr) (kind : PollKind) (bs : Nat) (w0 : Storage.World) :
    ∀ (fuel : Nat) (plan : Plan) (w : Storage.World) (acc : List (List SPair × Storage.World)),
      IsSelect plan → (∀ p ∈ acc, p.1 ≠ []) →
      ∀ p ∈ (scanTraceLoop cls kind bs w0 fuel plan w acc).polls, p.1 ≠ []
  | 0, plan, w, acc, _, hacc => by simpa [scanTraceLoop] using hacc
  | fuel + 1, plan, w, acc, hsel, hacc => by
    obtain ⟨⟨ps, hps⟩, hsel'⟩ := poll_select hsel kind bs w
    rcases hp : plan.poll kind bs none w with ⟨⟨rows, err, plan'⟩, w'⟩
    rw [hp] at hps hsel'
    simp only at hps hsel'
    cases err with
    | some e => simpa [scanTraceLoop, hp] using hacc
    | none =>
      cases rows with
      | nil => simpa [scanTraceLoop, hp] using hacc
      | cons r rs =>
        have ht : scanTraceLoop cls kind bs w0 (fuel + 1) plan w acc =
            scanTraceLoop cls kind bs w0 fuel plan' w' (acc ++ [(pairsOfRows (r :: rs), w')]) := by
          simp [scanTraceLoop, hp]
        rw [ht]
        apply scanTraceLoop_nonempty cls kind bs w0 fuel plan' w' _ hsel'
        intro p hp'
        rcases List.mem_append.mp hp' with h | h
        · exact hacc p h
        · simp only [List.mem_singleton] at h
          subst h
          simp only
          rw [hps, pairsOfRows_map]
          intro e
          rw [e] at hps
          cases hps

theorem buildPlan_select_isSelect {node : ScanNode} {filter : Filter} {w w' : Storage.World} {plan : Plan}
    (h : buildPlan (.select node filter) none w = (.ok plan, w')) : IsSelect plan := by
  simp only [buildPlan, buildPlan1, Plan.init, Kvql.Proofs.Plan.run_bind] at h
  rcases h1 : node.init node.newState none w with ⟨r1, w1⟩
  rw [h1] at h
  cases r1 with
  | error e => simp at h
  | ok st1 =>
    simp only [Kvql.Proofs.Plan.run_pure, Kvql.Proofs.Plan.run_bind] at h
    rcases h2 : node.init st1 none w1 with ⟨r2, w2⟩
    rw [h2] at h
    cases r2 with
    | error e => simp at h
    | ok st2 =>
      simp only [Kvql.Proofs.Plan.run_pure, Prod.mk.injEq, Except.ok.injEq] at h
      exact ⟨node, filter, st2, h.1.symm⟩

/-- every poll recorded in the trace of `select *` has at least one pair -/
theorem scanTrace_nonempty (node : ScanNode) (v : Verdicts) (kind : PollKind) (bs : Nat) (store : Store) :
    ∀ p ∈ (scanTrace node v kind bs store).polls, p.1 ≠ [] := by
  unfold scanTrace
  rcases hb : buildPlan (.select node (filterOfV v)) none { store := store } with ⟨r, w⟩
  cases r with
  | error e => simp [Trace.failed]
  | ok plan =>
    simp only
    exact scanTraceLoop_nonempty _ kind bs w _ plan w [] (buildPlan_select_isSelect hb) (by simp)

end Kvql.Proofs.RunScan
