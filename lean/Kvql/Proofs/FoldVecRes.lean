/-
  RE-POINTING AFTER FOLDING.  `optimizeSelectExpressions` (Model/Run.lean `foldSelect`) folds the WHERE and
  every select field, then every alias reference — in the folded WHERE, the folded fields and, nested, in
  the folded field nodes themselves — is re-pointed at the FOLDED node of the field it names
  (`Parser.resolveTop` over the table of folded nodes).  C04 and its analogues (Proofs/FoldVecGen.lean)
  speak of one expression; this file relates the statement as a whole: for any system of relations `Y`
  closed under the rewriting steps AND under `.ref` / `.not` (`RSys`),

      Y.S  (parsed WHERE)      (folded, re-pointed WHERE)
      Y.S  (parsed field i)    (folded, re-pointed field i)
      Y.F  (parsed field i)    (folded, re-pointed node i)        (`foldSelect_rel`)

  for a SELECT `planStage` accepts.  Proof: folding never looks into a reference, so the folded trees carry
  the parsed references (`subSys`: the top-level references of a folded tree are top-level references of
  the original); every reference of an accepted statement carries THE field of its name
  (`accepted_refs`, `resolve_indep`); re-pointing replaces that copy `t` by the re-pointed folded node `n`
  of the same field, and `F t n` by folding, `F n (re-pointed n)` by induction on the size of `t` — which
  also shows that no cycle marker is produced and the fuel never runs out.
  SIDE CONDITION `plain` (decidable): alias references occur as operands of binary operators, under `!`,
  as call arguments and inside the copies references carry — not inside an IN / BETWEEN list nor under a
  field access (there a reference changes the tree `in` / `between` inspect, and C04's `ShapeOK` asks for
  the SAME list).
-/
import Kvql.Proofs.FoldVecGen
import Kvql.Proofs.TypingAliasFunctional
import Kvql.Proofs.RunFieldsStmt

namespace Kvql
open Generated
namespace Fold
open Kvql.Parser Kvql.Proofs.Typing Kvql.Proofs.RunFold

/-! ### where references may sit -/

mutual
  /-- alias references only as operands of binary operators, under `!`, as call arguments, and (nested)
      in the copies references carry; no cycle marker -/
  def plain : Expr → Bool
    | .binop _ _ l r => plain l && plain r
    | .not _ r => plain r
    | .call _ n args => aliasFree n && plainList args
    | .ref _ _ t => plain t
    | .list _ items => aliasFree.aliasFreeList items
    | .access _ l f => aliasFree l && aliasFree f
    | .cycle => false
    | _ => true
  def plainList : List Expr → Bool
    | [] => true
    | e :: es => plain e && plainList es
end

mutual
  /-- the reference nodes of a tree that are not inside another reference's copy -/
  def topRefs : Expr → List (Nat × Bytes × Expr)
    | .binop _ _ l r => topRefs l ++ topRefs r
    | .not _ r => topRefs r
    | .call _ _ args => topRefsList args
    | .ref p nm t => [(p, nm, t)]
    | _ => []
  def topRefsList : List Expr → List (Nat × Bytes × Expr)
    | [] => []
    | e :: es => topRefs e ++ topRefsList es
end

theorem plain_of_lit {e : Expr} (h : isLit4 e = true) : plain e = true := by
  cases e <;> simp [isLit4] at h <;> rfl

theorem topRefs_of_lit {e : Expr} (h : isLit4 e = true) : topRefs e = [] := by
  cases e <;> simp [isLit4] at h <;> rfl

mutual
  /-- a top-level reference carries a strictly smaller tree -/
  theorem topRefs_size : ∀ (e : Expr) (x : Nat × Bytes × Expr), x ∈ topRefs e → size x.2.2 < size e
    | .binop _ _ l r, x, h => by
      simp only [topRefs, List.mem_append] at h
      simp only [size]
      rcases h with h | h
      · have := topRefs_size l x h; omega
      · have := topRefs_size r x h; omega
    | .not _ r, x, h => by
      simp only [topRefs] at h
      simp only [size]
      have := topRefs_size r x h; omega
    | .call _ n args, x, h => by
      simp only [topRefs] at h
      simp only [size]
      have := topRefsList_size args x h; omega
    | .ref p nm t, x, h => by
      simp only [topRefs, List.mem_singleton] at h
      subst h
      simp only [size]; omega
    | .field .., x, h | .str .., x, h | .name .., x, h | .cycle, x, h | .num .., x, h | .float .., x, h
    | .bool .., x, h | .list .., x, h | .access .., x, h => by simp [topRefs] at h
  theorem topRefsList_size : ∀ (es : List Expr) (x : Nat × Bytes × Expr), x ∈ topRefsList es → size x.2.2 < sizeList es
    | [], x, h => by simp [topRefsList] at h
    | e :: es, x, h => by
      simp only [topRefsList, List.mem_append] at h
      simp only [sizeList]
      rcases h with h | h
      · have := topRefs_size e x h; omega
      · have := topRefsList_size es x h; omega
end

mutual
  /-- top-level references are references (`Cache.refs` lists the nested ones too) -/
  theorem topRefs_refs : ∀ (e : Expr), plain e = true → ∀ x ∈ topRefs e, (x.2.1, x.2.2) ∈ Kvql.Cache.refs e
    | .binop _ _ l r, hp, x, h => by
      simp only [plain, Bool.and_eq_true] at hp
      simp only [topRefs, List.mem_append] at h
      simp only [Kvql.Cache.refs, List.mem_append]
      rcases h with h | h
      · exact .inl (topRefs_refs l hp.1 x h)
      · exact .inr (topRefs_refs r hp.2 x h)
    | .not _ r, hp, x, h => by
      simp only [plain] at hp
      simp only [topRefs] at h
      simp only [Kvql.Cache.refs]
      exact topRefs_refs r hp x h
    | .call _ n args, hp, x, h => by
      simp only [plain, Bool.and_eq_true] at hp
      simp only [topRefs] at h
      simp only [Kvql.Cache.refs]
      exact topRefsList_refs args hp.2 x h
    | .ref p nm t, _, x, h => by
      simp only [topRefs, List.mem_singleton] at h
      subst h
      simp [Kvql.Cache.refs]
    | .field .., _, x, h | .str .., _, x, h | .name .., _, x, h | .cycle, _, x, h | .num .., _, x, h
    | .float .., _, x, h | .bool .., _, x, h | .list .., _, x, h | .access .., _, x, h => by simp [topRefs] at h
  theorem topRefsList_refs : ∀ (es : List Expr), plainList es = true → ∀ x ∈ topRefsList es,
      (x.2.1, x.2.2) ∈ Kvql.Cache.refsList es
    | [], _, x, h => by simp [topRefsList] at h
    | e :: es, hp, x, h => by
      simp only [plainList, Bool.and_eq_true] at hp
      simp only [topRefsList, List.mem_append] at h
      simp only [Kvql.Cache.refsList, List.mem_append]
      rcases h with h | h
      · exact .inl (topRefs_refs e hp.1 x h)
      · exact .inr (topRefsList_refs es hp.2 x h)
end

mutual
  /-- the references of a reference's copy are references of the tree, and copies of a `plain` tree are `plain` -/
  theorem refs_closed : ∀ (e : Expr) (q : Bytes × Expr), q ∈ Kvql.Cache.refs e → ∀ q' ∈ Kvql.Cache.refs q.2,
      q' ∈ Kvql.Cache.refs e
    | .binop _ _ l r, q, h, q', h' => by
      simp only [Kvql.Cache.refs, List.mem_append] at h ⊢
      rcases h with h | h
      · exact .inl (refs_closed l q h q' h')
      · exact .inr (refs_closed r q h q' h')
    | .not _ r, q, h, q', h' => by
      simp only [Kvql.Cache.refs] at h ⊢
      exact refs_closed r q h q' h'
    | .call _ n args, q, h, q', h' => by
      simp only [Kvql.Cache.refs] at h ⊢
      exact refsList_closed args q h q' h'
    | .list _ items, q, h, q', h' => by
      simp only [Kvql.Cache.refs] at h ⊢
      exact refsList_closed items q h q' h'
    | .access _ l f, q, h, q', h' => by
      simp only [Kvql.Cache.refs] at h ⊢
      exact refs_closed l q h q' h'
    | .ref p nm t, q, h, q', h' => by
      simp only [Kvql.Cache.refs, List.mem_cons] at h ⊢
      rcases h with rfl | h
      · exact .inr h'
      · exact .inr (refs_closed t q h q' h')
    | .field .., q, h, _, _ | .str .., q, h, _, _ | .name .., q, h, _, _ | .cycle, q, h, _, _ | .num .., q, h, _, _
    | .float .., q, h, _, _ | .bool .., q, h, _, _ => by simp [Kvql.Cache.refs] at h
  theorem refsList_closed : ∀ (es : List Expr) (q : Bytes × Expr), q ∈ Kvql.Cache.refsList es →
      ∀ q' ∈ Kvql.Cache.refs q.2, q' ∈ Kvql.Cache.refsList es
    | [], q, h, _, _ => by simp [Kvql.Cache.refsList] at h
    | e :: es, q, h, q', h' => by
      simp only [Kvql.Cache.refsList, List.mem_append] at h ⊢
      rcases h with h | h
      · exact .inl (refs_closed e q h q' h')
      · exact .inr (refsList_closed es q h q' h')
end

mutual
  theorem refs_of_aliasFree : ∀ e : Expr, aliasFree e = true → Kvql.Cache.refs e = []
    | .binop _ _ l r, h => by
      simp only [aliasFree, Bool.and_eq_true] at h
      simp [Kvql.Cache.refs, refs_of_aliasFree l h.1, refs_of_aliasFree r h.2]
    | .not _ r, h => by
      simp only [aliasFree] at h
      simp [Kvql.Cache.refs, refs_of_aliasFree r h]
    | .call _ n args, h => by
      simp only [aliasFree, Bool.and_eq_true] at h
      simp [Kvql.Cache.refs, refsList_of_aliasFree args h.2]
    | .list _ items, h => by
      simp only [aliasFree] at h
      simp [Kvql.Cache.refs, refsList_of_aliasFree items h]
    | .access _ l f, h => by
      simp only [aliasFree, Bool.and_eq_true] at h
      simp [Kvql.Cache.refs, refs_of_aliasFree l h.1]
    | .ref .., h => by simp [aliasFree] at h
    | .cycle, _ | .field .., _ | .str .., _ | .name .., _ | .num .., _ | .float .., _ | .bool .., _ => by
      simp [Kvql.Cache.refs]
  theorem refsList_of_aliasFree : ∀ es : List Expr, aliasFree.aliasFreeList es = true → Kvql.Cache.refsList es = []
    | [], _ => rfl
    | e :: es, h => by
      simp only [aliasFree.aliasFreeList, Bool.and_eq_true] at h
      simp [Kvql.Cache.refsList, refs_of_aliasFree e h.1, refsList_of_aliasFree es h.2]
end

mutual
  theorem refs_plain : ∀ (e : Expr), plain e = true → ∀ q ∈ Kvql.Cache.refs e, plain q.2 = true
    | .binop _ _ l r, hp, q, h => by
      simp only [plain, Bool.and_eq_true] at hp
      simp only [Kvql.Cache.refs, List.mem_append] at h
      rcases h with h | h
      · exact refs_plain l hp.1 q h
      · exact refs_plain r hp.2 q h
    | .not _ r, hp, q, h => by
      simp only [plain] at hp
      simp only [Kvql.Cache.refs] at h
      exact refs_plain r hp q h
    | .call _ n args, hp, q, h => by
      simp only [plain, Bool.and_eq_true] at hp
      simp only [Kvql.Cache.refs] at h
      exact refsList_plain args hp.2 q h
    | .list _ items, hp, q, h => by
      simp only [plain] at hp
      simp only [Kvql.Cache.refs, refsList_of_aliasFree items hp] at h
      cases h
    | .access _ l f, hp, q, h => by
      simp only [plain, Bool.and_eq_true] at hp
      simp only [Kvql.Cache.refs, refs_of_aliasFree l hp.1] at h
      cases h
    | .ref p nm t, hp, q, h => by
      simp only [plain] at hp
      simp only [Kvql.Cache.refs, List.mem_cons] at h
      rcases h with rfl | h
      · exact hp
      · exact refs_plain t hp q h
    | .field .., _, q, h | .str .., _, q, h | .name .., _, q, h | .cycle, _, q, h | .num .., _, q, h
    | .float .., _, q, h | .bool .., _, q, h => by simp [Kvql.Cache.refs] at h
  theorem refsList_plain : ∀ (es : List Expr), plainList es = true → ∀ q ∈ Kvql.Cache.refsList es, plain q.2 = true
    | [], _, q, h => by simp [Kvql.Cache.refsList] at h
    | e :: es, hp, q, h => by
      simp only [plainList, Bool.and_eq_true] at hp
      simp only [Kvql.Cache.refsList, List.mem_append] at h
      rcases h with h | h
      · exact refs_plain e hp.1 q h
      · exact refsList_plain es hp.2 q h
end

/-! ### systems closed under `.ref` and `.not` -/

/-- a `Sys` whose strong relation keeps the static type and is also a congruence for `.ref` (the copy a
    reference carries) and `.not` -/
structure RSys extends Sys where
  ty : ∀ {a b : Expr}, F a b → retType b = retType a
  ref : ∀ (p : Nat) (nm : Bytes) {t t' : Expr}, F t t' → F (.ref p nm t) (.ref p nm t')
  not : ∀ (p : Nat) {r r' : Expr}, F r r' → F (.not p r) (.not p r')

mutual
  /-- replacing the top-level references of a `plain` tree by `F`-related trees gives an `F`-related tree -/
  theorem mapRefs_F (Y : RSys) (g : Nat → Bytes → Expr → Expr) : ∀ (e : Expr), plain e = true →
      (∀ x ∈ topRefs e, Y.F (.ref x.1 x.2.1 x.2.2) (g x.1 x.2.1 x.2.2)) → Y.F e (mapRefs g e)
    | .binop p op l r, hp, h => by
      simp only [plain, Bool.and_eq_true] at hp
      rw [mapRefs]
      exact Y.binop p op
        (mapRefs_F Y g l hp.1 fun x hx => h x (by simp only [topRefs, List.mem_append]; exact .inl hx))
        (mapRefs_F Y g r hp.2 fun x hx => h x (by simp only [topRefs, List.mem_append]; exact .inr hx))
    | .not p r, hp, h => by
      simp only [plain] at hp
      rw [mapRefs]
      exact Y.not p (mapRefs_F Y g r hp fun x hx => h x (by simp only [topRefs]; exact hx))
    | .call p n args, hp, h => by
      simp only [plain, Bool.and_eq_true] at hp
      rw [mapRefs, mapRefs_of_af g n hp.1]
      exact Y.call p n (mapRefsList_F Y g args hp.2 fun x hx => h x (by simp only [topRefs]; exact hx))
    | .ref p nm t, _, h => by
      rw [mapRefs]
      exact h (p, nm, t) (by simp [topRefs])
    | .list p items, hp, _ => by
      simp only [plain] at hp
      rw [mapRefs, mapRefsList_of_af g items hp]
      exact Y.F_refl _
    | .access p l f, hp, _ => by
      simp only [plain, Bool.and_eq_true] at hp
      rw [mapRefs, mapRefs_of_af g l hp.1, mapRefs_of_af g f hp.2]
      exact Y.F_refl _
    | .cycle, hp, _ => by simp [plain] at hp
    | .field .., _, _ | .str .., _, _ | .name .., _, _ | .num .., _, _ | .float .., _, _ | .bool .., _, _ => by
      simp only [mapRefs]; exact Y.F_refl _
  theorem mapRefsList_F (Y : RSys) (g : Nat → Bytes → Expr → Expr) : ∀ (es : List Expr), plainList es = true →
      (∀ x ∈ topRefsList es, Y.F (.ref x.1 x.2.1 x.2.2) (g x.1 x.2.1 x.2.2)) →
      Rows (fun a a' => Y.S a a' ∧ WeakTy a a') es (mapRefsList g es)
    | [], _, _ => by rw [mapRefsList]; exact .nil
    | e :: es, hp, h => by
      simp only [plainList, Bool.and_eq_true] at hp
      rw [mapRefsList]
      have he := mapRefs_F Y g e hp.1 fun x hx => h x (by simp only [topRefsList, List.mem_append]; exact .inl hx)
      exact .cons ⟨Y.S_of_F he, .inl (Y.ty he)⟩
        (mapRefsList_F Y g es hp.2 fun x hx => h x (by simp only [topRefsList, List.mem_append]; exact .inr hx))
end

/-! ### folding carries the references along -/

/-- `e'` sits where `e` sat as far as references go: `plain` is kept, and the top-level references of `e'`
    are top-level references of `e` -/
def RefsSub (e e' : Expr) : Prop := (plain e = true → plain e' = true) ∧ ∀ x ∈ topRefs e', x ∈ topRefs e

theorem RefsSub.refl (e : Expr) : RefsSub e e := ⟨id, fun _ h => h⟩
theorem RefsSub.trans {a b c : Expr} (h1 : RefsSub a b) (h2 : RefsSub b c) : RefsSub a c :=
  ⟨fun h => h2.1 (h1.1 h), fun x h => h1.2 x (h2.2 x h)⟩

theorem refsSub_lit {e k : Expr} (hk : isLit4 k = true) : RefsSub e k :=
  ⟨fun _ => plain_of_lit hk, fun x h => by rw [topRefs_of_lit hk] at h; cases h⟩

theorem refsSub_rows : ∀ {args args' : List Expr}, Rows RefsSub args args' →
    (plainList args = true → plainList args' = true) ∧ ∀ x ∈ topRefsList args', x ∈ topRefsList args
  | _, _, .nil => ⟨id, fun _ h => h⟩
  | _, _, .cons ha hr => by
    obtain ⟨ih1, ih2⟩ := refsSub_rows hr
    refine ⟨fun h => ?_, fun x h => ?_⟩
    · simp only [plainList, Bool.and_eq_true] at h ⊢
      exact ⟨ha.1 h.1, ih1 h.2⟩
    · simp only [topRefsList, List.mem_append] at h ⊢
      rcases h with h | h
      · exact .inl (ha.2 x h)
      · exact .inr (ih2 x h)

theorem refsSub_andOr (e : Expr) : RefsSub e (andOr e).1 := by
  cases e with
  | binop p op l r =>
    have hl : RefsSub (.binop p op l r) l :=
      ⟨fun h => by simp only [plain, Bool.and_eq_true] at h; exact h.1,
       fun x h => by simp only [topRefs, List.mem_append]; exact .inl h⟩
    have hr : RefsSub (.binop p op l r) r :=
      ⟨fun h => by simp only [plain, Bool.and_eq_true] at h; exact h.2,
       fun x h => by simp only [topRefs, List.mem_append]; exact .inr h⟩
    by_cases hop : op = .and ∨ op = .or
    · have hne : (op != .and && op != .or) = false := by rcases hop with h | h <;> subst h <;> rfl
      rcases notBool_cases l with ⟨pl, dl, lv, rfl⟩ | hl'
      · rcases notBool_cases r with ⟨pr, dr, rv, rfl⟩ | hr'
        · rw [andOr_bothLit pl dl lv pr dr rv hne]; split <;> exact refsSub_lit rfl
        · rw [andOr_leftLit pl dl lv hne hr']; split <;> split <;> first | exact refsSub_lit rfl | exact hr
      · rcases notBool_cases r with ⟨pr, dr, rv, rfl⟩ | hr'
        · rw [andOr_rightLit pr dr rv hne hl']; split <;> split <;> first | exact refsSub_lit rfl | exact hl
        · rw [andOr_noLit hl' hr']; exact .refl _
    · have : (op != .and && op != .or) = true := by
        cases op <;> simp at hop <;> rfl
      simp only [andOr, this, if_true]
      exact .refl _
  | _ => simp only [andOr]; exact .refl _

/-- the instance: folding never looks into a reference -/
def subSys : Sys where
  F := fun e e' => FoldRel e e' ∧ RefsSub e e'
  S := fun e e' => Sem e e' ∧ RefsSub e e'
  F_refl := fun e => ⟨.refl e, .refl e⟩
  F_trans := fun h1 h2 => ⟨h1.1.trans h2.1, h1.2.trans h2.2⟩
  S_of_F := fun h => ⟨h.1.sem, h.2⟩
  S_trans := fun h1 h2 => ⟨h1.1.trans h2.1, h1.2.trans h2.2⟩
  binop := fun p op _ _ _ _ hl hr =>
    ⟨FoldRel.binop p op hl.1 hr.1,
     fun h => by
      simp only [plain, Bool.and_eq_true] at h ⊢
      exact ⟨hl.2.1 h.1, hr.2.1 h.2⟩,
     fun x h => by
      simp only [topRefs, List.mem_append] at h ⊢
      rcases h with h | h
      · exact .inl (hl.2.2 x h)
      · exact .inr (hr.2.2 x h)⟩
  call := fun p nm _ _ h =>
    have hs := refsSub_rows (h.imp fun _ _ ⟨⟨_, hk⟩, _⟩ => hk)
    ⟨FoldRel.call p nm (h.imp fun _ _ ⟨⟨hs, _⟩, ht⟩ => ⟨hs, ht⟩),
     fun hp => by
      simp only [plain, Bool.and_eq_true] at hp ⊢
      exact ⟨hp.1, hs.1 hp.2⟩,
     fun x hx => by
      simp only [topRefs] at hx ⊢
      exact hs.2 x hx⟩
  foldBinary := fun hl hr h =>
    let ⟨hrow, hk⟩ := foldBinary_ok hl hr h
    ⟨hrow, refsSub_lit hk⟩
  foldCall := fun hl h =>
    let ⟨hrow, hk⟩ := foldCall_ok hl h
    ⟨hrow, refsSub_lit hk⟩
  assoc := fun p q _ _ _ _ hop h =>
    ⟨assoc_ok p q hop h,
     fun hp => by
      simp only [plain, Bool.and_eq_true] at hp ⊢
      exact ⟨hp.1.1, hp.1.2, hp.2⟩,
     fun x hx => by
      simp only [topRefs, List.mem_append] at hx ⊢
      rcases hx with hx | hx | hx
      · exact .inl (.inl hx)
      · exact .inl (.inr hx)
      · exact .inr hx⟩
  andOr := fun e => ⟨(andOr_ok e).sem, refsSub_andOr e⟩

/-! ### re-pointing a folded tree -/

/-- what re-pointing needs to know: the table of folded nodes; the parsed fields; which references are
    the statement's.  Every such reference `(nm, t)` carries the parsed field `t` of index `i`, the table
    finds the folded node `n` of that field under `nm`, and `n` is `t` folded. -/
structure Env (Y : RSys) where
  tbl : Tbl
  flds : List Expr
  G : Bytes × Expr → Prop
  hG : ∀ nm t, G (nm, t) → ∃ i n, tbl.find nm = some (i, n) ∧ flds[i]? = some t ∧ Y.F t n ∧ RefsSub t n ∧ plain t = true
  closed : ∀ nm t, G (nm, t) → ∀ x ∈ topRefs t, G (x.2.1, x.2.2)

/-- **re-pointing is `F`-related**: a `plain` tree whose top-level references are the statement's, all
    carrying copies smaller than `m`, while every field on the path being expanded is at least that big -/
theorem resolve_F (Y : RSys) (E : Env Y) : ∀ (m : Nat) (e0 : Expr) (fuel : Nat) (path : List Nat),
    plain e0 = true → (∀ x ∈ topRefs e0, E.G (x.2.1, x.2.2) ∧ size x.2.2 < m) → PInv E.tbl fuel path →
    (∀ j ∈ path, ∃ t, E.flds[j]? = some t ∧ m ≤ size t) → Y.F e0 (resolve E.tbl fuel path e0) := by
  intro m
  induction m using Nat.strongRecOn with
  | _ m ih =>
    intro e0 fuel path hpl hrefs hinv hpath
    obtain ⟨g, rfl⟩ := hinv.pos
    rw [resolve_succ]
    refine mapRefs_F Y (rg E.tbl g path) e0 hpl fun x hx => ?_
    obtain ⟨p, nm, t⟩ := x
    obtain ⟨hg, hsz⟩ := hrefs _ hx
    simp only at hg hsz ⊢
    obtain ⟨i, n, hfind, hfld, hF, hsub, hplt⟩ := E.hG nm t hg
    unfold rg
    rw [hfind]
    simp only
    have hni : i ∉ path := by
      intro hi
      obtain ⟨t', ht', hm⟩ := hpath i hi
      rw [hfld] at ht'
      cases ht'
      omega
    have hc : path.contains i = false := by
      cases hcc : path.contains i
      · rfl
      · exact absurd (List.contains_iff_mem.mp hcc) hni
    rw [hc]
    simp only [Bool.false_eq_true, if_false]
    refine Y.ref p nm (Y.F_trans hF ?_)
    refine ih (size t) hsz n g (i :: path) (hsub.1 hplt) (fun y hy => ?_)
      (hinv.step hni (Kvql.Proofs.ParserTotal.Tbl.find_lt hfind)) (fun j hj => ?_)
    · have hy' := hsub.2 y hy
      exact ⟨E.closed nm t hg y hy', topRefs_size t y hy'⟩
    · rcases List.mem_cons.mp hj with rfl | hj'
      · exact ⟨t, hfld, Nat.le_refl _⟩
      · obtain ⟨t', ht', hm⟩ := hpath j hj'
        exact ⟨t', ht', by omega⟩

/-- at the top (`resolveTop`): no path, full fuel -/
theorem resolveTop_F (Y : RSys) (E : Env Y) (e0 : Expr) (hpl : plain e0 = true)
    (hrefs : ∀ x ∈ topRefs e0, E.G (x.2.1, x.2.2)) : Y.F e0 (resolveTop E.tbl e0) := by
  unfold resolveTop
  exact resolve_F Y E (size e0) e0 _ [] hpl (fun x hx => ⟨hrefs x hx, topRefs_size e0 x hx⟩) (PInv.top _)
    (fun j hj => by cases hj)

end Fold
end Kvql
