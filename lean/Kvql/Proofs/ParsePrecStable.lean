/-
  C15 — the result of the expression parser does not depend on the fuel (once it suffices), nor
  on the nesting level at which it is entered (below the limit), nor on what follows a complete
  expression (as long as that cannot continue it).  Consequence: for *any* token list that
  `parseExpr` reads completely, enclosing it in any number of parentheses gives exactly the same
  tree (positions included).
-/
import Kvql.Proofs.ParsePrecPos

set_option linter.unusedSimpArgs false
set_option linter.unusedVariables false

namespace Kvql.Proofs.ParsePrec

open Kvql Kvql.Parser Kvql.Generated Kvql.Proofs.PrintLex Kvql.Proofs.PrintParse

/-- the right run returns the same value and the same remainder followed by `sfx` -/
def RS {α : Type} (sfx : Toks) (a a' : α × Toks) : Prop := a' = (a.1, a.2 ++ sfx)

/-- for `parseItems`: a left run that ends at the end of input is doomed (its caller expects the
    closing token) and nothing is claimed for it -/
def SimI {α : Type} (sfx : Toks) (r r' : Res (α × Toks)) : Prop :=
  match r with
  | .ok a => a.2 = [] ∨ r' = .ok (a.1, a.2 ++ sfx)
  | _ => True

theorem SimI.bind_left {α β : Type} {sfx : Toks} {r r' : Res (α × Toks)} {f f' : α × Toks → Res (β × Toks)}
    (h : Sim (RS sfx) r r') (hf : ∀ a, SimI sfx (f a) (f' (a.1, a.2 ++ sfx))) :
    SimI sfx (r >>= f) (r' >>= f') := by
  cases r with
  | ok a =>
    obtain ⟨a', rfl, ha⟩ := h
    rw [ha]
    exact hf a
  | _ => simp [SimI, Bind.bind, Res.bind]

/-- after `parseItems` comes `expect close` -/
theorem sim_items_then {α β : Type} {sfx : Toks} {r r' : Res (α × Toks)} {tp : Nat}
    {g g' : α → Toks → Res (β × Toks)} (h : SimI sfx r r')
    (hg : ∀ a ts, Sim (RS sfx) (g a ts) (g' a (ts ++ sfx))) :
    Sim (RS sfx) (r >>= fun a => expect tp a.2 >>= fun ts => g a.1 ts)
      (r' >>= fun a => expect tp a.2 >>= fun ts => g' a.1 ts) := by
  cases r with
  | ok a =>
    rcases h with hnil | hr
    · simp only [Res.bind_ok, hnil]
      simp [expect, eofErr, Sim, Bind.bind, Res.bind]
    · rw [hr]
      simp only [Res.bind_ok]
      cases hts : a.2 with
      | nil => simp [expect, eofErr, Sim, Bind.bind, Res.bind]
      | cons t rest =>
        simp only [expect, List.cons_append]
        split
        · simp [synErr, Sim, Bind.bind, Res.bind]
        · simp only [Res.bind_ok]
          exact hg _ _
  | _ => simp [Sim, Bind.bind, Res.bind]

theorem sim_expect_sfx (tp : Nat) (ts sfx : Toks) :
    Sim (fun a a' => a' = a ++ sfx) (expect tp ts) (expect tp (ts ++ sfx)) := by
  cases ts with
  | nil => simp [expect, eofErr, Sim]
  | cons t rest =>
    simp only [expect, List.cons_append]
    split
    · simp [synErr, Sim]
    · exact sim_ok rfl

variable (pf : Bytes → F64)

structure StIH (fuel : Nat) : Prop where
  binary : ∀ lev lev' prec f' ts sfx, fuel ≤ f' → lev' + fuel ≤ maxNest → 1 ≤ prec → StopB 1 sfx →
    Sim (RS sfx) (parseBinaryExpr pf fuel lev prec ts) (parseBinaryExpr pf f' lev' prec (ts ++ sfx))
  bloop : ∀ lev lev' prec x f' ts sfx, fuel ≤ f' → lev' + fuel ≤ maxNest + 1 → 1 ≤ prec → StopB 1 sfx →
    Sim (RS sfx) (binaryLoop pf fuel lev prec x ts) (binaryLoop pf f' lev' prec x (ts ++ sfx))
  unary : ∀ lev lev' f' ts sfx, fuel ≤ f' → lev' + fuel ≤ maxNest → StopB 1 sfx →
    Sim (RS sfx) (parseUnaryExpr pf fuel lev ts) (parseUnaryExpr pf f' lev' (ts ++ sfx))
  primary : ∀ lev lev' f' ts sfx, fuel ≤ f' → lev' + fuel ≤ maxNest → StopB 1 sfx →
    Sim (RS sfx) (parsePrimaryExpr pf fuel lev ts) (parsePrimaryExpr pf f' lev' (ts ++ sfx))
  ploop : ∀ lev lev' x f' ts sfx, fuel ≤ f' → lev' + fuel ≤ maxNest + 1 → StopB 1 sfx →
    Sim (RS sfx) (primaryLoop pf fuel lev x ts) (primaryLoop pf f' lev' x (ts ++ sfx))
  operand : ∀ lev lev' f' ts sfx, fuel ≤ f' → lev' + fuel ≤ maxNest → StopB 1 sfx →
    Sim (RS sfx) (parseOperand pf fuel lev ts) (parseOperand pf f' lev' (ts ++ sfx))
  items : ∀ lev lev' close strict acc f' ts sfx, fuel ≤ f' → lev' + fuel ≤ maxNest → StopB 1 sfx →
    SimI sfx (parseItems pf fuel lev close strict acc ts) (parseItems pf f' lev' close strict acc (ts ++ sfx))
  call : ∀ lev lev' fn f' ts sfx, fuel ≤ f' → lev' + fuel ≤ maxNest → StopB 1 sfx →
    Sim (RS sfx) (parseFuncCall pf fuel lev fn ts) (parseFuncCall pf f' lev' fn (ts ++ sfx))
  access : ∀ lev lev' pos l f' ts sfx, fuel ≤ f' → lev' + fuel ≤ maxNest → StopB 1 sfx →
    Sim (RS sfx) (parseFieldAccess pf fuel lev pos l ts) (parseFieldAccess pf f' lev' pos l (ts ++ sfx))
  list : ∀ lev lev' pos f' ts sfx, fuel ≤ f' → lev' + fuel ≤ maxNest → StopB 1 sfx →
    Sim (RS sfx) (parseList pf fuel lev pos ts) (parseList pf f' lev' pos (ts ++ sfx))
  between : ∀ lev lev' pos oprec f' ts sfx, fuel ≤ f' → lev' + fuel ≤ maxNest → 1 ≤ oprec → StopB 1 sfx →
    Sim (RS sfx) (parseBetween pf fuel lev pos oprec ts) (parseBetween pf f' lev' pos oprec (ts ++ sfx))

theorem st_zero : StIH pf 0 := by
  constructor <;> intros <;>
    simp [parseBinaryExpr, binaryLoop, parseUnaryExpr, parsePrimaryExpr, primaryLoop, parseOperand,
      parseItems, parseFuncCall, parseFieldAccess, parseList, parseBetween, Sim, SimI]

theorem st_step {fuel : Nat} (ih : StIH pf fuel) : StIH pf (fuel + 1) := by
  constructor
  · -- binary
    intro lev lev' prec f' ts sfx hf hl hp hs
    obtain ⟨k, rfl⟩ : ∃ k, f' = k + 1 := ⟨f' - 1, by omega⟩
    unfold parseBinaryExpr
    apply Sim.bind (ih.unary lev lev' k ts sfx (by omega) (by omega) hs)
    rintro ⟨x, r⟩ _ rfl
    exact ih.bloop _ _ _ _ _ _ _ (by omega) (by omega) hp hs
  · -- bloop
    intro lev lev' prec x f' ts sfx hf hl hp hs
    obtain ⟨k, rfl⟩ : ∃ k, f' = k + 1 := ⟨f' - 1, by omega⟩
    unfold binaryLoop
    have hl' : ¬ lev' > maxNest := by omega
    by_cases hlev : lev > maxNest
    · simp only [hlev, if_true]; exact sim_err _ _
    · simp only [hlev, hl', if_false]
      cases ts with
      | nil =>
        simp only [List.nil_append]
        cases sfx with
        | nil => exact sim_ok rfl
        | cons t r =>
          have := (hs t rfl).2.2
          have hlt : t.prec < prec := by omega
          simp only [hlt, if_true]
          exact sim_ok rfl
      | cons t rest =>
        simp only [List.cons_append]
        by_cases hlt : t.prec < prec
        · simp only [hlt, if_true]
          exact sim_ok rfl
        · simp only [hlt, Bool.false_eq_true, if_false]
          apply Sim.bind (R := RS sfx)
          · by_cases hin : t.str == "in"
            · simp only [hin, if_true]
              cases rest with
              | nil => exact sim_err _ _
              | cons t2 r2 =>
                simp only [List.cons_append]
                by_cases hlp : t2.tp == tkLPAREN
                · simp only [hlp, if_true]
                  exact ih.list _ _ _ _ (t2 :: r2) sfx (by omega) (by omega) hs
                · simp only [hlp, Bool.false_eq_true, if_false]
                  exact ih.binary _ _ _ _ (t2 :: r2) sfx (by omega) (by omega) (by omega) hs
            · simp only [hin, Bool.false_eq_true, if_false]
              by_cases hbt : t.str == "between"
              · simp only [hbt, if_true]
                exact ih.between _ _ _ _ _ _ _ (by omega) (by omega) (by omega) hs
              · simp only [hbt, Bool.false_eq_true, if_false]
                exact ih.binary _ _ _ _ _ _ (by omega) (by omega) (by omega) hs
          · rintro ⟨y, r⟩ _ rfl
            cases hb : buildOp t.pos t.str with
            | ok op =>
              simp only [Res.bind_ok]
              exact ih.bloop _ _ _ _ _ _ _ (by omega) (by omega) hp hs
            | _ => simp [Sim, Bind.bind, Res.bind]
  · -- unary
    intro lev lev' f' ts sfx hf hl hs
    obtain ⟨k, rfl⟩ : ∃ k, f' = k + 1 := ⟨f' - 1, by omega⟩
    unfold parseUnaryExpr
    cases ts with
    | nil => exact sim_err _ _
    | cons t rest =>
      simp only [List.cons_append]
      by_cases hb : (t.tp == tkOPERATOR && t.str == "!") = true
      · simp only [hb, if_true]
        apply Sim.bind (ih.unary _ _ _ _ _ (by omega) (by omega) hs)
        rintro ⟨y, r⟩ _ rfl
        exact sim_pure rfl
      · simp only [hb, Bool.false_eq_true, if_false]
        exact ih.primary _ _ _ (t :: rest) sfx (by omega) (by omega) hs
  · -- primary
    intro lev lev' f' ts sfx hf hl hs
    obtain ⟨k, rfl⟩ : ∃ k, f' = k + 1 := ⟨f' - 1, by omega⟩
    unfold parsePrimaryExpr
    apply Sim.bind (ih.operand lev lev' k ts sfx (by omega) (by omega) hs)
    rintro ⟨x, r⟩ _ rfl
    exact ih.ploop _ _ _ _ _ _ (by omega) (by omega) hs
  · -- ploop
    intro lev lev' x f' ts sfx hf hl hs
    obtain ⟨k, rfl⟩ : ∃ k, f' = k + 1 := ⟨f' - 1, by omega⟩
    unfold primaryLoop
    cases ts with
    | nil =>
      simp only [List.nil_append]
      cases sfx with
      | nil => exact sim_ok rfl
      | cons t r =>
        have h1 : (t.tp == tkLPAREN) = false := by simpa using (hs t rfl).1
        have h2 : (t.tp == tkLBRACK) = false := by simpa using (hs t rfl).2.1
        simp only [h1, h2, Bool.false_eq_true, if_false]
        exact sim_ok rfl
    | cons t rest =>
      simp only [List.cons_append]
      by_cases hlp : t.tp == tkLPAREN
      · simp only [hlp, if_true]
        by_cases hat : x.calleeAtomic
        · simp only [hat, Bool.not_true, Bool.false_eq_true, if_false]
          apply Sim.bind (ih.call _ _ _ _ (t :: rest) sfx (by omega) (by omega) hs)
          rintro ⟨y, r⟩ _ rfl
          exact ih.ploop _ _ _ _ _ _ (by omega) (by omega) hs
        · simp only [hat, Bool.not_false, if_true]
          exact sim_unsup _ _
      · simp only [hlp, Bool.false_eq_true, if_false]
        by_cases hlb : t.tp == tkLBRACK
        · simp only [hlb, if_true]
          apply Sim.bind (ih.access _ _ _ _ _ (t :: rest) sfx (by omega) (by omega) hs)
          rintro ⟨y, r⟩ _ rfl
          exact ih.ploop _ _ _ _ _ _ (by omega) (by omega) hs
        · simp only [hlb, Bool.false_eq_true, if_false]
          exact sim_ok rfl
  · -- operand
    intro lev lev' f' ts sfx hf hl hs
    obtain ⟨k, rfl⟩ : ∃ k, f' = k + 1 := ⟨f' - 1, by omega⟩
    unfold parseOperand
    cases ts with
    | nil => exact sim_panic _ _
    | cons t rest =>
      simp only [List.cons_append]
      repeat' split
      all_goals try (first
        | exact sim_ok rfl
        | exact sim_err _ _)
      apply Sim.bind (ih.binary _ _ _ _ rest sfx (by omega) (by omega) (by omega) hs)
      rintro ⟨y, r⟩ _ rfl
      apply Sim.bind (sim_expect_sfx _ _ _)
      rintro r2 _ rfl
      exact sim_pure rfl
  · -- items
    intro lev lev' close strict acc f' ts sfx hf hl hs
    obtain ⟨k, rfl⟩ : ∃ k, f' = k + 1 := ⟨f' - 1, by omega⟩
    unfold parseItems
    cases ts with
    | nil => exact Or.inl rfl
    | cons t rest =>
      simp only [List.cons_append]
      by_cases hc : t.tp == close
      · simp only [hc, if_true]
        exact Or.inr rfl
      · simp only [hc, Bool.false_eq_true, if_false]
        apply SimI.bind_left (ih.binary _ _ _ _ (t :: rest) sfx (by omega) (by omega) (by omega) hs)
        rintro ⟨y, r⟩
        dsimp only
        cases r with
        | nil => exact Or.inl rfl
        | cons t1 r1 =>
          simp only [List.cons_append]
          by_cases hc1 : t1.tp == close
          · simp only [hc1, if_true]
            exact Or.inr rfl
          · simp only [hc1, Bool.false_eq_true, if_false]
            split
            · trivial
            · exact ih.items _ _ _ _ _ _ _ _ (by omega) (by omega) hs
  · -- call
    intro lev lev' fn f' ts sfx hf hl hs
    obtain ⟨k, rfl⟩ : ∃ k, f' = k + 1 := ⟨f' - 1, by omega⟩
    unfold parseFuncCall
    apply Sim.bind (sim_expect_sfx _ _ _)
    rintro r1 _ rfl
    exact sim_items_then (tp := tkRPAREN)
      (g := fun (args : List Expr) (ts : Toks) => (pure (Expr.call fn.pos fn args, ts) : Res (Expr × Toks)))
      (g' := fun (args : List Expr) (ts : Toks) => (pure (Expr.call fn.pos fn args, ts) : Res (Expr × Toks)))
      (ih.items lev lev' tkRPAREN true [] k r1 sfx (by omega) (by omega) hs) (fun a ts => sim_pure rfl)
  · -- access
    intro lev lev' pos l f' ts sfx hf hl hs
    obtain ⟨k, rfl⟩ : ∃ k, f' = k + 1 := ⟨f' - 1, by omega⟩
    unfold parseFieldAccess
    apply Sim.bind (sim_expect_sfx _ _ _)
    rintro r1 _ rfl
    refine sim_items_then (tp := tkRBRACK)
      (g := fun (names : List Expr) (ts : Toks) => (match names with
        | [f] => pure (Expr.access pos l f, ts)
        | _ => synErr pos : Res (Expr × Toks)))
      (g' := fun (names : List Expr) (ts : Toks) => (match names with
        | [f] => pure (Expr.access pos l f, ts)
        | _ => synErr pos : Res (Expr × Toks)))
      (ih.items lev lev' tkRBRACK false [] k r1 sfx (by omega) (by omega) hs) (fun a ts => ?_)
    split
    · exact sim_pure rfl
    · exact sim_err _ _
  · -- list
    intro lev lev' pos f' ts sfx hf hl hs
    obtain ⟨k, rfl⟩ : ∃ k, f' = k + 1 := ⟨f' - 1, by omega⟩
    unfold parseList
    apply Sim.bind (sim_expect_sfx _ _ _)
    rintro r1 _ rfl
    exact sim_items_then (tp := tkRPAREN)
      (g := fun (items : List Expr) (ts : Toks) => (pure (Expr.list pos items, ts) : Res (Expr × Toks)))
      (g' := fun (items : List Expr) (ts : Toks) => (pure (Expr.list pos items, ts) : Res (Expr × Toks)))
      (ih.items lev lev' tkRPAREN false [] k r1 sfx (by omega) (by omega) hs) (fun a ts => sim_pure rfl)
  · -- between
    intro lev lev' pos oprec f' ts sfx hf hl hp hs
    obtain ⟨k, rfl⟩ : ∃ k, f' = k + 1 := ⟨f' - 1, by omega⟩
    unfold parseBetween
    apply Sim.bind (ih.binary _ _ _ _ ts sfx (by omega) (by omega) hp hs)
    rintro ⟨lo, r1⟩ _ rfl
    apply Sim.bind (sim_expect_sfx _ _ _)
    rintro r2 _ rfl
    apply Sim.bind (ih.binary _ _ _ _ r2 sfx (by omega) (by omega) hp hs)
    rintro ⟨hi, r3⟩ _ rfl
    exact sim_pure rfl

theorem st_all : ∀ fuel, StIH pf fuel
  | 0 => st_zero pf
  | n + 1 => st_step pf (st_all n)

/-- **Stability.**  A successful run of `parseBinaryExpr` gives the same tree with any larger
    fuel, entered at any nesting level that leaves room (`lev' + fuel ≤ MaxNestLevel`, `fuel` the
    fuel of the given run), and with any continuation `sfx` appended that cannot continue an
    expression (empty, or starting with a token that is not `(`, `[` or a binary operator); the
    remainder is the old remainder followed by `sfx`. -/
theorem parseBinaryExpr_stable {fuel lev prec : Nat} {ts rest : Toks} {x : Expr}
    (h : parseBinaryExpr pf fuel lev prec ts = .ok (x, rest)) (hp : 1 ≤ prec) (f' lev' : Nat) (sfx : Toks)
    (hf : fuel ≤ f') (hl : lev' + fuel ≤ maxNestLevel) (hs : StopB 1 sfx) :
    parseBinaryExpr pf f' lev' prec (ts ++ sfx) = .ok (x, rest ++ sfx) := by
  have := (st_all pf fuel).binary lev lev' prec f' ts sfx hf hl hp hs
  rw [h] at this
  obtain ⟨a', h1, h2⟩ := this
  rw [h1, h2]

/-- the result of `parseExpr` does not depend on the fuel, once it suffices -/
theorem parseExpr_fuel_mono {fuel f' : Nat} {ts rest : Toks} {x : Expr}
    (h : parseExpr pf fuel ts = .ok (x, rest)) (hf : fuel ≤ f') (hl : fuel ≤ maxNestLevel) :
    parseExpr pf f' ts = .ok (x, rest) := by
  have := parseBinaryExpr_stable pf h (by omega) f' 0 [] hf (by omega) (stopB_nil 1)
  simpa [parseExpr] using this

/-- one pair of parentheses around a completely read token list -/
theorem paren_tokens {fuel lev : Nat} {ts : Toks} {x : Expr}
    (h : parseBinaryExpr pf fuel lev 1 ts = .ok (x, [])) (f' lev' : Nat) (hf : fuel + 5 ≤ f')
    (hl : lev' + f' ≤ maxNestLevel) (rest : Toks) (prec : Nat) (hp : 1 ≤ prec) (hs : StopB prec rest) :
    parseBinaryExpr pf f' lev' prec (LP :: (ts ++ RP :: rest)) = .ok (x, rest) := by
  obtain ⟨f, rfl⟩ : ∃ f, f' = f + 5 := ⟨f' - 5, by omega⟩
  have hin := parseBinaryExpr_stable pf h (by omega) (f + 1) (lev' + 1) (RP :: rest) (by omega)
    (by omega) (stopB_rp 1 (by omega) 0 rest)
  rw [binary_succ]
  simp only [LP, RP] at hin ⊢
  rw [Prec.unary_paren pf 0 0 hin hs.stop]
  simp only [Res.bind_ok]
  exact binaryLoop_stop' pf (by omega) (by simp only [maxNest]; omega) prec x (fun t ht => (hs t ht).2.2)

/-- **Redundant parentheses, any accepted token list.**  If `parseExpr` reads the token list
    `ts` completely as `x`, it reads `ts` enclosed in `n` pairs of parentheses as exactly `x`
    (within the nesting limit). -/
theorem parens_tokens_nested {ts : Toks} {x : Expr} (h : parseExpr pf (exprFuel ts) ts = .ok (x, [])) (n : Nat)
    (hsize : 8 * (ts.length + 2 * n) + 8 ≤ maxNestLevel) :
    parseExpr pf (exprFuel (wrapN n ts)) (wrapN n ts) = .ok (x, []) := by
  have key : ∀ n, 8 * (ts.length + 2 * n) + 8 ≤ maxNestLevel →
      parseBinaryExpr pf (exprFuel ts + 5 * n) 0 1 (wrapN n ts) = .ok (x, []) := by
    intro n
    induction n with
    | zero => intro _; simpa [parseExpr, wrapN] using h
    | succ n ih =>
      intro hs
      have ihn := ih (by omega)
      have := paren_tokens pf ihn (exprFuel ts + 5 * (n + 1)) 0 (by omega)
        (by simp only [exprFuel]; omega) [] 1 (by omega) (stopB_nil 1)
      simpa [wrapN] using this
  have hk := key n hsize
  have := parseBinaryExpr_stable pf hk (by omega) (exprFuel (wrapN n ts)) 0 []
    (by simp only [exprFuel, wrapN_length]; omega) (by simp only [exprFuel]; omega) (stopB_nil 1)
  simpa [parseExpr] using this

end Kvql.Proofs.ParsePrec
