/-
  C02: the scan type inferred for a WHERE tree covers every key on which the filter can hold.
-/
import Kvql.Proofs.ScanHelpers

namespace Kvql.Scan
open Kvql.Bytes (Pre)

/-! ### atoms -/

/-- the only two operand shapes from which a comparison atom gets a key region -/
theorem operands_key {l r : Expr} {d : Bytes} (h : operands l r = (.key, some d)) :
    (∃ p1 p2, l = .field p1 .key ∧ r = .str p2 d) ∨ (∃ p1 p2, l = .str p1 d ∧ r = .field p2 .key) := by
  cases l <;> cases r <;> simp_all [operands]

theorem leftField_key {l : Expr} (h : leftField l = .key) : ∃ p, l = .field p .key := by
  cases l <;> simp_all [leftField]

/-- What the theorems assume of an evaluator `ev e k` ("the filter `e` can hold on a pair with
    key `k`"): an *upper bound* by the documented meaning of `&`, `|`, `false` and of the key
    atoms with the literal on either side.  Every other node (`!`, predicates on the value,
    function calls, `true`, comparisons between other operands, `'lit' ^= key`, …) is
    unconstrained.  An evaluator that says "true" less often (run-time errors, `between` with
    its bounds in the wrong order) still satisfies it. -/
structure Sem (ev : Expr → Bytes → Bool) : Prop where
  and_ : ∀ p l r k, ev (.binop p .and l r) k = true → ev l k = true ∧ ev r k = true
  kwAnd : ∀ p l r k, ev (.binop p .kwAnd l r) k = true → ev l k = true ∧ ev r k = true
  or_ : ∀ p l r k, ev (.binop p .or l r) k = true → ev l k = true ∨ ev r k = true
  kwOr : ∀ p l r k, ev (.binop p .kwOr l r) k = true → ev l k = true ∨ ev r k = true
  false_ : ∀ p d k, ev (.bool p d false) k = false
  eq_r : ∀ p p1 p2 lit k, ev (.binop p .eq (.field p1 .key) (.str p2 lit)) k = true → k = lit
  eq_l : ∀ p p1 p2 lit k, ev (.binop p .eq (.str p1 lit) (.field p2 .key)) k = true → k = lit
  pre_r : ∀ p p1 p2 lit k, ev (.binop p .prefixMatch (.field p1 .key) (.str p2 lit)) k = true → Pre lit k
  gt_r : ∀ p p1 p2 lit k, ev (.binop p .gt (.field p1 .key) (.str p2 lit)) k = true → lit < k
  gt_l : ∀ p p1 p2 lit k, ev (.binop p .gt (.str p1 lit) (.field p2 .key)) k = true → k < lit
  gte_r : ∀ p p1 p2 lit k, ev (.binop p .gte (.field p1 .key) (.str p2 lit)) k = true → lit ≤ k
  gte_l : ∀ p p1 p2 lit k, ev (.binop p .gte (.str p1 lit) (.field p2 .key)) k = true → k ≤ lit
  lt_r : ∀ p p1 p2 lit k, ev (.binop p .lt (.field p1 .key) (.str p2 lit)) k = true → k < lit
  lt_l : ∀ p p1 p2 lit k, ev (.binop p .lt (.str p1 lit) (.field p2 .key)) k = true → lit < k
  lte_r : ∀ p p1 p2 lit k, ev (.binop p .lte (.field p1 .key) (.str p2 lit)) k = true → k ≤ lit
  lte_l : ∀ p p1 p2 lit k, ev (.binop p .lte (.str p1 lit) (.field p2 .key)) k = true → lit ≤ k
  in_ : ∀ p p1 p2 items k, (stringItems items).2 = true →
    ev (.binop p .in_ (.field p1 .key) (.list p2 items)) k = true → k ∈ (stringItems items).1
  between_ : ∀ p p1 p2 p3 p4 lo hi k,
    ev (.binop p .between (.field p1 .key) (.list p2 [.str p3 lo, .str p4 hi])) k = true → lo ≤ k ∧ k ≤ hi

/-- `key > lit`, `key >= lit` and the mirrored `lit < key`, `lit <= key`: at least `lit` -/
theorem gtgte_sound {l r : Expr} {k : Bytes}
    (h : ∀ p1 p2 lit, l = .field p1 .key → r = .str p2 lit → lit ≤ k)
    (h' : ∀ p1 p2 lit, l = .str p1 lit → r = .field p2 .key → lit ≤ k) :
    region (optimizeGtGteExpr l r) k := by
  unfold optimizeGtGteExpr
  split
  · rename_i d hd
    split
    · trivial
    · rcases operands_key hd with ⟨p1, p2, rfl, rfl⟩ | ⟨p1, p2, rfl, rfl⟩
      · simpa [region] using h _ _ _ rfl rfl
      · simpa [region] using h' _ _ _ rfl rfl
  · trivial

/-- `key < lit`, `key <= lit` and the mirrored forms: at most `lit`, strictly below it when the
    operator says so -/
theorem ltlte_sound {op : Op} {l r : Expr} {k : Bytes}
    (h : ∀ p1 p2 lit, l = .field p1 .key → r = .str p2 lit → k ≤ lit ∧ ((op = .lt ∨ op = .gt) → k < lit))
    (h' : ∀ p1 p2 lit, l = .str p1 lit → r = .field p2 .key → k ≤ lit ∧ ((op = .lt ∨ op = .gt) → k < lit)) :
    region (optimizeLtLteExpr op l r) k := by
  unfold optimizeLtLteExpr
  split
  · rename_i d hd
    have hk : k ≤ d ∧ ((op = .lt ∨ op = .gt) → k < d) := by
      rcases operands_key hd with ⟨p1, p2, rfl, rfl⟩ | ⟨p1, p2, rfl, rfl⟩
      · exact h _ _ _ rfl rfl
      · exact h' _ _ _ rfl rfl
    split
    · rename_i hemp
      have hd0 : d = [] := by simpa using hemp
      subst hd0
      split
      · rename_i hop
        have : k < [] := hk.2 (by simpa using hop)
        exact absurd this (List.not_lt_nil k)
      · have : k = [] := by
          have := hk.1
          have := Bytes.nil_le k
          grind
        simp [region, this]
    · simpa [region] using hk.1
  · trivial

section atoms
variable {ev : Expr → Bytes → Bool} (S : Sem ev)
include S

theorem equal_sound {p : Nat} {l r : Expr} {k : Bytes} (h : ev (.binop p .eq l r) k = true) :
    region (optimizeEqualExpr l r) k := by
  unfold optimizeEqualExpr
  split
  · rename_i d hd
    rcases operands_key hd with ⟨p1, p2, rfl, rfl⟩ | ⟨p1, p2, rfl, rfl⟩
    · simp [region, S.eq_r _ _ _ _ _ h]
    · simp [region, S.eq_l _ _ _ _ _ h]
  · trivial

theorem prefix_sound {p : Nat} {l r : Expr} {k : Bytes} (h : ev (.binop p .prefixMatch l r) k = true) :
    region (optimizePrefixMatchExpr l r) k := by
  unfold optimizePrefixMatchExpr
  split
  · trivial
  · split
    · rename_i hns _ d hd
      rcases operands_key hd with ⟨p1, p2, rfl, rfl⟩ | ⟨p1, p2, rfl, rfl⟩
      · exact S.pre_r _ _ _ _ _ h
      · exact absurd rfl (hns _ _)
    · trivial

theorem in_sound {p : Nat} {l r : Expr} {k : Bytes} (h : ev (.binop p .in_ l r) k = true) :
    region (optimizeInExpr l r) k := by
  unfold optimizeInExpr
  dsimp only
  split
  · rename_i p2 items
    split
    · rename_i hc
      simp only [Bool.and_eq_true, beq_iff_eq] at hc
      obtain ⟨⟨hf, _⟩, hcan⟩ := hc
      obtain ⟨p1, rfl⟩ := leftField_key hf
      exact S.in_ _ _ _ items k hcan h
    · trivial
  · simp [region]

theorem between_sound {p : Nat} {l r : Expr} {k : Bytes} (h : ev (.binop p .between l r) k = true) :
    region (optimizeBetweenExpr l r) k := by
  unfold optimizeBetweenExpr
  dsimp only
  split
  · rename_i p2 p3 lo p4 hi
    split
    · rename_i hf
      obtain ⟨p1, rfl⟩ := leftField_key (by simpa using hf)
      have hb := S.between_ _ _ _ _ _ _ _ _ h
      split <;> (scan_simp; grind)
    · trivial
  · trivial

end atoms

/-! ### the invariant holds for every tree -/

theorem equal_wf (l r : Expr) : WF (optimizeEqualExpr l r) := by
  unfold optimizeEqualExpr; split <;> trivial

theorem prefix_wf (l r : Expr) : WF (optimizePrefixMatchExpr l r) := by
  unfold optimizePrefixMatchExpr; (repeat' split) <;> trivial

theorem gtgte_wf (l r : Expr) : WF (optimizeGtGteExpr l r) := by
  unfold optimizeGtGteExpr; (repeat' split) <;> simp [WF]

theorem ltlte_wf (op : Op) (l r : Expr) : WF (optimizeLtLteExpr op l r) := by
  unfold optimizeLtLteExpr; (repeat' split) <;> simp [WF]

theorem in_wf (l r : Expr) : WF (optimizeInExpr l r) := by
  unfold optimizeInExpr; dsimp only; (repeat' split) <;> trivial

theorem between_wf (l r : Expr) : WF (optimizeBetweenExpr l r) := by
  unfold optimizeBetweenExpr; dsimp only
  (repeat' split) <;> simp_all [WF, Bytes.lt_iff] <;> grind

/-! ### the chain of `&`/`and`: conjunct types, the tree combination, the pair test -/

/-- `intersectConjuncts`: the conjuncts combined along the tree -/
def andTree (e : Expr) : Scan := (infer e).tree

/-- `conjunctScanTypes`: the scan types of the conjuncts, left to right -/
def leafTypes (e : Expr) : List Scan := (infer e).leaves

theorem optimizeExpr_and (p : Nat) (l r : Expr) :
    optimizeExpr (.binop p .and l r) =
      if emptyPair (leafTypes l ++ leafTypes r) then .empty else andScan (andTree l) (andTree r) := by
  rfl

theorem optimizeExpr_kwAnd (p : Nat) (l r : Expr) :
    optimizeExpr (.binop p .kwAnd l r) =
      if emptyPair (leafTypes l ++ leafTypes r) then .empty else andScan (andTree l) (andTree r) := by
  rfl

theorem andTree_and (p : Nat) (l r : Expr) :
    andTree (.binop p .and l r) = andScan (andTree l) (andTree r) := by simp [andTree, infer]
theorem andTree_kwAnd (p : Nat) (l r : Expr) :
    andTree (.binop p .kwAnd l r) = andScan (andTree l) (andTree r) := by simp [andTree, infer]
theorem leafTypes_and (p : Nat) (l r : Expr) :
    leafTypes (.binop p .and l r) = leafTypes l ++ leafTypes r := by simp [leafTypes, infer]
theorem leafTypes_kwAnd (p : Nat) (l r : Expr) :
    leafTypes (.binop p .kwAnd l r) = leafTypes l ++ leafTypes r := by simp [leafTypes, infer]

/-- is the node an `&` / `and` -/
def isAnd : Expr → Bool
  | .binop _ .and _ _ => true
  | .binop _ .kwAnd _ _ => true
  | _ => false

/-- for a node that is not `&`/`and` the three components coincide -/
theorem infer_single {e : Expr} (h : isAnd e = false) : infer e = .single (optimizeExpr e) := by
  unfold optimizeExpr
  fun_induction infer e <;> first | rfl | (simp [isAnd] at h)

theorem andTree_leaf {e : Expr} (h : isAnd e = false) : andTree e = optimizeExpr e := by
  simp [andTree, infer_single h, Conj.single]

theorem leafTypes_leaf {e : Expr} (h : isAnd e = false) : leafTypes e = [optimizeExpr e] := by
  simp [leafTypes, infer_single h, Conj.single]

/-- the pair test answers "no" exactly when no earlier/later pair intersects to EMPTY -/
theorem emptyPair_false_iff (ls : List Scan) :
    emptyPair ls = false ↔ ls.Pairwise (fun a b => andScan a b ≠ .empty) := by
  induction ls with
  | nil => simp [emptyPair]
  | cons s rest ih =>
    simp only [emptyPair, Bool.or_eq_false_iff, ih, List.pairwise_cons]
    constructor
    · rintro ⟨h1, h2⟩
      refine ⟨fun t ht he => ?_, h2⟩
      have := List.any_eq_false.mp h1 t ht
      simp [he, Scan.isEmpty] at this
    · rintro ⟨h1, h2⟩
      refine ⟨List.any_eq_false.mpr (fun t ht => ?_), h2⟩
      have := h1 t ht
      cases hh : andScan s t <;> simp_all [Scan.isEmpty]

/-- soundness of the pair test: when some key lies in the region of every conjunct, no pair
    intersects to EMPTY (by `inter_sound`) -/
theorem emptyPair_sound {ls : List Scan} {k : Bytes} (hw : ∀ s ∈ ls, WF s)
    (hr : ∀ s ∈ ls, region s k) : emptyPair ls = false := by
  rw [emptyPair_false_iff]
  induction ls with
  | nil => exact List.Pairwise.nil
  | cons s rest ih =>
    refine List.Pairwise.cons (fun t ht he => ?_)
      (ih (fun x hx => hw x (List.mem_cons_of_mem _ hx)) (fun x hx => hr x (List.mem_cons_of_mem _ hx)))
    have := inter_sound (hw s (List.mem_cons_self ..)) (hw t (List.mem_cons_of_mem _ ht))
      (hr s (List.mem_cons_self ..)) (hr t (List.mem_cons_of_mem _ ht))
    rw [he] at this
    exact this

/-- the invariant, for all three components -/
def WFC (c : Conj) : Prop := WF c.whole ∧ WF c.tree ∧ ∀ s ∈ c.leaves, WF s

theorem wfc_single {s : Scan} (h : WF s) : WFC (.single s) := by
  refine ⟨h, h, ?_⟩
  intro t ht; simp only [Conj.single, List.mem_singleton] at ht; exact ht ▸ h

theorem wfc_and {L R : Conj} (hl : WFC L) (hr : WFC R) :
    WFC ⟨if emptyPair (L.leaves ++ R.leaves) then .empty else andScan L.tree R.tree,
      andScan L.tree R.tree, L.leaves ++ R.leaves⟩ := by
  refine ⟨?_, andScan_wf hl.2.1 hr.2.1, ?_⟩
  · show WF (if _ then _ else _)
    split
    · trivial
    · exact andScan_wf hl.2.1 hr.2.1
  · intro s hs
    rcases List.mem_append.mp hs with h | h
    · exact hl.2.2 s h
    · exact hr.2.2 s h

theorem wf_infer (e : Expr) : WFC (infer e) := by
  fun_induction infer e
  case case1 ihl ihr => exact wfc_and ihl ihr
  case case2 ihl ihr => exact wfc_and ihl ihr
  case case3 ihl ihr => exact wfc_single (orScan_wf ihl.1 ihr.1)
  case case4 ihl ihr => exact wfc_single (orScan_wf ihl.1 ihr.1)
  all_goals apply wfc_single
  all_goals first
    | exact equal_wf _ _ | exact prefix_wf _ _ | exact in_wf _ _ | exact between_wf _ _ | trivial
    | (split <;> first | exact gtgte_wf _ _ | exact ltlte_wf _ _ _ | trivial)

/-- `wf_optimizeExpr`: every scan type the optimizer infers satisfies the invariant (a RANGE
    has a bound, and start ≤ end when it has both) -/
theorem wf_optimizeExpr (e : Expr) : WF (optimizeExpr e) := (wf_infer e).1

theorem wf_andTree (e : Expr) : WF (andTree e) := (wf_infer e).2.1

theorem wf_leafTypes (e : Expr) : ∀ s ∈ leafTypes e, WF s := (wf_infer e).2.2

theorem isStr_iff {l : Expr} : isStr l = true ↔ ∃ p d, l = .str p d := by
  cases l <;> simp [isStr]

/-- soundness of all three components -/
def SoundC (c : Conj) (k : Bytes) : Prop := region c.whole k ∧ region c.tree k ∧ ∀ s ∈ c.leaves, region s k

theorem soundC_single {s : Scan} {k : Bytes} (h : region s k) : SoundC (.single s) k := by
  refine ⟨h, h, ?_⟩
  intro t ht; simp only [Conj.single, List.mem_singleton] at ht; exact ht ▸ h

theorem soundC_and {L R : Conj} {k : Bytes} (wl : WFC L) (wr : WFC R)
    (hl : SoundC L k) (hr : SoundC R k) :
    SoundC ⟨if emptyPair (L.leaves ++ R.leaves) then .empty else andScan L.tree R.tree,
      andScan L.tree R.tree, L.leaves ++ R.leaves⟩ k := by
  have hleaves : ∀ s ∈ L.leaves ++ R.leaves, region s k := by
    intro s hs
    rcases List.mem_append.mp hs with h | h
    · exact hl.2.2 s h
    · exact hr.2.2 s h
  have hwf : ∀ s ∈ L.leaves ++ R.leaves, WF s := by
    intro s hs
    rcases List.mem_append.mp hs with h | h
    · exact wl.2.2 s h
    · exact wr.2.2 s h
  have htree := inter_sound wl.2.1 wr.2.1 hl.2.1 hr.2.1
  refine ⟨?_, htree, hleaves⟩
  show region (if _ then _ else _) k
  rw [emptyPair_sound hwf hleaves]
  exact htree

theorem sound_infer {ev : Expr → Bytes → Bool} (S : Sem ev) (e : Expr) (k : Bytes)
    (h : ev e k = true) : SoundC (infer e) k := by
  fun_induction infer e
  case case1 ihl ihr =>
    have := S.and_ _ _ _ _ h
    exact soundC_and (wf_infer _) (wf_infer _) (ihl this.1) (ihr this.2)
  case case2 ihl ihr =>
    have := S.kwAnd _ _ _ _ h
    exact soundC_and (wf_infer _) (wf_infer _) (ihl this.1) (ihr this.2)
  case case3 l r ihl ihr =>
    exact soundC_single (union_sound (wf_optimizeExpr l) (wf_optimizeExpr r)
      ((S.or_ _ _ _ _ h).imp (fun x => (ihl x).1) (fun x => (ihr x).1)))
  case case4 l r ihl ihr =>
    exact soundC_single (union_sound (wf_optimizeExpr l) (wf_optimizeExpr r)
      ((S.kwOr _ _ _ _ h).imp (fun x => (ihl x).1) (fun x => (ihr x).1)))
  case case5 => exact soundC_single (prefix_sound S h)
  case case6 => exact soundC_single (equal_sound S h)
  case case7 p l r =>
    apply soundC_single
    split
    · rename_i hs   -- 'lit' > key
      obtain ⟨p1, d, rfl⟩ := isStr_iff.mp hs
      refine ltlte_sound (by intro _ _ _ hh; cases hh) ?_
      intro p1' p2 lit hl hr; cases hl; subst hr
      have := S.gt_l _ _ _ _ _ h
      exact ⟨List.le_of_lt this, fun _ => this⟩
    · rename_i hs   -- key > 'lit'
      refine gtgte_sound ?_ (by intro p1 p2 lit hl; subst hl; simp [isStr] at hs)
      intro p1 p2 lit hl hr; subst hl; subst hr
      exact List.le_of_lt (S.gt_r _ _ _ _ _ h)
  case case8 p l r =>
    apply soundC_single
    split
    · rename_i hs   -- 'lit' >= key
      obtain ⟨p1, d, rfl⟩ := isStr_iff.mp hs
      refine ltlte_sound (by intro _ _ _ hh; cases hh) ?_
      intro p1' p2 lit hl hr; cases hl; subst hr
      exact ⟨S.gte_l _ _ _ _ _ h, by simp⟩
    · rename_i hs   -- key >= 'lit'
      refine gtgte_sound ?_ (by intro p1 p2 lit hl; subst hl; simp [isStr] at hs)
      intro p1 p2 lit hl hr; subst hl; subst hr
      exact S.gte_r _ _ _ _ _ h
  case case9 p l r =>
    apply soundC_single
    split
    · rename_i hs   -- 'lit' < key
      obtain ⟨p1, d, rfl⟩ := isStr_iff.mp hs
      refine gtgte_sound (by intro _ _ _ hh; cases hh) ?_
      intro p1' p2 lit hl hr; cases hl; subst hr
      exact List.le_of_lt (S.lt_l _ _ _ _ _ h)
    · rename_i hs   -- key < 'lit'
      refine ltlte_sound ?_ (by intro p1 p2 lit hl; subst hl; simp [isStr] at hs)
      intro p1 p2 lit hl hr; subst hl; subst hr
      have := S.lt_r _ _ _ _ _ h
      exact ⟨List.le_of_lt this, fun _ => this⟩
  case case10 p l r =>
    apply soundC_single
    split
    · rename_i hs   -- 'lit' <= key
      obtain ⟨p1, d, rfl⟩ := isStr_iff.mp hs
      refine gtgte_sound (by intro _ _ _ hh; cases hh) ?_
      intro p1' p2 lit hl hr; cases hl; subst hr
      exact S.lte_l _ _ _ _ _ h
    · rename_i hs   -- key <= 'lit'
      refine ltlte_sound ?_ (by intro p1 p2 lit hl; subst hl; simp [isStr] at hs)
      intro p1 p2 lit hl hr; subst hl; subst hr
      exact ⟨S.lte_r _ _ _ _ _ h, by simp⟩
  case case11 => exact soundC_single (in_sound S h)
  case case12 => exact soundC_single (between_sound S h)
  case case13 => exact soundC_single trivial
  case case14 pos data b =>
    apply soundC_single
    cases b
    · rw [S.false_] at h; cases h
    · trivial
  case case15 => exact soundC_single trivial

/-- `scan_sound` (C02, planner): for every WHERE tree, every evaluator bounded by the documented
    meaning of the key atoms, and every key — if the filter can hold on the key, the key is in
    the region of the inferred scan type.  No depth bound, no literal bound. -/
theorem scan_sound {ev : Expr → Bytes → Bool} (S : Sem ev) (e : Expr) (k : Bytes)
    (h : ev e k = true) : region (optimizeExpr e) k := (sound_infer S e k h).1

end Kvql.Scan
