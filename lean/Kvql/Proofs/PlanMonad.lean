/-
  Reasoning principles for the storage monad `M` of Kvql/Model/Storage.lean:
  * `run_*` simp lemmas (what `pure`, `bind`, `throw`, `call`, … do to a world),
  * `FaultSafe`: the relation "with a fault injected at call `i` the computation behaves exactly
    as without a fault up to call `i`, fails there with `storage i`, and issues no further call",
    closed under sequencing (`FaultSafe.seq`, `FaultSafe.bind`),
  * `Emits P`: every entry a computation appends to the log satisfies `P`, closed under sequencing.
-/
import Kvql.Model.Plans

namespace Kvql.Proofs.Plan

open Kvql Kvql.Storage Kvql.Plans

/-! ### running `M` -/

@[simp] theorem run_pure (a : α) (f : Option Nat) (w : World) : (pure a : M α) f w = (.ok a, w) := rfl

@[simp] theorem run_bind (m : M α) (k : α → M β) (f : Option Nat) (w : World) :
    (m >>= k) f w = match m f w with
      | (.ok a, w') => k a f w'
      | (.error e, w') => (.error e, w') := rfl

@[simp] theorem run_throw (e : Err) (f : Option Nat) (w : World) : (M.throw e : M α) f w = (.error e, w) := rfl

@[simp] theorem run_ofExcept_ok (a : α) : (M.ofExcept (.ok a) : M α) = pure a := rfl
@[simp] theorem run_ofExcept_error (e : Err) : (M.ofExcept (.error e) : M α) = M.throw e := rfl

theorem run_call_none (c : Call) (w : World) :
    call c none w = (.ok (), { w with log := w.log ++ [⟨c, false⟩] }) := by
  simp [call]

theorem run_call (c : Call) (f : Option Nat) (w : World) :
    call c f w = if f = some w.log.length then
        (.error (.storage w.log.length), { w with log := w.log ++ [⟨c, true⟩] })
      else (.ok (), { w with log := w.log ++ [⟨c, false⟩] }) := rfl

@[simp] theorem run_getStore (f : Option Nat) (w : World) : getStore f w = (.ok w.store, w) := rfl
@[simp] theorem run_modifyStore (g : Store → Store) (f : Option Nat) (w : World) :
    modifyStore g f w = (.ok (), { w with store := g w.store }) := rfl

/-! ### computations with a result of any shape -/

/-- a computation against the storage whose result type is free (an `M α` is a `G (Except Err α)`) -/
abbrev G (ρ : Type) := Option Nat → World → ρ × World

/-- `failed r i`: the result `r` reports the injected fault of call `i` -/
structure FaultSafe (failed : ρ → Nat → Prop) (g : G ρ) : Prop where
  /-- calls are only ever appended -/
  mono : ∀ w, w.log.length ≤ (g none w).2.log.length
  /-- a fault index that is not reached changes nothing -/
  same : ∀ w i, (i < w.log.length ∨ (g none w).2.log.length ≤ i) → g (some i) w = g none w
  /-- a fault index that is reached: the result reports it and call `i` is the last call -/
  fault : ∀ w i, w.log.length ≤ i → i < (g none w).2.log.length →
    failed (g (some i) w).1 i ∧ (g (some i) w).2.log.length = i + 1

/-- sequencing: run `g1`, hand its result to `cont`; a result of `g1` that reports the fault makes
    `cont` stop at once, reporting it -/
theorem FaultSafe.seq {failed1 : ρ1 → Nat → Prop} {failed : ρ → Nat → Prop} {g1 : G ρ1} {g : G ρ}
    (cont : ρ1 → G ρ)
    (hg : ∀ f w, g f w = cont (g1 f w).1 f (g1 f w).2)
    (h1 : FaultSafe failed1 g1)
    (hcont : ∀ r1, FaultSafe failed (cont r1))
    (hfail : ∀ r1 i f w, failed1 r1 i → failed (cont r1 f w).1 i ∧ (cont r1 f w).2 = w) :
    FaultSafe failed g := by
  refine ⟨?_, ?_, ?_⟩
  · intro w
    rw [hg]
    exact Nat.le_trans (h1.mono w) ((hcont _).mono _)
  · intro w i hi
    have hm1 := h1.mono w
    have hm2 := (hcont (g1 none w).1).mono (g1 none w).2
    rw [hg none w] at hi
    have e1 : g1 (some i) w = g1 none w := by
      apply h1.same
      cases hi with
      | inl h => exact .inl h
      | inr h => exact .inr (by omega)
    rw [hg, hg, e1]
    apply (hcont _).same
    cases hi with
    | inl h => exact .inl (by omega)
    | inr h => exact .inr h
  · intro w i hlo hhi
    have hm1 := h1.mono w
    rw [hg none w] at hhi
    rw [hg (some i) w]
    by_cases hlt : i < (g1 none w).2.log.length
    · have ⟨hf, hl⟩ := h1.fault w i hlo hlt
      have ⟨hf', hw⟩ := hfail (g1 (some i) w).1 i (some i) (g1 (some i) w).2 hf
      exact ⟨hf', by rw [hw]; exact hl⟩
    · have e1 : g1 (some i) w = g1 none w := h1.same w i (.inr (by omega))
      rw [e1]
      exact (hcont _).fault _ i (by omega) hhi

/-- `M`: the result that reports the fault of call `i` is `error (storage i)` -/
abbrev MFailed {α : Type} : Except Err α → Nat → Prop := fun r i => r = .error (.storage i)

abbrev FaultSafeM {α : Type} (m : M α) : Prop := FaultSafe (ρ := Except Err α) MFailed m

theorem FaultSafeM.pure (a : α) : FaultSafeM (pure a : M α) :=
  ⟨fun _ => Nat.le_refl _, fun _ _ _ => rfl, fun w i h1 h2 => by simp at h2; omega⟩

theorem FaultSafeM.throw (e : Err) : FaultSafeM (M.throw e : M α) :=
  ⟨fun _ => Nat.le_refl _, fun _ _ _ => rfl, fun w i h1 h2 => by simp at h2; omega⟩

theorem FaultSafeM.ofExcept (x : Except Err α) : FaultSafeM (M.ofExcept x) := by
  cases x with
  | ok a => exact FaultSafeM.pure a
  | error e => exact FaultSafeM.throw e

theorem FaultSafeM.getStore : FaultSafeM getStore :=
  ⟨fun _ => Nat.le_refl _, fun _ _ _ => rfl, fun w i h1 h2 => by simp at h2; omega⟩

theorem FaultSafeM.modifyStore (g : Store → Store) : FaultSafeM (modifyStore g) :=
  ⟨fun _ => Nat.le_refl _, fun _ _ _ => rfl, fun w i h1 h2 => by simp at h2; omega⟩

theorem FaultSafeM.call (c : Call) : FaultSafeM (call c) := by
  refine ⟨?_, ?_, ?_⟩
  · intro w; simp [run_call]
  · intro w i hi
    simp [run_call] at hi ⊢
    omega
  · intro w i h1 h2
    simp [run_call] at h2 ⊢
    have : i = w.log.length := by omega
    subst this
    simp

theorem FaultSafeM.bind {m : M α} {k : α → M β} (hm : FaultSafeM m) (hk : ∀ a, FaultSafeM (k a)) :
    FaultSafeM (m >>= k) := by
  refine FaultSafe.seq (failed1 := MFailed) (g1 := m)
    (fun r => match r with
      | .ok a => k a
      | .error e => fun _ w => (.error e, w)) ?_ hm ?_ ?_
  · intro f w
    simp only [run_bind]
    rcases h : m f w with ⟨r, w'⟩
    cases r <;> rfl
  · intro r
    cases r with
    | ok a => exact hk a
    | error e => exact FaultSafeM.throw e
  · intro r i f w hr
    simp only [MFailed] at hr
    subst hr
    exact ⟨rfl, rfl⟩

/-! ### what a computation appends to the log -/

/-- every entry appended satisfies `P`; and the store changes only if a write call is appended -/
structure Emits (P : Entry → Prop) (g : G ρ) : Prop where
  out : ∀ f w, ∃ ext, (g f w).2.log = w.log ++ ext ∧ (∀ e ∈ ext, P e) ∧
    ((∀ e ∈ ext, e.call.isRead = true) → (g f w).2.store = w.store)

/-- sequencing; the continuation needs to be well-behaved only on results `g1` can produce -/
theorem Emits.seq' {P : Entry → Prop} {g1 : G ρ1} {g : G ρ} (cont : ρ1 → G ρ)
    (hg : ∀ f w, g f w = cont (g1 f w).1 f (g1 f w).2)
    (h1 : Emits P g1) (hcont : ∀ f w, Emits P (cont (g1 f w).1)) : Emits P g := by
  refine ⟨fun f w => ?_⟩
  obtain ⟨e1, h1l, h1p, h1s⟩ := h1.out f w
  obtain ⟨e2, h2l, h2p, h2s⟩ := (hcont f w).out f (g1 f w).2
  refine ⟨e1 ++ e2, ?_, ?_, ?_⟩
  · rw [hg, h2l, h1l, List.append_assoc]
  · intro e he
    rcases List.mem_append.mp he with h | h
    · exact h1p e h
    · exact h2p e h
  · intro hr
    rw [hg, h2s (fun e he => hr e (List.mem_append.mpr (.inr he))),
      h1s (fun e he => hr e (List.mem_append.mpr (.inl he)))]

theorem Emits.seq {P : Entry → Prop} {g1 : G ρ1} {g : G ρ} (cont : ρ1 → G ρ)
    (hg : ∀ f w, g f w = cont (g1 f w).1 f (g1 f w).2)
    (h1 : Emits P g1) (hcont : ∀ r1, Emits P (cont r1)) : Emits P g :=
  Emits.seq' cont hg h1 (fun _ _ => hcont _)

theorem Emits.nothing {P : Entry → Prop} {g : G ρ} (h : ∀ f w, (g f w).2 = w) : Emits P g :=
  ⟨fun f w => ⟨[], by simp [h], by simp, by simp [h]⟩⟩

theorem Emits.pure {P : Entry → Prop} (a : α) : Emits P (pure a : M α) := Emits.nothing (fun _ _ => rfl)
theorem Emits.throw {P : Entry → Prop} (e : Err) : Emits P (M.throw e : M α) := Emits.nothing (fun _ _ => rfl)
theorem Emits.getStore {P : Entry → Prop} : Emits P getStore := Emits.nothing (fun _ _ => rfl)

theorem Emits.ofExcept {P : Entry → Prop} (x : Except Err α) : Emits P (M.ofExcept x) := by
  cases x with
  | ok a => exact Emits.pure a
  | error e => exact Emits.throw e

theorem Emits.call {P : Entry → Prop} (c : Call) (h : ∀ b, P ⟨c, b⟩) : Emits P (call c) := by
  refine ⟨fun f w => ?_⟩
  rw [run_call]
  split
  · exact ⟨[⟨c, true⟩], rfl, by simp [h], fun _ => rfl⟩
  · exact ⟨[⟨c, false⟩], rfl, by simp [h], fun _ => rfl⟩

/-- a write: the call, then the change of the store -/
theorem Emits.write {P : Entry → Prop} (c : Call) (hw : c.isWrite = true) (h : ∀ b, P ⟨c, b⟩) (g : Store → Store) :
    Emits P (do Storage.call c; Storage.modifyStore g : M Unit) := by
  refine ⟨fun f w => ?_⟩
  by_cases hf : f = some w.log.length
  · refine ⟨[⟨c, true⟩], by simp [run_call, hf], by simp [h], fun hr => ?_⟩
    have := hr ⟨c, true⟩ (by simp)
    simp [Call.isRead, hw] at this
  · refine ⟨[⟨c, false⟩], by simp [run_call, hf], by simp [h], fun hr => ?_⟩
    have := hr ⟨c, false⟩ (by simp)
    simp [Call.isRead, hw] at this

theorem Emits.bind {P : Entry → Prop} {m : M α} {k : α → M β} (hm : Emits P m) (hk : ∀ a, Emits P (k a)) :
    Emits P (m >>= k : M β) := by
  refine Emits.seq (g1 := m)
    (fun r => match r with
      | .ok a => k a
      | .error e => fun _ w => (.error e, w)) ?_ hm ?_
  · intro f w
    simp only [run_bind]
    rcases h : m f w with ⟨r, w'⟩
    cases r <;> rfl
  · intro r
    cases r with
    | ok a => exact hk a
    | error e => exact Emits.nothing (fun _ _ => rfl)

theorem Emits.mono {P Q : Entry → Prop} {g : G ρ} (h : Emits P g) (hpq : ∀ e, P e → Q e) : Emits Q g := by
  refine ⟨fun f w => ?_⟩
  obtain ⟨ext, hl, hp, hs⟩ := h.out f w
  exact ⟨ext, hl, fun e he => hpq e (hp e he), hs⟩

end Kvql.Proofs.Plan
