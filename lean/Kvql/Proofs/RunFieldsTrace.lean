/-
  End-to-end proofs for SELECT statements WITH A FIELD LIST, part 1: `Run.projTrace` in terms of
  cache-free specifications.

  `projTrace` runs two things in lock step: the scan plan with a verdict table (storage side) and
  `Project.drainRowFuel` / `Project.drainBatchFuel` (evaluation side, through the field cache), and
  lays one over the other with `zipProj`.  Under the alias-table hypotheses of C05 (`AliasOK`: for
  `A := allRefs` of the folded statement, `Functional A` and `FieldsAgree A fields`; `WF` and
  `FieldsWF` hold by construction) both sides are the cache-free specifications of C05
  (`filterSpec`, `rowsSpec`; `filterChunkSpec`, `batchesSpec`), whether the cache is on or off:
  `projTrace_next_eq_spec`, `projTrace_batch_eq_spec`.  Hence `projTrace_cache_invisible`.
-/
import Kvql.Proofs.RunProofs
import Kvql.Properties.C05

namespace Kvql.Proofs.RunFields
open Kvql Kvql.Run Kvql.Plans Kvql.Storage Kvql.Cache Kvql.Project Kvql.Proofs.Scan
open Kvql.Proofs.RunTables Kvql.Proofs.RunScan Kvql.Proofs.RunLimit

/-! ### the select list and the alias table of a folded statement -/

/-- the select list `projTrace` hands to the projection: (FieldNames[i], folded Fields[i]) -/
def selFields (s : SelectS) (f : FoldedSelect) : List Field :=
  (s.fieldNames.zip f.fields).map (fun p => ⟨p.1, p.2⟩)

/-- the alias table of the folded statement: every alias reference of its WHERE and its fields -/
def aliasTable (s : SelectS) (f : FoldedSelect) : Aliases := allRefs f.where_ (selFields s f)

/-- the two hypotheses of the C05 theorems that do not hold by construction -/
structure AliasOK (s : SelectS) (f : FoldedSelect) : Prop where
  functional : Functional (aliasTable s f)
  agree : FieldsAgree (aliasTable s f) (selFields s f)

theorem wf_where (s : SelectS) (f : FoldedSelect) : WF (aliasTable s f) f.where_ := by
  intro p hp
  exact List.mem_append_left _ hp

theorem wf_fields (s : SelectS) (f : FoldedSelect) : FieldsWF (aliasTable s f) (selFields s f) := by
  intro g hg p hp
  exact List.mem_append_right _ (List.mem_flatMap.mpr ⟨g, hg, hp⟩)

/-! ### the verdict tables are the tables of the cache-free verdicts -/

theorem ctxOn_new_clear : CtxOn (Ctx.new true).clear := ctxOn_new.clear

/-- row mode: `FilterExec.Filter` on a pair, cache on or off, is `filterSpec` -/
theorem filterRow_new {A : Aliases} (hfun : Functional A) {w : Expr} (hw : WF A w) (kv : Pair) (cache : Bool) :
    (filterRowG true w kv (Ctx.new cache)).1 = filterSpec w kv := by
  cases cache with
  | false => rw [filterRow_off true w kv (c := Ctx.new false) rfl]
  | true => exact (filterRow_on hfun hw kv ctxOn_new).1

/-- the row table, cache on or off -/
def rowTable (w : Expr) (l : List SPair) : Verdicts := l.map (fun p => (p.1, filterSpec w (toKv p)))

theorem rowVerdicts_spec {A : Aliases} (hfun : Functional A) {w : Expr} (hw : WF A w) (cache : Bool) (l : List SPair) :
    rowVerdicts w (Ctx.new cache) l = rowTable w l := by
  unfold rowVerdicts rowTable
  apply List.map_congr_left
  intro p _
  rw [filterRow_new hfun hw (toKv p) cache]

/-- batch mode: the verdicts of one inner chunk from the cache-free `filterChunkSpec` -/
def chunkTable (w : Expr) (chunk : List SPair) : Verdicts :=
  match filterChunkSpec w (chunk.map toKv) with
  | .error e => chunk.map (fun p => (p.1, .error e))
  | .ok ms =>
    if (ms.drop chunk.length).any id then chunk.map (fun p => (p.1, .error .filterIndex))
    else zipVerdicts chunk ms

def batchTable (w : Expr) (chunks : List (List SPair)) : Verdicts := chunks.flatMap (chunkTable w)

theorem filterChunk_new {A : Aliases} (hfun : Functional A) {w : Expr} (hw : WF A w) {ch : List Pair} (hne : ch ≠ [])
    (cache : Bool) : (filterChunk w ch (Ctx.new cache)).1 = filterChunkSpec w ch := by
  cases cache with
  | false => rw [filterChunk_off hfun hw hne (c := Ctx.new false) rfl]
  | true =>
    have inv := LoopInv.start (A := A) (w := w) ctxOn_new
    rw [new_true_clear] at inv
    exact (loop_step hfun hw inv hne (by intro ch' h; cases h)).1

theorem chunkVerdicts_spec {A : Aliases} (hfun : Functional A) {w : Expr} (hw : WF A w) (cache : Bool)
    (ch : List SPair) : chunkVerdicts w (Ctx.new cache) ch = chunkTable w ch := by
  cases hne : ch with
  | nil =>
    have e1 : chunkVerdicts w (Ctx.new cache) [] = [] := by
      unfold chunkVerdicts; split <;> simp [zipVerdicts]
    have e2 : chunkTable w [] = [] := by
      unfold chunkTable; split <;> simp [zipVerdicts]
    rw [e1, e2]
  | cons x xs =>
    rw [← hne]
    have hne' : ch.map toKv ≠ [] := by rw [hne]; simp
    unfold chunkVerdicts chunkTable
    rw [filterChunk_new hfun hw hne' cache]
    rfl

theorem batchVerdicts_spec {A : Aliases} (hfun : Functional A) {w : Expr} (hw : WF A w) (cache : Bool)
    (chunks : List (List SPair)) : batchVerdicts w (Ctx.new cache) chunks = batchTable w chunks := by
  unfold batchVerdicts batchTable
  simp only [List.flatMap_def]
  congr 1
  apply List.map_congr_left
  intro ch _
  exact chunkVerdicts_spec hfun hw cache ch

/-! ### the drains are the cache-free specifications -/

theorem drainRowFuel_new {A : Aliases} (hfun : Functional A) {w : Expr} (hw : WF A w) {fields : List Field}
    (hwf : FieldsWF A fields) (hag : FieldsAgree A fields) (n : Nat) (ps : List Pair) (hn : ps.length < n)
    (cache : Bool) : (drainRowFuel true w fields n ps (Ctx.new cache)).1 = rowsSpec w fields ps := by
  cases cache with
  | false => rw [drainRowFuel_off true w fields n ps (c := Ctx.new false) rfl hn]
  | true => exact drainRowFuel_on hfun hw hwf hag n ps ctxOn_new hn

theorem drainBatchFuel_new {A : Aliases} (hfun : Functional A) {w : Expr} (hw : WF A w) {fields : List Field}
    (hwf : FieldsWF A fields) (hag : FieldsAgree A fields) (bs n : Nat) (chunks : List (List Pair))
    (hd : DistinctFk chunks) (cache : Bool) :
    ((drainBatchFuel w fields bs n chunks (Ctx.new cache)).1, (drainBatchFuel w fields bs n chunks (Ctx.new cache)).2.1) =
      batchesSpec w fields bs n chunks := by
  cases cache with
  | false => exact drainBatchFuel_off hfun hw hwf bs n chunks (c := Ctx.new false) rfl
  | true => exact drainBatchFuel_on hfun hw hwf hag bs n chunks hd ctxOn_new

/-! ### inner chunks of a sorted store start with different keys -/

theorem fk_mem {ch : List Pair} (hne : ch ≠ []) : ∃ p ∈ ch, fk ch = p.key := by
  cases ch with
  | nil => exact absurd rfl hne
  | cons p ps => exact ⟨p, by simp, by simp [fk]⟩

/-- chunks whose concatenation has pairwise distinct keys start with different keys -/
theorem distinctFk_of_flatten : ∀ (chunks : List (List Pair)),
    chunks.flatten.Pairwise (fun a b => a.key ≠ b.key) → DistinctFk chunks
  | [], _ => List.Pairwise.nil
  | c :: cs, h => by
    rw [List.flatten_cons, List.pairwise_append] at h
    obtain ⟨_, h2, h3⟩ := h
    refine List.pairwise_cons.mpr ⟨fun b hb hc hbne => ?_, distinctFk_of_flatten cs h2⟩
    obtain ⟨p, hp, e1⟩ := fk_mem hc
    obtain ⟨q, hq, e2⟩ := fk_mem hbne
    rw [e1, e2]
    exact h3 p hp q (List.mem_flatten.mpr ⟨b, hb, hq⟩)

theorem distinctFk_innerChunks (node : ScanNode) (hwf : ScanNode.WellFormed node) {store : Store} (hs : store.Sorted)
    (bs : Nat) (hbs : 1 ≤ bs) : DistinctFk ((innerChunks node bs store).map (·.map toKv)) := by
  apply distinctFk_of_flatten
  have hfl : ((innerChunks node bs store).map (·.map toKv)).flatten = (yielded node store).map toKv := by
    rw [← innerChunks_flatten node bs hbs store, List.map_flatten]
  rw [hfl, yielded_eq_filter node hwf hs, List.pairwise_map]
  exact (keys_distinct hs _).imp (fun {a b} h => h)

/-! ### `projTrace` in terms of the specifications -/

/-- row mode, from the cache-free verdicts and `rowsSpec` -/
def projSpecNext (s : SelectS) (f : FoldedSelect) (store : Store) (bs : Nat) : Trace (List Value) :=
  let node := nodeOf (Scan.optimize f.where_)
  let ys := yielded node store
  let st := scanTrace node (rowTable f.where_ ys) .next bs store
  if s.allFields then st.map pairRow
  else
    let o := rowsSpec f.where_ (selFields s f) (ys.map toKv)
    zipProj st.polls st.fin (o.rows.map (fun r => [r])) o.err st.w0 []

/-- batch mode, from the cache-free chunk verdicts and `batchesSpec` -/
def projSpecBatch (s : SelectS) (f : FoldedSelect) (store : Store) (bs : Nat) : Trace (List Value) :=
  let node := nodeOf (Scan.optimize f.where_)
  let chunks := innerChunks node bs store
  let st := scanTrace node (batchTable f.where_ chunks) .batch bs store
  if s.allFields then st.map pairRow
  else
    let b := batchesSpec f.where_ (selFields s f) bs (chunks.length + 1) (chunks.map (·.map toKv))
    zipProj st.polls st.fin b.1 b.2 st.w0 []

theorem projTrace_next_eq_spec {s : SelectS} {f : FoldedSelect} (h : AliasOK s f) (store : Store) (bs : Nat)
    (cache : Bool) : projTrace s f store .next bs cache = projSpecNext s f store bs := by
  unfold projTrace projSpecNext
  simp only
  rw [rowVerdicts_spec h.functional (wf_where s f) cache]
  split
  · rfl
  · have hd := drainRowFuel_new h.functional (wf_where s f) (wf_fields s f) h.agree
      ((yielded (nodeOf (Scan.optimize f.where_)) store).length + 1)
      ((yielded (nodeOf (Scan.optimize f.where_)) store).map toKv) (by simp) cache
    unfold selFields at hd ⊢
    rw [← hd]

theorem projTrace_batch_eq_spec {s : SelectS} {f : FoldedSelect} (h : AliasOK s f) {store : Store} (hs : store.Sorted)
    (bs : Nat) (hbs : 1 ≤ bs) (cache : Bool) : projTrace s f store .batch bs cache = projSpecBatch s f store bs := by
  have hwfn : ScanNode.WellFormed (nodeOf (Scan.optimize f.where_)) := by
    rw [Kvql.Proofs.Run.nodeOf_eq]; exact Select.nodeOf_wellFormed _
  unfold projTrace projSpecBatch
  simp only
  rw [batchVerdicts_spec h.functional (wf_where s f) cache]
  split
  · rfl
  · have hd := drainBatchFuel_new h.functional (wf_where s f) (wf_fields s f) h.agree bs
      ((innerChunks (nodeOf (Scan.optimize f.where_)) bs store).length + 1)
      ((innerChunks (nodeOf (Scan.optimize f.where_)) bs store).map (·.map toKv))
      (distinctFk_innerChunks _ hwfn hs bs hbs) cache
    unfold selFields at hd ⊢
    rw [← hd]

/-- **the field cache is invisible in `projTrace`**: row mode for every store and batch size;
    batch mode on a sorted store (distinct keys) at `PlanBatchSize ≥ 1` -/
theorem projTrace_cache_invisible {s : SelectS} {f : FoldedSelect} (h : AliasOK s f) (store : Store) (kind : PollKind)
    (bs : Nat) (hk : kind = .next ∨ (store.Sorted ∧ 1 ≤ bs)) :
    projTrace s f store kind bs true = projTrace s f store kind bs false := by
  cases kind with
  | next => rw [projTrace_next_eq_spec h, projTrace_next_eq_spec h]
  | batch =>
    rcases hk with hk | ⟨hs, hbs⟩
    · cases hk
    · rw [projTrace_batch_eq_spec h hs bs hbs, projTrace_batch_eq_spec h hs bs hbs]

end Kvql.Proofs.RunFields
