/-
  End-to-end proofs for SELECT statements WITH A FIELD LIST, part 9: the theorems of
  Properties/E2EFields.lean.
-/
import Kvql.Proofs.RunFieldsCheck

namespace Kvql.Proofs.RunFields
open Kvql Kvql.Run Kvql.Plans Kvql.Storage Kvql.Cache Kvql.Project Kvql.Proofs.Scan Kvql.Proofs.Typing
open Kvql.Proofs.RunTables Kvql.Proofs.RunScan Kvql.Proofs.RunLimit Kvql.Proofs.RunFold
open Kvql.PlanCheck (planStage finalPlanCheck)
open Kvql.Refine

/-! ### ORDER BY and LIMIT over a projection that ends well, either mode -/

/-- what ORDER BY needs to know about the rows `R` of the statement without ORDER BY / LIMIT: nothing
    when there is no ORDER BY or it is the elided `order by key asc`; else the order keys exist and the
    documented order is defined on `R` (`RowOK`, C07 (d)) -/
def OrderHyp (s : SelectS) (R : List (List Value)) : Prop :=
  match s.order with
  | none => True
  | some o => elideOrder s o = true ∨
      ∃ keys kinds, orderKeys (projNames s) (projTypes s) o = some keys ∧ ∀ r ∈ R, RowOKV keys kinds r

/-- what ORDER BY makes of the rows `R`: `R` itself (no ORDER BY, or elided), or a permutation of `R` in
    which no row is (documented-order) less than an earlier one -/
def OrderedBy (s : SelectS) (R R' : List (List Value)) : Prop :=
  match s.order with
  | none => R' = R
  | some o =>
    if elideOrder s o then R' = R
    else ∃ keys, orderKeys (projNames s) (projTypes s) o = some keys ∧ R'.Perm R ∧
      R'.Pairwise (fun a b => lessV keys b a = false) ∧ sortedRows keys R = .ok R'

theorem OrderedBy.perm {s : SelectS} {R R' : List (List Value)} (h : OrderedBy s R R') : R'.Perm R := by
  unfold OrderedBy at h
  split at h
  · rw [h]
  · split at h
    · rw [h]
    · obtain ⟨_, _, hp, _⟩ := h; exact hp

theorem plainTrace_good_general {s : SelectS} {f : FoldedSelect} {store : Store} {kind : PollKind} {bs : Nat}
    {cache : Bool} (hbs : 1 ≤ bs) {R : List (List Value)} {st' : Store}
    (hg : Good (projTrace s f store kind bs cache) R st') (ho : OrderHyp s R) :
    ∃ t1 R', plainTrace s f store kind bs cache = .ok t1 ∧ Good t1 R' st' ∧ OrderedBy s R R' := by
  unfold OrderHyp at ho
  unfold OrderedBy
  cases hord : s.order with
  | none =>
    refine ⟨_, R, ?_, hg, rfl⟩
    unfold plainTrace; rw [hord]
  | some o =>
    rw [hord] at ho
    simp only at ho ⊢
    by_cases he : elideOrder s o = true
    · refine ⟨_, R, plainTrace_elide hord he f store kind bs cache, hg, ?_⟩
      simp only [he, if_true]
    · have he' : elideOrder s o = false := by simpa using he
      rcases ho with ho | ⟨keys, kinds, hk, hR⟩
      · exact absurd ho he
      · obtain ⟨t1, out, ht, g1, g2, g3⟩ := plainTrace_order_good hbs hord he' hk hg kinds hR
        refine ⟨t1, out, ht, g1, ?_⟩
        simp only [he', Bool.false_eq_true, if_false]
        refine ⟨keys, hk, g2, g3, ?_⟩
        obtain ⟨hswo, hlok⟩ := lessV_swo keys kinds
        obtain ⟨out', e, _, _⟩ := Kvql.Proofs.Order.plan_sorted_next hswo hlok R hR (R.length + 2) (by omega)
        have hsr : sortedRows keys R = .ok out' := e
        have h3 := orderTrace_rows hg keys kind bs hbs hsr
        have ht' : t1 = orderTrace keys kind bs (projTrace s f store kind bs cache) := by
          unfold plainTrace at ht
          simp only [hord, he', Bool.false_eq_true, if_false, hk, Except.ok.injEq] at ht
          exact ht.symm
        rw [← ht', g1.rows] at h3
        rw [hsr, h3]

/-- **ORDER BY and LIMIT over a projection that ends well** (either mode): the statement succeeds, and
    its rows are the slice LIMIT asks for of what ORDER BY makes of the projection's rows -/
theorem runStmt_general {s : SelectS} {f : FoldedSelect} {store : Store} {kind : PollKind} {bs : Nat} {cache : Bool}
    (hbs : 1 ≤ bs) (hnoaggr : finalPlanCheck s = .ok false) (hf : foldSelect s = .ok f)
    {R : List (List Value)} {st' : Store} (hg : Good (projTrace s f store kind bs cache) R st') (ho : OrderHyp s R) :
    ∃ R', OrderedBy s R R' ∧
      (runStmt (.select s) store kind bs cache).fail = none ∧
      (runStmt (.select s) store kind bs cache).rows = sliceOf s.limit R' ∧
      (s.limit = none → (runStmt (.select s) store kind bs cache).world.store = st') := by
  obtain ⟨t1, R', ht, g1, g2⟩ := plainTrace_good_general hbs hg ho
  exact ⟨R', g2, runStmt_of_good hbs hnoaggr hf ht g1⟩

/-! ### (1) row mode, on the folded statement (aliases allowed) -/

theorem folded_fields_length {s : SelectS} {f : FoldedSelect} (hf : foldSelect s = .ok f) :
    f.fields.length = s.fields.length := by
  obtain ⟨_, _, fs, _, hfs, _, e2⟩ := foldSelect_inv hf
  rw [e2, List.length_map, hfs.length_eq]

theorem specRows_length {s : SelectS} {f : FoldedSelect} (hf : foldSelect s = .ok f)
    (hnames : s.fieldNames.length = s.fields.length) (store : Store) :
    ∀ r ∈ specRows s f store, r.length = (projNames s).length := by
  intro r hr
  unfold specRows at hr
  obtain ⟨p, _, rfl⟩ := List.mem_map.mp hr
  simp only [List.length_map, selFields, List.length_zip, projNames, folded_fields_length hf, hnames, Nat.min_self]

/-- **(1), row mode, aliases allowed, judged on the folded statement.** -/
theorem runStmt_fields_rows {s : SelectS} (hnf : s.allFields = false) (hnoaggr : finalPlanCheck s = .ok false)
    {f : FoldedSelect} (hf : foldSelect s = .ok f) (hA : AliasOK s f) {store : Store} (hs : store.Sorted)
    (hev : EvalOK s f store) (ho : OrderHyp s (specRows s f store)) (bs : Nat) (hbs : 1 ≤ bs) (cache : Bool) :
    ∃ R', OrderedBy s (specRows s f store) R' ∧
      (runStmt (.select s) store .next bs cache).fail = none ∧
      (runStmt (.select s) store .next bs cache).rows = sliceOf s.limit R' ∧
      (s.limit = none → (runStmt (.select s) store .next bs cache).world.store = store) :=
  runStmt_general hbs hnoaggr hf (projTrace_good hnf hA hs hev bs hbs cache) ho

/-! ### (1) row mode, alias-free statements judged on the parsed statement -/

/-- the ORDER BY hypothesis on the PARSED statement: the values of the parsed fields on every accepted
    stored pair are of kinds the documented order is defined on — kinds that do not distinguish a text held
    as `[]byte` from one held as a Go string (`stableKind`: all but `bytes` / `str`; use `text`) -/
def OrderHypParsed (s : SelectS) (store : Store) : Prop :=
  match s.order with
  | none => True
  | some o => elideOrder s o = true ∨
      ∃ keys kinds, orderKeys (projNames s) (projTypes s) o = some keys ∧ kinds.all stableKind = true ∧
        ∀ p ∈ store, Select.accepted s.where_ p = true → RowOKV keys kinds (s.fields.map (colVal · p))

theorem rows_map_right {α β γ : Type} {P : α → γ → Prop} (φ : β → γ) : ∀ {as : List α} {bs : List β},
    Rows (fun a b => P a (φ b)) as bs → Rows P as (bs.map φ)
  | _, _, .nil => .nil
  | _, _, .cons hp hr => .cons hp (rows_map_right φ hr)

/-- the conclusion of (1) about one row: one column per select field, in order; column j is the value of
    parsed field j on the pair, cache off — the same value, or the same text held as `[]byte` where the
    un-folded expression holds a Go string -/
def RowOf (s : SelectS) (p : SPair) (row : List Value) : Prop :=
  Rows (fun col e => ∃ v, exec e (toKv p) Ctx.off = (.ok v, Ctx.off) ∧ Kvql.Rel col v) row s.fields

theorem RowOf.length {s : SelectS} {p : SPair} {row : List Value} (h : RowOf s p row)
    (hnames : s.fieldNames.length = s.fields.length) : row.length = (projNames s).length := by
  rw [Rows.length_eq h, projNames, hnames]

theorem specRows_rowOK_of_parsed {s : SelectS} (haf : afStmt s = true) {f : FoldedSelect} (hf : foldSelect s = .ok f)
    (hnames : s.fieldNames.length = s.fields.length) {store : Store} (hev : ExecOK s store)
    {keys : List Order.Key} {kinds : List Spec.Order.Kind} (hst : kinds.all stableKind = true)
    (hR : ∀ p ∈ store, Select.accepted s.where_ p = true → RowOKV keys kinds (s.fields.map (colVal · p))) :
    ∀ r ∈ specRows s f store, RowOKV keys kinds r := by
  obtain ⟨_, hacc, hrows⟩ := folded_of_execOK haf hf hnames hev
  intro r hr
  unfold specRows at hr
  obtain ⟨p, hp, rfl⟩ := List.mem_map.mp hr
  obtain ⟨hps, hpa⟩ := List.mem_filter.mp hp
  rw [hacc p hps] at hpa
  have hrel : Rows Kvql.Rel ((selFields s f).map (fun g => colVal g.expr p)) (s.fields.map (colVal · p)) := by
    apply rows_map_right
    refine Rows.imp ?_ (hrows p hps hpa)
    intro col e ⟨v, hv, hr⟩
    unfold colVal
    rw [nocache_of_exec hv]
    exact hr
  exact rowOK_of_rel keys kinds hst hrel (hR p hps hpa)

theorem orderHyp_of_parsed {s : SelectS} (haf : afStmt s = true) {f : FoldedSelect} (hf : foldSelect s = .ok f)
    (hnames : s.fieldNames.length = s.fields.length) {store : Store} (hev : ExecOK s store)
    (ho : OrderHypParsed s store) : OrderHyp s (specRows s f store) := by
  unfold OrderHypParsed at ho
  unfold OrderHyp
  cases hord : s.order with
  | none => trivial
  | some o =>
    rw [hord] at ho
    simp only at ho ⊢
    rcases ho with ho | ⟨keys, kinds, hk, hst, hR⟩
    · exact .inl ho
    · exact .inr ⟨keys, kinds, hk, specRows_rowOK_of_parsed haf hf hnames hev hst hR⟩

/-- **(1) + (3) + (4), row mode, alias-free statements, judged on the parsed statement.** -/
theorem runStmt_fields_parsed {s : SelectS} (hnf : s.allFields = false) (hnoaggr : finalPlanCheck s = .ok false)
    (haf : afStmt s = true) (hnames : s.fieldNames.length = s.fields.length) {store : Store} (hs : store.Sorted)
    (hev : ExecOK s store) (ho : OrderHypParsed s store) (bs : Nat) (hbs : 1 ≤ bs) (cache : Bool) :
    ∃ (row : SPair → List Value) (R' : List (List Value)),
      (∀ p ∈ store, Select.accepted s.where_ p = true → RowOf s p (row p)) ∧
      OrderedBy s ((store.filter (Select.accepted s.where_)).map row) R' ∧
      (runStmt (.select s) store .next bs cache).fail = none ∧
      (runStmt (.select s) store .next bs cache).rows = sliceOf s.limit R' ∧
      (s.limit = none → (runStmt (.select s) store .next bs cache).world.store = store) := by
  obtain ⟨f, hf⟩ := foldSelect_total s
  obtain ⟨hE, hacc, hrows⟩ := folded_of_execOK haf hf hnames hev
  obtain ⟨R', h1, h2, h3, h4⟩ := runStmt_fields_rows hnf hnoaggr hf (aliasOK_of_af haf hf) hs hE
    (orderHyp_of_parsed haf hf hnames hev ho) bs hbs cache
  refine ⟨fun p => (selFields s f).map (fun (g : Field) => colVal g.expr p), R', hrows, ?_, h2, h3, h4⟩
  have : specRows s f store =
      (store.filter (Select.accepted s.where_)).map (fun p => (selFields s f).map (fun g => colVal g.expr p)) := by
    unfold specRows
    congr 1
    apply List.filter_congr
    intro p hp
    exact hacc p hp
  rw [← this]
  exact h1

/-! ### … and judged by the reference evaluator -/

/-- one row against the reference: one column per select field, column j `≈` the reference's value of
    parsed field j on the pair (`≈` forgets Go's `[]byte` vs `string`, `int64` vs `int`) -/
def RowOfSpec (s : SelectS) (p : SPair) (row : List Value) : Prop :=
  Rows (fun col e => ∃ sv, Spec.eval e ⟨p.1, p.2⟩ = some sv ∧ col ≈ sv) row s.fields

theorem runStmt_fields_spec {query : Bytes} {pf : Bytes → F64} {s : SelectS}
    (hplan : planStage pf (Lexer.split query) = .ok (.select s))
    (hnf : s.allFields = false) (hnoaggr : finalPlanCheck s = .ok false)
    (haf : afStmt s = true) (hnames : s.fieldNames.length = s.fields.length) {store : Store} (hs : store.Sorted)
    (hsp : SpecOK s store) (ho : OrderHypParsed s store) (bs : Nat) (hbs : 1 ≤ bs) (cache : Bool) :
    ∃ (row : SPair → List Value) (R' : List (List Value)),
      (∀ p ∈ store, Spec.holds s.where_ ⟨p.1, p.2⟩ = true → RowOfSpec s p (row p)) ∧
      OrderedBy s ((store.filter (fun p => Spec.holds s.where_ ⟨p.1, p.2⟩)).map row) R' ∧
      (runStmt (.select s) store .next bs cache).fail = none ∧
      (runStmt (.select s) store .next bs cache).rows = sliceOf s.limit R' ∧
      (s.limit = none → (runStmt (.select s) store .next bs cache).world.store = store) := by
  obtain ⟨hev, hacc, hcore⟩ := execOK_of_specOK hplan haf hsp
  obtain ⟨row, R', h0, h1, h2, h3, h4⟩ := runStmt_fields_parsed hnf hnoaggr haf hnames hs hev ho bs hbs cache
  refine ⟨row, R', ?_, ?_, h2, h3, h4⟩
  · intro p hp hh
    have ha : Select.accepted s.where_ p = true := by rw [hacc p hp]; exact hh
    refine rows_weaken (h0 p hp ha) ?_
    intro col e he ⟨v, hv, hrel⟩
    obtain ⟨sv, hsv⟩ := Option.isSome_iff_exists.mp (hsp.evalF p hp hh e he)
    obtain ⟨v', hv', hr⟩ := exec_refines_spec e (hcore e he) _ hsv
    have e1 : (⟨p.1, p.2⟩ : Kvql.Pair) = toKv p := rfl
    rw [e1, hv] at hv'
    have : v = v' := by injection hv' with h _; injection h
    subst this
    exact ⟨sv, hsv, refines_of_rel hrel hr⟩
  · have : store.filter (fun p => Spec.holds s.where_ ⟨p.1, p.2⟩) = store.filter (Select.accepted s.where_) := by
      apply List.filter_congr
      intro p hp
      exact (hacc p hp).symm
    rw [this]
    exact h1

/-! ### (4) both modes under LIMIT -/

/-- if the statement without LIMIT succeeds in row mode and in batch mode with the same rows, so does
    the statement with LIMIT -/
theorem runStmt_limit_modes_agree {s : SelectS} (hnoaggr : finalPlanCheck s = .ok false) {l : LimitS}
    (hl : s.limit = some l) (store : Store) (bs bs' : Nat) (hbs : 1 ≤ bs) (hbs' : 1 ≤ bs') (cache cache' : Bool)
    (hokN : (runStmt (.select { s with limit := none }) store .next bs' cache').fail = none)
    (hokB : (runStmt (.select { s with limit := none }) store .batch bs cache).fail = none)
    (heq : (runStmt (.select { s with limit := none }) store .next bs' cache').rows =
      (runStmt (.select { s with limit := none }) store .batch bs cache).rows) :
    (runStmt (.select s) store .next bs' cache').fail = none ∧
    (runStmt (.select s) store .batch bs cache).fail = none ∧
    (runStmt (.select s) store .next bs' cache').rows = (runStmt (.select s) store .batch bs cache).rows := by
  obtain ⟨n1, n2⟩ := runStmt_limit hnoaggr hl store .next bs' hbs' cache' hokN
  obtain ⟨b1, b2⟩ := runStmt_limit hnoaggr hl store .batch bs hbs cache hokB
  exact ⟨n1, b1, by rw [n2, b2, heq]⟩

/-! ### `select *` without LIMIT in both modes (the hypothesis of `runStmt_limit_modes_agree` discharged) -/

theorem projTrace_star {s : SelectS} (f : FoldedSelect) (hstar : s.allFields = true) (store : Store) (kind : PollKind)
    (bs : Nat) (cache : Bool) :
    projTrace s f store kind bs cache =
      (scanTrace (nodeOf (Scan.optimize f.where_)) (Kvql.Proofs.Run.starTable f.where_ store kind bs cache) kind bs
        store).map pairRow := by
  unfold projTrace Kvql.Proofs.Run.starTable
  cases kind <;> simp only [hstar, if_true]

/-- `select * where P` (no ORDER BY; the LIMIT clause, if any, removed) under the hypotheses of E2E
    `run_star_modes_agree_partial`: either mode succeeds with the stored pairs the row evaluator accepts -/
theorem runStmt_star_noLimit {s : SelectS} (hnoaggr : finalPlanCheck s = .ok false) (hstar : s.allFields = true)
    (hord : s.order = none) (haf : aliasFree s.where_ = true) {store : Store} (hs : store.Sorted)
    {fw : Expr} (hfw : Fold.optimize s.where_ = .ok fw) (hok : fw.vecOk = true)
    (hbatch : ∀ p ∈ store, ∃ b, (execBatch fw [⟨p.1, p.2⟩] Ctx.off).1 = .ok [.bool b])
    (kind : PollKind) (bs : Nat) (hbs : 1 ≤ bs) (cache : Bool) :
    (runStmt (.select { s with limit := none }) store kind bs cache).fail = none ∧
    (runStmt (.select { s with limit := none }) store kind bs cache).rows =
      (store.filter (Select.accepted fw)).map pairRow := by
  obtain ⟨f, hf⟩ := foldSelect_total s
  obtain ⟨fw', n, fs, hw, _, e1, _⟩ := foldSelect_inv hf
  have e : fw' = fw := by
    have := Kvql.Proofs.Run.optimize_of_both hw
    rw [hfw] at this
    injection this with this
    exact this.symm
  subst e
  rw [resolveTop_of_af _ fw' (optimizeBoth_af haf hw)] at e1
  obtain ⟨t1, t2, _⟩ := Kvql.Proofs.Run.star_trace_of_batchBool haf hs hw hok hbatch kind bs hbs cache
  rw [← e1, ← projTrace_star f hstar store kind bs cache] at t1 t2
  rw [runStmt_noLimit store kind bs cache hbs hnoaggr hf]
  have hp : plainTrace s f store kind bs cache = .ok (projTrace s f store kind bs cache) := by
    unfold plainTrace; rw [hord]
  rw [hp]
  exact ⟨t1, by rw [outcome_rows, t2, e1]⟩

end Kvql.Proofs.RunFields
