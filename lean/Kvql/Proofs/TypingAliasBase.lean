/-
  C14 through alias references, part 1: self-contained trees.

  The trees an accepted statement carries are the trees `Parser.resolveTop` returns: every alias
  reference holds a copy of the select field it names, in that field's final state.  Such a tree can
  be typed without a select list (`ctx0`, the empty table: `ReturnType()` of a reference asks the
  copy).  This file:
    * `sideOkD`, `noCyc`  the side condition of `check_sound` and "no cycle marker", followed INTO
                          the copies the references carry;
    * `NodeOK ctx deep`   every node passes the checker's own test of its operator in `ctx`
                          (`deep`: also inside the copies);
    * `deep0_sound`       a self-contained tree all of whose nodes pass the checker's tests over the
                          empty table, within `sideOkD`, all calls validated, is well-kinded by the
                          README typing `kindOf`, its kind is the static `ReturnType()`.
-/
import Kvql.Proofs.TypingAcceptedFull

namespace Kvql.Proofs.Typing

open Kvql Kvql.Generated Kvql.PlanCheck Kvql.Parser

/-- no select list: an alias reference is typed through the copy it carries -/
def ctx0 : CheckCtx := {}

/-! ### predicates that follow the references into their copies -/

mutual
  /-- `sideOk`, also inside the copies of the select fields the references carry -/
  def sideOkD : Expr → Bool
    | .str .. | .field .. | .num .. | .float .. | .bool .. => true
    | .ref _ _ t => sideOkD t
    | .name .. => false
    | .cycle => false
    | .list .. => false
    | .access .. => false
    | .not _ r => sideOkD r
    | .call _ nm args =>
      (match bodyOf nm with
       | some b => argTypesOk b (retTypes args)
       | none => false) && sideOkDList args
    | .binop _ op l r =>
      match op, r with
      | .in_, .list _ items => sideOkD l && sideOkDList items
      | .in_, r => sideOkD l && sideOkD r && inElemOk l r
      | .between, .list _ items => sideOkD l && sideOkDList items
      | _, r => sideOkD l && sideOkD r
  def sideOkDList : List Expr → Bool
    | [] => true
    | e :: es => sideOkD e && sideOkDList es
end

mutual
  /-- no cycle marker anywhere, the copies included -/
  def noCyc : Expr → Bool
    | .cycle => false
    | .binop _ _ l r => noCyc l && noCyc r
    | .not _ r => noCyc r
    | .call _ n args => noCyc n && noCycList args
    | .ref _ _ t => noCyc t
    | .list _ items => noCycList items
    | .access _ l f => noCyc l && noCyc f
    | _ => true
  def noCycList : List Expr → Bool
    | [] => true
    | e :: es => noCyc e && noCycList es
end

mutual
  /-- every node passes the checker's test of its operator in `ctx`; `deep`: also the nodes of the
      copies the references carry -/
  def NodeOK (ctx : CheckCtx) (deep : Bool) : Expr → Prop
    | .binop p op l r => NodeOK ctx deep l ∧ NodeOK ctx deep r ∧ ctx.checkOp p op l r = .ok ()
    | .not _ r => NodeOK ctx deep r ∧ ctx.rt r = .ok tyTBOOL
    | .call _ nm args => (∃ q d, nm = .name q d) ∧ NodeOKList ctx deep args
    | .list _ items => NodeOKList ctx deep items
    | .ref _ _ t => if deep then NodeOK ctx deep t else True
    | _ => True
  def NodeOKList (ctx : CheckCtx) (deep : Bool) : List Expr → Prop
    | [] => True
    | e :: es => NodeOK ctx deep e ∧ NodeOKList ctx deep es
end

theorem nodeOKList_mem {ctx : CheckCtx} {deep : Bool} : ∀ {xs : List Expr}, NodeOKList ctx deep xs →
    ∀ x ∈ xs, NodeOK ctx deep x
  | [], _, x, hx => by simp at hx
  | y :: ys, h, x, hx => by
    simp only [NodeOKList] at h
    rcases List.mem_cons.mp hx with rfl | hx'
    · exact h.1
    · exact nodeOKList_mem h.2 x hx'

theorem sideOkDList_mem : ∀ {xs : List Expr}, sideOkDList xs = true → ∀ x ∈ xs, sideOkD x = true
  | [], _, x, hx => by simp at hx
  | y :: ys, h, x, hx => by
    simp only [sideOkDList, Bool.and_eq_true] at h
    rcases List.mem_cons.mp hx with rfl | hx'
    · exact h.1
    · exact sideOkDList_mem h.2 x hx'

theorem noCycList_mem : ∀ {xs : List Expr}, noCycList xs = true → ∀ x ∈ xs, noCyc x = true
  | [], _, x, hx => by simp at hx
  | y :: ys, h, x, hx => by
    simp only [noCycList, Bool.and_eq_true] at h
    rcases List.mem_cons.mp hx with rfl | hx'
    · exact h.1
    · exact noCycList_mem h.2 x hx'

/-! ### the plan-time walk visits the copies: validated ⇒ no cycle marker -/

mutual
  theorem walkCalls_noCyc : ∀ (e : Expr) (site : Bool), walkCalls site e = .ok () → noCyc e = true
    | .binop _ _ l r, site, h => by
      simp only [walkCalls] at h
      obtain ⟨u, h1, h2⟩ := bind_ok_iff.mp h
      simp [noCyc, walkCalls_noCyc l site h1, walkCalls_noCyc r site h2]
    | .not _ r, _, h => by
      simp only [walkCalls] at h
      simp [noCyc, walkCalls_noCyc r false h]
    | .call _ nm args, _, h => by
      simp only [walkCalls] at h
      obtain ⟨u, _, h⟩ := bind_ok_iff.mp h
      obtain ⟨u', h2, h3⟩ := bind_ok_iff.mp h
      simp [noCyc, walkCalls_noCyc nm false h2, walkCallsList_noCyc args h3]
    | .ref _ _ t, _, h => by
      simp only [walkCalls] at h
      simp [noCyc, walkCalls_noCyc t false h]
    | .cycle, _, h => by simp [walkCalls] at h
    | .list _ items, _, h => by
      simp only [walkCalls] at h
      simp [noCyc, walkCallsList_noCyc items h]
    | .access _ l f, _, h => by
      simp only [walkCalls] at h
      obtain ⟨u, h1, h2⟩ := bind_ok_iff.mp h
      simp [noCyc, walkCalls_noCyc l false h1, walkCalls_noCyc f false h2]
    | .field .., _, _ | .str .., _, _ | .name .., _, _ | .num .., _, _ | .float .., _, _ | .bool .., _, _ => by
      simp [noCyc]
  theorem walkCallsList_noCyc : ∀ (es : List Expr), walkCallsList es = .ok () → noCycList es = true
    | [], _ => by simp [noCycList]
    | e :: es, h => by
      simp only [walkCallsList] at h
      obtain ⟨u, h1, h2⟩ := bind_ok_iff.mp h
      simp [noCycList, walkCalls_noCyc e false h1, walkCallsList_noCyc es h2]
end

theorem callsOk_noCyc {e : Expr} (h : callsOk e) : noCyc e = true := walkCalls_noCyc e false h

theorem callsOk_ref {p : Nat} {n : Bytes} {t : Expr} (h : callsOk (.ref p n t)) : callsOk t := by
  unfold callsOk at h ⊢
  simpa only [walkCalls] using h

/-! ### `ReturnType()` over the empty table follows the copies -/

theorem find_nil (nm : Bytes) : Tbl.find ([] : Tbl) nm = none := by
  simp [Tbl.find, Tbl.find.go]

theorem rtF_nil : ∀ (X : Expr), noCyc X = true → rtF [] (X.size + 1) X = some X.retType
  | .binop p op l r, h => by
    simp only [noCyc, Bool.and_eq_true] at h
    cases op
    case add =>
      have ih := rtF_nil l h.1
      have hm := rtF_mono [] _ l _ ih (Expr.size (.binop p .add l r)) (by simp [Expr.size]; omega)
      simp only [rtF, Expr.opRetType, hm, Option.map_some, Expr.retType]
    all_goals exact rtF_selfTyped [] _ rfl
  | .ref p nm t, h => by
    simp only [noCyc] at h
    have ih := rtF_nil t h
    have hs : Expr.size (.ref p nm t) = t.size + 1 := by simp [Expr.size]; omega
    rw [hs]
    simp only [rtF, find_nil, Expr.retType]
    exact ih
  | .cycle, h => by simp [noCyc] at h
  | .field .., _ => rtF_selfTyped [] _ rfl
  | .str .., _ => rtF_selfTyped [] _ rfl
  | .not .., _ => rtF_selfTyped [] _ rfl
  | .call .., _ => rtF_selfTyped [] _ rfl
  | .name .., _ => rtF_selfTyped [] _ rfl
  | .num .., _ => rtF_selfTyped [] _ rfl
  | .float .., _ => rtF_selfTyped [] _ rfl
  | .bool .., _ => rtF_selfTyped [] _ rfl
  | .list .., _ => rtF_selfTyped [] _ rfl
  | .access .., _ => rtF_selfTyped [] _ rfl

/-- over the empty table the checker's `ReturnType()` is the static type of the tree -/
theorem rt0 {X : Expr} (h : noCyc X = true) : ctx0.rt X = .ok X.retType := by
  rw [rt_ok_iff]
  exact rtF_mono [] _ X _ (rtF_nil X h) _ (by unfold rtFuel; omega)

theorem tblSound0 : TblSound ctx0 := tblSound_nil ctx0 rfl

/-! ### the operator rules on sound operands (forms of `in_sound` / `between_sound` / `kind_call`
    that take the facts about list items directly) -/

theorem in_soundD {ctx : CheckCtx} {pos : Nat} {l r : Expr}
    (hl : Sound ctx l) (h : ctx.checkWithIn l r = .ok ())
    (hitems : ∀ q items, r = .list q items → ∀ x ∈ items, Sound ctx x)
    (he : (∀ q items, r ≠ .list q items) → inElemOk l r = true) :
    Sound ctx (.binop pos .in_ l r) := by
  obtain ⟨t, h1, htt, hcase⟩ := checkWithIn_ok h
  obtain ⟨kl, hkl, hcl⟩ := hl.kind_of_rt h1
  rcases hcase with ⟨q, items, rfl, hit⟩ | ⟨hshape, hrl⟩
  · have hitems' : ∀ x ∈ items, kindOf x = some kl := by
      intro x hx
      obtain ⟨kx, hkx, hcx⟩ := (hitems q items rfl x hx).kind_of_rt (hit x hx)
      have : kx = kl := by
        rcases htt with rfl | rfl
        · rw [kind_of_code_str hcx, kind_of_code_str hcl]
        · rw [kind_of_code_num hcx, kind_of_code_num hcl]
      rw [hkx, this]
    refine sound_of_kind (k := .bool) ?_ rfl
    rcases kind_text_or_num hcl htt with rfl | rfl
    · simp [kindOf, hkl, allKind_of hitems']
    · simp [kindOf, hkl, allKind_of hitems']
  · have hnl : ∀ q items, r ≠ .list q items := by
      intro q items hh
      rcases hshape with ⟨_, _, _, rfl⟩ | ⟨_, _, _, rfl⟩ <;> cases hh
    have he' := he hnl
    refine sound_of_kind (k := .bool) ?_ rfl
    simp only [inElemOk, Bool.or_eq_true, Bool.and_eq_true, beq_iff_eq] at he'
    rcases hshape with ⟨q, n, a, rfl⟩ | ⟨q, n, tg, rfl⟩ <;>
      rcases he' with ⟨e1, e2⟩ | ⟨e1, e2⟩ <;> (rw [kindOf]; simp [e1, e2])

theorem between_soundD {ctx : CheckCtx} {pos : Nat} {l r : Expr}
    (hl : Sound ctx l) (h : ctx.checkWithBetween l r = .ok ())
    (hitems : ∀ q items, r = .list q items → ∀ x ∈ items, Sound ctx x) :
    Sound ctx (.binop pos .between l r) := by
  obtain ⟨t, q, lo, hi, rfl, h1, htt, hlo, hhi⟩ := checkWithBetween_ok h
  obtain ⟨kl, hkl, hcl⟩ := hl.kind_of_rt h1
  have hbound : ∀ x ∈ [lo, hi], ctx.rt x = .ok t → kindOf x = some kl := by
    intro x hx hrx
    obtain ⟨kx, hkx, hcx⟩ := (hitems q [lo, hi] rfl x hx).kind_of_rt hrx
    have : kx = kl := by
      rcases htt with rfl | rfl
      · rw [kind_of_code_str hcx, kind_of_code_str hcl]
      · rw [kind_of_code_num hcx, kind_of_code_num hcl]
    rw [hkx, this]
  have klo := hbound lo (by simp) hlo
  have khi := hbound hi (by simp) hhi
  refine sound_of_kind (k := .bool) ?_ rfl
  rcases kind_text_or_num hcl htt with rfl | rfl <;> simp [kindOf, hkl, klo, khi]

theorem kind_callD {p : Nat} {nm : Expr} {args : List Expr} (hc : callsOk (.call p nm args))
    (hs : (match bodyOf nm with
       | some b => argTypesOk b (retTypes args)
       | none => false) = true) (hk : ∀ a ∈ args, Kinded a) : Kinded (.call p nm args) := by
  obtain ⟨⟨q, d, fo, rfl, hf, ha1, ha2⟩, _⟩ := callsOk_call hc
  simp only [bodyOf, hf, Option.bind_some] at hs
  cases hb : fo.body with
  | none => simp [hb] at hs
  | some b =>
    simp only [hb] at hs
    have hargs := argsOk_of_types b args hk hs
    have : kindOf (.call p (.name q d) args) = some b.res := by
      simp only [kindOf, funcNameOf, hf, hb, hargs, if_true]
      simp only [ha1, ha2]
      trivial
    refine ⟨b.res, this, ?_⟩
    rw [code_of_kind this]

/-- one binary node over sound operands (the facts about the items of a list operand given
    directly) -/
theorem binop_soundD {ctx : CheckCtx} {pos : Nat} {op : Op} {l r : Expr}
    (hop : ctx.checkOp pos op l r = .ok ()) (hl : Sound ctx l)
    (hr : (∀ q items, r ≠ .list q items) → Sound ctx r)
    (hitems : ∀ q items, r = .list q items → ∀ x ∈ items, Sound ctx x)
    (he : op = .in_ → (∀ q items, r ≠ .list q items) → inElemOk l r = true) :
    Sound ctx (.binop pos op l r) := by
  cases op
  case in_ => exact in_soundD hl (by simpa only [CheckCtx.checkOp] using hop) hitems (he rfl)
  case between => exact between_soundD hl (by simpa only [CheckCtx.checkOp] using hop) hitems
  case not => simp [CheckCtx.checkOp, synErr] at hop
  all_goals
    simp only [CheckCtx.checkOp] at hop
    have hnl : ∀ q items, r ≠ .list q items := by
      intro q items hh
      subst hh
      first
        | (simp only [CheckCtx.checkWithAndOr] at hop
           obtain ⟨u, _, h2⟩ := bind_ok_iff.mp hop
           simp [CheckCtx.checkAndOrSide, isBoolOperand, isBoolish, synErr] at h2; done)
        | (simp only [CheckCtx.checkWithMath] at hop
           obtain ⟨bl, _, h2⟩ := bind_ok_iff.mp hop
           obtain ⟨br, h3, _⟩ := bind_ok_iff.mp h2
           simp [CheckCtx.mathSide, synErr] at h3; done)
        | (simp only [CheckCtx.checkWithCompares] at hop
           obtain ⟨⟨lk, lv⟩, _, h2⟩ := bind_ok_iff.mp hop
           obtain ⟨⟨rk, rv⟩, h3, _⟩ := bind_ok_iff.mp h2
           simp [compareSide, synErr] at h3; done)
    have sr := hr hnl
    first
      | exact logic_sound (by simp) hl sr hop
      | exact math_sound (by simp) hl sr hop
      | exact compare_sound (by simp) hl sr hop

/-! ### sideOkD of a binary node -/

theorem sideOkD_binop {p : Nat} {op : Op} {l r : Expr} (h : sideOkD (.binop p op l r) = true) :
    sideOkD l = true ∧
    ((∀ q items, r ≠ .list q items) → sideOkD r = true ∧ (op = .in_ → inElemOk l r = true)) ∧
    (∀ q items, r = .list q items → (op = .in_ ∨ op = .between) → sideOkDList items = true) := by
  cases op <;> cases r <;> simp_all [sideOkD]

/-! ### soundness of a self-contained tree -/

/-- soundness, also for a list node (which has no kind itself): its items -/
def SoundL (ctx : CheckCtx) (e : Expr) : Prop :=
  (sideOkD e = true → callsOk e → Sound ctx e) ∧
  (∀ q items, e = .list q items → ∀ x ∈ items, sideOkD x = true → callsOk x → Sound ctx x)

mutual
  theorem deep0_soundL : ∀ (e : Expr), NodeOK ctx0 true e → SoundL ctx0 e
    | .binop pos op l r, h => by
      simp only [NodeOK] at h
      obtain ⟨nl, nr, hop⟩ := h
      have ihl := deep0_soundL l nl
      have ihr := deep0_soundL r nr
      refine ⟨fun hs hc => ?_, fun _ _ hh => by cases hh⟩
      obtain ⟨hcl, hcr⟩ := callsOk_binop hc
      obtain ⟨hsl, hsr, hsi⟩ := sideOkD_binop hs
      refine binop_soundD hop (ihl.1 hsl hcl) (fun hnl => ihr.1 (hsr hnl).1 hcr) ?_ (fun ho hnl => (hsr hnl).2 ho)
      intro q items hh x hx
      have hio : op = .in_ ∨ op = .between := by
        subst hh
        cases op <;> first | exact .inl rfl | exact .inr rfl | skip
        all_goals
          exfalso
          simp only [CheckCtx.checkOp] at hop
          first
            | (simp only [CheckCtx.checkWithAndOr] at hop
               obtain ⟨u, _, h2⟩ := bind_ok_iff.mp hop
               simp [CheckCtx.checkAndOrSide, isBoolOperand, isBoolish, synErr] at h2; done)
            | (simp only [CheckCtx.checkWithMath] at hop
               obtain ⟨bl, _, h2⟩ := bind_ok_iff.mp hop
               obtain ⟨br, h3, _⟩ := bind_ok_iff.mp h2
               simp [CheckCtx.mathSide, synErr] at h3; done)
            | (simp only [CheckCtx.checkWithCompares] at hop
               obtain ⟨⟨lk, lv⟩, _, h2⟩ := bind_ok_iff.mp hop
               obtain ⟨⟨rk, rv⟩, h3, _⟩ := bind_ok_iff.mp h2
               simp [compareSide, synErr] at h3; done)
            | (simp [synErr] at hop; done)
      exact ihr.2 q items hh x hx (sideOkDList_mem (hsi q items hh hio) x hx) (callsOk_list (hh ▸ hcr) x hx)
    | .not pos r, h => by
      simp only [NodeOK] at h
      obtain ⟨nr, hrt⟩ := h
      refine ⟨fun hs hc => ?_, fun _ _ hh => by cases hh⟩
      simp only [sideOkD] at hs
      have sr := (deep0_soundL r nr).1 hs (callsOk_not hc)
      obtain ⟨k, hk, hkc⟩ := sr.kind_of_rt hrt
      rw [kind_of_code_bool hkc] at hk
      exact sound_of_kind (k := .bool) (by simp [kindOf, hk]) rfl
    | .call pos nm args, h => by
      simp only [NodeOK] at h
      refine ⟨fun hs hc => ?_, fun _ _ hh => by cases hh⟩
      simp only [sideOkD, Bool.and_eq_true] at hs
      have hargs := deep0_soundL_list args h.2
      have hk : ∀ a ∈ args, Kinded a := fun a ha =>
        (hargs a ha (sideOkDList_mem hs.2 a ha) ((callsOk_call hc).2 a ha)).kinded
      obtain ⟨k, hk1, _⟩ := kind_callD hc hs.1 hk
      exact sound_of_kind hk1 rfl
    | .list pos items, h => by
      simp only [NodeOK] at h
      refine ⟨fun hs _ => by simp [sideOkD] at hs, fun q its hh x hx hsx hcx => ?_⟩
      cases hh
      exact deep0_soundL_list items h x hx hsx hcx
    | .ref pos nm t, h => by
      simp only [NodeOK, if_true] at h
      refine ⟨fun hs hc => ?_, fun _ _ hh => by cases hh⟩
      simp only [sideOkD] at hs
      obtain ⟨k, hk, hc', hr⟩ := (deep0_soundL t h).1 hs (callsOk_ref hc)
      refine ⟨k, by simpa [kindOf] using hk, by simpa [Expr.retType] using hc', ?_⟩
      have hn : noCyc (.ref pos nm t) = true := callsOk_noCyc hc
      rw [rt0 hn]
      simp only [Expr.retType]
      rw [← hc']
    | .access .., _ => ⟨fun hs _ => by simp [sideOkD] at hs, fun _ _ hh => by cases hh⟩
    | .name .., _ => ⟨fun hs _ => by simp [sideOkD] at hs, fun _ _ hh => by cases hh⟩
    | .cycle, _ => ⟨fun hs _ => by simp [sideOkD] at hs, fun _ _ hh => by cases hh⟩
    | .str .., _ => ⟨fun _ _ => sound_of_kind (k := .text) (by simp [kindOf]) rfl, fun _ _ hh => by cases hh⟩
    | .field .., _ => ⟨fun _ _ => sound_of_kind (k := .text) (by simp [kindOf]) rfl, fun _ _ hh => by cases hh⟩
    | .num .., _ => ⟨fun _ _ => sound_of_kind (k := .num) (by simp [kindOf]) rfl, fun _ _ hh => by cases hh⟩
    | .float .., _ => ⟨fun _ _ => sound_of_kind (k := .num) (by simp [kindOf]) rfl, fun _ _ hh => by cases hh⟩
    | .bool .., _ => ⟨fun _ _ => sound_of_kind (k := .bool) (by simp [kindOf]) rfl, fun _ _ hh => by cases hh⟩
  theorem deep0_soundL_list : ∀ (es : List Expr), NodeOKList ctx0 true es →
      ∀ x ∈ es, sideOkD x = true → callsOk x → Sound ctx0 x
    | [], _, x, hx, _, _ => by simp at hx
    | e :: es, h, x, hx, hs, hc => by
      simp only [NodeOKList] at h
      rcases List.mem_cons.mp hx with heq | hx'
      · rw [heq] at hs hc ⊢
        exact (deep0_soundL e h.1).1 hs hc
      · exact deep0_soundL_list es h.2 x hx' hs hc
end

/-- SOUNDNESS OF A SELF-CONTAINED TREE.  Every node of `e`, the copies its alias references carry
    included, passes the checker's test of its operator over the empty select list; `e` stays within
    the side condition (`sideOkD`: followed into the copies) and all its calls are validated.  Then
    `e` is well-kinded by the README typing and its kind is its static type. -/
theorem deep0_sound (e : Expr) (h : NodeOK ctx0 true e) (hs : sideOkD e = true) (hc : callsOk e) :
    ∃ k, kindOf e = some k ∧ k.code = e.retType := by
  obtain ⟨k, hk, hcode, _⟩ := (deep0_soundL e h).1 hs hc
  exact ⟨k, hk, hcode⟩

end Kvql.Proofs.Typing
