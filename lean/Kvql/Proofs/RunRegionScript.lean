/-
  C18 / C13 end to end, part 1: SCRIPTS.

  Without fault injection a computation of the storage monad appends un-faulted entries only.
  `Consumes m script Q`: run without a fault in any world, `m` keeps the store and appends exactly
  a PREFIX `ext` of `script` to the call log; when it succeeds with `a`, `Q a rem` holds of its
  result and of what is left of the script.  Closed under `bind`.

  The scan plans consume the script of their node: `nextScript stop rest` for a cursor standing at
  `rest` (the keys up to and including the first one on which the end test fires, or `Next->end`),
  `ks.map get` for a MultiGet.  `remaining node st` is what is left for a scan in state `st`;
  `Next` and `Batch` consume `remaining`, and a poll that hands out nothing has used it up.
-/
import Kvql.Proofs.PlanMonad
import Kvql.Proofs.ScanRegion

namespace Kvql.Proofs.RunRegion

open Kvql Kvql.Storage Kvql.Plans Kvql.Proofs.Plan

/-- the log entries of calls that did not fail -/
def entries (cs : List Call) : List Entry := cs.map (fun c => ⟨c, false⟩)

@[simp] theorem entries_nil : entries [] = [] := rfl
@[simp] theorem entries_cons (c : Call) (cs : List Call) : entries (c :: cs) = ⟨c, false⟩ :: entries cs := rfl
@[simp] theorem entries_append (a b : List Call) : entries (a ++ b) = entries a ++ entries b := by
  simp [entries]

theorem entries_injective {a b : List Call} (h : entries a = entries b) : a = b := by
  induction a generalizing b with
  | nil => cases b with
    | nil => rfl
    | cons y b => simp [entries] at h
  | cons x a ih =>
    cases b with
    | nil => simp [entries] at h
    | cons y b =>
      simp only [entries_cons, List.cons.injEq, Entry.mk.injEq, and_true] at h
      rw [h.1, ih h.2]

/-- see the header -/
def Consumes {α : Type} (m : M α) (script : List Call) (Q : α → List Call → Prop) : Prop :=
  ∀ w : World, ∃ ext rem, script = ext ++ rem ∧
    (m none w).2 = { store := w.store, log := w.log ++ entries ext } ∧
    ∀ a, (m none w).1 = .ok a → Q a rem

theorem Consumes.pure {α : Type} {Q : α → List Call → Prop} (a : α) (script : List Call) (h : Q a script) :
    Consumes (pure a : M α) script Q := by
  intro w
  exact ⟨[], script, rfl, by simp, fun b hb => by simp at hb; exact hb ▸ h⟩

theorem Consumes.throw {α : Type} {Q : α → List Call → Prop} (e : Err) (script : List Call) :
    Consumes (M.throw e : M α) script Q := by
  intro w
  exact ⟨[], script, rfl, by simp, fun b hb => by simp at hb⟩

theorem Consumes.ofExcept {α : Type} {Q : α → List Call → Prop} (x : Except Err α) (script : List Call)
    (h : ∀ a, x = .ok a → Q a script) : Consumes (M.ofExcept x) script Q := by
  cases x with
  | ok a => exact Consumes.pure a script (h a rfl)
  | error e => exact Consumes.throw e script

theorem Consumes.bind {α β : Type} {Q1 : α → List Call → Prop} {Q : β → List Call → Prop} {m : M α} {k : α → M β}
    {script : List Call} (hm : Consumes m script Q1) (hk : ∀ a rem, Q1 a rem → Consumes (k a) rem Q) :
    Consumes (m >>= k) script Q := by
  intro w
  obtain ⟨e1, r1, hs1, hw1, hq1⟩ := hm w
  simp only [run_bind]
  rcases hmw : m none w with ⟨r, w'⟩
  rw [hmw] at hw1 hq1
  simp only at hw1
  cases r with
  | error e => exact ⟨e1, r1, hs1, hw1, fun b hb => by simp at hb⟩
  | ok a =>
    simp only []
    obtain ⟨e2, r2, hs2, hw2, hq2⟩ := hk a r1 (hq1 a rfl) w'
    refine ⟨e1 ++ e2, r2, by rw [hs1, hs2, List.append_assoc], ?_, hq2⟩
    rw [hw2, hw1]
    simp [List.append_assoc]

theorem Consumes.mono {α : Type} {Q Q' : α → List Call → Prop} {m : M α} {script : List Call}
    (h : Consumes m script Q) (hq : ∀ a rem, Q a rem → Q' a rem) : Consumes m script Q' := by
  intro w
  obtain ⟨e, r, h1, h2, h3⟩ := h w
  exact ⟨e, r, h1, h2, fun a ha => hq a r (h3 a ha)⟩

theorem Consumes.call (c : Call) (rem : List Call) :
    Consumes (Storage.call c) (c :: rem) (fun _ r => r = rem) := by
  intro w
  refine ⟨[c], rem, rfl, ?_, fun _ _ => rfl⟩
  rw [run_call_none]
  rfl

theorem Consumes.getStore {Q : Store → List Call → Prop} (script : List Call) (h : ∀ s, Q s script) :
    Consumes Storage.getStore script Q := by
  intro w
  exact ⟨[], script, rfl, by simp, fun a _ => h a⟩

theorem Consumes.get (k : Bytes) (rem : List Call) :
    Consumes (Storage.get k) (.get k :: rem) (fun _ r => r = rem) := by
  unfold Storage.get
  refine Consumes.bind (Consumes.call _ rem) (fun _ r hr => ?_)
  subst hr
  exact Consumes.bind (Q1 := fun _ r' => r' = r) (Consumes.getStore _ (fun _ => rfl))
    (fun s r' hr' => by subst hr'; exact Consumes.pure _ _ rfl)

/-! ### the script of a cursor -/

/-- what a cursor standing at `rest` hands out until the scan is over: the keys up to and including
    the first one on which the end test fires; `Next->end` if it never fires -/
def nextScript (stop : Bytes → Bool) : List Pair → List Call
  | [] => [.next none]
  | p :: r => if stop p.1 then [.next (some p.1)] else .next (some p.1) :: nextScript stop r

/-- what is left for a cursor scan: nothing once the end was seen -/
def remC (stop : Bytes → Bool) (rest : List Pair) (done : Bool) : List Call :=
  if done then [] else nextScript stop rest

theorem cs_cursorNext (stop : Bytes → Bool) (filter : Filter) : ∀ rest : List Pair,
    Consumes (cursorNext stop filter rest) (nextScript stop rest)
      (fun x rem => rem = remC stop x.2.1 x.2.2 ∧ (x.1 = none → x.2.2 = true)) := by
  intro rest
  induction rest with
  | nil =>
    unfold cursorNext
    exact Consumes.bind (Consumes.call _ []) (fun _ r hr => by
      subst hr; exact Consumes.pure _ _ ⟨rfl, fun _ => rfl⟩)
  | cons p r ih =>
    unfold cursorNext
    by_cases hs : stop p.1 = true
    · have : nextScript stop (p :: r) = [.next (some p.1)] := by simp [nextScript, hs]
      rw [this]
      refine Consumes.bind (Consumes.call _ []) (fun _ r' hr => ?_)
      subst hr
      simp only [hs, if_true]
      exact Consumes.pure _ _ ⟨rfl, fun _ => rfl⟩
    · have hs' : stop p.1 = false := by simpa using hs
      have : nextScript stop (p :: r) = .next (some p.1) :: nextScript stop r := by simp [nextScript, hs']
      rw [this]
      refine Consumes.bind (Consumes.call _ _) (fun _ r' hr => ?_)
      subst hr
      simp only [hs', Bool.false_eq_true, if_false]
      split
      · exact Consumes.throw _ _
      · exact Consumes.pure _ _ ⟨by simp [remC], fun h => by simp at h⟩
      · exact ih

theorem cs_readChunk (stop : Bytes → Bool) (i : Nat) : ∀ (rest acc : List Pair),
    Consumes (readChunk stop i rest acc) (nextScript stop rest)
      (fun x rem => rem = remC stop x.2.2 x.2.1) := by
  induction i with
  | zero => intro rest acc; unfold readChunk; exact Consumes.pure _ _ (by simp [remC])
  | succ i ih =>
    intro rest acc
    cases rest with
    | nil =>
      unfold readChunk
      exact Consumes.bind (Consumes.call _ []) (fun _ r hr => by subst hr; exact Consumes.pure _ _ rfl)
    | cons p r =>
      unfold readChunk
      by_cases hs : stop p.1 = true
      · have : nextScript stop (p :: r) = [.next (some p.1)] := by simp [nextScript, hs]
        rw [this]
        refine Consumes.bind (Consumes.call _ []) (fun _ r' hr => ?_)
        subst hr
        simp only [hs, if_true]
        exact Consumes.pure _ _ rfl
      · have hs' : stop p.1 = false := by simpa using hs
        have : nextScript stop (p :: r) = .next (some p.1) :: nextScript stop r := by simp [nextScript, hs']
        rw [this]
        refine Consumes.bind (Consumes.call _ _) (fun _ r' hr => ?_)
        subst hr
        simp only [hs', Bool.false_eq_true, if_false]
        exact ih r _

theorem cs_cursorBatchLoop (stop : Bytes → Bool) (filter : Filter) (bs fuel : Nat) : ∀ (rest ret : List Pair),
    Consumes (cursorBatchLoop stop filter bs fuel rest ret) (nextScript stop rest)
      (fun x rem => rem = remC stop x.2.1 x.2.2 ∧ (x.2.2 = true ∨ bs ≤ x.1.length)) := by
  induction fuel with
  | zero => intro rest ret; unfold cursorBatchLoop; exact Consumes.throw _ _
  | succ fuel ih =>
    intro rest ret
    unfold cursorBatchLoop
    refine Consumes.bind (cs_readChunk stop bs rest []) (fun x rem hx => ?_)
    obtain ⟨chunk, done, rest'⟩ := x
    simp only at hx ⊢
    subst hx
    split
    · split
      · rename_i hd
        exact Consumes.pure _ _ ⟨by simp [remC, hd], .inl rfl⟩
      · rename_i hd
        have hd' : done = false := by simpa using hd
        have : remC stop rest' done = nextScript stop rest' := by simp [remC, hd']
        rw [this]
        exact ih _ _
    · refine Consumes.bind (Q1 := fun _ r => r = remC stop rest' done)
        (Consumes.ofExcept _ _ (fun _ _ => rfl)) (fun ms r hr => ?_)
      subst hr
      split
      · rename_i hd
        exact Consumes.pure _ _ ⟨by simp [remC, hd], .inl rfl⟩
      · rename_i hd
        have hd' : done = false := by simpa using hd
        have hrem : remC stop rest' done = nextScript stop rest' := by simp [remC, hd']
        split
        · rename_i hlen
          exact Consumes.pure _ _ ⟨by simp [remC, hd'], .inr hlen⟩
        · rw [hrem]
          exact ih _ _

/-! ### the script of a MultiGet -/

theorem cs_mgetNext (filter : Filter) : ∀ ks : List Bytes,
    Consumes (mgetNext filter ks) (ks.map .get)
      (fun x rem => rem = x.2.map .get ∧ (x.1 = none → x.2 = [])) := by
  intro ks
  induction ks with
  | nil => unfold mgetNext; exact Consumes.pure _ _ ⟨rfl, fun _ => rfl⟩
  | cons k ks ih =>
    unfold mgetNext
    simp only [List.map_cons]
    refine Consumes.bind (Consumes.get k _) (fun v r hr => ?_)
    subst hr
    split
    · exact ih
    · split
      · exact Consumes.throw _ _
      · exact Consumes.pure _ _ ⟨rfl, fun h => by simp at h⟩
      · exact ih

theorem cs_mgetReadChunk (i : Nat) : ∀ (ks : List Bytes) (acc : List Pair),
    Consumes (mgetReadChunk i ks acc) (ks.map .get)
      (fun x rem => rem = x.2.2.map .get ∧ (x.2.1 = true → x.2.2 = [])) := by
  induction i with
  | zero => intro ks acc; unfold mgetReadChunk; exact Consumes.pure _ _ ⟨rfl, fun h => by simp at h⟩
  | succ i ih =>
    intro ks acc
    cases ks with
    | nil => unfold mgetReadChunk; exact Consumes.pure _ _ ⟨rfl, fun _ => rfl⟩
    | cons k ks =>
      unfold mgetReadChunk
      simp only [List.map_cons]
      refine Consumes.bind (Consumes.get k _) (fun v r hr => ?_)
      subst hr
      split
      · exact ih _ _
      · exact ih _ _

theorem cs_mgetBatchLoop (filter : Filter) (bs fuel : Nat) : ∀ (ks : List Bytes) (ret : List Pair),
    Consumes (mgetBatchLoop filter bs fuel ks ret) (ks.map .get)
      (fun x rem => rem = x.2.map .get ∧ (x.2 = [] ∨ bs ≤ x.1.length)) := by
  induction fuel with
  | zero => intro ks ret; unfold mgetBatchLoop; exact Consumes.throw _ _
  | succ fuel ih =>
    intro ks ret
    unfold mgetBatchLoop
    refine Consumes.bind (cs_mgetReadChunk bs ks []) (fun x rem hx => ?_)
    obtain ⟨chunk, fin, ks'⟩ := x
    simp only at hx ⊢
    obtain ⟨hrem, hfin⟩ := hx
    subst hrem
    have tail : ∀ ret' : List Pair, Consumes
        (if (fin || decide (ret'.length ≥ bs)) = true then (pure (ret', ks') : M (List Pair × List Bytes))
          else mgetBatchLoop filter bs fuel ks' ret') (ks'.map .get)
        (fun x rem => rem = x.2.map .get ∧ (x.2 = [] ∨ bs ≤ x.1.length)) := by
      intro ret'
      split
      · rename_i hc
        refine Consumes.pure _ _ ⟨rfl, ?_⟩
        simp only [Bool.or_eq_true, decide_eq_true_eq] at hc
        rcases hc with hc | hc
        · exact .inl (hfin hc)
        · exact .inr hc
      · exact ih _ _
    split
    · exact Consumes.bind (Q1 := fun _ r => r = ks'.map .get) (Consumes.pure _ _ rfl)
        (fun ret' r hr => by subst hr; exact tail ret')
    · refine Consumes.bind (Q1 := fun _ r => r = ks'.map .get) (Consumes.ofExcept _ _ (fun _ _ => rfl))
        (fun ms r hr => ?_)
      subst hr
      exact tail _

/-! ### the scan plans -/

/-- what is left of the script of a scan in state `st` -/
def remaining (node : ScanNode) (st : ScanSt) : List Call :=
  match node with
  | .mget _ => st.keysLeft.map .get
  | .empty => []
  | _ =>
    if st.done then []
    else match st.iter with
      | some c => nextScript node.stop c.rest
      | none => []

theorem remaining_cursor {node : ScanNode} (hc : node.isCursorScan = true) (st : ScanSt) :
    remaining node st = if st.done then [] else match st.iter with
      | some c => nextScript node.stop c.rest
      | none => [] := by
  cases node <;> simp [ScanNode.isCursorScan] at hc <;> rfl

/-- `Next` of a scan plan consumes what is left; a poll that hands out nothing has used it up -/
theorem cs_scanNext (node : ScanNode) (filter : Filter) (st : ScanSt) :
    Consumes (node.next filter st) (remaining node st)
      (fun x rem => rem = remaining node x.2 ∧ (x.1 = none → remaining node x.2 = [])) := by
  by_cases hc : node.isCursorScan = true
  · rw [remaining_cursor hc]
    have key : Consumes
        (if st.done then (pure (none, st) : M (Option Pair × ScanSt)) else
          match st.iter with
          | none => M.throw .nilCursor
          | some c => do
            let (r, rest, done) ← cursorNext node.stop filter c.rest
            pure (r, { st with iter := some { c with rest := rest }, done := done }))
        (if st.done then [] else match st.iter with
          | some c => nextScript node.stop c.rest
          | none => [])
        (fun x rem => rem = remaining node x.2 ∧ (x.1 = none → remaining node x.2 = [])) := by
      split
      · rename_i hd
        exact Consumes.pure _ _ ⟨by rw [remaining_cursor hc]; simp [hd], fun _ => by rw [remaining_cursor hc]; simp [hd]⟩
      · split
        · exact Consumes.throw _ _
        · rename_i c hiter
          simp only [hiter]
          refine Consumes.bind (cs_cursorNext node.stop filter c.rest) (fun x rem hx => ?_)
          obtain ⟨r, rest, done⟩ := x
          obtain ⟨h1, h2⟩ := hx
          simp only at h1 h2 ⊢
          refine Consumes.pure _ _ ⟨?_, fun hr => ?_⟩
          · rw [remaining_cursor hc, h1]; simp [remC]
          · rw [remaining_cursor hc]; simp [h2 hr]
    cases node <;> simp [ScanNode.isCursorScan] at hc <;> exact key
  · cases node with
    | full => simp [ScanNode.isCursorScan] at hc
    | «prefix» p => simp [ScanNode.isCursorScan] at hc
    | range a b => simp [ScanNode.isCursorScan] at hc
    | empty => exact Consumes.pure _ _ ⟨rfl, fun _ => rfl⟩
    | mget ks =>
      unfold ScanNode.next
      refine Consumes.bind (cs_mgetNext filter st.keysLeft) (fun x rem hx => ?_)
      obtain ⟨r, ks'⟩ := x
      obtain ⟨h1, h2⟩ := hx
      simp only at h1 h2 ⊢
      exact Consumes.pure _ _ ⟨by simp [remaining, h1], fun hr => by simp [remaining, h2 hr]⟩

/-- `Batch` of a scan plan consumes what is left; a poll that hands out fewer than `PlanBatchSize`
    rows has used it up -/
theorem cs_scanBatch (node : ScanNode) (filter : Filter) (bs : Nat) (st : ScanSt) :
    Consumes (node.batch filter bs st) (remaining node st)
      (fun x rem => rem = remaining node x.2 ∧ (remaining node x.2 = [] ∨ bs ≤ x.1.length)) := by
  by_cases hc : node.isCursorScan = true
  · rw [remaining_cursor hc]
    have key : Consumes
        (if st.done then (pure ([], st) : M (List Pair × ScanSt)) else
          match st.iter with
          | none => M.throw .nilCursor
          | some c => do
            let (rows, rest, done) ← cursorBatchLoop node.stop filter bs (c.rest.length + 1) c.rest []
            pure (rows, { st with iter := some { c with rest := rest }, done := done }))
        (if st.done then [] else match st.iter with
          | some c => nextScript node.stop c.rest
          | none => [])
        (fun x rem => rem = remaining node x.2 ∧ (remaining node x.2 = [] ∨ bs ≤ x.1.length)) := by
      split
      · rename_i hd
        exact Consumes.pure _ _ ⟨by rw [remaining_cursor hc]; simp [hd], .inl (by rw [remaining_cursor hc]; simp [hd])⟩
      · split
        · exact Consumes.throw _ _
        · rename_i c hiter
          simp only [hiter]
          refine Consumes.bind (cs_cursorBatchLoop node.stop filter bs _ c.rest []) (fun x rem hx => ?_)
          obtain ⟨rows, rest, done⟩ := x
          obtain ⟨h1, h2⟩ := hx
          simp only at h1 h2 ⊢
          refine Consumes.pure _ _ ⟨?_, ?_⟩
          · rw [remaining_cursor hc, h1]; simp [remC]
          · rcases h2 with h2 | h2
            · left; rw [remaining_cursor hc]; simp [h2]
            · right; exact h2
    cases node <;> simp [ScanNode.isCursorScan] at hc <;> exact key
  · cases node with
    | full => simp [ScanNode.isCursorScan] at hc
    | «prefix» p => simp [ScanNode.isCursorScan] at hc
    | range a b => simp [ScanNode.isCursorScan] at hc
    | empty => exact Consumes.pure _ _ ⟨rfl, .inl rfl⟩
    | mget ks =>
      unfold ScanNode.batch
      refine Consumes.bind (cs_mgetBatchLoop filter bs _ st.keysLeft []) (fun x rem hx => ?_)
      obtain ⟨rows, ks'⟩ := x
      obtain ⟨h1, h2⟩ := hx
      simp only at h1 h2 ⊢
      refine Consumes.pure _ _ ⟨by simp [remaining, h1], ?_⟩
      rcases h2 with h2 | h2
      · left; simp [remaining, h2]
      · right; exact h2

/-! ### `Init` -/

/-- the calls of one `Init` of a scan plan -/
def initCalls : ScanNode → List Call
  | .full => [.cursor, .seek []]
  | .prefix p => [.cursor, .seek p]
  | .range (some a) _ => [.cursor, .seek a]
  | .range none _ => [.cursor]
  | _ => []

/-- the state after `Init` on a world whose store is `store` -/
def initState (node : ScanNode) (st : ScanSt) (store : Store) : ScanSt :=
  match node with
  | .mget _ => st
  | .empty => st
  | _ => { st with iter := some ⟨store, node.startRest store⟩, done := false }

/-- without fault injection `Init` succeeds -/
theorem init_run (node : ScanNode) (st : ScanSt) (w : World) :
    node.init st none w = (.ok (initState node st w.store), { store := w.store, log := w.log ++ entries (initCalls node) }) := by
  cases node with
  | mget ks => simp [ScanNode.init, initState, initCalls]
  | empty => simp [ScanNode.init, initState, initCalls]
  | full =>
    simp [ScanNode.init, initState, initCalls, cursor, Cursor.seek, run_call_none, ScanNode.startRest]
  | «prefix» p =>
    simp [ScanNode.init, initState, initCalls, cursor, Cursor.seek, run_call_none, ScanNode.startRest]
  | range a b =>
    cases a with
    | none => simp [ScanNode.init, initState, initCalls, cursor, run_call_none, ScanNode.startRest]
    | some a =>
      simp [ScanNode.init, initState, initCalls, cursor, Cursor.seek, run_call_none, ScanNode.startRest]

/-- the reads of a scan from its start -/
def readsI (node : ScanNode) (store : Store) : List Call :=
  match node with
  | .mget ks => ks.map .get
  | .empty => []
  | _ => nextScript node.stop (node.startRest store)

/-- the complete script of a statement over the scan node: `BuildPlan` runs `Init` twice -/
def scriptI (node : ScanNode) (store : Store) : List Call :=
  initCalls node ++ initCalls node ++ readsI node store

theorem remaining_init (node : ScanNode) (st : ScanSt) (store : Store) (hk : ∀ ks, node = .mget ks → st.keysLeft = ks) :
    remaining node (initState node st store) = readsI node store := by
  cases node with
  | mget ks => simp [remaining, initState, readsI, hk ks rfl]
  | empty => rfl
  | full => simp [remaining, initState, readsI]
  | «prefix» p => simp [remaining, initState, readsI]
  | range a b => simp [remaining, initState, readsI]

theorem initState_keys (node : ScanNode) (st : ScanSt) (store : Store) :
    (initState node st store).keysLeft = st.keysLeft := by
  cases node <;> rfl

end Kvql.Proofs.RunRegion
