/-
  C13 (3): a storage fault surfaces and stops the statement.

  Every function of the plan model is `FaultSafe`: with a fault at call `i` it behaves as without
  up to call `i`, reports `storage i`, and call `i` is the last call.  The proof follows the
  structure of the model (one lemma per function, sequencing by `FaultSafe.seq`).
-/
import Kvql.Proofs.PlanMonad

namespace Kvql.Proofs.Plan

open Kvql Kvql.Storage Kvql.Plans

/-- one step of the structural proof that an `M` computation is fault-safe -/
macro "fs_step" : tactic => `(tactic| first
  | exact FaultSafeM.pure _
  | exact FaultSafeM.throw _
  | exact FaultSafeM.call _
  | exact FaultSafeM.getStore
  | exact FaultSafeM.modifyStore _
  | exact FaultSafeM.ofExcept _
  | assumption
  | apply FaultSafeM.bind
  | intro _
  | split)

macro "fs_auto" : tactic => `(tactic| repeat' fs_step)

/-! ### storage and cursor operations -/

theorem fs_get (k : Bytes) : FaultSafeM (Storage.get k) := by unfold Storage.get; fs_auto
theorem fs_put (k v : Bytes) : FaultSafeM (put k v) := by unfold put; fs_auto
theorem fs_batchPut (kvs : List Pair) : FaultSafeM (batchPut kvs) := by unfold batchPut; fs_auto
theorem fs_delete (k : Bytes) : FaultSafeM (delete k) := by unfold delete; fs_auto
theorem fs_batchDelete (ks : List Bytes) : FaultSafeM (batchDelete ks) := by unfold batchDelete; fs_auto
theorem fs_cursor : FaultSafeM cursor := by unfold cursor; fs_auto
theorem fs_seek (c : Cursor) (k : Bytes) : FaultSafeM (c.seek k) := by unfold Cursor.seek; fs_auto

/-! ### scans -/

theorem fs_cursorNext (stop : Bytes → Bool) (filter : Filter) (rest : List Pair) :
    FaultSafeM (cursorNext stop filter rest) := by
  induction rest with
  | nil => unfold cursorNext; fs_auto
  | cons p r ih => unfold cursorNext; fs_auto

theorem fs_readChunk (stop : Bytes → Bool) (i : Nat) : ∀ (rest acc : List Pair),
    FaultSafeM (readChunk stop i rest acc) := by
  induction i with
  | zero => intro rest acc; unfold readChunk; fs_auto
  | succ i ih =>
    intro rest acc
    cases rest with
    | nil => unfold readChunk; fs_auto
    | cons p r =>
      unfold readChunk
      have := ih r (acc ++ [p])
      fs_auto

theorem fs_cursorBatchLoop (stop : Bytes → Bool) (filter : Filter) (bs fuel : Nat) :
    ∀ (rest ret : List Pair), FaultSafeM (cursorBatchLoop stop filter bs fuel rest ret) := by
  induction fuel with
  | zero => intro rest ret; unfold cursorBatchLoop; fs_auto
  | succ fuel ih =>
    intro rest ret
    unfold cursorBatchLoop
    apply FaultSafeM.bind (fs_readChunk stop bs rest [])
    intro x
    obtain ⟨chunk, done, rest'⟩ := x
    try simp only []
    split
    · split
      · fs_auto
      · exact ih _ _
    · apply FaultSafeM.bind (FaultSafeM.ofExcept _)
      intro ms
      try simp only []
      split
      · fs_auto
      · split
        · fs_auto
        · exact ih _ _

theorem fs_mgetNext (filter : Filter) (ks : List Bytes) : FaultSafeM (mgetNext filter ks) := by
  induction ks with
  | nil => unfold mgetNext; fs_auto
  | cons k ks ih =>
    unfold mgetNext
    apply FaultSafeM.bind (fs_get k)
    intro v
    fs_auto

theorem fs_mgetReadChunk (i : Nat) : ∀ (ks : List Bytes) (acc : List Pair),
    FaultSafeM (mgetReadChunk i ks acc) := by
  induction i with
  | zero => intro ks acc; unfold mgetReadChunk; fs_auto
  | succ i ih =>
    intro ks acc
    cases ks with
    | nil => unfold mgetReadChunk; fs_auto
    | cons k ks =>
      unfold mgetReadChunk
      apply FaultSafeM.bind (fs_get k)
      intro v
      cases v with
      | none => exact ih _ _
      | some v => exact ih _ _

theorem fs_mgetBatchLoop (filter : Filter) (bs fuel : Nat) :
    ∀ (ks : List Bytes) (ret : List Pair), FaultSafeM (mgetBatchLoop filter bs fuel ks ret) := by
  induction fuel with
  | zero => intro ks ret; unfold mgetBatchLoop; fs_auto
  | succ fuel ih =>
    intro ks ret
    unfold mgetBatchLoop
    apply FaultSafeM.bind (fs_mgetReadChunk bs ks [])
    intro x
    obtain ⟨chunk, fin, ks'⟩ := x
    try simp only []
    split
    · apply FaultSafeM.bind (FaultSafeM.pure _)
      intro ret'
      split
      · fs_auto
      · exact ih _ _
    · apply FaultSafeM.bind (FaultSafeM.ofExcept _)
      intro ms
      apply FaultSafeM.bind (FaultSafeM.pure _)
      intro ret'
      split
      · fs_auto
      · exact ih _ _

theorem fs_scanInit (node : ScanNode) (st : ScanSt) : FaultSafeM (node.init st) := by
  unfold ScanNode.init
  cases node with
  | full => try simp only []; apply FaultSafeM.bind fs_cursor; intro c; apply FaultSafeM.bind (fs_seek _ _); fs_auto
  | «prefix» p => try simp only []; apply FaultSafeM.bind fs_cursor; intro c; apply FaultSafeM.bind (fs_seek _ _); fs_auto
  | range a b =>
    try simp only []
    apply FaultSafeM.bind fs_cursor
    intro c
    cases a with
    | none => fs_auto
    | some s => try simp only []; apply FaultSafeM.bind (fs_seek _ _); fs_auto
  | mget ks => fs_auto
  | empty => fs_auto

theorem fs_scanNext (node : ScanNode) (filter : Filter) (st : ScanSt) : FaultSafeM (node.next filter st) := by
  have h1 := fs_mgetNext filter st.keysLeft
  unfold ScanNode.next
  split
  · fs_auto
  · fs_auto
  · split
    · fs_auto
    · split
      · fs_auto
      · exact FaultSafeM.bind (fs_cursorNext _ _ _) (by fs_auto)

theorem fs_scanBatch (node : ScanNode) (filter : Filter) (bs : Nat) (st : ScanSt) :
    FaultSafeM (node.batch filter bs st) := by
  unfold ScanNode.batch
  split
  · exact FaultSafeM.bind (fs_mgetBatchLoop _ _ _ _ _) (by fs_auto)
  · fs_auto
  · split
    · fs_auto
    · split
      · fs_auto
      · exact FaultSafeM.bind (fs_cursorBatchLoop _ _ _ _ _ _) (by fs_auto)

/-! ### children -/

structure ChildFaultSafe (c : Child σ) : Prop where
  init : ∀ s, FaultSafeM (c.init s)
  next : ∀ s, FaultSafeM (c.next s)
  batch : ∀ bs s, FaultSafeM (c.batch bs s)

theorem fs_scanChild (node : ScanNode) (filter : Filter) : ChildFaultSafe (node.child filter) :=
  ⟨fs_scanInit node, fs_scanNext node filter, fs_scanBatch node filter⟩

theorem fs_limitSkipNext {c : Child σ} (hc : ChildFaultSafe c) (n : Nat) :
    ∀ s, FaultSafeM (LimitPlan.skipNext c n s) := by
  induction n with
  | zero => intro s; unfold LimitPlan.skipNext; fs_auto
  | succ n ih =>
    intro s
    unfold LimitPlan.skipNext
    apply FaultSafeM.bind (hc.next s)
    intro x
    obtain ⟨r, s'⟩ := x
    try simp only []
    cases r with
    | none => fs_auto
    | some p => exact FaultSafeM.bind (ih _) (by fs_auto)

theorem fs_limitNext {c : Child σ} (hc : ChildFaultSafe c) (start count : Nat) (st : LimitSt σ) :
    FaultSafeM (LimitPlan.next start count c st) := by
  unfold LimitPlan.next
  apply FaultSafeM.bind (fs_limitSkipNext hc _ _)
  intro x
  obtain ⟨dry, k, s1⟩ := x
  simp only []
  split
  · fs_auto
  · split
    · fs_auto
    · exact FaultSafeM.bind (hc.next _) (by fs_auto)

theorem fs_limitSkipBatch {c : Child σ} (hc : ChildFaultSafe c) (start bs fuel : Nat) :
    ∀ skips s, FaultSafeM (LimitPlan.skipBatch start bs c fuel skips s) := by
  induction fuel with
  | zero => intro skips s; unfold LimitPlan.skipBatch; fs_auto
  | succ fuel ih =>
    intro skips s
    unfold LimitPlan.skipBatch
    split
    · simp only []
      apply FaultSafeM.bind (hc.batch _ _)
      intro x
      obtain ⟨rows, s'⟩ := x
      try simp only []
      split
      · fs_auto
      · split
        · exact ih _ _
        · fs_auto
    · fs_auto

theorem fs_limitFillBatch {c : Child σ} (hc : ChildFaultSafe c) (count bs fuel : Nat) :
    ∀ current acc s, FaultSafeM (LimitPlan.fillBatch count bs c fuel current acc s) := by
  induction fuel with
  | zero => intro current acc s; unfold LimitPlan.fillBatch; fs_auto
  | succ fuel ih =>
    intro current acc s
    unfold LimitPlan.fillBatch
    apply FaultSafeM.bind (hc.batch _ _)
    intro x
    obtain ⟨rows, s'⟩ := x
    try simp only []
    split
    · fs_auto
    · split
      · fs_auto
      · split
        · fs_auto
        · exact ih _ _ _

theorem fs_limitBatch {c : Child σ} (hc : ChildFaultSafe c) (start count bs : Nat) (st : LimitSt σ) :
    FaultSafeM (LimitPlan.batch start count c bs st) := by
  unfold LimitPlan.batch
  apply FaultSafeM.bind (fs_limitSkipBatch hc _ _ _ _ _)
  intro x
  obtain ⟨rows?, skips, s1⟩ := x
  simp only []
  cases rows? with
  | none => fs_auto
  | some rows =>
    try simp only []
    split
    · fs_auto
    · exact FaultSafeM.bind (fs_limitFillBatch hc _ _ _ _ _ _) (by fs_auto)

theorem fs_limitInit {c : Child σ} (hc : ChildFaultSafe c) (st : LimitSt σ) :
    FaultSafeM (LimitPlan.init c st) := by
  unfold LimitPlan.init
  exact FaultSafeM.bind (hc.init _) (by fs_auto)

theorem fs_limitChild {c : Child σ} (hc : ChildFaultSafe c) (start count : Nat) :
    ChildFaultSafe (LimitPlan.child start count c) :=
  ⟨fs_limitInit hc, fs_limitNext hc start count, fun bs => fs_limitBatch hc start count bs⟩

/-! ### writes -/

theorem fs_putExecute (pairs : List PutPair) : FaultSafeM (PutPlan.execute pairs) := by
  unfold PutPlan.execute
  apply FaultSafeM.bind (FaultSafeM.ofExcept _)
  intro kvps
  split
  · fs_auto
  · exact FaultSafeM.bind (fs_put _ _) (by fs_auto)
  · exact FaultSafeM.bind (fs_batchPut _) (by fs_auto)

theorem fs_removeExecute (keys : List (Except Err Bytes)) : FaultSafeM (RemovePlan.execute keys) := by
  unfold RemovePlan.execute
  apply FaultSafeM.bind (FaultSafeM.ofExcept _)
  intro ks
  split
  · fs_auto
  · exact FaultSafeM.bind (fs_delete _) (by fs_auto)
  · exact FaultSafeM.bind (fs_batchDelete _) (by fs_auto)

/-- the result of `DeletePlan.execute` reports the fault of call `i` -/
abbrev DelFailed {σ : Type} : (Except Err Nat × Nat) × σ → Nat → Prop := fun r i => r.1.1 = .error (.storage i)

theorem fs_const {failed : ρ → Nat → Prop} (r : ρ) : FaultSafe failed (fun _ w => (r, w)) :=
  ⟨fun _ => Nat.le_refl _, fun _ _ _ => rfl, fun w i h1 h2 => by simp at h2; omega⟩

theorem fs_deleteLoop {c : Child σ} (hc : ChildFaultSafe c) (bs fuel : Nat) :
    ∀ count s, FaultSafe DelFailed (DeletePlan.loop c bs fuel count s) := by
  induction fuel with
  | zero =>
    intro count s
    exact fs_const _
  | succ fuel ih =>
    intro count s
    -- first the child's Batch …
    refine FaultSafe.seq (failed1 := MFailed) (g1 := c.batch bs s)
      (fun r => match r with
        | .error e => fun _ w => (((.error e, count), s), w)
        | .ok (rows, s') =>
          if rows.isEmpty then fun _ w => (((.ok count, count), s'), w)
          else fun f w =>
            match batchDelete (rows.map (·.1)) f w with
            | (.error e, w'') => (((.error e, count), s'), w'')
            | (.ok (), w'') => DeletePlan.loop c bs fuel (count + rows.length) s' f w'') ?_ (hc.batch bs s) ?_ ?_
    · intro f w
      simp only [DeletePlan.loop]
      rcases h : c.batch bs s f w with ⟨r, w'⟩
      cases r with
      | error e => rfl
      | ok x =>
        obtain ⟨rows, s'⟩ := x
        try simp only []
        split <;> rfl
    · intro r
      cases r with
      | error e => exact fs_const _
      | ok x =>
        obtain ⟨rows, s'⟩ := x
        try simp only []
        split
        · exact fs_const _
        · -- … then BatchDelete, then the loop again
          refine FaultSafe.seq (failed1 := MFailed) (g1 := batchDelete (rows.map (·.1)))
            (fun r => match r with
              | .error e => fun _ w => (((.error e, count), s'), w)
              | .ok () => DeletePlan.loop c bs fuel (count + rows.length) s') ?_ (fs_batchDelete _) ?_ ?_
          · intro f w
            rcases h : batchDelete (rows.map (·.1)) f w with ⟨r, w'⟩
            simp only [h]
            cases r <;> rfl
          · intro r
            cases r with
            | error e => exact fs_const _
            | ok u => exact ih _ _
          · intro r i f w hr
            simp only [MFailed] at hr
            subst hr
            exact ⟨rfl, rfl⟩
    · intro r i f w hr
      simp only [MFailed] at hr
      subst hr
      exact ⟨rfl, rfl⟩

/-! ### `BuildPlan` -/

theorem fs_planInit (p : Plan) : FaultSafeM p.init := by
  unfold Plan.init
  cases p with
  | select node filter st => exact FaultSafeM.bind (fs_scanInit _ _) (by fs_auto)
  | deleteScan node filter ex st => exact FaultSafeM.bind (fs_scanInit _ _) (by fs_auto)
  | deleteLimit node filter start count ex st =>
    exact FaultSafeM.bind (fs_limitInit (fs_scanChild node filter) _) (by fs_auto)
  | put pairs ex => fs_auto
  | remove keys ex => fs_auto

theorem fs_buildPlan1 (stmt : Stmt) : FaultSafeM (buildPlan1 stmt) := by
  unfold buildPlan1
  split
  · exact fs_planInit _
  · exact fs_planInit _
  · exact fs_planInit _
  · split
    · exact fs_planInit _
    · split <;> exact fs_planInit _
    · exact fs_planInit _
    · exact fs_planInit _

theorem fs_buildPlan (stmt : Stmt) : FaultSafeM (buildPlan stmt) := by
  unfold buildPlan
  exact FaultSafeM.bind (fs_buildPlan1 stmt) (fun p => fs_planInit p)

/-! ### polling and draining -/

/-- a poll reports the fault of call `i` -/
abbrev PollFailed : Polled → Nat → Prop := fun p i => p.err = some (.storage i)

theorem fs_writePoll {exec : M Nat} (h : FaultSafeM exec) (plan' : Plan) :
    FaultSafe PollFailed (writePoll exec plan') := by
  refine FaultSafe.seq (failed1 := MFailed) (g1 := exec)
    (fun r => match r with
      | .ok n => fun _ w => (⟨[.count n], none, plan'⟩, w)
      | .error e => fun _ w => (⟨[.count 0], some e, plan'⟩, w)) ?_ h ?_ ?_
  · intro f w
    simp only [writePoll]
    rcases h : exec f w with ⟨r, w'⟩
    cases r <;> rfl
  · intro r
    cases r <;> exact fs_const _
  · intro r i f w hr
    simp only [MFailed] at hr
    subst hr
    exact ⟨rfl, rfl⟩

theorem fs_deletePoll {c : Child σ} (hc : ChildFaultSafe c) (bs fuel : Nat) (s : σ) (mk : σ → Plan) :
    FaultSafe PollFailed (fun f w =>
      match DeletePlan.loop c bs fuel 0 s f w with
      | (((.ok n, _), st'), w') => ((⟨[.count n], none, mk st'⟩ : Polled), w')
      | (((.error e, n), st'), w') => (⟨[.count n], some e, mk st'⟩, w')) := by
  refine FaultSafe.seq (failed1 := DelFailed) (g1 := DeletePlan.loop c bs fuel 0 s)
    (fun r => match r with
      | ((.ok n, _), st') => fun _ w => (⟨[.count n], none, mk st'⟩, w)
      | ((.error e, n), st') => fun _ w => (⟨[.count n], some e, mk st'⟩, w)) ?_ (fs_deleteLoop hc bs fuel 0 s) ?_ ?_
  · intro f w
    rcases h : DeletePlan.loop c bs fuel 0 s f w with ⟨⟨⟨r, n⟩, st'⟩, w'⟩
    cases r <;> rfl
  · intro r
    obtain ⟨⟨r, n⟩, st'⟩ := r
    cases r <;> exact fs_const _
  · intro r i f w hr
    obtain ⟨⟨r, n⟩, st'⟩ := r
    simp only [DelFailed] at hr
    subst hr
    exact ⟨rfl, rfl⟩

theorem FaultSafe.congr {failed : ρ → Nat → Prop} {g g' : G ρ} (h : ∀ f w, g f w = g' f w)
    (hg : FaultSafe failed g') : FaultSafe failed g := by
  have : g = g' := funext fun f => funext fun w => h f w
  rw [this]; exact hg

theorem fs_poll (kind : PollKind) (bs : Nat) (plan : Plan) : FaultSafe PollFailed (plan.poll kind bs) := by
  cases plan with
  | select node filter st =>
    cases kind with
    | next =>
      refine FaultSafe.seq (failed1 := MFailed) (g1 := node.next filter st)
        (fun r => match r with
          | .ok (none, st') => fun _ w => (⟨[], none, .select node filter st'⟩, w)
          | .ok (some p, st') => fun _ w => (⟨[.pair p], none, .select node filter st'⟩, w)
          | .error e => fun _ w => (⟨[], some e, .select node filter st⟩, w)) ?_ (fs_scanNext _ _ _) ?_ ?_
      · intro f w
        simp only [Plan.poll]
        rcases h : node.next filter st f w with ⟨r, w'⟩
        cases r with
        | error e => rfl
        | ok x => obtain ⟨r, st'⟩ := x; cases r <;> rfl
      · intro r
        cases r with
        | error e => exact fs_const _
        | ok x => obtain ⟨r, st'⟩ := x; cases r <;> exact fs_const _
      · intro r i f w hr
        simp only [MFailed] at hr
        subst hr
        exact ⟨rfl, rfl⟩
    | batch =>
      refine FaultSafe.seq (failed1 := MFailed) (g1 := node.batch filter bs st)
        (fun r => match r with
          | .ok (rows, st') => fun _ w => (⟨rows.map .pair, none, .select node filter st'⟩, w)
          | .error e => fun _ w => (⟨[], some e, .select node filter st⟩, w)) ?_ (fs_scanBatch _ _ _ _) ?_ ?_
      · intro f w
        simp only [Plan.poll]
        rcases h : node.batch filter bs st f w with ⟨r, w'⟩
        cases r with
        | error e => rfl
        | ok x => rfl
      · intro r
        cases r with
        | error e => exact fs_const _
        | ok x => exact fs_const _
      · intro r i f w hr
        simp only [MFailed] at hr
        subst hr
        exact ⟨rfl, rfl⟩
  | put pairs ex =>
    cases ex with
    | true => exact fs_const _
    | false => exact fs_writePoll (fs_putExecute pairs) _
  | remove keys ex =>
    cases ex with
    | true => exact fs_const _
    | false => exact fs_writePoll (fs_removeExecute keys) _
  | deleteScan node filter ex st =>
    cases ex with
    | true => exact fs_const _
    | false =>
      refine FaultSafe.congr ?_
        (fs_deletePoll (fs_scanChild node filter) bs (st.size + 2) st (fun st' => .deleteScan node filter true st'))
      intro f w
      simp only [Plan.poll, Bool.false_eq_true, if_false]
      generalize DeletePlan.loop _ _ _ _ _ f w = x
      obtain ⟨⟨⟨r, n⟩, st'⟩, w'⟩ := x
      cases r <;> rfl
  | deleteLimit node filter start count ex st =>
    cases ex with
    | true => exact fs_const _
    | false =>
      refine FaultSafe.congr ?_
        (fs_deletePoll (fs_limitChild (fs_scanChild node filter) start count) bs (st.child.size + 2) st
          (fun st' => .deleteLimit node filter start count true st'))
      intro f w
      simp only [Plan.poll, Bool.false_eq_true, if_false]
      generalize DeletePlan.loop _ _ _ _ _ f w = x
      obtain ⟨⟨⟨r, n⟩, st'⟩, w'⟩ := x
      cases r <;> rfl

/-- a run reports the fault of call `i` (from plan building or from execution) -/
abbrev RunFailed : RunOut → Nat → Prop :=
  fun r i => r.outcome = .planErr (.storage i) ∨ r.outcome = .execErr (.storage i)

theorem fs_drain (kind : PollKind) (bs fuel : Nat) :
    ∀ plan acc, FaultSafe RunFailed (drain kind bs fuel plan acc) := by
  induction fuel with
  | zero => intro plan acc; exact fs_const _
  | succ fuel ih =>
    intro plan acc
    refine FaultSafe.seq (failed1 := PollFailed) (g1 := plan.poll kind bs)
      (fun r => match r with
        | ⟨rows, some e, _⟩ => fun _ w => (⟨.execErr e, if rows.isEmpty then acc else acc ++ [rows]⟩, w)
        | ⟨[], none, _⟩ => fun _ w => (⟨.ok, acc⟩, w)
        | ⟨rows, none, plan'⟩ => drain kind bs fuel plan' (acc ++ [rows])) ?_ (fs_poll kind bs plan) ?_ ?_
    · intro f w
      simp only [drain]
      rcases h : plan.poll kind bs f w with ⟨⟨rows, e, p'⟩, w'⟩
      cases e with
      | some e => rfl
      | none => cases rows <;> rfl
    · intro r
      obtain ⟨rows, e, p'⟩ := r
      cases e with
      | some e => exact fs_const _
      | none =>
        cases rows with
        | nil => exact fs_const _
        | cons r rs => exact ih _ _
    · intro r i f w hr
      obtain ⟨rows, e, p'⟩ := r
      simp only [PollFailed] at hr
      subst hr
      exact ⟨.inr rfl, rfl⟩

theorem fs_runG (stmt : Stmt) (kind : PollKind) (bs : Nat) : FaultSafe RunFailed (runG stmt kind bs) := by
  refine FaultSafe.seq (failed1 := MFailed) (g1 := buildPlan stmt)
    (fun r => match r with
      | .error e => fun _ w => (⟨.planErr e, []⟩, w)
      | .ok plan => drain kind bs (plan.size + 2) plan []) ?_ (fs_buildPlan stmt) ?_ ?_
  · intro f w
    simp only [runG]
    rcases h : buildPlan stmt f w with ⟨r, w'⟩
    cases r <;> rfl
  · intro r
    cases r with
    | error e => exact fs_const _
    | ok plan => exact fs_drain _ _ _ _ _
  · intro r i f w hr
    simp only [MFailed] at hr
    subst hr
    exact ⟨.inl rfl, rfl⟩

end Kvql.Proofs.Plan
