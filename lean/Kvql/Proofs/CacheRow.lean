/-
  C05 (a): the per-pair field cache is invisible to the row evaluator.

  `RowSim A kv x`: run from a context whose cache is ON and satisfies `CacheOK A · kv`, the computation
  `x` returns what it returns with the cache OFF (value or error), and leaves a context that is still on
  and still satisfies `CacheOK`.  Proved for `exec e kv` by the induction of `exec_inert` (the mutual
  block below is that proof with `Inert` replaced by `RowSim`); the alias reference is the one case
  that reads or writes the cache (`ref_sim`).
-/
import Kvql.Proofs.CacheBase

set_option linter.unusedSectionVars false

namespace Kvql.Cache
open Kvql Kvql.Project

def RowSim (A : Aliases) (kv : Pair) {α} (x : M α) : Prop :=
  Off x ∧ ∀ c, CtxOn c → CacheOK A c kv →
    (x c).1 = (x Ctx.off).1 ∧ CtxOn (x c).2 ∧ CacheOK A (x c).2 kv

namespace RowSim
variable {A : Aliases} {kv : Pair}

theorem pure {α} (a : α) : RowSim A kv (Pure.pure a : M α) := ⟨.pure a, fun _ h1 h2 => ⟨rfl, h1, h2⟩⟩
theorem throw {α} (e : Err) : RowSim A kv (M.throw e : M α) := ⟨.throw e, fun _ h1 h2 => ⟨rfl, h1, h2⟩⟩
theorem lift {α} (x : Except Err α) : RowSim A kv (M.lift x) := ⟨.lift x, fun _ h1 h2 => ⟨rfl, h1, h2⟩⟩

theorem bind {α β} {x : M α} {f : α → M β} (hx : RowSim A kv x) (hf : ∀ a, RowSim A kv (f a)) :
    RowSim A kv (x >>= f) := by
  refine ⟨.bind hx.1 fun a => (hf a).1, fun c hon hok => ?_⟩
  obtain ⟨h1, h2, h3⟩ := hx.2 c hon hok
  have hin := hx.1.1 Ctx.off rfl
  rw [M.bind_run, M.bind_run]
  rcases hxc : x c with ⟨r, d⟩
  rcases hxo : x Ctx.off with ⟨r', d'⟩
  rw [hxc] at h1 h2 h3; rw [hxo] at h1 hin
  simp at h1 h2 h3 hin; subst h1 hin
  cases r with
  | error e => exact ⟨rfl, h2, h3⟩
  | ok a => exact (hf a).2 d h2 h3

theorem ite {α} {p : Prop} [Decidable p] {x y : M α} (hx : RowSim A kv x) (hy : RowSim A kv y) :
    RowSim A kv (if p then x else y) := by split <;> assumption

end RowSim

theorem CacheOK.updateHit {A : Aliases} {c : Ctx} {kv : Pair} (h : CacheOK A c kv) : CacheOK A c.updateHit kv := h

theorem CtxOn.updateHit {c : Ctx} (h : CtxOn c) : CtxOn c.updateHit := h

theorem CtxOn.setFieldResult {c : Ctx} (h : CtxOn c) (n : Bytes) (v : Value) : CtxOn (c.setFieldResult n v) := by
  obtain ⟨hp, he⟩ := h
  simp [Ctx.setFieldResult, he, CtxOn, hp]

theorem CacheOK.setFieldResult {A : Aliases} {c : Ctx} {kv : Pair} (hon : CtxOn c) (h : CacheOK A c kv)
    {n : Bytes} {t : Expr} {v : Value} (hA : (n, t) ∈ A) (hv : nocache t kv = .ok v) :
    CacheOK A (c.setFieldResult n v) kv := by
  intro name w hw
  simp only [Ctx.setFieldResult, hon.2, Bool.not_true, Bool.false_eq_true, ↓reduceIte] at hw
  rw [assocGet_assocSet] at hw
  by_cases hk : (n == name) = true
  · have : n = name := by simpa using hk
    subst this
    simp at hw; subst hw
    exact ⟨t, hA, hv⟩
  · simp [hk] at hw
    exact h name w hw

/-- the alias reference: a hit returns what the target evaluates to on this pair (`CacheOK`, one target
    per name); a miss evaluates the target and caches exactly that -/
theorem ref_sim {A : Aliases} {kv : Pair} (hfun : Functional A) {p : Nat} {n : Bytes} {t : Expr}
    (hA : (n, t) ∈ A) (ih : RowSim A kv (exec t kv)) : RowSim A kv (exec (.ref p n t) kv) := by
  refine ⟨exec_off (.ref p n t) kv, fun c hon hok => ?_⟩
  have hoff : (exec (.ref p n t) kv Ctx.off).1 = nocache t kv := by
    rw [exec_ref_off p n t kv (c := Ctx.off) rfl ((exec_off t kv).1 Ctx.off rfl)]; rfl
  rw [hoff]
  rw [exec]
  simp only [hon.1, ↓reduceIte]
  cases hg : c.getFieldResult n with
  | some cval =>
    simp only
    have hg' : assocGet c.fieldCache n = some cval := by
      simpa [Ctx.getFieldResult, hon.2] using hg
    obtain ⟨t', hA', hv⟩ := hok n cval hg'
    have : t' = t := hfun n t' t hA' hA
    subst this
    exact ⟨hv.symm, hon.updateHit, hok.updateHit⟩
  | none =>
    simp only
    obtain ⟨h1, h2, h3⟩ := ih.2 c hon hok
    rcases hx : exec t kv c with ⟨r, c'⟩
    rw [hx] at h1 h2 h3
    simp only at h1 h2 h3
    cases r with
    | error e => exact ⟨h1, h2, h3⟩
    | ok v =>
      simp only [h2.1, ↓reduceIte]
      refine ⟨h1, h2.setFieldResult n v, h3.setFieldResult h2 hA ?_⟩
      exact h1.symm

/-- sub-expressions of a well-formed expression are well-formed -/
macro "wf_sub" : tactic =>
  `(tactic| first
    | assumption
    | (intro p hp; apply ‹WF _ _›; simp [refs, refsList, hp])
    | (intro p hp; apply ‹WFList _ _›; simp [refs, refsList, hp])
    | (intro p hp; apply ‹WF _ _›; simp [refs, refsList] at hp ⊢; simp [hp])
    | (intro p hp; apply ‹WFList _ _›; simp [refs, refsList] at hp ⊢; simp [hp]))

variable {A : Aliases} (hfun : Functional A)
include hfun

mutual
  theorem exec_sim : ∀ (e : Expr) (kv : Pair), WF A e → RowSim A kv (exec e kv)
    | .str .., kv, hw => by rw [exec]; exact .pure _
    | .field _ k, kv, hw => by cases k <;> rw [exec] <;> exact .pure _
    | .name .., kv, hw => by rw [exec]; exact .pure _
    | .num .., kv, hw => by rw [exec]; exact .pure _
    | .float .., kv, hw => by rw [exec]; exact .pure _
    | .bool .., kv, hw => by rw [exec]; exact .pure _
    | .list .., kv, hw => by rw [exec]; exact .pure _
    | .cycle, kv, hw => by rw [exec]; exact .throw _
    | .not _ r, kv, hw => by
      rw [exec]
      exact .bind (exec_sim r kv (by wf_sub)) fun v => .bind (.lift _) fun _ => .pure _
    | .ref p name target, kv, hw => by
      exact ref_sim hfun (hw (name, target) (by simp [refs])) (exec_sim target kv (by wf_sub))
    | .access _ l f, kv, hw => by
      rw [exec]
      refine .bind (exec_sim l kv (by wf_sub)) fun left => ?_
      split <;> first | exact .lift _ | exact .throw _
    | .call _ nm args, kv, hw => by
      rw [exec]
      split
      · exact .throw _
      · split
        · exact .throw _
        · split
          · exact .throw _
          · split
            · exact .throw _
            · split
              · exact .throw _
              · exact rowBody_sim _ args kv (by wf_sub)
    | .binop _ op l r, kv, hw => by
      have hl := exec_sim l kv (by wf_sub)
      have hr := exec_sim r kv (by wf_sub)
      cases op <;> rw [exec] <;> (try dsimp only)
      · exact .bind hl fun a => .bind (.lift _) fun x => .ite (.pure _) (.bind hr fun b => .bind (.lift _) fun _ => .pure _)
      · exact .bind hl fun a => .bind (.lift _) fun x => .ite (.pure _) (.bind hr fun b => .bind (.lift _) fun _ => .pure _)
      · exact .throw _
      · exact .bind hl fun a => .bind hr fun b => .bind (.lift _) fun _ => .pure _
      · exact .bind hl fun a => .bind hr fun b => .bind (.lift _) fun _ => .pure _
      · refine .bind hl fun a => .bind hr fun b => ?_
        split <;> first | exact .pure _ | exact .throw _
      · refine .bind hl fun a => .bind hr fun b => ?_
        split
        · split <;> first | exact .pure _ | exact .throw _
        · exact .throw _
      · split
        · exact .bind hl fun a => .bind hr fun b => .pure _
        · exact .bind hl fun a => .bind hr fun b => .lift _
      · exact .bind hl fun a => .bind hr fun b => .lift _
      · exact .bind hl fun a => .bind hr fun b => .lift _
      · exact .bind hl fun a => .bind hr fun b => .lift _
      · exact .bind hl fun a => .bind hr fun b => .bind (.lift _) fun _ => .pure _
      · exact .bind hl fun a => .bind hr fun b => .bind (.lift _) fun _ => .pure _
      · exact .bind hl fun a => .bind hr fun b => .bind (.lift _) fun _ => .pure _
      · exact .bind hl fun a => .bind hr fun b => .bind (.lift _) fun _ => .pure _
      · refine .bind hl fun left => ?_
        split
        · exact execInItems_sim _ left _ kv (by wf_sub)
        · exact .ite (.throw _) (.bind hr fun fret => by
            split <;> first | exact .pure _ | exact .throw _)
        · exact .ite (.throw _) (.bind hr fun fret => by
            split <;> first | exact .pure _ | exact .throw _)
        · exact .throw _
      · refine .bind hl fun left => ?_
        split
        · rename_i p lo hi
          exact .ite (.throw _) (.ite (.throw _)
            (.bind (exec_sim lo kv (by wf_sub)) fun lv => .bind (exec_sim hi kv (by wf_sub)) fun uv => .lift _))
        · exact .throw _
      · exact .bind hl fun a => .bind (.lift _) fun x => .ite (.pure _) (.bind hr fun b => .bind (.lift _) fun _ => .pure _)
      · exact .bind hl fun a => .bind (.lift _) fun x => .ite (.pure _) (.bind hr fun b => .bind (.lift _) fun _ => .pure _)

  theorem execInItems_sim : ∀ (number : Bool) (left : Value) (es : List Expr) (kv : Pair),
      WFList A es → RowSim A kv (execInItems number left es kv)
    | _, _, [], kv, hw => by rw [execInItems]; exact .pure _
    | number, left, e :: es, kv, hw => by
      rw [execInItems]
      exact .ite (.throw _) (.bind (exec_sim e kv (by wf_sub)) fun lv =>
        .bind (.lift _) fun c => .ite (.pure _) (execInItems_sim number left es kv (by wf_sub)))

  theorem execArgs_sim : ∀ (es : List Expr) (kv : Pair), WFList A es → RowSim A kv (execArgs es kv)
    | [], kv, hw => by rw [execArgs]; exact .pure _
    | e :: es, kv, hw => by
      rw [execArgs]
      exact .bind (exec_sim e kv (by wf_sub)) fun v => .bind (execArgs_sim es kv (by wf_sub)) fun vs => .pure _

  theorem rowBody_sim : ∀ (b : Body) (args : List Expr) (kv : Pair), WFList A args → RowSim A kv (rowBody b args kv)
    | .lower, a0 :: _, kv, hw => by rw [rowBody]; exact .bind (exec_sim a0 kv (by wf_sub)) fun v => .pure _
    | .upper, a0 :: _, kv, hw => by rw [rowBody]; exact .bind (exec_sim a0 kv (by wf_sub)) fun v => .pure _
    | .toInt, a0 :: _, kv, hw => by rw [rowBody]; exact .bind (exec_sim a0 kv (by wf_sub)) fun v => .pure _
    | .toFloat, a0 :: _, kv, hw => by rw [rowBody]; exact .bind (exec_sim a0 kv (by wf_sub)) fun v => .pure _
    | .toStr, a0 :: _, kv, hw => by rw [rowBody]; exact .bind (exec_sim a0 kv (by wf_sub)) fun v => .pure _
    | .isInt, a0 :: _, kv, hw => by rw [rowBody]; exact .bind (exec_sim a0 kv (by wf_sub)) fun v => .pure _
    | .isFloat, a0 :: _, kv, hw => by rw [rowBody]; exact .bind (exec_sim a0 kv (by wf_sub)) fun v => .pure _
    | .strlen, a0 :: _, kv, hw => by rw [rowBody]; exact .bind (exec_sim a0 kv (by wf_sub)) fun v => .pure _
    | .len, a0 :: _, kv, hw => by
      rw [rowBody]; exact .bind (exec_sim a0 kv (by wf_sub)) fun v => .bind (.lift _) fun _ => .pure _
    | .json, a0 :: _, kv, hw => by
      rw [rowBody]; refine .bind (exec_sim a0 kv (by wf_sub)) fun v => ?_
      split <;> first | exact .pure _ | exact .throw _
    | .subStr, a0 :: a1 :: a2 :: _, kv, hw => by
      rw [rowBody]
      exact .bind (exec_sim a0 kv (by wf_sub)) fun v => .ite (.throw _) (.ite (.throw _)
        (.bind (exec_sim a1 kv (by wf_sub)) fun s => .bind (exec_sim a2 kv (by wf_sub)) fun l => .lift _))
    | .split, a0 :: a1 :: _, kv, hw => by
      rw [rowBody]
      exact .bind (exec_sim a0 kv (by wf_sub)) fun v => .ite (.throw _) (.bind (exec_sim a1 kv (by wf_sub)) fun _ => .pure _)
    | .join, a0 :: rest, kv, hw => by
      rw [rowBody]
      exact .ite (.throw _) (.bind (exec_sim a0 kv (by wf_sub)) fun _ => .bind (execArgs_sim rest kv (by wf_sub)) fun _ => .pure _)
    | .cosine, a0 :: a1 :: _, kv, hw => by
      rw [rowBody]
      exact .bind (exec_sim a0 kv (by wf_sub)) fun l => .bind (exec_sim a1 kv (by wf_sub)) fun r =>
        .bind (.lift _) fun _ => .bind (.lift _) fun _ => .bind (.lift _) fun _ => .pure _
    | .l2, a0 :: a1 :: _, kv, hw => by
      rw [rowBody]
      exact .bind (exec_sim a0 kv (by wf_sub)) fun l => .bind (exec_sim a1 kv (by wf_sub)) fun r =>
        .bind (.lift _) fun _ => .bind (.lift _) fun _ => .bind (.lift _) fun _ => .pure _
    | .floatList, [], kv, hw => by rw [rowBody]; exact .pure _
    | .floatList, a0 :: rest, kv, hw => by
      rw [rowBody]; exact .bind (exec_sim a0 kv (by wf_sub)) fun _ => .bind (execArgs_sim rest kv (by wf_sub)) fun _ => .pure _
    | .intList, [], kv, hw => by rw [rowBody]; exact .pure _
    | .intList, a0 :: rest, kv, hw => by
      rw [rowBody]; exact .bind (exec_sim a0 kv (by wf_sub)) fun _ => .bind (execArgs_sim rest kv (by wf_sub)) fun _ => .pure _
    | .toList, [], kv, hw => by rw [rowBody]; exact .pure _
    | .toList, a0 :: rest, kv, hw => by
      rw [rowBody]
      exact .bind (exec_sim a0 kv (by wf_sub)) fun _ => .bind (exec_sim a0 kv (by wf_sub)) fun _ =>
        .bind (execArgs_sim rest kv (by wf_sub)) fun _ => .ite (.pure _) (.pure _)
    | .lower, [], _, _ | .upper, [], _, _ | .toInt, [], _, _ | .toFloat, [], _, _
    | .toStr, [], _, _ | .isInt, [], _, _ | .isFloat, [], _, _ | .strlen, [], _, _
    | .len, [], _, _ | .json, [], _, _ | .join, [], _, _
    | .subStr, [], _, _ | .subStr, [_], _, _ | .subStr, [_, _], _, _
    | .split, [], _, _ | .split, [_], _, _
    | .cosine, [], _, _ | .cosine, [_], _, _
    | .l2, [], _, _ | .l2, [_], _, _ => by simp only [rowBody]; exact .throw _
end


omit hfun in
theorem nocache_def (e : Expr) (kv : Pair) : nocache e kv = (exec e kv Ctx.off).1 := rfl

/-- **row_cache_ok**: under `CacheOK` (in particular from a cleared context) `exec e kv ctx` returns the
    value — or the error — of `exec e kv (cache off)` and re-establishes `CacheOK` -/
theorem row_cache_ok (e : Expr) (hw : WF A e) (kv : Pair) (c : Ctx) (hon : CtxOn c) (hok : CacheOK A c kv) :
    (exec e kv c).1 = nocache e kv ∧ CtxOn (exec e kv c).2 ∧ CacheOK A (exec e kv c).2 kv :=
  (exec_sim hfun e kv hw).2 c hon hok

/-- the starting point: `Clear` establishes `CacheOK` for whatever pair comes next -/
theorem row_cache_ok_cleared (e : Expr) (hw : WF A e) (kv : Pair) (c : Ctx) (hon : CtxOn c) :
    (exec e kv c.clear).1 = nocache e kv ∧ CtxOn (exec e kv c.clear).2 ∧ CacheOK A (exec e kv c.clear).2 kv :=
  row_cache_ok hfun e hw kv c.clear hon.clear (.of_empty (clear_fieldCache hon))

end Kvql.Cache
