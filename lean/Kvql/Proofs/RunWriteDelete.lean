/-
  Whole-statement proofs for DELETE over the end-to-end model (`Kvql.Run.runStmt` / `runQuery`).

  `runStmt (.delete pos wpos w lim)` folds the WHERE (`Fold.optimize`), infers the scan node from the
  folded tree, evaluates the filter CHUNK-WISE in either polling mode (`DeletePlan.execute` polls
  `ChildPlan.Batch`): the verdict table is `batchVerdicts` over the inner chunks of the scan, and runs
  the plan model `Plans.run (.delete node filter hasAnd limit)` of C11.

  Chain:
      C14 `accepted_delete_where_kind`        the checker has typed the WHERE: `CoreLang` needs only `core`
      C04 `fold_total`, `fold_preserves_where` the folded WHERE has the Boolean value of the parsed one
      C01 `exec_refines_spec`                  … which is the reference's verdict
      C03 `batch_pairwise`, `vec_eq_map`       the vector evaluator, where it is defined, gives that verdict
      C05 `loop_step`, `filterChunk_off`       … with the field cache on or off: the verdict table
      C02 `scan_plan_sound`                    the scan node covers every pair the reference accepts
      C02 `delete_shortcut_exact` (via `shortcut_exact_on_evaluable`)   a listed key is an accepted key
      C11 `delete_correct`, `delete_limit_correct`, `delete_shortcut_correct`, `delete_no_put`
-/
import Kvql.Proofs.RunProofs
import Kvql.Proofs.RunWriteExact
import Kvql.Proofs.RunWritePut
import Kvql.Properties.C11

namespace Kvql.Proofs.RunWrite
open Kvql Kvql.Run Kvql.Plans Kvql.Proofs.Scan Kvql.Proofs.Typing Kvql.Cache
open Kvql.Proofs.RunFold Kvql.Proofs.RunScan Kvql.Proofs.RunTables Kvql.Proofs.Run Kvql.Proofs.Delete
open Kvql.PlanCheck (planStage)

/-! ### the store after a removal -/

/-- in a sorted store a key has one pair -/
theorem pair_unique {store : Storage.Store} (hs : store.Sorted) {p q : SPair} (hp : p ∈ store) (hq : q ∈ store)
    (e : p.1 = q.1) : p = q := by
  obtain ⟨k, v⟩ := p
  obtain ⟨k', v'⟩ := q
  simp only at e
  subst e
  have h1 := (mem_iff_lookup hs k v).mp hp
  have h2 := (mem_iff_lookup hs k v').mp hq
  rw [h1] at h2
  injection h2 with h2
  rw [h2]

/-- removing the keys of some stored pairs leaves exactly the other pairs, unchanged, in order -/
theorem eraseMany_keys_of_sub {store : Storage.Store} (hs : store.Sorted) (L : List SPair) (hL : ∀ q ∈ L, q ∈ store) :
    store.eraseMany (L.map (·.1)) = store.filter (fun p => decide (p ∉ L)) := by
  rw [Kvql.Proofs.Store.eraseMany_eq_filter]
  apply List.filter_congr
  intro p hp
  simp only [List.mem_map, decide_eq_decide]
  constructor
  · intro h hm; exact h ⟨p, hm, rfl⟩
  · rintro h ⟨q, hq, e⟩
    have : q = p := pair_unique hs (hL q hq) hp e
    subst this
    exact h hq

/-- … for the whole selection: the pairs on which the verdict is not true -/
theorem eraseMany_selection {store : Storage.Store} (hs : store.Sorted) (g : SPair → Bool) :
    store.eraseMany ((store.filter g).map (·.1)) = store.filter (fun p => !g p) := by
  rw [eraseMany_keys_of_sub hs _ (fun q hq => (List.mem_filter.mp hq).1)]
  apply List.filter_congr
  intro p hp
  cases hg : g p with
  | true => simp [List.mem_filter, hp, hg]
  | false => simp [List.mem_filter, hg]

/-! ### `writeOutcome` -/

theorem writeOutcome_world (cls : Option Fail) (r : RunOut × Storage.World) : (writeOutcome cls r).world = r.2 := by
  unfold writeOutcome
  split
  · rfl
  · rfl
  · rfl
  · rfl

theorem writeOutcome_ok (cls : Option Fail) {r : RunOut × Storage.World} {polls : List (List Row)}
    (h : r.1 = ⟨.ok, polls⟩) : (writeOutcome cls r).fail = none ∧ (writeOutcome cls r).rows = writeRows polls := by
  unfold writeOutcome
  rw [h]
  exact ⟨rfl, rfl⟩

theorem writeRows_count (n : Nat) : writeRows [[Row.count n]] = [[Value.goInt (Int64.ofNat n)]] := rfl

/-! ### unfolding `runStmt` on DELETE -/

/-- the verdict table `runDelete` builds for the folded WHERE `fw` -/
def deleteTable (fw : Expr) (store : Storage.Store) (bs : Nat) (cache : Bool) : Verdicts :=
  batchVerdicts fw (Ctx.new cache) (innerChunks (nodeOf (Scan.optimize fw)) bs store)

theorem runStmt_delete {pos wpos : Nat} {w : Expr} {lim : Option LimitS} {fw : Expr} (hfw : Fold.optimize w = .ok fw)
    (store : Storage.Store) (kind : PollKind) {bs : Nat} (hbs : 1 ≤ bs) (cache : Bool) :
    runStmt (.delete pos wpos w lim) store kind bs cache =
      writeOutcome ((firstErr (deleteTable fw store bs cache)).map perrFail)
        (Plans.run (.delete (nodeOf (Scan.optimize fw)) (filterOfV (deleteTable fw store bs cache)) (Scan.hasAndOp fw)
          (lim.map limitNat)) kind bs none store) := by
  simp only [runStmt, bs_ne_zero hbs, Bool.false_eq_true, if_false, runDelete, hfw, deleteTable]

/-! ### the plan half: DELETE with a verdict table defined on the region -/

/-- the stored pairs a `select *` over the node would return are the pairs with verdict `g` -/
theorem selected_of_table (node : ScanNode) (store : Storage.Store) (v : Verdicts) (g : SPair → Bool)
    (hv : ∀ p ∈ store, node.inRegion p.1 = true → v.lookup p.1 = some (.ok (g p)))
    (hcover : ∀ p ∈ store, g p = true → node.inRegion p.1 = true) :
    selected node (filterOfV v) store = store.filter g := by
  rw [selected, expectedRows, List.filter_filter]
  apply List.filter_congr
  intro p hp
  cases hr : node.inRegion p.1 with
  | true => simp [accepts_filterOfV (hv p hp hr)]
  | false =>
    cases hg : g p with
    | false => simp
    | true => rw [hcover p hp hg] at hr; cases hr

/-- the number a DELETE reports: the pairs it selected — or, when the planner substituted the
    RemovePlan (`optimizeDeletePlanToRemovePlan`), the number of LISTED keys, stored or not -/
def reported (node : ScanNode) (hasAnd : Bool) (selectedCount : Nat) : Nat :=
  match node with
  | .mget ks => if hasAnd then selectedCount else ks.length
  | _ => selectedCount

/-- **the plan half of DELETE without LIMIT over the end-to-end model**: both strategies.  If the
    verdict table gives the verdict `g` on every stored pair of the node's region, `g` is false outside
    it, and — when the planner takes the shortcut — `g` is true on the stored pairs with a listed key,
    the statement succeeds, reports its number, removes exactly the pairs with `g`, writes nothing. -/
theorem delete_outcome_of_table (node : ScanNode) (hwf : ScanNode.WellFormed node) (store : Storage.Store)
    (hs : store.Sorted) (v : Verdicts) (g : SPair → Bool)
    (hv : ∀ p ∈ store, node.inRegion p.1 = true → v.lookup p.1 = some (.ok (g p)))
    (hcover : ∀ p ∈ store, g p = true → node.inRegion p.1 = true)
    (hasAnd : Bool)
    (hexact : ∀ ks, node = .mget ks → hasAnd = false → ∀ p ∈ store, p.1 ∈ ks → g p = true)
    (kind : PollKind) (bs : Nat) (hbs : 1 ≤ bs) (cls : Option Fail) :
    (writeOutcome cls (Plans.run (.delete node (filterOfV v) hasAnd none) kind bs none store)).fail = none ∧
    (writeOutcome cls (Plans.run (.delete node (filterOfV v) hasAnd none) kind bs none store)).rows =
      [[Value.goInt (Int64.ofNat (reported node hasAnd (store.filter g).length))]] ∧
    (writeOutcome cls (Plans.run (.delete node (filterOfV v) hasAnd none) kind bs none store)).world.store =
      store.filter (fun p => !g p) ∧
    (∀ e ∈ (writeOutcome cls (Plans.run (.delete node (filterOfV v) hasAnd none) kind bs none store)).world.log,
      e.call.isPut = false) := by
  have hsel := selected_of_table node store v g hv hcover
  have hnoput := Kvql.Properties.C11.delete_no_put node (filterOfV v) hasAnd none kind bs none store
  rw [writeOutcome_world]
  -- which strategy?
  have hrun : (Plans.run (.delete node (filterOfV v) hasAnd none) kind bs none store).1 =
        ⟨.ok, [[.count (reported node hasAnd (store.filter g).length)]]⟩ ∧
      (Plans.run (.delete node (filterOfV v) hasAnd none) kind bs none store).2.store =
        store.eraseMany ((store.filter g).map (·.1)) := by
    by_cases hshort : (∃ ks, node = .mget ks) ∧ hasAnd = false
    · obtain ⟨⟨ks, rfl⟩, rfl⟩ := hshort
      have hx : ∀ p ∈ store, p.1 ∈ ks → filterOfV v p = .ok true := by
        intro p hp hk
        have hr : (ScanNode.mget ks).inRegion p.1 = true := by simpa [ScanNode.inRegion] using hk
        have := hv p hp hr
        rw [hexact ks rfl rfl p hp hk] at this
        unfold filterOfV
        rw [this]
      have := Kvql.Properties.C11.delete_shortcut_correct ks (filterOfV v) store hx kind bs
      rw [hsel] at this
      simpa [reported] using this
    · have hstrategy : ∀ ks, node = .mget ks → hasAnd = true := by
        intro ks hk
        cases hasAnd with
        | true => rfl
        | false => exact absurd ⟨⟨ks, hk⟩, rfl⟩ hshort
      have hev : ∀ p ∈ store, node.inRegion p.1 = true → Evaluable (filterOfV v) p :=
        fun p hp hr => evaluable_filterOfV (hv p hp hr)
      have := Kvql.Properties.C11.delete_correct node hwf (filterOfV v) hasAnd hstrategy store hs hev kind bs hbs
      rw [hsel] at this
      have hrep : reported node hasAnd (store.filter g).length = (store.filter g).length := by
        unfold reported
        split
        · rename_i ks
          rw [hstrategy ks rfl]; rfl
        · rfl
      rw [hrep]
      exact this
  obtain ⟨h1, h2⟩ := writeOutcome_ok cls hrun.1
  refine ⟨h1, ?_, ?_, hnoput⟩
  · rw [h2, writeRows_count]
  · rw [hrun.2, eraseMany_selection hs g]

/-- **the plan half of DELETE with LIMIT**: rows `start … start+count-1` of the selection go -/
theorem delete_limit_outcome_of_table (node : ScanNode) (hwf : ScanNode.WellFormed node) (store : Storage.Store)
    (hs : store.Sorted) (v : Verdicts) (g : SPair → Bool)
    (hv : ∀ p ∈ store, node.inRegion p.1 = true → v.lookup p.1 = some (.ok (g p)))
    (hcover : ∀ p ∈ store, g p = true → node.inRegion p.1 = true)
    (hasAnd : Bool) (start count : Nat)
    (kind : PollKind) (bs : Nat) (hbs : 1 ≤ bs) (cls : Option Fail) :
    (writeOutcome cls (Plans.run (.delete node (filterOfV v) hasAnd (some (start, count))) kind bs none store)).fail = none ∧
    (writeOutcome cls (Plans.run (.delete node (filterOfV v) hasAnd (some (start, count))) kind bs none store)).rows =
      [[Value.goInt (Int64.ofNat (((store.filter g).drop start).take count).length)]] ∧
    (writeOutcome cls (Plans.run (.delete node (filterOfV v) hasAnd (some (start, count))) kind bs none store)).world.store =
      store.filter (fun p => decide (p ∉ ((store.filter g).drop start).take count)) ∧
    (∀ e ∈ (writeOutcome cls (Plans.run (.delete node (filterOfV v) hasAnd (some (start, count))) kind bs none store)).world.log,
      e.call.isPut = false) := by
  have hsel := selected_of_table node store v g hv hcover
  have hnoput := Kvql.Properties.C11.delete_no_put node (filterOfV v) hasAnd (some (start, count)) kind bs none store
  rw [writeOutcome_world]
  have hev : ∀ p ∈ store, node.inRegion p.1 = true → Evaluable (filterOfV v) p :=
    fun p hp hr => evaluable_filterOfV (hv p hp hr)
  have hrun := Kvql.Properties.C11.delete_limit_correct node hwf (filterOfV v) hasAnd start count store hs hev kind bs hbs
  rw [hsel] at hrun
  obtain ⟨h1, h2⟩ := writeOutcome_ok cls hrun.1
  refine ⟨h1, ?_, ?_, hnoput⟩
  · rw [h2, writeRows_count]
  · rw [hrun.2]
    apply eraseMany_keys_of_sub hs
    intro q hq
    exact (List.mem_filter.mp ((List.drop_sublist _ _).subset ((List.take_sublist _ _).subset hq))).1

/-! ### the evaluation half -/

/-- what the typed WHERE `w` and the reference evaluator give about the folded WHERE `fw` (cf.
    `star_facts`): on every stored pair the row evaluator returns the reference's verdict, and the scan
    node inferred from `fw` covers every pair the reference accepts -/
theorem where_facts {w : Expr} (hk : kindOf w = some .bool) (hcore : Refine.core w = true)
    {store : Storage.Store} (hev : ∀ p ∈ store, Spec.evaluable w ⟨p.1, p.2⟩ = true)
    {fw : Expr} (hfw : Fold.optimize w = .ok fw) :
    (∀ p ∈ store, exec fw (toKv p) Ctx.off = (.ok (.bool (Select.specHolds w p)), Ctx.off)) ∧
    (∀ p ∈ store, Select.specHolds w p = true → (nodeOf (Scan.optimize fw)).inRegion p.1 = true) := by
  have hP : Refine.CoreLang w := ⟨hcore, by rw [hk]; rfl⟩
  have hfp : Select.FoldPreserves w fw := fun kv b hv =>
    Kvql.Properties.C04.fold_preserves_where hfw rfl hv
  have hx : ∀ p ∈ store, exec fw (toKv p) Ctx.off = (.ok (.bool (Select.specHolds w p)), Ctx.off) :=
    fun p hp => Select.exec_of_spec hfp hP (hev p hp)
  refine ⟨hx, fun p hp hg => ?_⟩
  have ha : Select.execTrue p.2 fw p.1 = true := by
    rw [Select.execTrue_iff]
    have := hx p hp
    rw [hg] at this
    exact this
  rw [nodeOf_eq]
  exact Select.inRegion_of_region (Kvql.Properties.C02.scan_plan_sound (Select.exec_is_sem p.2) fw p.1 ha)

theorem aliasFree_fold {w fw : Expr} (haf : aliasFree w = true) (hfw : Fold.optimize w = .ok fw) : aliasFree fw = true := by
  obtain ⟨fw', n, hfold⟩ := Fold.optimizeBoth_total w
  have := optimize_of_both hfold
  rw [hfw] at this
  injection this with this
  subst this
  exact optimizeBoth_af haf hfold

/-- the table `runDelete` builds is the table of the verdict `g`, when the row evaluator gives `g`
    on every stored pair and the vector evaluator is defined on every stored pair -/
theorem deleteTable_eq {fw : Expr} (hafw : aliasFree fw = true) (hok : fw.vecOk = true) {store : Storage.Store}
    (hs : store.Sorted) (g : SPair → Bool)
    (hx : ∀ p ∈ store, exec fw (toKv p) Ctx.off = (.ok (.bool (g p)), Ctx.off))
    (hbatch : ∀ p ∈ store, ∃ v, (execBatch fw [⟨p.1, p.2⟩] Ctx.off).1 = .ok [v])
    {bs : Nat} (hbs : 1 ≤ bs) (cache : Bool) :
    deleteTable fw store bs cache =
      (yielded (nodeOf (Scan.optimize fw)) store).map (fun p => (p.1, Except.ok (g p))) := by
  have hwf : ScanNode.WellFormed (nodeOf (Scan.optimize fw)) := by
    rw [nodeOf_eq]; exact Select.nodeOf_wellFormed _
  unfold deleteTable
  rw [← innerChunks_flatten _ bs hbs store]
  apply batchVerdicts_eq hafw cache
  intro p hp
  rw [innerChunks_flatten _ bs hbs store, yielded_eq_filter _ hwf hs] at hp
  have hps := (List.mem_filter.mp hp).1
  obtain ⟨v, hv0⟩ := hbatch p hps
  have hv : PairVal fw v (toKv p) :=
    Kvql.Proofs.C03.batch_ok_ctx fw Ctx.off rfl [toKv p] (by simp) hv0
  obtain ⟨vr, h1, h2⟩ := single_row_value hok (kv := toKv p) hv
  have h3 : nocache fw (toKv p) = .ok (.bool (g p)) := by
    unfold nocache; rw [hx p hps]
  rw [h3] at h1
  injection h1 with h1
  subst h1
  rw [bool_of_contentEq h2] at hv
  exact hv

theorem table_lookup {node : ScanNode} (hwf : ScanNode.WellFormed node) {store : Storage.Store} (hs : store.Sorted)
    (g : SPair → Bool) : ∀ p ∈ store, node.inRegion p.1 = true →
      ((yielded node store).map (fun p => (p.1, (Except.ok (g p) : Except Project.PErr Bool)))).lookup p.1 =
        some (.ok (g p)) := by
  intro p hp hr
  rw [yielded_eq_filter node hwf hs]
  exact lookup_map_of_mem _ (keys_distinct hs _) (List.mem_filter.mpr ⟨hp, hr⟩)

/-- membership in the key list of the plan node `Optimize()` builds from an inferred MGET -/
theorem mem_node_keys {fw : Expr} {ks : List Bytes} (hn : nodeOf (Scan.optimize fw) = .mget ks) :
    ∃ ks0, Scan.optimizeExpr fw = .mget ks0 ∧ ∀ k, k ∈ ks → k ∈ ks0 := by
  unfold Scan.optimize at hn
  cases hm : Scan.optimizeExpr fw with
  | mget ks0 =>
    rw [hm] at hn
    simp only [Scan.plan, nodeOf] at hn
    injection hn with hn
    refine ⟨ks0, rfl, fun k hk => ?_⟩
    rw [← hn, mem_newMultiGetKeys, Scan.mem_sort, Scan.mem_dedup] at hk
    exact hk
  | empty => rw [hm] at hn; simp [Scan.plan, nodeOf] at hn
  | pre p => rw [hm] at hn; simp [Scan.plan, nodeOf] at hn
  | range a b => rw [hm] at hn; simp [Scan.plan, nodeOf] at hn
  | full => rw [hm] at hn; simp [Scan.plan, nodeOf] at hn

/-! ### DELETE, statement level -/

/-- **DELETE without LIMIT** on a typed WHERE (`kindOf w = some .bool`), `runStmt` level -/
theorem runStmt_delete_correct {pos wpos : Nat} {w : Expr} (hk : kindOf w = some .bool)
    (haf : aliasFree w = true) (hcore : Refine.core w = true)
    (store : Storage.Store) (hs : store.Sorted)
    (hev : ∀ p ∈ store, Spec.evaluable w ⟨p.1, p.2⟩ = true)
    (fw : Expr) (hfw : Fold.optimize w = .ok fw) (hok : fw.vecOk = true)
    (hbatch : ∀ p ∈ store, ∃ v, (execBatch fw [⟨p.1, p.2⟩] Ctx.off).1 = .ok [v])
    (kind : PollKind) (bs : Nat) (hbs : 1 ≤ bs) (cache : Bool) :
    (runStmt (.delete pos wpos w none) store kind bs cache).fail = none ∧
    (runStmt (.delete pos wpos w none) store kind bs cache).rows =
      [[Value.goInt (Int64.ofNat (reported (nodeOf (Scan.optimize fw)) (Scan.hasAndOp fw)
        (store.filter (fun p => Spec.holds w ⟨p.1, p.2⟩)).length))]] ∧
    (runStmt (.delete pos wpos w none) store kind bs cache).world.store =
      store.filter (fun p => !Spec.holds w ⟨p.1, p.2⟩) ∧
    (∀ e ∈ (runStmt (.delete pos wpos w none) store kind bs cache).world.log, e.call.isPut = false) := by
  obtain ⟨hx, hcover⟩ := where_facts hk hcore hev hfw
  have hafw := aliasFree_fold haf hfw
  have hwf : ScanNode.WellFormed (nodeOf (Scan.optimize fw)) := by
    rw [nodeOf_eq]; exact Select.nodeOf_wellFormed _
  have htable := deleteTable_eq hafw hok hs (Select.specHolds w) hx hbatch hbs cache
  have hv := table_lookup hwf hs (Select.specHolds w)
  rw [← htable] at hv
  have hexact : ∀ ks, nodeOf (Scan.optimize fw) = .mget ks → Scan.hasAndOp fw = false →
      ∀ p ∈ store, p.1 ∈ ks → Select.specHolds w p = true := by
    intro ks hn hna p hp hkm
    obtain ⟨ks0, hm, hsub⟩ := mem_node_keys hn
    exact shortcut_exact_on_evaluable (Scan.noAndSpine_of_hasAndOp hna) hm (hsub p.1 hkm) (hx p hp)
  rw [runStmt_delete hfw store kind hbs cache]
  exact delete_outcome_of_table _ hwf store hs _ (Select.specHolds w) hv hcover _ hexact kind bs hbs _

/-- **DELETE with LIMIT** on a typed WHERE, `runStmt` level -/
theorem runStmt_delete_limit_correct {pos wpos : Nat} {w : Expr} (l : LimitS) (hk : kindOf w = some .bool)
    (haf : aliasFree w = true) (hcore : Refine.core w = true)
    (store : Storage.Store) (hs : store.Sorted)
    (hev : ∀ p ∈ store, Spec.evaluable w ⟨p.1, p.2⟩ = true)
    (fw : Expr) (hfw : Fold.optimize w = .ok fw) (hok : fw.vecOk = true)
    (hbatch : ∀ p ∈ store, ∃ v, (execBatch fw [⟨p.1, p.2⟩] Ctx.off).1 = .ok [v])
    (kind : PollKind) (bs : Nat) (hbs : 1 ≤ bs) (cache : Bool) :
    (runStmt (.delete pos wpos w (some l)) store kind bs cache).fail = none ∧
    (runStmt (.delete pos wpos w (some l)) store kind bs cache).rows =
      [[Value.goInt (Int64.ofNat (((store.filter (fun p => Spec.holds w ⟨p.1, p.2⟩)).drop l.start.toInt.toNat).take
        l.count.toInt.toNat).length)]] ∧
    (runStmt (.delete pos wpos w (some l)) store kind bs cache).world.store =
      store.filter (fun p => decide (p ∉ ((store.filter (fun p => Spec.holds w ⟨p.1, p.2⟩)).drop l.start.toInt.toNat).take
        l.count.toInt.toNat)) ∧
    (∀ e ∈ (runStmt (.delete pos wpos w (some l)) store kind bs cache).world.log, e.call.isPut = false) := by
  obtain ⟨hx, hcover⟩ := where_facts hk hcore hev hfw
  have hafw := aliasFree_fold haf hfw
  have hwf : ScanNode.WellFormed (nodeOf (Scan.optimize fw)) := by
    rw [nodeOf_eq]; exact Select.nodeOf_wellFormed _
  have htable := deleteTable_eq hafw hok hs (Select.specHolds w) hx hbatch hbs cache
  have hv := table_lookup hwf hs (Select.specHolds w)
  rw [← htable] at hv
  rw [runStmt_delete hfw store kind hbs cache]
  exact delete_limit_outcome_of_table _ hwf store hs _ (Select.specHolds w) hv hcover _ _ _ kind bs hbs _

end Kvql.Proofs.RunWrite
