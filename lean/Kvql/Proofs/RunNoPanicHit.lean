/-
  RunNoPanic, part 5: the hit counter of the `ExecuteCtx` is write-only.  Two contexts that differ
  only in `hit` give the same result, and contexts that again differ only in `hit`.
-/
import Kvql.Proofs.RunNoPanicBase

namespace Kvql.Proofs.RunNoPanic

open Kvql

/-- equal up to the hit counter -/
def SameButHit (c c' : Ctx) : Prop :=
  c.present = c'.present ∧ c.enable = c'.enable ∧ c.fieldCache = c'.fieldCache ∧
  c.chunkKeyCache = c'.chunkKeyCache ∧ c.chunkCache = c'.chunkCache

theorem SameButHit.rfl' (c : Ctx) : SameButHit c c := ⟨rfl, rfl, rfl, rfl, rfl⟩

/-! ### the relational lifting -/

/-- an `M`-computation that neither reads nor is influenced by the hit counter -/
def HitInv {α} (x : M α) : Prop :=
  ∀ c c', SameButHit c c' → (x c).1 = (x c').1 ∧ SameButHit (x c).2 (x c').2

namespace HitInv

theorem pure {α} (a : α) : HitInv (Pure.pure a : M α) := fun _ _ h => ⟨rfl, h⟩
theorem throw {α} (e : Err) : HitInv (M.throw e : M α) := fun _ _ h => ⟨rfl, h⟩
theorem lift {α} (x : Except Err α) : HitInv (M.lift x) := fun _ _ h => ⟨rfl, h⟩

theorem bind {α β} {x : M α} {f : α → M β} (hx : HitInv x) (hf : ∀ a, HitInv (f a)) : HitInv (x >>= f) := by
  intro c c' h
  obtain ⟨h1, h2⟩ := hx c c' h
  rw [M.bind_run, M.bind_run]
  rcases hc : x c with ⟨r, d⟩
  rcases hc' : x c' with ⟨r', d'⟩
  rw [hc, hc'] at h1 h2
  dsimp only at h1 h2
  subst h1
  cases r with
  | ok a => exact hf a d d' h2
  | error e => exact ⟨rfl, h2⟩

theorem ite {α} {p : Prop} [Decidable p] {x y : M α} (hx : HitInv x) (hy : HitInv y) :
    HitInv (if p then x else y) := by split <;> assumption

end HitInv

/-! ### the context operations -/

theorem SameButHit.getFieldResult {c c' : Ctx} (h : SameButHit c c') (n : Bytes) :
    c.getFieldResult n = c'.getFieldResult n := by
  obtain ⟨_, h2, h3, _, _⟩ := h
  simp only [Ctx.getFieldResult, h2, h3]

theorem SameButHit.getChunkFieldResult {c c' : Ctx} (h : SameButHit c c') (n k : Bytes) :
    c.getChunkFieldResult n k = c'.getChunkFieldResult n k := by
  obtain ⟨_, h2, _, h4, _⟩ := h
  simp only [Ctx.getChunkFieldResult, h2, h4]

theorem SameButHit.updateHit {c c' : Ctx} (h : SameButHit c c') : SameButHit c.updateHit c'.updateHit := h

theorem SameButHit.setFieldResult {c c' : Ctx} (h : SameButHit c c') (n : Bytes) (v : Value) :
    SameButHit (c.setFieldResult n v) (c'.setFieldResult n v) := by
  cases c; cases c'
  simp only [SameButHit] at h
  obtain ⟨rfl, rfl, rfl, rfl, rfl⟩ := h
  simp only [Ctx.setFieldResult]
  split
  · exact ⟨rfl, rfl, rfl, rfl, rfl⟩
  · exact ⟨rfl, rfl, rfl, rfl, rfl⟩

theorem SameButHit.appendChunkFieldResult {c c' : Ctx} (h : SameButHit c c') (n : Bytes) (vs : List Value) :
    SameButHit (c.appendChunkFieldResult n vs) (c'.appendChunkFieldResult n vs) := by
  cases c; cases c'
  simp only [SameButHit] at h
  obtain ⟨rfl, rfl, rfl, rfl, rfl⟩ := h
  simp only [Ctx.appendChunkFieldResult]
  split
  · exact ⟨rfl, rfl, rfl, rfl, rfl⟩
  · split
    · exact ⟨rfl, rfl, rfl, rfl, rfl⟩
    · exact ⟨rfl, rfl, rfl, rfl, rfl⟩

theorem SameButHit.setChunkFieldResult {c c' : Ctx} (h : SameButHit c c') (n k : Bytes) (vs : List Value) :
    SameButHit (c.setChunkFieldResult n k vs) (c'.setChunkFieldResult n k vs) := by
  cases c; cases c'
  simp only [SameButHit] at h
  obtain ⟨rfl, rfl, rfl, rfl, rfl⟩ := h
  simp only [Ctx.setChunkFieldResult]
  split
  · exact ⟨rfl, rfl, rfl, rfl, rfl⟩
  · split
    · exact ⟨rfl, rfl, rfl, rfl, rfl⟩
    · refine SameButHit.appendChunkFieldResult ?_ n vs
      exact ⟨rfl, rfl, rfl, rfl, rfl⟩

/-! ### the row evaluator -/

mutual
  theorem exec_hitInv : ∀ (e : Expr) (kv : Pair), HitInv (exec e kv)
    | .str .., kv => by rw [exec]; exact .pure _
    | .field _ k, kv => by cases k <;> rw [exec] <;> exact .pure _
    | .name .., kv => by rw [exec]; exact .pure _
    | .num .., kv => by rw [exec]; exact .pure _
    | .float .., kv => by rw [exec]; exact .pure _
    | .bool .., kv => by rw [exec]; exact .pure _
    | .list .., kv => by rw [exec]; exact .pure _
    | .cycle, kv => by rw [exec]; exact .throw _
    | .not _ r, kv => by
      rw [exec]
      exact .bind (exec_hitInv r kv) (fun v => .bind (.lift _) (fun _ => .pure _))
    | .ref _ name target, kv => by
      rw [exec]
      have ht := exec_hitInv target kv
      intro c c' h
      dsimp only
      rw [← h.1, ← h.getFieldResult name]
      split
      · exact ⟨rfl, h.updateHit⟩
      · obtain ⟨h1, h2⟩ := ht c c' h
        rcases hc : exec target kv c with ⟨r, d⟩
        rcases hc' : exec target kv c' with ⟨r', d'⟩
        rw [hc, hc'] at h1 h2
        dsimp only at h1 h2
        subst h1
        cases r with
        | error e => exact ⟨rfl, h2⟩
        | ok v =>
          dsimp only
          refine ⟨rfl, ?_⟩
          rw [← h2.1]
          split
          · exact h2.setFieldResult name v
          · exact h2
    | .access _ l f, kv => by
      rw [exec]
      refine .bind (exec_hitInv l kv) (fun left => ?_)
      split
      · exact .lift _
      · exact .lift _
      · exact .throw _
    | .call _ nm args, kv => by
      rw [exec]
      split
      · exact .throw _
      · split
        · exact .throw _
        · exact .ite (.throw _) (.ite (.throw _) (by
            split
            · exact .throw _
            · exact rowBody_hitInv _ args kv))
    | .binop _ op l r, kv => by
      have hl := exec_hitInv l kv
      have hr := exec_hitInv r kv
      cases op <;> rw [exec] <;> (try dsimp only)
      -- and
      · exact .bind hl fun a => .bind (.lift _) fun x => .ite (.pure _) (.bind hr fun b => .bind (.lift _) fun _ => .pure _)
      -- or
      · exact .bind hl fun a => .bind (.lift _) fun x => .ite (.pure _) (.bind hr fun b => .bind (.lift _) fun _ => .pure _)
      -- not
      · exact .throw _
      -- eq, neq
      · exact .bind hl fun a => .bind hr fun b => .bind (.lift _) fun _ => .pure _
      · exact .bind hl fun a => .bind hr fun b => .bind (.lift _) fun _ => .pure _
      -- prefixMatch
      · refine .bind hl fun a => .bind hr fun b => ?_
        split <;> first | exact .pure _ | exact .throw _
      -- regexMatch
      · refine .bind hl fun a => .bind hr fun b => ?_
        split
        · split <;> first | exact .pure _ | exact .throw _
        · exact .throw _
      -- add
      · split
        · exact .bind hl fun a => .bind hr fun b => .pure _
        · exact .bind hl fun a => .bind hr fun b => .lift _
      -- sub mul div
      · exact .bind hl fun a => .bind hr fun b => .lift _
      · exact .bind hl fun a => .bind hr fun b => .lift _
      · exact .bind hl fun a => .bind hr fun b => .lift _
      -- gt gte lt lte
      · exact .bind hl fun a => .bind hr fun b => .bind (.lift _) fun _ => .pure _
      · exact .bind hl fun a => .bind hr fun b => .bind (.lift _) fun _ => .pure _
      · exact .bind hl fun a => .bind hr fun b => .bind (.lift _) fun _ => .pure _
      · exact .bind hl fun a => .bind hr fun b => .bind (.lift _) fun _ => .pure _
      -- in
      · refine .bind hl fun left => ?_
        split
        · rename_i p items
          exact execInItems_hitInv _ left items kv
        · exact .ite (.throw _) (.bind hr fun fret => by
            split <;> first | exact .pure _ | exact .throw _)
        · exact .ite (.throw _) (.bind hr fun fret => by
            split <;> first | exact .pure _ | exact .throw _)
        · exact .throw _
      -- between
      · refine .bind hl fun left => ?_
        split
        · rename_i p lo hi
          exact .ite (.throw _) (.ite (.throw _)
            (.bind (exec_hitInv lo kv) fun lv => .bind (exec_hitInv hi kv) fun uv => .lift _))
        · exact .throw _
      -- kwAnd kwOr
      · exact .bind hl fun a => .bind (.lift _) fun x => .ite (.pure _) (.bind hr fun b => .bind (.lift _) fun _ => .pure _)
      · exact .bind hl fun a => .bind (.lift _) fun x => .ite (.pure _) (.bind hr fun b => .bind (.lift _) fun _ => .pure _)

  theorem execInItems_hitInv : ∀ (number : Bool) (left : Value) (es : List Expr) (kv : Pair),
      HitInv (execInItems number left es kv)
    | _, _, [], kv => by rw [execInItems]; exact .pure _
    | number, left, e :: es, kv => by
      rw [execInItems]
      exact .ite (.throw _) (.bind (exec_hitInv e kv) fun lv =>
        .bind (.lift _) fun c => .ite (.pure _) (execInItems_hitInv number left es kv))

  theorem execArgs_hitInv : ∀ (es : List Expr) (kv : Pair), HitInv (execArgs es kv)
    | [], kv => by rw [execArgs]; exact .pure _
    | e :: es, kv => by
      rw [execArgs]
      exact .bind (exec_hitInv e kv) fun v => .bind (execArgs_hitInv es kv) fun vs => .pure _

  theorem rowBody_hitInv : ∀ (b : Body) (args : List Expr) (kv : Pair), HitInv (rowBody b args kv)
    | .lower, a0 :: _, kv => by rw [rowBody]; exact .bind (exec_hitInv a0 kv) fun v => .pure _
    | .upper, a0 :: _, kv => by rw [rowBody]; exact .bind (exec_hitInv a0 kv) fun v => .pure _
    | .toInt, a0 :: _, kv => by rw [rowBody]; exact .bind (exec_hitInv a0 kv) fun v => .pure _
    | .toFloat, a0 :: _, kv => by rw [rowBody]; exact .bind (exec_hitInv a0 kv) fun v => .pure _
    | .toStr, a0 :: _, kv => by rw [rowBody]; exact .bind (exec_hitInv a0 kv) fun v => .pure _
    | .isInt, a0 :: _, kv => by rw [rowBody]; exact .bind (exec_hitInv a0 kv) fun v => .pure _
    | .isFloat, a0 :: _, kv => by rw [rowBody]; exact .bind (exec_hitInv a0 kv) fun v => .pure _
    | .strlen, a0 :: _, kv => by rw [rowBody]; exact .bind (exec_hitInv a0 kv) fun v => .pure _
    | .len, a0 :: _, kv => by
      rw [rowBody]
      exact .bind (exec_hitInv a0 kv) fun v => .bind (.lift _) fun _ => .pure _
    | .json, a0 :: _, kv => by
      rw [rowBody]
      refine .bind (exec_hitInv a0 kv) fun v => ?_
      split <;> first | exact .pure _ | exact .throw _
    | .subStr, a0 :: a1 :: a2 :: _, kv => by
      rw [rowBody]
      exact .bind (exec_hitInv a0 kv) fun v => .ite (.throw _) (.ite (.throw _)
        (.bind (exec_hitInv a1 kv) fun s => .bind (exec_hitInv a2 kv) fun l => .lift _))
    | .split, a0 :: a1 :: _, kv => by
      rw [rowBody]
      exact .bind (exec_hitInv a0 kv) fun v => .ite (.throw _)
        (.bind (exec_hitInv a1 kv) fun _ => .pure _)
    | .join, a0 :: rest, kv => by
      rw [rowBody]
      exact .ite (.throw _)
        (.bind (exec_hitInv a0 kv) fun _ => .bind (execArgs_hitInv rest kv) fun _ => .pure _)
    | .cosine, a0 :: a1 :: _, kv => by
      rw [rowBody]
      exact .bind (exec_hitInv a0 kv) fun l => .bind (exec_hitInv a1 kv) fun r =>
        .bind (.lift _) fun _ => .bind (.lift _) fun _ =>
          .bind (.lift _) fun _ => .pure _
    | .l2, a0 :: a1 :: _, kv => by
      rw [rowBody]
      exact .bind (exec_hitInv a0 kv) fun l => .bind (exec_hitInv a1 kv) fun r =>
        .bind (.lift _) fun _ => .bind (.lift _) fun _ =>
          .bind (.lift _) fun _ => .pure _
    | .floatList, [], kv => by rw [rowBody]; exact .pure _
    | .floatList, a0 :: rest, kv => by
      rw [rowBody]
      exact .bind (exec_hitInv a0 kv) fun _ => .bind (execArgs_hitInv rest kv) fun _ => .pure _
    | .intList, [], kv => by rw [rowBody]; exact .pure _
    | .intList, a0 :: rest, kv => by
      rw [rowBody]
      exact .bind (exec_hitInv a0 kv) fun _ => .bind (execArgs_hitInv rest kv) fun _ => .pure _
    | .toList, [], kv => by rw [rowBody]; exact .pure _
    | .toList, a0 :: rest, kv => by
      rw [rowBody]
      exact .bind (exec_hitInv a0 kv) fun _ => .bind (exec_hitInv a0 kv) fun _ =>
        .bind (execArgs_hitInv rest kv) fun _ => .ite (.pure _) (.pure _)
    -- fewer arguments than the body indexes: the Go panic, whatever the context
    | .lower, [], _ | .upper, [], _ | .toInt, [], _ | .toFloat, [], _
    | .toStr, [], _ | .isInt, [], _ | .isFloat, [], _ | .strlen, [], _
    | .len, [], _ | .json, [], _ | .join, [], _
    | .subStr, [], _ | .subStr, [_], _ | .subStr, [_, _], _
    | .split, [], _ | .split, [_], _
    | .cosine, [], _ | .cosine, [_], _
    | .l2, [], _ | .l2, [_], _ => by
      rw [rowBody]
      · exact .throw _
      all_goals (intros; simp_all)
end

theorem exec_hit (e : Expr) (kv : Pair) {c c' : Ctx} (h : SameButHit c c') :
    (exec e kv c).1 = (exec e kv c').1 ∧ SameButHit (exec e kv c).2 (exec e kv c').2 :=
  exec_hitInv e kv c c' h

/-! ### the batch evaluator -/

theorem rowWiseNoCtx_hitInv (f : Pair → M Value) (chunk : List Pair) : HitInv (rowWiseNoCtx f chunk) :=
  fun _ _ h => ⟨rfl, h⟩

theorem binop_hitInv {l r : Expr} {chunk : List Pair} {F : List Value → List Value → Except Err (List Value)}
    (hl : HitInv (execBatch l chunk)) (hr : HitInv (execBatch r chunk)) :
    HitInv (do
      let a ← execBatch l chunk
      let b ← execBatch r chunk
      M.lift (F a b)) :=
  .bind hl fun _ => .bind hr fun _ => .lift _

theorem unary_hitInv {a0 : Expr} {chunk : List Pair} {F : List Value → Except Err (List Value)}
    (h0 : HitInv (execBatch a0 chunk)) :
    HitInv (do
      let a ← execBatch a0 chunk
      M.lift (F a)) :=
  .bind h0 fun _ => .lift _

mutual
  theorem execBatch_hitInv : ∀ (e : Expr) (chunk : List Pair), HitInv (execBatch e chunk)
    | .str .., chunk => by rw [execBatch]; exact .pure _
    | .field .., chunk => by rw [execBatch]; exact .pure _
    | .name .., chunk => by rw [execBatch]; exact .pure _
    | .num .., chunk => by rw [execBatch]; exact .pure _
    | .float .., chunk => by rw [execBatch]; exact .pure _
    | .bool .., chunk => by rw [execBatch]; exact .pure _
    | .list .., chunk => by rw [execBatch]; exact .pure _
    | .cycle, chunk => by rw [execBatch]; exact .throw _
    | .not _ r, chunk => by
      rw [execBatch]
      exact unary_hitInv (execBatch_hitInv r chunk)
    | .ref _ name target, chunk => by
      rw [execBatch]
      have ht := execBatch_hitInv target chunk
      intro c c' h
      dsimp only
      rw [← h.1, ← h.getChunkFieldResult name]
      split
      · exact ⟨rfl, h⟩
      · split
        · exact ⟨rfl, h.updateHit⟩
        · obtain ⟨h1, h2⟩ := ht c c' h
          rcases hc : execBatch target chunk c with ⟨r, d⟩
          rcases hc' : execBatch target chunk c' with ⟨r', d'⟩
          rw [hc, hc'] at h1 h2
          dsimp only at h1 h2
          subst h1
          cases r with
          | error e => exact ⟨rfl, h2⟩
          | ok v =>
            dsimp only
            refine ⟨rfl, ?_⟩
            rw [← h2.1]
            split
            · exact h2.setChunkFieldResult name _ v
            · exact h2
    | .access _ l f, chunk => by
      rw [execBatch]
      refine .bind (execBatch_hitInv l chunk) (fun left => ?_)
      split
      · exact .lift _
      · exact .lift _
      · exact .throw _
    | .call _ nm args, chunk => by
      rw [execBatch]
      split
      · exact .throw _
      · split
        · exact .throw _
        · exact .ite (.throw _) (.ite (.throw _) (by
            split
            · exact .throw _
            · exact .ite (vecBody_hitInv _ args chunk) (rowWiseNoCtx_hitInv _ chunk)))
    | .binop _ op l r, chunk => by
      have hl := execBatch_hitInv l chunk
      have hr := execBatch_hitInv r chunk
      cases op <;> rw [execBatch] <;> (try dsimp only)
      -- and or not
      · exact binop_hitInv hl hr
      · exact binop_hitInv hl hr
      · exact .throw _
      -- eq neq prefixMatch regexMatch
      · exact binop_hitInv hl hr
      · exact binop_hitInv hl hr
      · exact binop_hitInv hl hr
      · exact binop_hitInv hl hr
      -- add
      · split
        · exact binop_hitInv hl hr
        · exact binop_hitInv hl hr
      -- sub mul div gt gte lt lte
      · exact binop_hitInv hl hr
      · exact binop_hitInv hl hr
      · exact binop_hitInv hl hr
      · exact binop_hitInv hl hr
      · exact binop_hitInv hl hr
      · exact binop_hitInv hl hr
      · exact binop_hitInv hl hr
      -- in
      · refine .bind hl fun rleft => ?_
        split
        · rename_i p items
          exact .bind (execInItemsBatch_hitInv _ items chunk) fun _ => .lift _
        · exact .bind hr fun _ => .lift _
        · exact .bind hr fun _ => .lift _
        · exact .throw _
      -- between
      · refine .bind hl fun rleft => ?_
        split
        · rename_i p lo hi
          exact .ite (.throw _) (.ite (.throw _) (.ite (.throw _) (.ite (.throw _)
            (.bind (execBatch_hitInv lo chunk) fun _ => .bind (execBatch_hitInv hi chunk) fun _ => .lift _))))
        · exact .throw _
      -- kwAnd kwOr
      · exact binop_hitInv hl hr
      · exact binop_hitInv hl hr

  theorem execInItemsBatch_hitInv : ∀ (number : Bool) (items : List Expr) (chunk : List Pair),
      HitInv (execInItemsBatch number items chunk)
    | _, [], chunk => by rw [execInItemsBatch]; exact .pure _
    | number, e :: es, chunk => by
      rw [execInItemsBatch]
      exact .ite (.throw _) (.bind (execBatch_hitInv e chunk) fun _ =>
        .bind (execInItemsBatch_hitInv number es chunk) fun _ => .pure _)

  theorem vecBody_hitInv : ∀ (b : Body) (args : List Expr) (chunk : List Pair), HitInv (vecBody b args chunk)
    | .join, args, chunk => by rw [vecBody]; exact rowWiseNoCtx_hitInv _ chunk
    | .toList, args, chunk => by rw [vecBody]; exact rowWiseNoCtx_hitInv _ chunk
    | .intList, args, chunk => by rw [vecBody]; exact rowWiseNoCtx_hitInv _ chunk
    | .floatList, args, chunk => by rw [vecBody]; exact rowWiseNoCtx_hitInv _ chunk
    | .lower, a0 :: _, chunk => by rw [vecBody]; exact unary_hitInv (execBatch_hitInv a0 chunk)
    | .upper, a0 :: _, chunk => by rw [vecBody]; exact unary_hitInv (execBatch_hitInv a0 chunk)
    | .toInt, a0 :: _, chunk => by rw [vecBody]; exact unary_hitInv (execBatch_hitInv a0 chunk)
    | .toFloat, a0 :: _, chunk => by rw [vecBody]; exact unary_hitInv (execBatch_hitInv a0 chunk)
    | .toStr, a0 :: _, chunk => by rw [vecBody]; exact unary_hitInv (execBatch_hitInv a0 chunk)
    | .isInt, a0 :: _, chunk => by rw [vecBody]; exact unary_hitInv (execBatch_hitInv a0 chunk)
    | .isFloat, a0 :: _, chunk => by rw [vecBody]; exact unary_hitInv (execBatch_hitInv a0 chunk)
    | .strlen, a0 :: _, chunk => by rw [vecBody]; exact unary_hitInv (execBatch_hitInv a0 chunk)
    | .len, a0 :: _, chunk => by rw [vecBody]; exact unary_hitInv (execBatch_hitInv a0 chunk)
    | .json, a0 :: _, chunk => by rw [vecBody]; exact unary_hitInv (execBatch_hitInv a0 chunk)
    | .subStr, a0 :: a1 :: a2 :: _, chunk => by
      rw [vecBody]
      exact .ite (.throw _) (.ite (.throw _) (.bind (execBatch_hitInv a0 chunk) fun _ =>
        .bind (execBatch_hitInv a1 chunk) fun _ => .bind (execBatch_hitInv a2 chunk) fun _ => .lift _))
    | .split, a0 :: a1 :: _, chunk => by
      rw [vecBody]
      exact .ite (.throw _) (binop_hitInv (execBatch_hitInv a0 chunk) (execBatch_hitInv a1 chunk))
    | .cosine, a0 :: a1 :: _, chunk => by
      rw [vecBody]; exact binop_hitInv (execBatch_hitInv a0 chunk) (execBatch_hitInv a1 chunk)
    | .l2, a0 :: a1 :: _, chunk => by
      rw [vecBody]; exact binop_hitInv (execBatch_hitInv a0 chunk) (execBatch_hitInv a1 chunk)
    -- fewer arguments than the body indexes: the Go panic, whatever the context
    | .lower, [], _ | .upper, [], _ | .toInt, [], _ | .toFloat, [], _
    | .toStr, [], _ | .isInt, [], _ | .isFloat, [], _ | .strlen, [], _
    | .len, [], _ | .json, [], _
    | .subStr, [], _ | .subStr, [_], _ | .subStr, [_, _], _
    | .split, [], _ | .split, [_], _
    | .cosine, [], _ | .cosine, [_], _
    | .l2, [], _ | .l2, [_], _ => by
      rw [vecBody]
      · exact .throw _
      all_goals (intros; simp_all)
end

theorem execBatch_hit (e : Expr) (chunk : List Pair) {c c' : Ctx} (h : SameButHit c c') :
    (execBatch e chunk c).1 = (execBatch e chunk c').1 ∧ SameButHit (execBatch e chunk c).2 (execBatch e chunk c').2 :=
  execBatch_hitInv e chunk c c' h

end Kvql.Proofs.RunNoPanic
