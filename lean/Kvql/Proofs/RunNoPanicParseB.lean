/-
  RunNoPanic, part 3b (helper file of RunNoPanicParse): the statement-level functions of the SELECT
  path under `NC`, with the table invariant `TGood` carried through.
-/
import Kvql.Proofs.RunNoPanicParseA

namespace Kvql.Proofs.RunNoPanic

open Kvql Kvql.Parser Kvql.Proofs.Typing Kvql.Generated

variable {pf : Bytes → F64}

/-! ### small facts -/

theorem NC.eq {α : Type} {r : Res α} {Q : α → Prop} (h : NC r Q) : NC r (fun a => r = .ok a ∧ Q a) := by
  cases r <;> simp_all

theorem numToksOK_nil : NumToksOK [] := by intro t ht; simp at ht

theorem numToksOK_tail {t : Token} {ts : Toks} (h : NumToksOK (t :: ts)) : NumToksOK ts :=
  numToksOK_of_subset h (fun _ hx => List.mem_cons_of_mem _ hx)

theorem expect_nc (tp : Nat) {ts : Toks} (hts : NumToksOK ts) : NC (expect tp ts) NumToksOK := by
  unfold expect; split
  · simp [eofErr]
  · split
    · simp [synErr]
    · exact numToksOK_tail hts

theorem find_go_mem (nm : Bytes) : ∀ (tbl : Tbl) (k i : Nat) (e : Expr),
    Tbl.find.go nm tbl k = some (i, e) → nm ∈ tbl.map (·.1)
  | [], k, i, e, h => by simp [Tbl.find.go] at h
  | (n, x) :: rest, k, i, e, h => by
    unfold Tbl.find.go at h
    split at h
    · rename_i hb
      have := eq_of_beq hb
      subst this; simp
    · simp [find_go_mem nm rest _ _ _ h]

theorem find_mem_names {tbl : Tbl} {d : Bytes} {i : Nat} {e : Expr} (h : tbl.find d = some (i, e)) :
    d ∈ tbl.map (·.1) := find_go_mem d tbl 0 i e h

theorem site_limit : "parseLimit: p.tok is nil" ≠ cyclicPanic := by decide
theorem site_select : "parseSelect: p.tok is nil" ≠ cyclicPanic := by decide
theorem site_order : "parseOrderBy: p.tok is nil" ≠ cyclicPanic := by decide
theorem site_group : "parseGroupBy: p.tok is nil" ≠ cyclicPanic := by decide
theorem site_groupIdx : "parseGroupBy: field index out of range" ≠ cyclicPanic := by decide
theorem site_put : "parsePut: p.tok is nil" ≠ cyclicPanic := by decide
theorem site_remove : "parseRemove: p.tok is nil" ≠ cyclicPanic := by decide
theorem site_delete : "parseDelete: p.tok is nil" ≠ cyclicPanic := by decide

/-! ### `findFieldInSelect`, LIMIT -/

theorem findField_nc {tbl : Tbl} (hg : TGood tbl) (nm : Bytes) (pos : Nat) :
    NC (findFieldInSelect tbl nm pos) (fun _ => nm ∈ tbl.map (·.1)) := by
  unfold findFieldInSelect
  split
  · simp [synErr]
  · rename_i i fexpr hf
    apply Res.Holds.bind (rt_nc { tbl := tbl } hg (hg.find hf))
    intro t _
    split
    · simp only [Res.holds_pure]; exact find_mem_names hf
    · simp [synErr]

theorem limitLoop_np : ∀ (fuel : Nat) (acc : List Int64) (ts : Toks), NPc (limitLoop fuel acc ts) := by
  intro fuel
  induction fuel with
  | zero => intros; simp [limitLoop]
  | succ n ih =>
    intro acc ts
    unfold limitLoop
    split
    · simp
    · split
      · exact ih _ _
      · split
        · split
          · simp [synErr]
          · split
            · simp [synErr]
            · exact ih _ _
        · simp

theorem parseLimit_np (lfuel : Nat) (ts : Toks) : NPc (parseLimit lfuel ts) := by
  unfold parseLimit
  split
  · simpa using site_limit
  · apply NPc.bind (expect_np _ _)
    intro ts1
    apply NPc.bind (limitLoop_np _ _ _)
    rintro ⟨vals, ts2⟩
    dsimp only
    split
    · simp
    · simp
    · split <;> simp [eofErr, synErr]

/-! ### the select list -/

/-- what the loop of `parseSelect` has gathered: parsed trees, three lists of one length -/
structure SelOK (a : SelAcc) : Prop where
  afn : ∀ f ∈ a.fields, AFN f
  len1 : a.names.length = a.fields.length
  len2 : a.types.length = a.fields.length

theorem selectLoop_nc (ef : Nat) : ∀ (fuel : Nat) (acc : SelAcc) (ts : Toks), NumToksOK ts → SelOK acc →
    NC (selectLoop pf ef fuel acc ts) (fun p => SelOK p.1 ∧ NumToksOK p.2) := by
  intro fuel
  induction fuel with
  | zero => intros; simp [selectLoop]
  | succ n ih =>
    intro acc ts hts hacc
    unfold selectLoop
    split
    · exact ⟨hacc, numToksOK_nil⟩
    · rename_i t rest
      have hrest : NumToksOK rest := numToksOK_tail hts
      split
      · exact ⟨hacc, hts⟩
      · split
        · split
          · split
            · simp [synErr]
            · split
              · simp [synErr]
              · exact ⟨⟨hacc.afn, hacc.len1, hacc.len2⟩, hrest⟩
          · split
            · simp [eofErr]
            · exact ⟨⟨hacc.afn, hacc.len1, hacc.len2⟩, numToksOK_nil⟩
        · apply Res.Holds.bind (parseExpr_nc pf hts)
          rintro ⟨field, ts1⟩ ⟨hf, h1⟩
          dsimp only at hf h1 ⊢
          apply Res.Holds.bind (R := fun p => NumToksOK p.2)
          · split
            · exact numToksOK_nil
            · split
              · split
                · simp [eofErr]
                · split
                  · simp [synErr]
                  · exact numToksOK_tail (numToksOK_tail h1)
              · split
                · exact h1
                · split
                  · exact h1
                  · simp [synErr]
          · rintro ⟨fname, ts2⟩ h2
            dsimp only at h2 ⊢
            have hacc' : SelOK { acc with fields := acc.fields ++ [field], names := acc.names ++ [fname],
                                          types := acc.types ++ [field.retType] } := by
              refine ⟨?_, ?_, ?_⟩
              · intro f hf'
                rcases List.mem_append.mp hf' with hf' | hf'
                · exact hacc.afn f hf'
                · simp at hf'; subst hf'; exact hf
              · simp [hacc.len1]
              · simp [hacc.len2]
            split
            · exact ⟨hacc', numToksOK_nil⟩
            · split
              · exact ⟨hacc', h2⟩
              · exact ih _ _ (numToksOK_tail h2) hacc'

/-- the select list `parseSelect` (or the bare `where`) hands over -/
structure SelOK' (sel : SelAcc) : Prop where
  afn : ∀ f ∈ sel.fields, AFN f
  len1 : sel.names.length = sel.fields.length
  len2 : sel.all = false → sel.types.length = sel.names.length
  len3 : sel.all = true → sel.names.length ≤ 2

theorem parseSelect_nc (ef lf : Nat) {ts : Toks} (hts : NumToksOK ts) :
    NC (parseSelect pf ef lf ts) (fun p => SelOK' p.1.2 ∧ NumToksOK p.2) := by
  unfold parseSelect
  split
  · simpa using site_select
  · apply Res.Holds.bind (expect_nc _ hts)
    intro ts1 h1
    apply Res.Holds.bind (selectLoop_nc (pf := pf) ef lf {} ts1 h1 ⟨by simp, rfl, rfl⟩)
    rintro ⟨acc, ts2⟩ ⟨hacc, h2⟩
    dsimp only at hacc h2 ⊢
    split
    · simp [synErr]
    · split
      · rename_i hall
        refine ⟨⟨?_, rfl, ?_, ?_⟩, h2⟩
        · intro f hf
          simp at hf
          rcases hf with rfl | rfl <;> exact AFN.field _ _
        · intro h; dsimp only at h; rw [h] at hall; cases hall
        · intro _; simp
      · rename_i hall
        refine ⟨⟨hacc.afn, hacc.len1, ?_, ?_⟩, h2⟩
        · intro _; rw [hacc.len2, hacc.len1]
        · intro h; exact absurd h hall

/-! ### ORDER BY -/

theorem orderLoop_nc (ef : Nat) {tbl : Tbl} (hg : TGood tbl) : ∀ (fuel : Nat) (acc : List (Bytes × Nat)) (ts : Toks),
    NumToksOK ts → (∀ p ∈ acc, p.1 ∈ tbl.map (·.1)) →
    NC (orderLoop pf ef tbl fuel acc ts) (fun r => (∀ p ∈ r.1, p.1 ∈ tbl.map (·.1)) ∧ NumToksOK r.2) := by
  intro fuel
  induction fuel with
  | zero => intros; simp [orderLoop]
  | succ n ih =>
    intro acc ts hts hacc
    unfold orderLoop
    split
    · exact ⟨hacc, numToksOK_nil⟩
    · apply Res.Holds.bind (parseExpr_nc pf hts)
      rintro ⟨field, ts1⟩ ⟨_, h1⟩
      dsimp only at h1 ⊢
      apply Res.Holds.bind (findField_nc hg _ _)
      intro _ hmem
      have hacc' : ∀ (o : Nat), ∀ p ∈ acc ++ [((match field with | .name _ d => d | f => f.toString), o)],
          p.1 ∈ tbl.map (·.1) := by
        intro o p hp
        rcases List.mem_append.mp hp with hp | hp
        · exact hacc p hp
        · simp at hp; subst hp; exact hmem
      split
      · exact ⟨hacc' _, numToksOK_nil⟩
      · split
        · exact ih _ _ (numToksOK_tail h1) (hacc' _)
        · split
          · split
            · split
              · exact ih _ _ (numToksOK_tail (numToksOK_tail h1)) (hacc' _)
              · exact ⟨hacc' _, numToksOK_tail h1⟩
            · exact ⟨hacc' _, numToksOK_nil⟩
          · exact ⟨hacc' _, h1⟩

theorem parseOrderBy_nc (ef lf : Nat) {tbl : Tbl} (hg : TGood tbl) {ts : Toks} (hts : NumToksOK ts) :
    NC (parseOrderBy pf ef lf tbl ts)
      (fun r => (∀ p ∈ r.1.orders, p.1 ∈ tbl.map (·.1)) ∧ NumToksOK r.2) := by
  unfold parseOrderBy
  split
  · simpa using site_order
  · apply Res.Holds.bind (expect_nc _ hts)
    intro ts1 h1
    apply Res.Holds.bind (expect_nc _ h1)
    intro ts2 h2
    apply Res.Holds.bind (orderLoop_nc (pf := pf) ef hg lf [] ts2 h2 (by simp))
    rintro ⟨os, ts3⟩ h3
    exact h3

/-! ### GROUP BY -/

/-- a GROUP BY entry: a field of the select list under one of its names, or a bare `key` / `value` -/
def GEnt (names : List Bytes) (g : Bytes × GTarget) : Prop :=
  match g.2 with
  | .sel _ => g.1 ∈ names
  | .own e => ∃ q k, e = .field q k

theorem groupLoop_nc (ef : Nat) {tbl : Tbl} (hg : TGood tbl) :
    ∀ (fuel : Nat) (acc : List (Bytes × GTarget)) (ts : Toks),
    NumToksOK ts → (∀ g ∈ acc, GEnt (tbl.map (·.1)) g) →
    NC (groupLoop pf ef tbl fuel acc ts)
      (fun r => (∀ g ∈ r.1, GEnt (tbl.map (·.1)) g) ∧ NumToksOK r.2) := by
  intro fuel
  induction fuel with
  | zero => intros; simp [groupLoop]
  | succ n ih =>
    intro acc ts hts hacc
    unfold groupLoop
    split
    · exact ⟨hacc, numToksOK_nil⟩
    · apply Res.Holds.bind (parseExpr_nc pf hts)
      rintro ⟨field, ts1⟩ ⟨_, h1⟩
      dsimp only at h1 ⊢
      apply Res.Holds.bind (R := GEnt (tbl.map (·.1)))
      · split
        · apply Res.Holds.bind (findField_nc hg _ _)
          rintro ⟨i, e⟩ hi
          simpa [GEnt] using hi
        · simp [GEnt]
        · apply Res.Holds.bind (findField_nc hg _ _)
          rintro ⟨i, e⟩ hi
          dsimp only
          split
          · simp [synErr]
          · split
            · simp [synErr]
            · simpa [GEnt] using hi
        · apply Res.Holds.bind (findField_nc hg _ _)
          rintro ⟨i, e⟩ hi
          simpa [GEnt] using hi
      · intro entry hentry
        have hacc' : ∀ g ∈ acc ++ [entry], GEnt (tbl.map (·.1)) g := by
          intro g hg'
          rcases List.mem_append.mp hg' with hg' | hg'
          · exact hacc g hg'
          · simp at hg'; subst hg'; exact hentry
        split
        · exact ⟨hacc', numToksOK_nil⟩
        · split
          · exact ih _ _ (numToksOK_tail h1) hacc'
          · exact ⟨hacc', h1⟩

theorem check_field {ctx : CheckCtx} {q : Nat} {k : KW} {e' : Expr} (h : ctx.check (.field q k) = .ok e') :
    e' = .field q k := by
  unfold CheckCtx.check at h
  split at h
  · cases h
  · split at h
    · cases h
    · cases h; rfl

theorem groupCheck_nc : ∀ (gs : List (Bytes × GTarget)) (tbl : Tbl), TGood tbl →
    (∀ g ∈ gs, GEnt (tbl.map (·.1)) g) →
    NC (groupCheck tbl gs)
      (fun r => TGood r.1 ∧ r.1.map (·.1) = tbl.map (·.1) ∧ ∀ g ∈ r.2, GEnt (tbl.map (·.1)) g) := by
  intro gs
  induction gs with
  | nil => intro tbl hg _; simp [groupCheck, hg]
  | cons g rest ih =>
    intro tbl hg hgs
    obtain ⟨n, tgt⟩ := g
    have hhead := hgs (n, tgt) (by simp)
    have hrest : ∀ g ∈ rest, GEnt (tbl.map (·.1)) g := fun g hg' => hgs g (by simp [hg'])
    cases tgt with
    | sel i =>
      unfold groupCheck
      split
      · simpa using site_groupIdx
      · rename_i nm0 e hget
        apply Res.Holds.bind (check_nc { tbl := tbl, cur := some i } hg (hg.entry hget)).eq
        rintro e' ⟨hck, _⟩
        have hg' : TGood (tbl.setField i e') := tgood_setField_check hg hget hck
        apply Res.Holds.bind (ih (tbl.setField i e') hg' (by rw [setField_names]; exact hrest))
        rintro ⟨tbl', rest'⟩ ⟨h1, h2, h3⟩
        simp only [Res.holds_pure]
        rw [setField_names] at h2 h3
        refine ⟨h1, h2, ?_⟩
        intro g hg''
        rcases List.mem_cons.mp hg'' with rfl | hg''
        · exact hhead
        · exact h3 g hg''
    | own e =>
      obtain ⟨q, k, rfl⟩ := hhead
      unfold groupCheck
      apply Res.Holds.bind (check_nc { tbl := tbl } hg ((AFN.field q k).egood tbl)).eq
      rintro e' ⟨hck, _⟩
      have := check_field hck
      subst this
      apply Res.Holds.bind (ih tbl hg hrest)
      rintro ⟨tbl', rest'⟩ ⟨h1, h2, h3⟩
      simp only [Res.holds_pure]
      refine ⟨h1, h2, ?_⟩
      intro g hg''
      rcases List.mem_cons.mp hg'' with rfl | hg''
      · exact ⟨q, k, rfl⟩
      · exact h3 g hg''

theorem parseGroupBy_nc (ef lf : Nat) {tbl : Tbl} (hg : TGood tbl) {ts : Toks} (hts : NumToksOK ts) :
    NC (parseGroupBy pf ef lf tbl ts)
      (fun r => TGood r.1.2.2 ∧ r.1.2.2.map (·.1) = tbl.map (·.1) ∧
        (∀ g ∈ r.1.2.1, GEnt (tbl.map (·.1)) g) ∧ NumToksOK r.2) := by
  unfold parseGroupBy
  split
  · simpa using site_group
  · apply Res.Holds.bind (expect_nc _ hts)
    intro ts1 h1
    apply Res.Holds.bind (expect_nc _ h1)
    intro ts2 h2
    apply Res.Holds.bind (groupLoop_nc (pf := pf) ef hg lf [] ts2 h2 (by simp))
    rintro ⟨gs, ts3⟩ ⟨h3, h4⟩
    dsimp only at h3 h4 ⊢
    apply Res.Holds.bind (groupCheck_nc gs tbl hg h3)
    rintro ⟨tbl', gs'⟩ ⟨h5, h6, h7⟩
    exact ⟨h5, h6, h7, h4⟩

/-! ### the clauses after the filter -/

/-- the invariant of `clauseLoop` for a select list with the names `names` -/
structure COK (names : List Bytes) (c : Clauses) : Prop where
  good : TGood c.tbl
  nms : c.tbl.map (·.1) = names
  order : ∀ o, c.order = some o → ∀ p ∈ o.orders, p.1 ∈ names
  group : ∀ g, c.group = some g → ∀ p ∈ g.2, GEnt names p

theorem clauseLoop_nc (ef lf : Nat) {names : List Bytes} : ∀ (fuel : Nat) (c : Clauses) (ts : Toks),
    NumToksOK ts → COK names c → NC (clauseLoop pf ef lf fuel c ts) (COK names) := by
  intro fuel
  induction fuel with
  | zero => intros; simp [clauseLoop]
  | succ n ih =>
    intro c ts hts hc
    unfold clauseLoop
    split
    · exact hc
    · rename_i t rest
      split
      · split
        · simp [synErr]
        · apply Res.Holds.bind (parseOrderBy_nc (pf := pf) ef lf hc.good hts)
          rintro ⟨o, ts'⟩ ⟨h1, h2⟩
          dsimp only at h1 h2 ⊢
          split
          · simp [synErr]
          · refine ih _ ts' h2 ⟨hc.good, hc.nms, ?_, hc.group⟩
            intro o' ho'
            cases ho'
            rw [← hc.nms]; exact h1
      · split
        · split
          · simp [synErr]
          · apply Res.Holds.bind (parseGroupBy_nc (pf := pf) ef lf hc.good hts)
            rintro ⟨⟨gpos, gfields, tbl'⟩, ts'⟩ ⟨h1, h2, h3, h4⟩
            dsimp only at h1 h2 h3 h4 ⊢
            split
            · simp [synErr]
            · refine ih _ ts' h4 ⟨h1, by rw [h2, hc.nms], hc.order, ?_⟩
              intro g hg
              cases hg
              rw [← hc.nms]; exact h3
        · split
          · split
            · simp [synErr]
            · apply Res.Holds.bind (parseLimit_np lf _)
              rintro ⟨l, ts'⟩ _
              dsimp only
              split
              · simp [synErr]
              · exact ih _ [] numToksOK_nil ⟨hc.good, hc.nms, hc.order, hc.group⟩
          · simp [synErr]

/-! ### the passes over the select fields -/

theorem checkAggrFuncArg_np : ∀ e : Expr, NPc (checkAggrFuncArg e) := by
  intro e
  induction e using Expr.rec (motive_2 := fun _ => True) with
  | binop p o l r ihl ihr =>
    unfold checkAggrFuncArg
    exact NPc.bind ihl (fun _ => ihr)
  | call p n args _ _ =>
    unfold checkAggrFuncArg
    split
    · split <;> simp [synErr]
    · simp
  | nil => trivial
  | cons _ _ _ _ => trivial
  | _ => unfold checkAggrFuncArg; simp

theorem checkAggrFuncArgs_np : ∀ es : List Expr, NPc (checkAggrFuncArgs es) := by
  intro es
  induction es with
  | nil => simp [checkAggrFuncArgs]
  | cons a rest ih =>
    unfold checkAggrFuncArgs
    exact NPc.bind (checkAggrFuncArg_np a) (fun _ => ih)

theorem checkAggrFunctionArgs_np : ∀ e : Expr, NPc (checkAggrFunctionArgs e) := by
  intro e
  induction e using Expr.rec (motive_2 := fun _ => True) with
  | binop p o l r ihl ihr =>
    unfold checkAggrFunctionArgs
    exact NPc.bind ihl (fun _ => ihr)
  | call p n args _ _ =>
    unfold checkAggrFunctionArgs
    split
    · split
      · exact checkAggrFuncArgs_np _
      · simp
    · simp
  | nil => trivial
  | cons _ _ _ _ => trivial
  | _ => unfold checkAggrFunctionArgs; simp

theorem validateFields_nc : ∀ (n i : Nat) (tbl : Tbl), TGood tbl →
    NC (validateFields n i tbl) (fun t' => TGood t' ∧ t'.map (·.1) = tbl.map (·.1)) := by
  intro n
  induction n with
  | zero => intro i tbl hg; simp [validateFields, hg]
  | succ m ih =>
    intro i tbl hg
    unfold validateFields
    split
    · simp [hg]
    · rename_i nm0 f hget
      apply Res.Holds.bind (check_nc { tbl := tbl, cur := some i } hg (hg.entry hget)).eq
      rintro f' ⟨hck, _⟩
      apply Res.Holds.bind (checkAggrFunctionArgs_np f')
      intro _ _
      apply (ih (i + 1) _ (tgood_setField_check hg hget hck)).mono
      rintro t' ⟨h1, h2⟩
      exact ⟨h1, by rw [h2, setField_names]⟩

theorem rewriteFieldNames_nc : ∀ (n i : Nat) (tbl : Tbl) (tys : List Nat), TGood tbl →
    NC (rewriteFieldNames n i tbl tys)
      (fun r => TGood r.1 ∧ r.1.map (·.1) = tbl.map (·.1) ∧ r.2.length = tys.length) := by
  intro n
  induction n with
  | zero => intro i tbl tys hg; simp [rewriteFieldNames, hg]
  | succ m ih =>
    intro i tbl tys hg
    unfold rewriteFieldNames
    split
    · simp [hg]
    · rename_i nm0 f hget
      split
      · split
        · rename_i j tgt hfind
          split
          · exact ih _ _ _ hg
          · apply Res.Holds.bind (rewrite_nc { tbl := tbl, cur := some i } hg (hg.entry hget)).eq
            rintro f' ⟨hrw, _⟩
            apply Res.Holds.bind (rt_nc { tbl := tbl } hg (hg.find hfind))
            intro t _
            apply (ih (i + 1) _ (tys.set i t) (tgood_setField_rewrite hg hget hrw)).mono
            rintro r ⟨h1, h2, h3⟩
            exact ⟨h1, by rw [h2, setField_names], by rw [h3, List.length_set]⟩
        · exact ih _ _ _ hg
      · exact ih _ _ _ hg

theorem refreshTypes_nc {tbl : Tbl} (hg : TGood tbl) : ∀ (tys : List Nat) (i : Nat),
    NC (refreshTypes tbl i tys) (fun r => r.length = tys.length) := by
  intro tys
  induction tys with
  | nil => intro i; simp [refreshTypes]
  | cons t ts ih =>
    intro i
    unfold refreshTypes
    apply Res.Holds.bind (R := fun _ => True)
    · split
      · rename_i nm e hget
        exact rt_nc { tbl := tbl } hg (hg.entry hget)
      · simp
    · intro _ _
      apply Res.Holds.bind (ih _)
      intro r hr
      simp [hr]

end Kvql.Proofs.RunNoPanic
