/-
  The nesting-depth guard of parser.go (`incNestLev`, `MaxNestLevel = 1e5`) cannot fire while
  `nestLev + fuel ≤ MaxNestLevel`: every function of the expression parser that raises
  `nestLev` by one does so in a call that costs one unit of fuel.  Hence `parseExpr`, started at
  level 0 with `exprFuel toks = 8·|toks| + 8`, never answers "exceed max nesting depth" for
  inputs of at most (MaxNestLevel − 8) / 8 = 12 499 tokens.
-/
import Kvql.Proofs.ParserBasic

namespace Kvql.Proofs.ParserNest

open Kvql Kvql.Parser Kvql.Generated

/-- not the nesting-depth error -/
abbrev NN {α : Type} (r : Res α) : Prop :=
  r.Holds (fun _ => True) (fun e => e ≠ .nest) (fun _ => True) True

theorem NN.bind {α β : Type} {r : Res α} {f : α → Res β} (h : NN r) (hf : ∀ a, NN (f a)) : NN (r >>= f) :=
  Res.Holds.bind h (fun a _ => hf a)

theorem expect_nn (tp : Nat) (ts : Toks) : NN (expect tp ts) := by
  unfold expect; split
  · simp [eofErr]
  · split <;> simp [synErr]

theorem buildOp_nn (p : Nat) (s : String) : NN (buildOp p s) := by
  unfold buildOp; split <;> simp [synErr]

variable (pf : Bytes → F64)

structure IH (fuel : Nat) : Prop where
  binary : ∀ lev prec ts, lev + fuel ≤ maxNest → NN (parseBinaryExpr pf fuel lev prec ts)
  bloop : ∀ lev prec x ts, lev + fuel ≤ maxNest + 1 → NN (binaryLoop pf fuel lev prec x ts)
  unary : ∀ lev ts, lev + fuel ≤ maxNest → NN (parseUnaryExpr pf fuel lev ts)
  primary : ∀ lev ts, lev + fuel ≤ maxNest → NN (parsePrimaryExpr pf fuel lev ts)
  ploop : ∀ lev x ts, lev + fuel ≤ maxNest + 1 → NN (primaryLoop pf fuel lev x ts)
  operand : ∀ lev ts, lev + fuel ≤ maxNest → NN (parseOperand pf fuel lev ts)
  items : ∀ lev close strict acc ts, lev + fuel ≤ maxNest → NN (parseItems pf fuel lev close strict acc ts)
  call : ∀ lev fn ts, lev + fuel ≤ maxNest → NN (parseFuncCall pf fuel lev fn ts)
  access : ∀ lev pos l ts, lev + fuel ≤ maxNest → NN (parseFieldAccess pf fuel lev pos l ts)
  list : ∀ lev pos ts, lev + fuel ≤ maxNest → NN (parseList pf fuel lev pos ts)
  between : ∀ lev pos oprec ts, lev + fuel ≤ maxNest → NN (parseBetween pf fuel lev pos oprec ts)

theorem ih_zero : IH pf 0 := by
  constructor <;> intros <;>
    simp [parseBinaryExpr, binaryLoop, parseUnaryExpr, parsePrimaryExpr, primaryLoop, parseOperand,
      parseItems, parseFuncCall, parseFieldAccess, parseList, parseBetween]

theorem ih_succ {fuel : Nat} (ih : IH pf fuel) : IH pf (fuel + 1) := by
  constructor
  · intro lev prec ts h
    unfold parseBinaryExpr
    exact NN.bind (ih.unary _ _ (by omega)) (fun _ => ih.bloop _ _ _ _ (by omega))
  · intro lev prec x ts h
    unfold binaryLoop
    split
    · omega
    · split
      · simp
      · dsimp only
        split
        · simp
        · apply NN.bind
          · split
            · split
              · simp [eofErr]
              · split
                · exact ih.list _ _ _ (by omega)
                · exact ih.binary _ _ _ (by omega)
            · split
              · exact ih.between _ _ _ _ (by omega)
              · exact ih.binary _ _ _ (by omega)
          · intro _
            exact NN.bind (buildOp_nn _ _) (fun _ => ih.bloop _ _ _ _ (by omega))
  · intro lev ts h
    unfold parseUnaryExpr
    split
    · simp [eofErr]
    · split
      · exact NN.bind (ih.unary _ _ (by omega)) (fun _ => by simp)
      · exact ih.primary _ _ (by omega)
  · intro lev ts h
    unfold parsePrimaryExpr
    exact NN.bind (ih.operand _ _ (by omega)) (fun _ => ih.ploop _ _ _ (by omega))
  · intro lev x ts h
    unfold primaryLoop
    split
    · simp
    · split
      · split
        · simp
        · exact NN.bind (ih.call _ _ _ (by omega)) (fun _ => ih.ploop _ _ _ (by omega))
      · split
        · exact NN.bind (ih.access _ _ _ _ (by omega)) (fun _ => ih.ploop _ _ _ (by omega))
        · simp
  · intro lev ts h
    unfold parseOperand
    split
    · simp
    · repeat' split
      all_goals try (simp [synErr]; done)
      exact NN.bind (ih.binary _ _ _ (by omega)) (fun _ => NN.bind (expect_nn _ _) (fun _ => by simp))
  · intro lev close strict acc ts h
    unfold parseItems
    split
    · simp
    · split
      · simp
      · apply NN.bind (ih.binary _ _ _ (by omega))
        intro _
        dsimp only
        split
        · simp
        · split
          · simp
          · split
            · simp [synErr]
            · exact ih.items _ _ _ _ _ (by omega)
  · intro lev fn ts h
    unfold parseFuncCall
    exact NN.bind (expect_nn _ _) (fun _ => NN.bind (ih.items _ _ _ _ _ (by omega))
      (fun _ => NN.bind (expect_nn _ _) (fun _ => by simp)))
  · intro lev pos l ts h
    unfold parseFieldAccess
    exact NN.bind (expect_nn _ _) (fun _ => NN.bind (ih.items _ _ _ _ _ (by omega))
      (fun _ => NN.bind (expect_nn _ _) (fun _ => by split <;> simp [synErr])))
  · intro lev pos ts h
    unfold parseList
    exact NN.bind (expect_nn _ _) (fun _ => NN.bind (ih.items _ _ _ _ _ (by omega))
      (fun _ => NN.bind (expect_nn _ _) (fun _ => by simp)))
  · intro lev pos oprec ts h
    unfold parseBetween
    exact NN.bind (ih.binary _ _ _ (by omega)) (fun _ => NN.bind (expect_nn _ _)
      (fun _ => NN.bind (ih.binary _ _ _ (by omega)) (fun _ => by simp)))

theorem all (fuel : Nat) : IH pf fuel := by
  induction fuel with
  | zero => exact ih_zero pf
  | succ n ih => exact ih_succ pf ih

/-- `parseExpr` on at most 12 499 tokens never reports "exceed max nesting depth" -/
theorem parseExpr_no_nest (toks : Toks) (h : 8 * toks.length + 8 ≤ maxNestLevel) :
    parseExpr pf (exprFuel toks) toks ≠ .err .nest := by
  have := (all pf (exprFuel toks)).binary 0 1 toks (by simp only [exprFuel, maxNest]; omega)
  intro hn
  rw [parseExpr] at hn
  rw [hn] at this
  simp [Res.Holds] at this

end Kvql.Proofs.ParserNest
