/-
  C05 (d), batch mode: every row a batch drain returns belongs to a pair of the scan that the filter
  accepts, has one column per announced field, in order, and column j is the batch value of field j on
  that pair (the pair taken as a chunk of its own, cache off).
-/
import Kvql.Proofs.CacheBatchMode
import Kvql.Proofs.C03Exec

namespace Kvql.Cache
open Kvql Kvql.Project

/-- `BShape kv fields row`: one column per field, column j = the batch value of field j on `[kv]` -/
def BShape (kv : Pair) (fields : List Field) (row : Row) : Prop :=
  Rows (fun (v : Value) (f : Field) => PairVal f.expr v kv) row fields

theorem mapM_some_get {α β : Type} {f : α → Option β} : ∀ {l : List α} {r : List β}, l.mapM f = some r →
    r.length = l.length ∧ ∀ (i : Nat) (h : i < l.length), ∃ y, r[i]? = some y ∧ f l[i] = some y
  | [], r, h => by simp at h; subst h; exact ⟨rfl, fun i hi => by simp at hi⟩
  | a :: l, r, h => by
    simp only [List.mapM_cons, Option.bind_eq_bind, Option.bind_eq_some_iff] at h
    obtain ⟨b, hb, r', hr', he⟩ := h
    simp at he; subst he
    obtain ⟨h1, h2⟩ := mapM_some_get hr'
    refine ⟨by simp [h1], fun i hi => ?_⟩
    cases i with
    | zero => exact ⟨b, rfl, hb⟩
    | succ i =>
      obtain ⟨y, hy1, hy2⟩ := h2 i (by simpa using hi)
      exact ⟨y, by simpa using hy1, by simpa using hy2⟩

theorem Rows.mem_left {α β : Type} {P : α → β → Prop} : ∀ {as : List α} {bs : List β}, Rows P as bs →
    ∀ a ∈ as, ∃ b ∈ bs, P a b
  | _, _, .nil, a, h => by simp at h
  | _, _, .cons hp hr, a, h => by
    rcases List.mem_cons.mp h with rfl | h
    · exact ⟨_, by simp, hp⟩
    · obtain ⟨b, hb, hp'⟩ := Rows.mem_left hr a h
      exact ⟨b, by simp [hb], hp'⟩

theorem colsSpec_rows : ∀ {fields : List Field} {ch : List Pair} {cols : List (List Value)},
    colsSpec fields ch = .ok cols → Rows (fun col (f : Field) => nocacheB f.expr ch = .ok col) cols fields
  | [], _, cols, h => by simp [colsSpec] at h; subst h; exact .nil
  | f :: fs, ch, cols, h => by
    rw [colsSpec] at h
    cases hv : nocacheB f.expr ch with
    | error e => simp [hv] at h
    | ok col =>
      simp only [hv] at h
      cases hr : colsSpec fs ch with
      | error e => simp [hr] at h
      | ok cs => simp [hr] at h; subst h; exact .cons hv (colsSpec_rows hr)

/-- the transposition `row[j] = cols[j][i]` -/
theorem rowsOfCols_shape {fields : List Field} {ret : List Pair} (hne : ret ≠ []) {cols : List (List Value)}
    (hcols : Rows (fun col (f : Field) => nocacheB f.expr ret = .ok col) cols fields) {rows : List Row}
    (hrows : rowsOfCols ret.length cols = .ok rows) : Rows (fun row kv => BShape kv fields row) rows ret := by
  unfold rowsOfCols at hrows
  cases hm : (List.range ret.length).mapM (fun i => cols.mapM (fun col => col[i]?)) with
  | none => simp [hm] at hrows
  | some rs =>
    simp [hm] at hrows; subst hrows
    obtain ⟨hl, hg⟩ := mapM_some_get hm
    refine Kvql.Rows.of_get (by simpa using hl) (fun i hi => ?_)
    obtain ⟨row, hr1, hr2⟩ := hg i (by simpa using hi)
    refine ⟨row, hr1, ?_⟩
    simp only [List.getElem_range] at hr2
    obtain ⟨hl2, hg2⟩ := mapM_some_get hr2
    refine Kvql.Rows.of_get (by rw [hl2, hcols.length_eq]) (fun j hj => ?_)
    obtain ⟨col, hc1, hc2⟩ := hcols.get j hj
    have hj' : j < cols.length := by rw [hcols.length_eq]; exact hj
    obtain ⟨v, hv1, hv2⟩ := hg2 j hj'
    have hcj : cols[j] = col := by
      have := List.getElem?_eq_getElem hj'; rw [this] at hc1; simpa using hc1
    rw [hcj] at hv2
    have hsingle := (nocacheB_ok_iff (fields[j]).expr hne col).mp hc2
    obtain ⟨v', hv'1, hv'2⟩ := hsingle.get i hi
    rw [hv2] at hv'1
    simp at hv'1; subst hv'1
    exact ⟨v, hv1, hv'2⟩

/-- the accepted pairs of one chunk evaluate the filter to `true` -/
theorem mask_true {w : Expr} : ∀ {vs : List Value} {ch : List Pair} {ms : List Bool}, Rows (PairVal w) vs ch →
    vs.mapM boolOf? = some ms → ∀ kv ∈ maskFilter ms ch, kv ∈ ch ∧ PairVal w (.bool true) kv
  | _, _, ms, .nil, h, kv, hk => by simp at h; subst h; simp [maskFilter] at hk
  | v :: vs, p :: ch, ms, .cons hp hr, h, kv, hk => by
    simp only [List.mapM_cons, Option.bind_eq_bind, Option.bind_eq_some_iff] at h
    obtain ⟨b, hb, ms', hms', he⟩ := h
    simp at he; subst he
    have hv : v = .bool b := by cases v <;> simp [boolOf?] at hb; subst hb; rfl
    cases b
    · simp only [maskFilter] at hk
      obtain ⟨h1, h2⟩ := mask_true hr hms' kv hk
      exact ⟨by simp [h1], h2⟩
    · simp only [maskFilter, List.mem_cons] at hk
      rcases hk with rfl | hk
      · exact ⟨by simp, hv ▸ hp⟩
      · obtain ⟨h1, h2⟩ := mask_true hr hms' kv hk
        exact ⟨by simp [h1], h2⟩

theorem scanLoopSpec_ret {w : Expr} {bs : Nat} : ∀ {chunks : List (List Pair)} {s s' : Sel} {rest : List (List Pair)},
    scanLoopSpec w bs chunks s = .ok (s', rest) →
    ∃ pre, chunks = pre ++ rest ∧ ∀ kv ∈ s'.ret, kv ∈ s.ret ∨ (kv ∈ pre.flatten ∧ PairVal w (.bool true) kv)
  | [], s, s', rest, h => by
    simp [scanLoopSpec] at h; obtain ⟨rfl, rfl⟩ := h; exact ⟨[], rfl, fun kv hk => .inl hk⟩
  | [] :: more, s, s', rest, h => by
    rw [scanLoopSpec] at h
    obtain ⟨pre, hp, hk⟩ := scanLoopSpec_ret h
    exact ⟨[] :: pre, by simp [hp], fun kv h' => by simpa using hk kv h'⟩
  | (p :: ps) :: more, s, s', rest, h => by
    rw [scanLoopSpec] at h
    unfold filterChunkSpec at h
    cases hv : nocacheB w (p :: ps) with
    | error e => simp [hv] at h
    | ok vs =>
      simp only [hv] at h
      cases hm : vs.mapM boolOf? with
      | none => simp [hm] at h
      | some ms =>
        simp only [hm] at h
        have hrows := (nocacheB_ok_iff w (by simp) vs).mp hv
        have hlen : ms.length = (p :: ps).length := by rw [mapM_boolOf_length hm, hrows.length_eq]
        rw [selectLoop_spec ms (p :: ps) s hlen] at h
        simp only at h
        have hacc := mask_true hrows hm
        split at h
        · simp at h; obtain ⟨rfl, rfl⟩ := h
          refine ⟨[p :: ps], by simp, fun kv hk => ?_⟩
          rcases List.mem_append.mp hk with hk | hk
          · exact .inl hk
          · obtain ⟨h1, h2⟩ := hacc kv hk; exact .inr ⟨by simpa using h1, h2⟩
        · obtain ⟨pre, hp, hk⟩ := scanLoopSpec_ret h
          refine ⟨(p :: ps) :: pre, by simp [hp], fun kv hkv => ?_⟩
          rcases hk kv hkv with hk' | ⟨hk1, hk2⟩
          · rcases List.mem_append.mp hk' with hk' | hk'
            · exact .inl hk'
            · obtain ⟨h1, h2⟩ := hacc kv hk'
              exact .inr ⟨by simp only [List.flatten_cons, List.mem_append]; exact .inl h1, h2⟩
          · exact .inr ⟨by simp only [List.flatten_cons, List.mem_append]; exact .inr hk1, hk2⟩

/-- one `Batch` call of the specification -/
theorem nextBatchSpec_rows {w : Expr} {fields : List Field} {bs : Nat} {chunks : List (List Pair)} {rows : List Row}
    {rest : List (List Pair)} (h : nextBatchSpec w fields bs chunks = .ok (rows, rest)) :
    ∃ pre, chunks = pre ++ rest ∧
      ∀ row ∈ rows, ∃ kv ∈ pre.flatten, PairVal w (.bool true) kv ∧ BShape kv fields row := by
  unfold nextBatchSpec at h
  cases hs : scanLoopSpec w bs chunks {} with
  | error e => simp [hs] at h
  | ok r =>
    obtain ⟨s, rest'⟩ := r
    simp only [hs] at h
    obtain ⟨pre, hp, hk⟩ := scanLoopSpec_ret hs
    cases hret : s.ret with
    | nil =>
      simp [hret] at h; obtain ⟨rfl, rfl⟩ := h
      exact ⟨pre, hp, fun row hr => by simp at hr⟩
    | cons kv kvs =>
      simp only [hret] at h
      cases hc : colsSpec fields (kv :: kvs) with
      | error e => simp [hc] at h
      | ok cols =>
        simp only [hc] at h
        cases hr : rowsOfCols (kvs.length + 1) cols with
        | error e => simp [hr] at h
        | ok rs =>
          simp [hr] at h; obtain ⟨rfl, rfl⟩ := h
          have hshape := rowsOfCols_shape (ret := kv :: kvs) (by simp) (colsSpec_rows hc) hr
          refine ⟨pre, hp, fun row hrow => ?_⟩
          obtain ⟨kv', hkv', hb⟩ := Rows.mem_left hshape row hrow
          rcases hk kv' (by rw [hret]; exact hkv') with h0 | ⟨h1, h2⟩
          · simp at h0
          · exact ⟨kv', h1, h2, hb⟩

theorem batchesSpec_rows {w : Expr} {fields : List Field} {bs : Nat} : ∀ (n : Nat) (chunks : List (List Pair)) (row : Row),
    row ∈ (batchesSpec w fields bs n chunks).1.flatten →
    ∃ kv ∈ chunks.flatten, PairVal w (.bool true) kv ∧ BShape kv fields row
  | 0, _, _, h => by simp [batchesSpec] at h
  | n + 1, chunks, row, h => by
    rw [batchesSpec] at h
    cases hn : nextBatchSpec w fields bs chunks with
    | error e => simp [hn] at h
    | ok r =>
      obtain ⟨rows, rest⟩ := r
      cases rows with
      | nil => simp [hn] at h
      | cons r rs =>
        simp only [hn, List.flatten_cons, List.mem_append] at h
        obtain ⟨pre, hp, hk⟩ := nextBatchSpec_rows hn
        rcases h with h | h
        · obtain ⟨kv, h1, h2, h3⟩ := hk row h
          exact ⟨kv, by rw [hp]; simp [h1], h2, h3⟩
        · obtain ⟨kv, h1, h2, h3⟩ := batchesSpec_rows n rest row h
          exact ⟨kv, by rw [hp]; simp [h1], h2, h3⟩

/-- **batch_row_shape** (cache on): every row a batch drain returns belongs to a pair of the scan on which
    the filter's batch value is `true`, and has one column per announced field, in the announced order,
    column j being the batch value of field j's expression on that pair -/
theorem batch_row_shape {A : Aliases} (hfun : Functional A) {w : Expr} (hw : WF A w) {fields : List Field}
    (hwf : FieldsWF A fields) (hag : FieldsAgree A fields) (bs : Nat) (chunks : List (List Pair)) (hd : DistinctFk chunks)
    {c : Ctx} (hon : CtxOn c) {row : Row} (hrow : row ∈ (drainBatchChunks w fields bs chunks c).1.rows) :
    ∃ kv ∈ chunks.flatten, PairVal w (.bool true) kv ∧ row.length = fields.length ∧ BShape kv fields row := by
  rw [drainBatchChunks_on_eq_spec hfun hw hwf hag bs chunks hd hon] at hrow
  obtain ⟨kv, h1, h2, h3⟩ := batchesSpec_rows _ chunks row hrow
  exact ⟨kv, h1, h2, h3.length_eq, h3⟩

/-- the batch value of an expression on a one-pair chunk is, by content, its row value (C03 `vec_eq_map`;
    `[]byte` vs `string` is the only difference that occurs) -/
theorem single_row_value {e : Expr} (hok : e.vecOk = true) {v : Value} {kv : Pair} (h : PairVal e v kv) :
    ∃ vr, nocache e kv = .ok vr ∧ Value.contentEq v vr := by
  obtain ⟨_, _, hrow⟩ := Kvql.Proofs.C03.vec_eq_map e hok [kv] Ctx.off rfl h
  obtain ⟨vb, vr, h1, h2, h3⟩ := hrow 0 (by simp)
  simp at h1; subst h1
  have h2' : exec e kv Ctx.off = (.ok vr, Ctx.off) := h2
  exact ⟨vr, congrArg Prod.fst h2', h3⟩

end Kvql.Cache
