/-
  `exec_total` (row) and `execBatch_total` (batch): on cycle-free expressions the evaluators never
  end in a Go panic or in unbounded recursion — every failure is an ordinary error value.

  Hypotheses and what they exclude (each is a real panic site of the code):
  * `e.wf`      no cyclic alias (`select upper(u) as u`: Go recurses without bound), and list-index
                literals are non-negative (`lval[idx]` is guarded by `idx < len` only; the parser has no
                negative literals);
  * batch only: the cache is off, and the chunk is non-empty or the context nil
                (`FieldReferenceExpr.ExecuteBatch` reads `chunk[0].Key` whenever ctx != nil; the plans
                never pass an empty chunk); `e.vecOk` as in `vec_eq_map` (lengths of intermediate results).
  The arity of calls is NOT a hypothesis any more: after patch 05 both paths check it, and
  `funcTable_arity` shows that the checked arity covers every `args[i]` a body reads.  (Before the
  patch `join()` / `list()` reached `args[0]` / returned a short slice on the batch path only.)
-/
import Kvql.Proofs.ExecVecTotalThm

namespace Kvql.Proofs.PanicFree
open Kvql

theorem exec_total (e : Expr) (hwf : e.wf = true) (kv : Pair) (c : Ctx) {err : Err} {c' : Ctx}
    (h : exec e kv c = (.error err, c')) : err.isPanic = false ∧ err ≠ .outOfFuel :=
  Kvql.exec_total e kv hwf c err c' h

theorem execBatch_total (e : Expr) (hwf : e.wf = true) (hok : e.vecOk = true) (chunk : List Pair) (c : Ctx)
    (hc : c.enable = false) (hne : c.present = true → chunk ≠ []) {err : Err} {c' : Ctx}
    (h : execBatch e chunk c = (.error err, c')) : err.isPanic = false ∧ err ≠ .outOfFuel :=
  execBatch_total_core e hwf hok chunk c hc hne err c' h

/-- every body gets the arguments it indexes from the arity the call sites check -/
theorem funcTable_arity :
    ∀ e ∈ Generated.funcTable, ∀ b, (FuncInfo.ofEntry e).body = some b → b.needs ≤ (FuncInfo.ofEntry e).numArgs :=
  Kvql.funcTable_arity

end Kvql.Proofs.PanicFree
