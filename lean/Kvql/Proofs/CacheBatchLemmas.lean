/-
  C05 (c), list bookkeeping of a scan's `Batch`: the accepted pairs as a mask over the concatenated
  inner chunks, `chooseIdxes` as the positions of the mask, `AdjustChunkCache` (`pickIdx`) as the mask
  applied to a column, and the pair-wise reading of batch columns (`batch_pairwise`).
-/
import Kvql.Proofs.CacheBatchInd
import Kvql.Proofs.ExecVecPairwise

namespace Kvql.Cache
open Kvql Kvql.Project

/-! ### masks -/

def maskFilter {α} : List Bool → List α → List α
  | true :: ms, x :: xs => x :: maskFilter ms xs
  | false :: ms, _ :: xs => maskFilter ms xs
  | _, _ => []

def idxsFrom : Nat → List Bool → List Nat
  | _, [] => []
  | i, true :: ms => i :: idxsFrom (i + 1) ms
  | i, false :: ms => idxsFrom (i + 1) ms

theorem maskFilter_append {α} : ∀ (m1 m2 : List Bool) (l1 l2 : List α), m1.length = l1.length →
    maskFilter (m1 ++ m2) (l1 ++ l2) = maskFilter m1 l1 ++ maskFilter m2 l2
  | [], m2, [], l2, _ => by simp [maskFilter]
  | [], _, _ :: _, _, h => by simp at h
  | _ :: _, _, [], _, h => by simp at h
  | b :: m1, m2, x :: l1, l2, h => by
    have ih := maskFilter_append m1 m2 l1 l2 (by simpa using h)
    cases b <;> simp [maskFilter, ih]

theorem idxsFrom_append : ∀ (o : Nat) (m1 m2 : List Bool),
    idxsFrom o (m1 ++ m2) = idxsFrom o m1 ++ idxsFrom (o + m1.length) m2
  | o, [], m2 => by simp [idxsFrom]
  | o, b :: m1, m2 => by
    have ih := idxsFrom_append (o + 1) m1 m2
    have e : o + 1 + m1.length = o + (m1.length + 1) := by omega
    cases b <;> simp [idxsFrom, ih, e]

theorem idxsFrom_ge : ∀ (o : Nat) (m : List Bool) (i : Nat), i ∈ idxsFrom o m → o ≤ i
  | _, [], _, h => by simp [idxsFrom] at h
  | o, true :: m, i, h => by
    simp [idxsFrom] at h
    rcases h with rfl | h
    · exact Nat.le_refl _
    · have := idxsFrom_ge (o + 1) m i h; omega
  | o, false :: m, i, h => by
    simp [idxsFrom] at h
    have := idxsFrom_ge (o + 1) m i h; omega

/-- `selectLoop` over a chunk whose filter result has the chunk's length -/
theorem selectLoop_spec : ∀ (ms : List Bool) (ch : List Pair) (s : Sel), ms.length = ch.length →
    selectLoop ms ch s = .ok { ret := s.ret ++ maskFilter ms ch, choose := s.choose ++ idxsFrom s.bidx ms,
                               bidx := s.bidx + ms.length }
  | [], [], s, _ => by simp [selectLoop, maskFilter, idxsFrom]
  | [], _ :: _, _, h => by simp at h
  | _ :: _, [], _, h => by simp at h
  | true :: ms, p :: ps, s, h => by
    rw [selectLoop, selectLoop_spec ms ps _ (by simpa using h)]
    simp [maskFilter, idxsFrom, Nat.add_assoc, Nat.add_comm 1]
  | false :: ms, p :: ps, s, h => by
    rw [selectLoop, List.tail_cons, selectLoop_spec ms ps _ (by simpa using h)]
    simp [maskFilter, idxsFrom, Nat.add_assoc, Nat.add_comm 1]

/-- `AdjustChunkCache` keeps of a column exactly the positions of the mask -/
theorem pick_aux : ∀ (mask : List Bool) (l : List Value) (o : Nat) (pre : List Nat),
    l.length = mask.length → (∀ i ∈ pre, i < o) →
    ((List.range' o l.length).zip l).filterMap
        (fun (p : Nat × Value) => if (pre ++ idxsFrom o mask).contains p.1 then some p.2 else none)
      = maskFilter mask l
  | [], [], _, _, _, _ => by simp [maskFilter]
  | [], _ :: _, _, _, h, _ => by simp at h
  | _ :: _, [], _, _, h, _ => by simp at h
  | false :: mask, v :: l, o, pre, h, hpre => by
    have hl : l.length = mask.length := by simpa using h
    have hno : o ∉ pre := fun hm => Nat.lt_irrefl _ (hpre o hm)
    rw [idxsFrom]
    simp only [List.length_cons, List.range'_succ, List.zip_cons_cons, List.filterMap_cons]
    have hnot : (pre ++ idxsFrom (o + 1) mask).contains o = false := by
      rw [List.contains_eq_mem]
      simp only [List.mem_append, decide_eq_false_iff_not, not_or]
      exact ⟨hno, fun hm => by have := idxsFrom_ge (o + 1) mask o hm; omega⟩
    simp only [hnot, Bool.false_eq_true, ↓reduceIte, maskFilter]
    exact pick_aux mask l (o + 1) pre hl (fun i hi => by have := hpre i hi; omega)
  | true :: mask, v :: l, o, pre, h, hpre => by
    have hl : l.length = mask.length := by simpa using h
    rw [idxsFrom, show pre ++ o :: idxsFrom (o + 1) mask = (pre ++ [o]) ++ idxsFrom (o + 1) mask by simp]
    simp only [List.length_cons, List.range'_succ, List.zip_cons_cons, List.filterMap_cons]
    have hyes : ((pre ++ [o]) ++ idxsFrom (o + 1) mask).contains o = true := by
      rw [List.contains_eq_mem]; simp
    simp only [hyes, ↓reduceIte, maskFilter]
    rw [pick_aux mask l (o + 1) (pre ++ [o]) hl (fun i hi => by
      rcases List.mem_append.mp hi with hi | hi
      · have := hpre i hi; omega
      · simp at hi; omega)]

theorem pickIdx_mask (mask : List Bool) (l : List Value) (h : l.length = mask.length) :
    Ctx.pickIdx (idxsFrom 0 mask) l = maskFilter mask l := by
  have := pick_aux mask l 0 [] h (by simp)
  unfold Ctx.pickIdx
  rw [List.range_eq_range']
  simpa using this

/-! ### element-wise relations -/

theorem Rows.append {α β : Type} {P : α → β → Prop} : ∀ {a1 : List α} {b1 : List β} {a2 : List α} {b2 : List β},
    Rows P a1 b1 → Rows P a2 b2 → Rows P (a1 ++ a2) (b1 ++ b2)
  | _, _, _, _, .nil, h2 => h2
  | _, _, _, _, .cons hp hr, h2 => .cons hp (Rows.append hr h2)

theorem Rows.maskFilter {α β : Type} {P : α → β → Prop} : ∀ (m : List Bool) {as : List α} {bs : List β},
    Rows P as bs → Rows P (maskFilter m as) (Cache.maskFilter m bs)
  | [], _, _, _ => by
    rename_i as bs
    cases as <;> cases bs <;> simp [Cache.maskFilter] <;> exact .nil
  | _ :: _, _, _, .nil => by simp [Cache.maskFilter]; exact .nil
  | true :: m, _, _, .cons hp hr => by simp only [Cache.maskFilter]; exact .cons hp (Rows.maskFilter m hr)
  | false :: m, _, _, .cons hp hr => by simp only [Cache.maskFilter]; exact Rows.maskFilter m hr

/-- columns aligned with chunks, flattened -/
theorem Rows.flatten {α β : Type} {P : α → β → Prop} : ∀ {ass : List (List α)} {bss : List (List β)},
    Rows (fun as bs => Rows P as bs) ass bss → Rows P ass.flatten bss.flatten
  | _, _, .nil => .nil
  | _, _, .cons hp hr => by simp only [List.flatten_cons]; exact Rows.append hp (Rows.flatten hr)

/-! ### batch columns, pair by pair -/

/-- the value of `e` on the one-pair chunk `[kv]`, cache off -/
def PairVal (e : Expr) (v : Value) (kv : Pair) : Prop := execBatch e [kv] Ctx.off = (.ok [v], Ctx.off)

/-- `batch_pairwise`: a cache-free batch column over a non-empty chunk is the list of its pairs' values -/
theorem nocacheB_ok_iff (e : Expr) {ch : List Pair} (hne : ch ≠ []) (vs : List Value) :
    nocacheB e ch = .ok vs ↔ Rows (PairVal e) vs ch := by
  unfold nocacheB
  constructor
  · intro h
    have h2 := Kvql.Proofs.C03.batch_ok_ctx e Ctx.off rfl ch hne h
    exact ((Kvql.Proofs.C03.batch_pairwise_rows e Ctx.off rfl ch hne vs Ctx.off).mp h2).2
  · intro h
    have := (Kvql.Proofs.C03.batch_pairwise_rows e Ctx.off rfl ch hne vs Ctx.off).mpr ⟨rfl, h⟩
    rw [this]

theorem nocacheB_length {e : Expr} {ch : List Pair} (hne : ch ≠ []) {vs : List Value} (h : nocacheB e ch = .ok vs) :
    vs.length = ch.length := ((nocacheB_ok_iff e hne vs).mp h).length_eq

theorem mapM_boolOf_length : ∀ {vs : List Value} {ms : List Bool}, vs.mapM boolOf? = some ms → ms.length = vs.length
  | [], ms, h => by simp at h; subst h; rfl
  | v :: vs, ms, h => by
    simp only [List.mapM_cons, Option.bind_eq_bind, Option.bind_eq_some_iff] at h
    obtain ⟨b, _, rest, hr, he⟩ := h
    simp at he; subst he
    simp [mapM_boolOf_length hr]

end Kvql.Cache
