/-
  C18 end to end, part 9: the region of the plan node relative to the WHERE clause AS WRITTEN.
  For a key-pinning atom `c` on the `&` / `and` spine of the parsed WHERE, with `pinOf c = some R`:
  the plan node built for the folded WHERE is never FULL; its region lies within the region inferred
  for ONE pinning conjunct of the folded clause (`and_narrows`); if `c` is an equality / IN atom the
  node is MultiGet / EmptyResult and its region lies within `c`'s own key list; if `c` is the only
  conjunct that pins, the region lies within `R`.
-/
import Kvql.Proofs.RunRegionFold
import Kvql.Proofs.RunRegionStmt
import Kvql.Proofs.ScanTraffic

namespace Kvql.Proofs.RunRegion

open Kvql Kvql.Fold Kvql.Scan Kvql.Plans
open Kvql.Run (nodeOf foldSelect)
open Kvql.Proofs.Scan (mem_newMultiGetKeys)

/-- bridge: the region of the plan node is the region of the inferred scan type -/
theorem region_of_inRegion {e : Expr} {k : Bytes} (h : (nodeOf (Scan.optimize e)).inRegion k = true) :
    region (optimizeExpr e) k := by
  unfold Scan.optimize at h
  cases hs : optimizeExpr e with
  | empty => rw [hs] at h; simp [plan, nodeOf, ScanNode.inRegion] at h
  | mget ks =>
    rw [hs] at h
    simp only [plan, nodeOf, ScanNode.inRegion, decide_eq_true_eq, mem_newMultiGetKeys] at h
    exact mem_dedup.mp (mem_sort.mp h)
  | pre p =>
    rw [hs] at h
    simp only [plan, nodeOf, ScanNode.inRegion] at h
    exact List.isPrefixOf_iff_prefix.mp h
  | range lo hi =>
    rw [hs] at h
    simp only [plan, nodeOf, ScanNode.inRegion, Bool.and_eq_true] at h
    refine ⟨fun l hl => ?_, fun u hu => ?_⟩
    · subst hl; simpa [ScanNode.aboveLow] using h.1
    · subst hu; simpa [ScanNode.belowHigh] using h.2
  | full => trivial

theorem nodeOf_ne_full {e : Expr} (h : pinned (optimizeExpr e)) : nodeOf (Scan.optimize e) ≠ .full := by
  unfold Scan.optimize
  cases hs : optimizeExpr e with
  | full => exact absurd hs h
  | _ => simp [plan, nodeOf]

theorem nodeOf_point {e : Expr} (h : pointKind (optimizeExpr e)) : (nodeOf (Scan.optimize e)).isCursorScan = false := by
  unfold Scan.optimize
  cases hs : optimizeExpr e with
  | empty => rfl
  | mget ks => rfl
  | pre p => rw [hs] at h; exact h.elim
  | range a b => rw [hs] at h; exact h.elim
  | full => rw [hs] at h; exact h.elim

theorem nodeOf_empty {e : Expr} (h : optimizeExpr e = .empty) : nodeOf (Scan.optimize e) = .empty := by
  simp [Scan.optimize, h, plan, nodeOf]

/-- what the plan node of the folded WHERE `fw` owes to a key-pinning atom `c` kept by folding -/
structure FromText (c : Expr) (R : KeyRegion) (fw : Expr) : Prop where
  /-- the atom is still a conjunct (or the clause folded to `false`) -/
  kept : Kept c fw
  /-- never a full scan -/
  narrowed : nodeOf (Scan.optimize fw) ≠ .full
  /-- the region lies within the region inferred for one pinning conjunct -/
  one : ∃ c' ∈ conjuncts fw, pinned (optimizeExpr c') ∧
    ∀ k, (nodeOf (Scan.optimize fw)).inRegion k = true → region (optimizeExpr c') k
  /-- an equality / IN atom: point reads of its own keys only -/
  point : ∀ ks, R = .keys ks → (nodeOf (Scan.optimize fw)).isCursorScan = false ∧
    ∀ k, (nodeOf (Scan.optimize fw)).inRegion k = true → k ∈ ks
  /-- the only pinning conjunct: its region as written -/
  sole : (∀ c' ∈ conjuncts fw, c' ≠ c → optimizeExpr c' = .full) →
    ∀ k, (nodeOf (Scan.optimize fw)).inRegion k = true → R.mem k

theorem fromText_of_kept {c fw : Expr} {R : KeyRegion} (hR : pinOf c = some R) (hk : Kept c fw) : FromText c R fw := by
  have ha : Atom c := atom_of_pinOf hR
  obtain ⟨hpin, hreg⟩ := pin_atom_region hR
  rcases hk with hc | ⟨p, rfl⟩
  · have hmem : c ∈ conjuncts fw := conjunct_mem_conjuncts hc (atom_not_and ha)
    have hpw : pinned (optimizeExpr fw) := (pinned_iff fw).mpr ⟨c, hmem, hpin⟩
    refine ⟨.inl hc, nodeOf_ne_full hpw, ?_, ?_, ?_⟩
    · obtain ⟨c', hc', hp', hw⟩ := and_narrows_conjuncts fw ⟨c, hmem, hpin⟩
      exact ⟨c', hc', hp', fun k hk => hw k (region_of_inRegion hk)⟩
    · intro ks hks
      subst hks
      have hpt := pin_keys_point hR
      refine ⟨nodeOf_point (conjunct_point hc hpt), fun k hk => ?_⟩
      exact hreg k (point_conjunct_within hc hpt k (region_of_inRegion hk))
    · intro hsole k hk
      obtain ⟨c', hc', hp', hw⟩ := and_narrows_conjuncts fw ⟨c, hmem, hpin⟩
      have : c' = c := by
        apply Classical.byContradiction
        intro hne
        exact hp' (hsole c' hc' hne)
      subst this
      exact hreg k (hw k (region_of_inRegion hk))
  · have he : nodeOf (Scan.optimize (mkBool p false)) = .empty := nodeOf_empty (optimizeExpr_mkBool_false p)
    refine ⟨.inr ⟨p, rfl⟩, by rw [he]; simp, ?_, ?_, ?_⟩
    · refine ⟨mkBool p false, by simp [mkBool, conjuncts], by rw [optimizeExpr_mkBool_false]; simp [pinned], ?_⟩
      intro k hk; rw [he] at hk; simp [ScanNode.inRegion] at hk
    · intro ks _
      rw [he]
      exact ⟨rfl, fun k hk => by simp [ScanNode.inRegion] at hk⟩
    · intro _ k hk; rw [he] at hk; simp [ScanNode.inRegion] at hk

/-- DELETE: the folded WHERE is `Fold.optimize` of the parsed one -/
theorem fromText_delete {c w fw : Expr} {R : KeyRegion} (hc : Conjunct c w) (hR : pinOf c = some R)
    (hf : Fold.optimize w = .ok fw) : FromText c R fw :=
  fromText_of_kept hR (optimize_kept hc (atom_of_pinOf hR) hf)

theorem foldSelect_inv {s : SelectS} {f : Run.FoldedSelect} (h : foldSelect s = .ok f) :
    ∃ fw n tbl, Fold.optimizeBoth s.where_ = .ok (fw, n) ∧ f.where_ = Parser.resolveTop tbl fw := by
  unfold foldSelect at h
  obtain ⟨w, hw, h⟩ := except_bind_ok h
  obtain ⟨fs, _, h⟩ := except_bind_ok h
  cases h
  exact ⟨w.1, w.2, _, hw, rfl⟩

/-- SELECT: the folded WHERE is `Optimize()` of the parsed one with the alias references re-pointed -/
theorem fromText_select {c : Expr} {s : SelectS} {f : Run.FoldedSelect} {R : KeyRegion} (hc : Conjunct c s.where_)
    (hR : pinOf c = some R) (hf : foldSelect s = .ok f) : FromText c R f.where_ := by
  obtain ⟨fw, n, tbl, hfw, hw⟩ := foldSelect_inv hf
  rw [hw]
  exact fromText_of_kept hR (resolveTop_kept tbl (optimizeBoth_kept hc (atom_of_pinOf hR) hfw) (atom_of_pinOf hR))

end Kvql.Proofs.RunRegion
