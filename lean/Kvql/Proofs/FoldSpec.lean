/-
  C04, the specifications of `optimize` / `tryOptimizeBinaryOpExecute` / `tryOptimizeFunctionCall`
  and the argument loop, proved by the same well-founded mutual recursion (node count) that
  defines them in Model/Fold.lean.
-/
import Kvql.Proofs.FoldReorder
import Kvql.Proofs.FoldAndOr
namespace Kvql
open Generated
namespace Fold

/-! ### the specifications of the five helpers -/

/-- `tryOptimizeBinaryOpExecute` / `tryOptimizeFunctionCall` on node `e` -/
structure OutOK (e : Expr) (o : Out) : Prop where
  node : FoldRel e o.node
  ret : FoldRel e o.ret
  lit : o.isValue = true → isLit4 o.ret = true
  same : o.isValue = false → o.ret = o.node

/-- the static type of a rewritten call argument: unchanged, unless the argument was Boolean-typed -/
def WeakTy (e e' : Expr) : Prop := retType e' = retType e ∨ retType e = tyTBOOL

/-- `optimize(expr)` on node `e` -/
structure PassOK (e : Expr) (p : Pass) : Prop where
  node : FoldRel e p.node
  sem : Sem e p.ret
  ty : WeakTy e p.ret
  loc : match p.which with
    | .self => p.ret = p.node
    | .left => ∃ q op l r, p.node = .binop q op l r ∧ p.ret = l
    | .right => ∃ q op l r, p.node = .binop q op l r ∧ p.ret = r
    | .fresh => True

theorem OutOK.refl (e : Expr) (b : Bool) (hb : b = true → isLit4 e = true) : OutOK e ⟨e, b, e⟩ :=
  ⟨.refl e, .refl e, hb, fun _ => rfl⟩

theorem andOr_lit {e : Expr} (h : isLit4 e = true) : andOr e = (e, .self) := by
  cases e <;> simp [isLit4] at h <;> rfl

theorem retType_call_args (p p' : Nat) (nm : Expr) (args args' : List Expr) :
    retType (.call p' nm args') = retType (.call p nm args) := by
  simp [retType]

theorem except_bind_ok {α β} {x : Except String α} {f : α → Except String β} {b : β} (h : x >>= f = .ok b) :
    ∃ a, x = .ok a ∧ f a = .ok b := by
  cases x with
  | error e => cases h
  | ok a => exact ⟨a, rfl, h⟩

/-- rewritten arguments inside the call node that stays -/
theorem FoldRel.call (p : Nat) (nm : Expr) {args args' : List Expr}
    (h : Rows (fun a a' => Sem a a' ∧ WeakTy a a') args args') : FoldRel (.call p nm args) (.call p nm args') := by
  refine ⟨fun kv c hc => call_refines hc hc p p nm ?_, retType_call_args .., ⟨fun h => by simp [isListNode] at h, fun _ _ => rfl⟩⟩
  exact h.imp fun a a' ⟨hs, ht⟩ => ⟨ht, hs kv c hc⟩

mutual
  theorem pass_ok : ∀ (e : Expr) (r : Pass), pass e = .ok r → PassOK e r
    | .binop p op l r, res, h => by
      rw [pass] at h
      obtain ⟨o, ho, h⟩ := except_bind_ok h
      have oo := binExec_ok (reorder (.binop p op l r)) o ho
      have hre := reorder_ok (.binop p op l r)
      split at h
      · rename_i hv
        cases h
        rw [andOr_lit (oo.lit hv)]
        exact ⟨hre.trans oo.node, (hre.trans oo.ret).sem, .inl (hre.trans oo.ret).ty, trivial⟩
      · rename_i hv
        have hv' : o.isValue = false := by simpa using hv
        have ao := andOr_ok o.ret
        cases h
        refine ⟨hre.trans oo.node, (hre.trans oo.ret).sem.trans ao.sem, ?_, ?_⟩
        · have t := (hre.trans oo.ret).ty
          rcases ao.ty with h1 | h1
          · exact .inl (h1.trans t)
          · exact .inr (t ▸ h1)
        · have hl := ao.loc
          rw [← oo.same hv']
          exact hl
    | .call p nm args, res, h => by
      rw [pass] at h
      obtain ⟨o, ho, h⟩ := except_bind_ok h
      have oo := callFold_ok (.call p nm args) o ho
      cases h
      refine ⟨oo.node, oo.ret.sem, .inl oo.ret.ty, ?_⟩
      cases hv : o.isValue
      · simp only [Bool.false_eq_true, if_false]; exact oo.same hv
      · simp only [if_true]
    | .field p k, res, h | .str p d, res, h | .not p r, res, h | .name p d, res, h | .ref p n t, res, h
    | .cycle, res, h | .num p d v, res, h | .float p d v, res, h | .bool p d v, res, h | .list p items, res, h
    | .access p l f, res, h => by
      simp only [pass] at h
      cases h
      exact ⟨.refl _, .refl _, .inl rfl, rfl⟩
  termination_by e => (size e, 2)
  decreasing_by
    · rw [size_reorder]; exact Prod.Lex.right _ (by omega)
    · exact Prod.Lex.right _ (by omega)

  theorem binExec_ok : ∀ (e : Expr) (o : Out), binExec e = .ok o → OutOK e o
    | .binop p op l r, o, h => by
      rw [binExec] at h
      obtain ⟨lo, hlo, h⟩ := except_bind_ok h
      obtain ⟨ro, hro, h⟩ := except_bind_ok h
      have ol := operand_ok l lo hlo
      have or_ := operand_ok r ro hro
      have hnode := FoldRel.binop p op ol.ret or_.ret
      simp only [] at h
      split at h
      · cases h
        exact ⟨hnode, hnode, (fun h => by cases h), fun _ => rfl⟩
      · rename_i hv
        simp only [Bool.not_eq_eq_eq_not, Bool.not_true, Bool.and_eq_true, Bool.not_eq_false] at hv
        obtain ⟨fc, hfc, h⟩ := except_bind_ok h
        cases fc with
        | none =>
          cases h
          exact ⟨hnode, hnode, (fun h => by cases h), fun _ => rfl⟩
        | some k =>
          cases h
          have hk := foldBinary_ok (ol.lit (by simpa using hv.1)) (or_.lit (by simpa using hv.2)) hfc
          exact ⟨hnode, hnode.trans hk.1, fun _ => hk.2, fun h => by cases h⟩
    | .field p k, o, h | .str p d, o, h | .not p r, o, h | .name p d, o, h | .ref p n t, o, h
    | .cycle, o, h | .num p d v, o, h | .float p d v, o, h | .bool p d v, o, h | .list p items, o, h
    | .access p l f, o, h | .call p nm args, o, h => by
      simp only [binExec] at h
      cases h
      exact .refl _ false (fun h => by cases h)
  termination_by e => (size e, 1)
  decreasing_by
    · exact Prod.Lex.left _ _ (by simp only [size]; omega)
    · exact Prod.Lex.left _ _ (by simp only [size]; omega)

  theorem operand_ok : ∀ (e : Expr) (o : Out), operand e = .ok o → OutOK e o
    | .binop p op l r, o, h => by
      rw [operand] at h
      exact binExec_ok (.binop p op l r) o h
    | .call p nm args, o, h => by
      rw [operand] at h
      exact callFold_ok (.call p nm args) o h
    | .str p d, o, h | .num p d v, o, h | .float p d v, o, h | .bool p d v, o, h => by
      simp only [operand] at h
      cases h
      exact .refl _ true (fun _ => rfl)
    | .field p k, o, h | .not p r, o, h | .name p d, o, h | .ref p n t, o, h
    | .cycle, o, h | .list p items, o, h | .access p l f, o, h => by
      simp only [operand] at h
      cases h
      exact .refl _ false (fun h => by cases h)
  termination_by e => (size e, 2)
  decreasing_by
    · exact Prod.Lex.right _ (by omega)
    · exact Prod.Lex.right _ (by omega)

  theorem callFold_ok : ∀ (e : Expr) (o : Out), callFold e = .ok o → OutOK e o
    | .call p nm args, o, h => by
      rw [callFold] at h
      obtain ⟨args', hargs, h⟩ := except_bind_ok h
      have hrows := optArgs_ok args args' hargs
      have hnode := FoldRel.call p nm hrows
      simp only [] at h
      split at h
      · cases h
        exact ⟨hnode, hnode, (fun h => by cases h), fun _ => rfl⟩
      · rename_i hv
        simp only [Bool.not_eq_eq_eq_not, Bool.not_true, Bool.and_eq_true, Bool.not_eq_false] at hv
        obtain ⟨fc, hfc, h⟩ := except_bind_ok h
        cases fc with
        | none =>
          cases h
          exact ⟨hnode, hnode, (fun h => by cases h), fun _ => rfl⟩
        | some k =>
          cases h
          have hk := foldCall_ok (by simpa using hv.1) hfc
          exact ⟨hnode, hnode.trans hk.1, fun _ => hk.2, fun h => by cases h⟩
    | .field p k, o, h | .str p d, o, h | .not p r, o, h | .name p d, o, h | .ref p n t, o, h
    | .cycle, o, h | .num p d v, o, h | .float p d v, o, h | .bool p d v, o, h | .list p items, o, h
    | .access p l f, o, h | .binop p op l r, o, h => by
      simp only [callFold] at h
      cases h
      exact .refl _ false (fun h => by cases h)
  termination_by e => (size e, 1)
  decreasing_by
    · exact Prod.Lex.left _ _ (by simp only [size]; omega)

  theorem optArgs_ok : ∀ (args args' : List Expr), optArgs args = .ok args' →
      Rows (fun a a' => Sem a a' ∧ WeakTy a a') args args'
    | [], args', h => by
      simp only [optArgs] at h
      cases h
      exact .nil
    | a :: rest, args', h => by
      rw [optArgs] at h
      obtain ⟨pa, hpa, h⟩ := except_bind_ok h
      obtain ⟨rest', hrest, h⟩ := except_bind_ok h
      cases h
      have pa_ok := pass_ok a pa hpa
      exact .cons ⟨pa_ok.sem, pa_ok.ty⟩ (optArgs_ok rest rest' hrest)
  termination_by args => (sizeList args, 0)
  decreasing_by
    · exact Prod.Lex.left _ _ (by simp only [sizeList]; omega)
    · exact Prod.Lex.left _ _ (by simp only [sizeList]; omega)
end

end Fold
end Kvql
