/-
  The row evaluator seen as a pure function, with the field cache switched off.

  With `c.enable = false` every `exec e kv` returns the context it was given (`exec_inert`),
  so an evaluation is determined by `ev e kv c : Except Err Value`.  This file gives the pure
  equations of `ev` for the binary operators, and the refinement relation used by the folding
  proofs: `Refines x' x` — wherever `x` is a value, `x'` is the same value, texts by content
  (`Rel`: a folded text literal yields `[]byte` where `+` / a function yields a Go string).
-/
import Kvql.Proofs.ExecVecRel

namespace Kvql
open Generated
namespace Fold

/-- the outcome of a computation started in context `c` -/
def run {α} (x : M α) (c : Ctx) : Except Err α := (x c).1

/-- `Execute(kv, ctx)`'s outcome -/
def ev (e : Expr) (kv : Pair) (c : Ctx) : Except Err Value := run (exec e kv) c

theorem run_eq {α} {x : M α} (hx : Inert x) {c : Ctx} (hc : c.enable = false) : x c = (run x c, c) := by
  have := hx c hc
  rcases h : x c with ⟨r, c'⟩
  rw [h] at this
  simp only [run, h]
  simp at this
  rw [this]

theorem exec_off (e : Expr) (kv : Pair) {c : Ctx} (hc : c.enable = false) : exec e kv c = (ev e kv c, c) :=
  run_eq (exec_inert e kv) hc

@[simp] theorem run_pure {α} (a : α) (c : Ctx) : run (Pure.pure a : M α) c = .ok a := rfl
@[simp] theorem run_mpure {α} (a : α) (c : Ctx) : run (M.pure a : M α) c = .ok a := rfl
@[simp] theorem run_throw {α} (e : Err) (c : Ctx) : run (M.throw e : M α) c = .error e := rfl
@[simp] theorem run_lift {α} (x : Except Err α) (c : Ctx) : run (M.lift x) c = x := rfl

/-- sequencing, cache off: the context is handed on unchanged -/
theorem run_bind {α β} {x : M α} {f : α → M β} (hx : Inert x) {c : Ctx} (hc : c.enable = false) :
    run (x >>= f) c = match run x c with
      | .ok a => run (f a) c
      | .error e => .error e := by
  simp only [run]
  rw [M.bind_run, run_eq hx hc]
  cases run x c <;> rfl

theorem run_ite {α} {p : Prop} [Decidable p] (x y : M α) (c : Ctx) :
    run (if p then x else y) c = if p then run x c else run y c := by
  split <;> rfl

/-! ### refinement -/

/-- wherever `x` is a value, `x'` is the same value (texts by content) -/
def Refines (x' x : Except Err Value) : Prop := ∀ v, x = .ok v → ∃ v', x' = .ok v' ∧ Rel v' v

theorem Refines.refl (x : Except Err Value) : Refines x x := fun v h => ⟨v, h, .refl v⟩

theorem Refines.of_eq {x' x : Except Err Value} (h : x' = x) : Refines x' x := h ▸ .refl x

theorem rel_trans {a b c : Value} (h1 : Rel a b) (h2 : Rel b c) : Rel a c := by
  rcases h1 with rfl | ⟨x, rfl, rfl⟩
  · exact h2
  · rcases h2 with rfl | ⟨y, h, _⟩
    · exact .inr ⟨x, rfl, rfl⟩
    · cases h

theorem Refines.trans {a b c : Except Err Value} (h1 : Refines a b) (h2 : Refines b c) : Refines a c := by
  intro v hv
  obtain ⟨v', hv', r'⟩ := h2 v hv
  obtain ⟨v'', hv'', r''⟩ := h1 v' hv'
  exact ⟨v'', hv'', rel_trans r'' r'⟩

theorem Refines.error {x' : Except Err Value} {e : Err} : Refines x' (.error e) := by
  intro v h; cases h

/-- a value that `Rel`-refines a Go string is that string or the same bytes -/
theorem rel_of_str {v : Value} {s : Bytes} (h : Rel (.str s) v) : v = .str s := by
  rcases h with rfl | ⟨b, h, _⟩
  · rfl
  · cases h

theorem rel_of_int {v : Value} {i : Int64} (h : Rel (.int i) v) : v = .int i := by
  rcases h with rfl | ⟨b, h, _⟩
  · rfl
  · cases h

theorem rel_of_float {v : Value} {f : F64} (h : Rel (.float f) v) : v = .float f := by
  rcases h with rfl | ⟨b, h, _⟩
  · rfl
  · cases h

theorem rel_of_bool {v : Value} {b : Bool} (h : Rel (.bool b) v) : v = .bool b := by
  rcases h with rfl | ⟨x, h, _⟩
  · rfl
  · cases h

/-! ### the binary operators, purely -/

/-- operators that evaluate both operands and then apply a kernel -/
def isStrict2 : Op → Bool
  | .eq | .neq | .prefixMatch | .regexMatch | .add | .sub | .mul | .div | .gt | .gte | .lt | .lte => true
  | _ => false

/-- the kernel of a strict operator (`leftStr`: the left operand's static type is text) -/
def kernel2 (op : Op) (leftStr : Bool) (a b : Value) : Except Err Value :=
  match op with
  | .eq => match equalRow a b with
    | .ok c => .ok (.bool c)
    | .error e => .error e
  | .neq => match equalRow a b with
    | .ok c => .ok (.bool !c)
    | .error e => .error e
  | .prefixMatch =>
    match convertToByteArray a, convertToByteArray b with
    | some x, some y => .ok (.bool (y.isPrefixOf x))
    | _, _ => .error .operandType
  | .regexMatch =>
    match convertToByteArray a, convertToByteArray b with
    | some x, some y =>
      match Regex.parse y with
      | none => .error .data
      | some re => .ok (.bool (re.matches x))
    | _, _ => .error .operandType
  | .add => if leftStr then .ok (.str (toStringV a ++ toStringV b)) else executeMathOp a b .add
  | .sub => executeMathOp a b .sub
  | .mul => executeMathOp a b .mul
  | .div => executeMathOp a b .div
  | .gt => match compareBy (!leftStr) a b .gt with
    | .ok c => .ok (.bool c)
    | .error e => .error e
  | .gte => match compareBy (!leftStr) a b .gte with
    | .ok c => .ok (.bool c)
    | .error e => .error e
  | .lt => match compareBy (!leftStr) a b .lt with
    | .ok c => .ok (.bool c)
    | .error e => .error e
  | .lte => match compareBy (!leftStr) a b .lte with
    | .ok c => .ok (.bool c)
    | .error e => .error e
  | _ => .error .unknownOp

/-- a strict operator: left operand, right operand, kernel -/
def strict2 (op : Op) (leftStr : Bool) (a b : Except Err Value) : Except Err Value :=
  match a with
  | .error e => .error e
  | .ok x =>
    match b with
    | .error e => .error e
    | .ok y => kernel2 op leftStr x y

/-- `&` / `and` (`isAnd`) and `|` / `or`: the right operand counts only when the left does not decide -/
def shortCircuit (isAnd : Bool) (a b : Except Err Value) : Except Err Value :=
  match a with
  | .error e => .error e
  | .ok x =>
    match asBool x with
    | .error e => .error e
    | .ok bx =>
      if bx != isAnd then .ok (.bool bx)
      else
        match b with
        | .error e => .error e
        | .ok y =>
          match asBool y with
          | .error e => .error e
          | .ok byy => .ok (.bool byy)

theorem run_two {l r : Expr} {kv : Pair} {c : Ctx} (hc : c.enable = false) (K : Value → Value → M Value) :
    run (do let a ← exec l kv; let b ← exec r kv; K a b) c =
      match ev l kv c with
      | .error e => .error e
      | .ok a =>
        match ev r kv c with
        | .error e => .error e
        | .ok b => run (K a b) c := by
  rw [run_bind (exec_inert l kv) hc]
  simp only [ev]
  cases run (exec l kv) c with
  | error e => rfl
  | ok a =>
    simp only []
    rw [run_bind (exec_inert r kv) hc]
    cases run (exec r kv) c <;> rfl

@[simp] theorem run_lift_bind {α β} (x : Except Err α) (f : α → M β) (c : Ctx) :
    run (M.lift x >>= f) c = match x with
      | .ok a => run (f a) c
      | .error e => .error e := by
  cases x <;> rfl

theorem ev_strict2 {op : Op} (hop : isStrict2 op = true) (p : Nat) (l r : Expr) (kv : Pair) {c : Ctx}
    (hc : c.enable = false) :
    ev (.binop p op l r) kv c = strict2 op (retType l == tyTSTR) (ev l kv c) (ev r kv c) := by
  cases op <;> simp [isStrict2] at hop <;> rw [ev, exec] <;> (try split) <;> rw [run_two hc] <;>
    simp only [strict2, kernel2] <;>
    cases ev l kv c <;> (try simp only []) <;>
    cases ev r kv c <;> (try simp only []) <;>
    (try rfl) <;> (try (simp [*]; done)) <;>
    (try rw [run_lift_bind]) <;>
    (try (split <;> (try split) <;> simp_all <;> done))

theorem ev_shortCircuit (p : Nat) (l r : Expr) (kv : Pair) {c : Ctx} (hc : c.enable = false) :
    ev (.binop p .and l r) kv c = shortCircuit true (ev l kv c) (ev r kv c) ∧
    ev (.binop p .kwAnd l r) kv c = shortCircuit true (ev l kv c) (ev r kv c) ∧
    ev (.binop p .or l r) kv c = shortCircuit false (ev l kv c) (ev r kv c) ∧
    ev (.binop p .kwOr l r) kv c = shortCircuit false (ev l kv c) (ev r kv c) := by
  have hl := exec_inert l kv
  have hr := exec_inert r kv
  refine ⟨?_, ?_, ?_, ?_⟩ <;>
    rw [ev, exec] <;>
    rw [run_bind hl hc] <;>
    simp only [ev, shortCircuit] <;>
    cases run (exec l kv) c <;> (try simp only []) <;>
    rw [run_lift_bind] <;>
    rename_i x <;>
    cases asBool x <;> (try simp only []) <;>
    rename_i bx <;>
    cases bx <;> simp <;>
    rw [run_bind hr hc] <;>
    cases run (exec r kv) c <;> (try simp only []) <;>
    rw [run_lift_bind] <;>
    rename_i y <;>
    cases asBool y <;> rfl

/-! ### refinement through the operators -/

theorem kernel2_congr (op : Op) (s : Bool) {a a' b b' : Value} (ha : Rel a' a) (hb : Rel b' b) :
    kernel2 op s a' b' = kernel2 op s a b := by
  cases op <;> simp only [kernel2, ha.equalRow_congr hb, ha.convertToByteArray_congr, hb.convertToByteArray_congr,
    ha.toStringV_congr, hb.toStringV_congr, ha.executeMathOp_congr hb, ha.compareBy_congr hb]

theorem strict2_refines (op : Op) (s : Bool) {a a' b b' : Except Err Value} (ha : Refines a' a) (hb : Refines b' b) :
    Refines (strict2 op s a' b') (strict2 op s a b) := by
  intro v hv
  cases a with
  | error e => simp [strict2] at hv
  | ok x =>
    cases b with
    | error e => simp [strict2] at hv
    | ok y =>
      obtain ⟨x', hx', rx⟩ := ha x rfl
      obtain ⟨y', hy', ry⟩ := hb y rfl
      subst hx' hy'
      simp only [strict2] at hv ⊢
      rw [kernel2_congr op s rx ry]
      exact ⟨v, hv, .refl v⟩

theorem shortCircuit_refines (isAnd : Bool) {a a' b b' : Except Err Value} (ha : Refines a' a) (hb : Refines b' b) :
    Refines (shortCircuit isAnd a' b') (shortCircuit isAnd a b) := by
  intro v hv
  cases a with
  | error e => simp [shortCircuit] at hv
  | ok x =>
    obtain ⟨x', hx', rx⟩ := ha x rfl
    subst hx'
    simp only [shortCircuit, rx.asBool_congr] at hv ⊢
    cases hbx : asBool x with
    | error e => simp [hbx] at hv
    | ok bx =>
      simp only [hbx] at hv ⊢
      by_cases hd : (bx != isAnd) = true
      · simp only [hd, if_true] at hv ⊢
        exact ⟨v, hv, .refl v⟩
      · simp only [hd] at hv ⊢
        cases b with
        | error e => simp at hv
        | ok y =>
          obtain ⟨y', hy', ry⟩ := hb y rfl
          subst hy'
          simp only [ry.asBool_congr] at hv ⊢
          exact ⟨v, by simpa using hv, .refl v⟩

/-! ### `in` and `between`: the right operand is looked at as a tree -/

def isListNode : Expr → Bool
  | .list .. => true
  | _ => false

def isCallRefNode : Expr → Bool
  | .call .. | .ref .. => true
  | _ => false

theorem execInItems_left_congr (number : Bool) {left left' : Value} (h : Rel left' left) (kv : Pair) {c : Ctx}
    (hc : c.enable = false) :
    ∀ items : List Expr, run (execInItems number left' items kv) c = run (execInItems number left items kv) c
  | [] => by simp [execInItems]
  | e :: es => by
    have ih := execInItems_left_congr number h kv hc es
    rw [execInItems, execInItems]
    generalize (if number = true then tyTNUMBER else tyTSTR) = t
    simp only [run_ite]
    split
    · rfl
    · rw [run_bind (exec_inert e kv) hc, run_bind (exec_inert e kv) hc]
      cases run (exec e kv) c with
      | error e => rfl
      | ok lv =>
        simp only [run_lift_bind, h.compareBy_congr (Rel.refl lv)]
        cases compareBy number left lv .eq with
        | error e => rfl
        | ok cmp => cases cmp <;> simp [ih]

/-- the right-hand side of `in` once the left operand has a value -/
def inRight (number : Bool) (left : Value) (r : Expr) (kv : Pair) (c : Ctx) : Except Err Value :=
  match r with
  | .list _ items => run (execInItems number left items kv) c
  | .call .. | .ref .. =>
    if retType r != tyTLIST then .error .operandType
    else
      match ev r kv c with
      | .error e => .error e
      | .ok fret =>
        match unpackArray fret with
        | some vals => .ok (.bool (inAnyList number left vals))
        | none => .error .operandType
  | _ => .error .operandType

theorem ev_in (p : Nat) (l r : Expr) (kv : Pair) {c : Ctx} (hc : c.enable = false) :
    ev (.binop p .in_ l r) kv c = match ev l kv c with
      | .error e => .error e
      | .ok left => inRight (!(retType l == tyTSTR)) left r kv c := by
  rw [ev, exec]
  rw [run_bind (exec_inert l kv) hc]
  simp only [ev]
  cases run (exec l kv) c with
  | error e => rfl
  | ok left =>
    simp only [inRight]
    split
    · rfl
    · simp only [run_ite, run_throw]
      split
      · rfl
      · rw [run_bind (exec_inert _ kv) hc]
        simp only [ev]
        cases run (exec _ kv) c with
        | error e => rfl
        | ok fret => simp only []; split <;> simp_all
    · simp only [run_ite, run_throw]
      split
      · rfl
      · rw [run_bind (exec_inert _ kv) hc]
        simp only [ev]
        cases run (exec _ kv) c with
        | error e => rfl
        | ok fret => simp only []; split <;> simp_all
    · rename_i h1 h2 h3
      simp only [run_throw]

/-- the right-hand side of `between` once the left operand has a value -/
def betweenRight (leftStr : Bool) (left : Value) (r : Expr) (kv : Pair) (c : Ctx) : Except Err Value :=
  match r with
  | .list _ [lo, hi] =>
    let want := if leftStr then tyTSTR else tyTNUMBER
    if retType lo != want then .error .operandType
    else if retType hi != want then .error .operandType
    else
      match ev lo kv c with
      | .error e => .error e
      | .ok lval =>
        match ev hi kv c with
        | .error e => .error e
        | .ok uval => betweenKernel (!leftStr) left lval uval
  | _ => .error .operandType

theorem ev_between (p : Nat) (l r : Expr) (kv : Pair) {c : Ctx} (hc : c.enable = false) :
    ev (.binop p .between l r) kv c = match ev l kv c with
      | .error e => .error e
      | .ok left => betweenRight (retType l == tyTSTR) left r kv c := by
  rw [ev, exec]
  rw [run_bind (exec_inert l kv) hc]
  simp only [ev]
  cases run (exec l kv) c with
  | error e => rfl
  | ok left =>
    simp only [betweenRight]
    split
    · rename_i lo hi
      generalize (if (retType l == tyTSTR) = true then tyTSTR else tyTNUMBER) = want
      simp only [run_ite, run_throw]
      by_cases h1 : (retType lo != want) = true
      · simp only [h1, if_true]
      · by_cases h2 : (retType hi != want) = true
        · simp only [h1, h2, if_true]
        · simp only [h1, h2]
          rw [run_bind (exec_inert lo kv) hc]
          simp only [ev]
          cases run (exec lo kv) c with
          | error e => rfl
          | ok lval =>
            simp only []
            rw [run_bind (exec_inert hi kv) hc]
            cases run (exec hi kv) c with
            | error e => rfl
            | ok uval => rfl
    · simp only [run_throw]

/-- what the folding rewrites guarantee about an operand that `in` / `between` inspect as a tree:
    a list stays as it is; a list-typed call or alias stays a call or alias -/
def ShapeOK (r r' : Expr) : Prop :=
  (isListNode r = true → r' = r) ∧ (isCallRefNode r = true → retType r = tyTLIST → isCallRefNode r' = true)

theorem ShapeOK.refl (r : Expr) : ShapeOK r r := ⟨fun _ => rfl, fun h _ => h⟩

theorem in_refines (p : Nat) {l l' r r' : Expr} (kv : Pair) {c : Ctx} (hc : c.enable = false)
    (hl : Refines (ev l' kv c) (ev l kv c)) (tl : retType l' = retType l)
    (hr : Refines (ev r' kv c) (ev r kv c)) (tr : retType r' = retType r) (sr : ShapeOK r r') :
    Refines (ev (.binop p .in_ l' r') kv c) (ev (.binop p .in_ l r) kv c) := by
  intro v hv
  rw [ev_in p l r kv hc] at hv
  rw [ev_in p l' r' kv hc, tl]
  cases hle : ev l kv c with
  | error e => simp [hle] at hv
  | ok left =>
    obtain ⟨left', hl', rl⟩ := hl left hle
    simp only [hle] at hv
    simp only [hl']
    generalize (!(retType l == tyTSTR)) = number at hv ⊢
    cases r with
    | list q items =>
      have := sr.1 rfl
      subst this
      simp only [inRight] at hv ⊢
      rw [execInItems_left_congr number rl kv hc]
      exact ⟨v, hv, .refl v⟩
    | call q nm args =>
      simp only [inRight] at hv
      split at hv
      · cases hv
      · rename_i hty
        have hty' : retType (Expr.call q nm args) = tyTLIST := by simpa using hty
        have hcr := sr.2 rfl hty'
        cases hre : ev (Expr.call q nm args) kv c with
        | error e => simp [hre] at hv
        | ok fret =>
          obtain ⟨fret', hr', rr⟩ := hr fret hre
          simp only [hre] at hv
          have hin : inRight number left' r' kv c =
              match unpackArray fret' with
              | some vals => .ok (.bool (inAnyList number left' vals))
              | none => .error .operandType := by
            cases r' <;> simp [isCallRefNode] at hcr <;> simp [inRight, tr, hty', hr']
          rw [hin, rr.unpackArray_congr]
          cases hu : unpackArray fret with
          | none => simp [hu] at hv
          | some vals =>
            simp only [hu] at hv ⊢
            rw [inAnyList_rel rl vals]
            exact ⟨v, hv, .refl v⟩
    | ref q nm t =>
      simp only [inRight] at hv
      split at hv
      · cases hv
      · rename_i hty
        have hty' : retType (Expr.ref q nm t) = tyTLIST := by simpa using hty
        have hcr := sr.2 rfl hty'
        cases hre : ev (Expr.ref q nm t) kv c with
        | error e => simp [hre] at hv
        | ok fret =>
          obtain ⟨fret', hr', rr⟩ := hr fret hre
          simp only [hre] at hv
          have hin : inRight number left' r' kv c =
              match unpackArray fret' with
              | some vals => .ok (.bool (inAnyList number left' vals))
              | none => .error .operandType := by
            cases r' <;> simp [isCallRefNode] at hcr <;> simp [inRight, tr, hty', hr']
          rw [hin, rr.unpackArray_congr]
          cases hu : unpackArray fret with
          | none => simp [hu] at hv
          | some vals =>
            simp only [hu] at hv ⊢
            rw [inAnyList_rel rl vals]
            exact ⟨v, hv, .refl v⟩
    | _ => simp [inRight] at hv

theorem between_refines (p : Nat) {l l' r r' : Expr} (kv : Pair) {c : Ctx} (hc : c.enable = false)
    (hl : Refines (ev l' kv c) (ev l kv c)) (tl : retType l' = retType l) (sr : ShapeOK r r') :
    Refines (ev (.binop p .between l' r') kv c) (ev (.binop p .between l r) kv c) := by
  intro v hv
  rw [ev_between p l r kv hc] at hv
  rw [ev_between p l' r' kv hc, tl]
  cases hle : ev l kv c with
  | error e => simp [hle] at hv
  | ok left =>
    obtain ⟨left', hl', rl⟩ := hl left hle
    simp only [hle] at hv
    simp only [hl']
    cases r with
    | list q items =>
      have := sr.1 rfl
      subst this
      match items, hv with
      | [lo, hi], hv =>
        simp only [betweenRight] at hv ⊢
        generalize (if (retType l == tyTSTR) = true then tyTSTR else tyTNUMBER) = want at hv ⊢
        by_cases h1 : (retType lo != want) = true
        · simp only [h1, if_true] at hv; cases hv
        · by_cases h2 : (retType hi != want) = true
          · simp only [h1, h2, if_true] at hv; cases hv
          · simp only [h1, h2] at hv ⊢
            cases hlo : ev lo kv c with
            | error e => simp [hlo] at hv
            | ok lval =>
              cases hhi : ev hi kv c with
              | error e => simp [hlo, hhi] at hv
              | ok uval =>
                simp only [hlo, hhi] at hv ⊢
                rw [rl.betweenKernel_congr (.refl lval) (.refl uval)]
                exact ⟨v, hv, .refl v⟩
      | [], hv => simp [betweenRight] at hv
      | [_], hv => simp [betweenRight] at hv
      | _ :: _ :: _ :: _, hv => simp [betweenRight] at hv
    | _ => simp [betweenRight] at hv

/-- an operator node that is neither a strict operator, nor a connective, nor in / between: `!` as a
    binary operator, which no evaluator handles -/
theorem ev_not_binop (p : Nat) (l r : Expr) (kv : Pair) (c : Ctx) :
    ev (.binop p .not l r) kv c = .error .unknownOp := by
  rw [ev, exec]; rfl

end Fold
end Kvql
