/-
  `x in (e1, e2, …)`: the batch code evaluates every item on the whole chunk (columns) and then
  scans the columns pair by pair; the row code evaluates item after item and stops at a match.
-/
import Kvql.Proofs.ExecVecEqMapMain

namespace Kvql
open Generated

theorem drop_cons_get {α} : ∀ (l : List α) (i : Nat) (a : α) (r : List α),
    l.drop i = a :: r → l[i]? = some a ∧ l.drop (i + 1) = r
  | [], i, a, r, h => by simp at h
  | x :: xs, 0, a, r, h => by simp at h; simp [h.1, h.2]
  | x :: xs, i + 1, a, r, h => by
    have := drop_cons_get xs i a r (by simpa using h)
    simpa using this

def wantType (number : Bool) : Nat := if number then tyTNUMBER else tyTSTR

/-- every column is the batch value of its item, matched row by row -/
def ColsOk (number : Bool) (c : Ctx) (chunk : List Pair) (cols : List (List Value)) (items : List Expr) : Prop :=
  Rows (fun col e => retType e = wantType number ∧ RowsOk e c col chunk) cols items

/-- one pair: the scan of the columns at index `j` is the row loop over the items -/
theorem inColumns_row {number : Bool} {c : Ctx} {chunk : List Pair} {j : Nat} {kv : Pair}
    (hj : chunk[j]? = some kv) {left left' : Value} (hl : Rel left left') :
    ∀ {cols : List (List Value)} {items : List Expr} {b : Bool}, ColsOk number c chunk cols items →
      inColumns number left j cols = .ok b →
      execInItems number left' items kv c = (.ok (.bool b), c) := by
  intro cols items b hc
  induction hc generalizing b with
  | nil =>
    intro h
    simp [inColumns] at h
    subst h
    rw [execInItems]; rfl
  | @cons col e cols items hp _ ih =>
    intro h
    obtain ⟨ht, hrows⟩ := hp
    have hjlt : j < chunk.length := by
      rcases List.getElem?_eq_some_iff.mp hj with ⟨h, _⟩; exact h
    obtain ⟨vb, hvb, vr, hvr, rel⟩ := hrows.get j hjlt
    have hkv : chunk[j] = kv := by
      rcases List.getElem?_eq_some_iff.mp hj with ⟨_, h⟩; exact h
    rw [hkv] at hvr
    unfold inColumns at h
    rw [hvb] at h
    dsimp only at h
    rw [hl.compareBy_congr rel] at h
    rw [execInItems]
    have htt : (retType e != if number = true then tyTNUMBER else tyTSTR) = false := by
      simp [wantType] at ht; simp [ht]
    simp only [htt, Bool.false_eq_true, if_false]
    rw [M.bind_ok hvr]
    cases hcmp : compareBy number left' vr .eq with
    | error err => rw [hcmp] at h; cases h
    | ok cc =>
      rw [hcmp] at h
      cases cc
      · dsimp only at h
        simp only [M.lift_run, M.bind_run]
        simpa using ih h
      · dsimp only at h
        cases h
        simp [M.bind_run]

theorem inRows_rows {number : Bool} {cols : List (List Value)} {chunk : List Pair} {Pa : Value → Pair → Prop} :
    ∀ {suffix : List Pair} {ls : List Value}, Rows Pa ls suffix → ∀ {i : Nat} {ys : List Value},
      chunk.drop i = suffix → inRows number cols suffix.length i ls = .ok ys →
      Rows (fun y kv => ∃ a b j, Pa a kv ∧ chunk[j]? = some kv ∧ inColumns number a j cols = .ok b ∧ y = .bool b)
        ys suffix := by
  intro suffix ls hr
  induction hr with
  | nil =>
    intro i ys _ h
    simp [inRows] at h; subst h; exact .nil
  | @cons a kv as rest hp _ ih =>
    intro i ys hd h
    obtain ⟨hget, hdrop⟩ := drop_cons_get chunk i kv rest hd
    simp only [List.length_cons, inRows] at h
    cases hc : inColumns number a i cols with
    | error e => simp [hc] at h; cases h
    | ok b =>
      cases hm : inRows number cols rest.length (i + 1) as with
      | error e => simp [hc, hm] at h; cases h
      | ok ys' =>
        simp [hc, hm] at h
        have : ys = .bool b :: ys' := by cases h; rfl
        subst this
        exact .cons ⟨a, b, i, hp, hget, hc, rfl⟩ (ih hdrop hm)

/-- the ListExpr branch of `execInBatch` against `execStringIn` / `execNumberIn` -/
theorem in_list_case {p q : Nat} {l : Expr} {items : List Expr} (ihl : VecEqMap l)
    (ihitems : ∀ (chunk : List Pair) (c : Ctx), c.enable = false → ∀ cols c',
      execInItemsBatch (!(retType l == tyTSTR)) items chunk c = (.ok cols, c') →
      c' = c ∧ ColsOk (!(retType l == tyTSTR)) c chunk cols items) :
    VecEqMap (.binop p .in_ l (.list q items)) := by
  intro chunk c hc vs c' h
  rw [execBatch] at h
  obtain ⟨rleft, c1, ha, h1⟩ := bind_ok_inv h
  obtain ⟨e1, Ra⟩ := ihl chunk c hc _ _ ha
  rw [e1] at h1
  dsimp only at h1
  obtain ⟨cols, c2, hb, h2⟩ := bind_ok_inv h1
  obtain ⟨e2, hcols⟩ := ihitems chunk c hc _ _ hb
  rw [e2] at h2
  obtain ⟨hm, e3⟩ := lift_ok_inv h2
  refine ⟨e3, ?_⟩
  have := inRows_rows (chunk := chunk) Ra (i := 0) (by simp) hm
  refine this.imp ?_
  rintro y kv ⟨a, b, j, ⟨a', hx, rx⟩, hj, hcol, rfl⟩
  refine ⟨.bool b, ?_, .refl _⟩
  rw [exec]
  simp only [M.bind_ok hx]
  exact inColumns_row hj rx hcols hcol

end Kvql
