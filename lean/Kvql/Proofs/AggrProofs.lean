/-
  Lemmas about the model of aggregate_plan.go / aggr_func.go (`Kvql.Aggr`), property C09.
-/
import Kvql.Model.Aggregate

set_option linter.unusedSimpArgs false

namespace Kvql.Proofs.Aggr

open Kvql Kvql.Aggr

/-! ### the Except monad, computed -/

@[simp] theorem bind_ok {ε α β : Type} (x : α) (f : α → Except ε β) : (Except.ok x >>= f) = f x := rfl
@[simp] theorem bind_error {ε α β : Type} (e : ε) (f : α → Except ε β) : (Except.error e >>= f) = .error e := rfl
@[simp] theorem map_ok {ε α β : Type} (x : α) (f : α → β) : f <$> (Except.ok x : Except ε α) = .ok (f x) := rfl
@[simp] theorem map_error {ε α β : Type} (e : ε) (f : α → β) : f <$> (Except.error e : Except ε α) = .error e := rfl
@[simp] theorem pure_eq_ok {ε α : Type} (x : α) : (pure x : Except ε α) = .ok x := rfl

/-! ## (a) the length-prefixed group key is injective -/

theorem natDec_ne_nil (n : Nat) : natDec n ≠ [] := by
  fun_induction natDec n <;> simp

theorem natDec_digits (n : Nat) : ∀ c ∈ natDec n, isDigit c = true := by
  fun_induction natDec n with
  | case1 n h =>
    intro c hc
    simp at hc
    subst hc
    simp [isDigit]
    have : (UInt8.ofNat (48 + n)).toNat = 48 + n := by
      simp [UInt8.toNat_ofNat']; omega
    constructor <;> (rw [UInt8.le_iff_toNat_le]; simp; try omega)
  | case2 n h ih =>
    intro c hc
    simp at hc
    rcases hc with hc | hc
    · exact ih c hc
    · subst hc
      simp [isDigit]
      have : (UInt8.ofNat (48 + n % 10)).toNat = 48 + n % 10 := by
        simp [UInt8.toNat_ofNat']; omega
      constructor <;> (rw [UInt8.le_iff_toNat_le]; simp; try omega)

theorem digitsVal_snoc (ds : Bytes) (c : UInt8) :
    digitsVal (ds ++ [c]) = digitsVal ds * 10 + (c.toNat - 48) := by
  simp [digitsVal, List.foldl_append]

theorem digitsVal_natDec (n : Nat) : digitsVal (natDec n) = n := by
  fun_induction natDec n with
  | case1 n h =>
    have : (UInt8.ofNat (48 + n)).toNat = 48 + n := by
      simp [UInt8.toNat_ofNat']; omega
    simp [digitsVal]; omega
  | case2 n h ih =>
    have : (UInt8.ofNat (48 + n % 10)).toNat = 48 + n % 10 := by
      simp [UInt8.toNat_ofNat']; omega
    rw [digitsVal_snoc, ih, this]; omega

theorem natDec_injective {a b : Nat} (h : natDec a = natDec b) : a = b := by
  have := congrArg digitsVal h
  simpa [digitsVal_natDec] using this

/-- two digit runs followed by a colon: the runs and the rests agree -/
theorem digits_colon_inj : ∀ (d1 d2 r1 r2 : Bytes), (∀ c ∈ d1, isDigit c = true) → (∀ c ∈ d2, isDigit c = true) →
    d1 ++ 58 :: r1 = d2 ++ 58 :: r2 → d1 = d2 ∧ r1 = r2
  | [], [], r1, r2, _, _, h => by simpa using h
  | [], c :: d2, r1, r2, _, h2, h => by
    simp at h
    have := h2 c (by simp)
    rw [← h.1] at this
    simp [isDigit] at this
  | c :: d1, [], r1, r2, h1, _, h => by
    simp at h
    have := h1 c (by simp)
    rw [h.1] at this
    simp [isDigit] at this
  | c :: d1, c' :: d2, r1, r2, h1, h2, h => by
    simp at h
    have := digits_colon_inj d1 d2 r1 r2 (fun x hx => h1 x (by simp [hx])) (fun x hx => h2 x (by simp [hx])) h.2
    simp [h.1, this]

/-- one part of the key -/
def keyPart (b : Bytes) : Bytes := natDec b.length ++ 58 :: b

/-- the key of a tuple of group values (what `getAggrKey` builds when every value converts) -/
def aggrKeyOf (vals : List Bytes) : Bytes := (vals.map keyPart).flatten

theorem foldl_appendAggrKeyPart (vals : List Bytes) (k : Bytes) :
    vals.foldl appendAggrKeyPart k = k ++ aggrKeyOf vals := by
  induction vals generalizing k with
  | nil => simp [aggrKeyOf]
  | cons v vs ih => simp [ih, appendAggrKeyPart, aggrKeyOf, keyPart]

theorem aggrKeyOf_injective : ∀ (vs ws : List Bytes), aggrKeyOf vs = aggrKeyOf ws → vs = ws
  | [], [], _ => rfl
  | [], w :: ws, h => by
    have := natDec_ne_nil w.length
    simp [aggrKeyOf, keyPart] at h
  | v :: vs, [], h => by
    have := natDec_ne_nil v.length
    simp [aggrKeyOf, keyPart] at h
  | v :: vs, w :: ws, h => by
    simp only [aggrKeyOf, List.map_cons, List.flatten_cons, keyPart, List.append_assoc, List.cons_append] at h
    have h1 := digits_colon_inj _ _ _ _ (natDec_digits v.length) (natDec_digits w.length) h
    have hl : v.length = w.length := natDec_injective h1.1
    have h2 := List.append_inj h1.2 hl
    rw [h2.1, aggrKeyOf_injective vs ws h2.2]

/-! ## (c) the accumulators compute their definitions -/

/-- the accumulator of kind `k` after it has seen the argument values `vs` in this order -/
def fold (k : Kind) (vs : List AVal) : Acc := vs.foldl Acc.update k.init

/-- an `int` behaves like an `int64` everywhere in the aggregation -/
theorem update_goInt (a : Acc) (i : Int64) : a.update (.goInt i) = a.update (.int i) := by
  cases a <;> rfl

theorem foldl_count (vs : List AVal) (n : Int64) :
    vs.foldl Acc.update (.count n) = .count (n + Int64.ofNat vs.length) := by
  induction vs generalizing n with
  | nil => simp
  | cons v vs ih =>
    simp only [List.foldl_cons, Acc.update, ih, List.length_cons, Int64.ofNat_add, Int64.add_assoc]
    congr 2
    exact Int64.add_comm _ _

theorem acc_count (vs : List AVal) :
    (fold .count vs).complete = .ok (.int (Int64.ofNat vs.length)) := by
  simp [fold, Kind.init, foldl_count, Acc.complete]

theorem foldl_add_eq_sum (xs : List Int64) (a : Int64) : xs.foldl (· + ·) a = a + xs.sum := by
  induction xs generalizing a with
  | nil => simp
  | cons x xs ih => simp [ih, Int64.add_assoc]

theorem foldl_sum_int (xs : List Int64) (isum : Int64) (fsum : F64) :
    (xs.map AVal.int).foldl Acc.update (.sum isum fsum false) =
      .sum (isum + xs.sum) (xs.foldl (fun f x => F64.add f (F64.ofInt x)) fsum) false := by
  induction xs generalizing isum fsum with
  | nil => simp
  | cons x xs ih => simp [Acc.update, convertToNumber, ih, Int64.add_assoc]

/-- sum over int64 arguments = their sum in `Int64` (wrapping like Go) -/
theorem acc_sum_int (xs : List Int64) :
    (fold .sum (xs.map AVal.int)).complete = .ok (.int xs.sum) := by
  simp [fold, Kind.init, foldl_sum_int, Acc.complete]

theorem foldl_sum_float (fs : List F64) (isum : Int64) (fsum : F64) (b : Bool) :
    ∃ i, (fs.map AVal.float).foldl Acc.update (.sum isum fsum b) =
      .sum i (fs.foldl F64.add fsum) (b || !fs.isEmpty) := by
  induction fs generalizing isum fsum b with
  | nil => exact ⟨isum, by simp⟩
  | cons f fs ih =>
    obtain ⟨i, hi⟩ := ih (isum + f64ToInt64 f) (F64.add fsum f) true
    exact ⟨i, by simp [Acc.update, convertToNumber, hi]⟩

/-- sum over float64 arguments (at least one) = the left-to-right float sum starting from 0 -/
theorem acc_sum_float (fs : List F64) (h : fs ≠ []) :
    (fold .sum (fs.map AVal.float)).complete = .ok (.float (fs.foldl F64.add F64.zero)) := by
  obtain ⟨i, hi⟩ := foldl_sum_float fs 0 F64.zero false
  cases fs with
  | nil => exact absurd rfl h
  | cons f fs =>
    rw [fold, show Kind.init .sum = Acc.sum 0 F64.zero false from rfl, hi]
    simp [Acc.complete]

theorem foldl_avg_int (xs : List Int64) (isum : Int64) (fsum : F64) (cnt : Int64) :
    ∃ f, (xs.map AVal.int).foldl Acc.update (.avg isum fsum cnt false) =
      .avg (isum + xs.sum) f (cnt + Int64.ofNat xs.length) false := by
  induction xs generalizing isum fsum cnt with
  | nil => exact ⟨fsum, by simp⟩
  | cons x xs ih =>
    obtain ⟨f, hf⟩ := ih (isum + x) (F64.add fsum (F64.ofInt x)) (cnt + 1)
    refine ⟨f, ?_⟩
    simp only [List.map_cons, List.foldl_cons, Acc.update, convertToNumber, Bool.or_false, hf,
      List.sum_cons, List.length_cons, Int64.ofNat_add, Int64.add_assoc]
    congr 2
    exact Int64.add_comm _ _

/-- avg over int64 arguments = float64(sum) / float64(count) -/
theorem acc_avg_int (xs : List Int64) :
    (fold .avg (xs.map AVal.int)).complete =
      .ok (.float (F64.div (F64.ofInt xs.sum) (F64.ofInt (Int64.ofNat xs.length)))) := by
  obtain ⟨f, hf⟩ := foldl_avg_int xs 0 F64.zero 0
  simp [fold, Kind.init, hf, Acc.complete]

theorem foldl_avg_float (fs : List F64) (isum : Int64) (fsum : F64) (cnt : Int64) (b : Bool) :
    ∃ i, (fs.map AVal.float).foldl Acc.update (.avg isum fsum cnt b) =
      .avg i (fs.foldl F64.add fsum) (cnt + Int64.ofNat fs.length) (b || !fs.isEmpty) := by
  induction fs generalizing isum fsum cnt b with
  | nil => exact ⟨isum, by simp⟩
  | cons f fs ih =>
    obtain ⟨i, hi⟩ := ih (isum + f64ToInt64 f) (F64.add fsum f) (cnt + 1) true
    refine ⟨i, ?_⟩
    simp only [List.map_cons, List.foldl_cons, Acc.update, convertToNumber, Bool.or_true, hi,
      List.length_cons, Int64.ofNat_add, Int64.add_assoc, List.isEmpty_cons, Bool.not_false]
    congr 2
    exact Int64.add_comm _ _

/-- avg over float64 arguments (at least one) = left-to-right float sum / float64(count) -/
theorem acc_avg_float (fs : List F64) (h : fs ≠ []) :
    (fold .avg (fs.map AVal.float)).complete =
      .ok (.float (F64.div (fs.foldl F64.add F64.zero) (F64.ofInt (Int64.ofNat fs.length)))) := by
  obtain ⟨i, hi⟩ := foldl_avg_float fs 0 F64.zero 0 false
  cases fs with
  | nil => exact absurd rfl h
  | cons f fs =>
    rw [fold, show Kind.init .avg = Acc.avg 0 F64.zero 0 false from rfl, hi]
    simp [Acc.complete]

theorem foldl_min_int (xs : List Int64) (m : Int64) (fm : F64) :
    ∃ m' f', (xs.map AVal.int).foldl Acc.update (.min m fm false true) = .min m' f' false true ∧
      (m' = m ∨ m' ∈ xs) ∧ m' ≤ m ∧ ∀ y ∈ xs, m' ≤ y := by
  induction xs generalizing m fm with
  | nil => exact ⟨m, fm, by simp, by simp, Int64.le_refl _, by simp⟩
  | cons x xs ih =>
    by_cases hx : x < m
    · obtain ⟨m', f', h1, h2, h3, h4⟩ := ih x (F64.ofInt x)
      refine ⟨m', f', by simp [Acc.update, convertToNumber, hx, h1], ?_, ?_, ?_⟩
      · rcases h2 with h2 | h2 <;> simp [h2]
      · exact Int64.le_trans h3 (Int64.le_of_lt hx)
      · intro y hy
        simp at hy
        rcases hy with rfl | hy
        · exact h3
        · exact h4 y hy
    · obtain ⟨m', f', h1, h2, h3, h4⟩ := ih m fm
      refine ⟨m', f', by simp [Acc.update, convertToNumber, hx, h1], ?_, h3, ?_⟩
      · rcases h2 with h2 | h2 <;> simp [h2]
      · intro y hy
        simp at hy
        rcases hy with rfl | hy
        · exact Int64.le_trans h3 (Int64.not_lt.mp hx)
        · exact h4 y hy

/-- min over int64 arguments = the least of them -/
theorem acc_min_int (x : Int64) (xs : List Int64) :
    ∃ m, (fold .min ((x :: xs).map AVal.int)).complete = .ok (.int m) ∧ m ∈ x :: xs ∧ ∀ y ∈ x :: xs, m ≤ y := by
  obtain ⟨m', f', h1, h2, h3, h4⟩ := foldl_min_int xs x (F64.ofInt x)
  refine ⟨m', ?_, ?_, ?_⟩
  · simp only [fold, Kind.init, List.map_cons, List.foldl_cons]
    rw [show (Acc.min 0 F64.zero false false).update (AVal.int x) = .min x (F64.ofInt x) false true from rfl, h1]
    rfl
  · rcases h2 with h2 | h2 <;> simp [h2]
  · intro y hy
    simp at hy
    rcases hy with rfl | hy
    · exact h3
    · exact h4 y hy

theorem foldl_max_int (xs : List Int64) (m : Int64) (fm : F64) :
    ∃ m' f', (xs.map AVal.int).foldl Acc.update (.max m fm false true) = .max m' f' false true ∧
      (m' = m ∨ m' ∈ xs) ∧ m ≤ m' ∧ ∀ y ∈ xs, y ≤ m' := by
  induction xs generalizing m fm with
  | nil => exact ⟨m, fm, by simp, by simp, Int64.le_refl _, by simp⟩
  | cons x xs ih =>
    by_cases hx : m < x
    · obtain ⟨m', f', h1, h2, h3, h4⟩ := ih x (F64.ofInt x)
      refine ⟨m', f', by simp [Acc.update, convertToNumber, hx, h1], ?_, ?_, ?_⟩
      · rcases h2 with h2 | h2 <;> simp [h2]
      · exact Int64.le_trans (Int64.le_of_lt hx) h3
      · intro y hy
        simp at hy
        rcases hy with rfl | hy
        · exact h3
        · exact h4 y hy
    · obtain ⟨m', f', h1, h2, h3, h4⟩ := ih m fm
      refine ⟨m', f', by simp [Acc.update, convertToNumber, hx, h1], ?_, h3, ?_⟩
      · rcases h2 with h2 | h2 <;> simp [h2]
      · intro y hy
        simp at hy
        rcases hy with rfl | hy
        · exact Int64.le_trans (Int64.not_lt.mp hx) h3
        · exact h4 y hy

/-- max over int64 arguments = the greatest of them -/
theorem acc_max_int (x : Int64) (xs : List Int64) :
    ∃ m, (fold .max ((x :: xs).map AVal.int)).complete = .ok (.int m) ∧ m ∈ x :: xs ∧ ∀ y ∈ x :: xs, y ≤ m := by
  obtain ⟨m', f', h1, h2, h3, h4⟩ := foldl_max_int xs x (F64.ofInt x)
  refine ⟨m', ?_, ?_, ?_⟩
  · simp only [fold, Kind.init, List.map_cons, List.foldl_cons]
    rw [show (Acc.max 0 F64.zero false false).update (AVal.int x) = .max x (F64.ofInt x) false true from rfl, h1]
    rfl
  · rcases h2 with h2 | h2 <;> simp [h2]
  · intro y hy
    simp at hy
    rcases hy with rfl | hy
    · exact h3
    · exact h4 y hy

/-- what the float min/max theorems need of `F64.lt` / `F64.le` on the values of the group: a strict
    total order (IEEE comparison is one as long as no NaN is among the values) -/
structure FloatOrder (fs : List F64) : Prop where
  irrefl : ∀ a ∈ fs, F64.lt a a = false
  trans : ∀ a ∈ fs, ∀ b ∈ fs, ∀ c ∈ fs, F64.lt a b = true → F64.lt b c = true → F64.lt a c = true
  /-- trichotomy (no NaN): not below means above or equal -/
  total : ∀ a ∈ fs, ∀ b ∈ fs, F64.lt a b = false → F64.le b a = true

theorem foldl_min_float (all fs : List F64) (ho : FloatOrder all) (hsub : ∀ y ∈ fs, y ∈ all)
    (i : Int64) (m : F64) (hm : m ∈ all) :
    ∃ i' m', (fs.map AVal.float).foldl Acc.update (.min i m true true) = .min i' m' true true ∧
      m' ∈ all ∧ (m' = m ∨ F64.lt m' m = true) ∧ ∀ y ∈ fs, F64.lt y m' = false := by
  induction fs generalizing i m with
  | nil => exact ⟨i, m, by simp, hm, .inl rfl, by simp⟩
  | cons x xs ih =>
    have hxall : x ∈ all := hsub x (by simp)
    have hsub' : ∀ y ∈ xs, y ∈ all := fun y hy => hsub y (by simp [hy])
    cases hx : F64.lt x m with
    | true =>
      obtain ⟨i', m', h1, h2, h3, h4⟩ := ih hsub' (f64ToInt64 x) x hxall
      refine ⟨i', m', by simp [Acc.update, convertToNumber, hx, h1], h2, ?_, ?_⟩
      · rcases h3 with rfl | h3
        · exact .inr hx
        · exact .inr (ho.trans m' h2 x hxall m hm h3 hx)
      · intro y hy
        simp at hy
        rcases hy with rfl | hy
        · rcases h3 with rfl | h3
          · exact ho.irrefl _ hxall
          · cases h : F64.lt y m' with
            | false => rfl
            | true =>
              have := ho.trans y hxall m' h2 y hxall h h3
              simp [ho.irrefl y hxall] at this
        · exact h4 y hy
    | false =>
      obtain ⟨i', m', h1, h2, h3, h4⟩ := ih hsub' i m hm
      refine ⟨i', m', by simp [Acc.update, convertToNumber, hx, h1], h2, h3, ?_⟩
      intro y hy
      simp at hy
      rcases hy with rfl | hy
      · rcases h3 with rfl | h3
        · exact hx
        · cases h : F64.lt y m' with
          | false => rfl
          | true =>
            have := ho.trans y hxall m' h2 m hm h h3
            simp [this] at hx
      · exact h4 y hy

/-- min over float64 arguments = a least element w.r.t. the float order (hypothesis: the values of the
    group are strictly totally ordered by `<`, i.e. no NaN) -/
theorem acc_min_float (f : F64) (fs : List F64) (ho : FloatOrder (f :: fs)) :
    ∃ m, (fold .min ((f :: fs).map AVal.float)).complete = .ok (.float m) ∧ m ∈ f :: fs ∧
      ∀ y ∈ f :: fs, F64.le m y = true := by
  obtain ⟨i', m', h1, h2, h3, h4⟩ := foldl_min_float (f :: fs) fs ho (fun y hy => by simp [hy]) (f64ToInt64 f) f (by simp)
  refine ⟨m', ?_, h2, ?_⟩
  · simp only [fold, Kind.init, List.map_cons, List.foldl_cons]
    rw [show (Acc.min 0 F64.zero false false).update (AVal.float f) = .min (f64ToInt64 f) f true true from rfl, h1]
    rfl
  · intro y hy
    apply ho.total y hy m' h2
    simp at hy
    rcases hy with rfl | hy
    · rcases h3 with rfl | h3
      · exact ho.irrefl _ h2
      · cases h : F64.lt y m' with
        | false => rfl
        | true =>
          have := ho.trans y (by simp) m' h2 y (by simp) h h3
          simp [ho.irrefl y (by simp)] at this
    · exact h4 y hy

theorem foldl_max_float (all fs : List F64) (ho : FloatOrder all) (hsub : ∀ y ∈ fs, y ∈ all)
    (i : Int64) (m : F64) (hm : m ∈ all) :
    ∃ i' m', (fs.map AVal.float).foldl Acc.update (.max i m true true) = .max i' m' true true ∧
      m' ∈ all ∧ (m' = m ∨ F64.lt m m' = true) ∧ ∀ y ∈ fs, F64.lt m' y = false := by
  induction fs generalizing i m with
  | nil => exact ⟨i, m, by simp, hm, .inl rfl, by simp⟩
  | cons x xs ih =>
    have hxall : x ∈ all := hsub x (by simp)
    have hsub' : ∀ y ∈ xs, y ∈ all := fun y hy => hsub y (by simp [hy])
    cases hx : F64.lt m x with
    | true =>
      obtain ⟨i', m', h1, h2, h3, h4⟩ := ih hsub' (f64ToInt64 x) x hxall
      refine ⟨i', m', by simp [Acc.update, convertToNumber, hx, h1], h2, ?_, ?_⟩
      · rcases h3 with rfl | h3
        · exact .inr hx
        · exact .inr (ho.trans m hm x hxall m' h2 hx h3)
      · intro y hy
        simp at hy
        rcases hy with rfl | hy
        · rcases h3 with rfl | h3
          · exact ho.irrefl _ hxall
          · cases h : F64.lt m' y with
            | false => rfl
            | true =>
              have := ho.trans y hxall m' h2 y hxall h3 h
              simp [ho.irrefl y hxall] at this
        · exact h4 y hy
    | false =>
      obtain ⟨i', m', h1, h2, h3, h4⟩ := ih hsub' i m hm
      refine ⟨i', m', by simp [Acc.update, convertToNumber, hx, h1], h2, h3, ?_⟩
      intro y hy
      simp at hy
      rcases hy with rfl | hy
      · rcases h3 with rfl | h3
        · exact hx
        · cases h : F64.lt m' y with
          | false => rfl
          | true =>
            have := ho.trans m hm m' h2 y hxall h3 h
            simp [this] at hx
      · exact h4 y hy

/-- max over float64 arguments = a greatest element (same hypothesis as for min) -/
theorem acc_max_float (f : F64) (fs : List F64) (ho : FloatOrder (f :: fs)) :
    ∃ m, (fold .max ((f :: fs).map AVal.float)).complete = .ok (.float m) ∧ m ∈ f :: fs ∧
      ∀ y ∈ f :: fs, F64.le y m = true := by
  obtain ⟨i', m', h1, h2, h3, h4⟩ := foldl_max_float (f :: fs) fs ho (fun y hy => by simp [hy]) (f64ToInt64 f) f (by simp)
  refine ⟨m', ?_, h2, ?_⟩
  · simp only [fold, Kind.init, List.map_cons, List.foldl_cons]
    rw [show (Acc.max 0 F64.zero false false).update (AVal.float f) = .max (f64ToInt64 f) f true true from rfl, h1]
    rfl
  · intro y hy
    apply ho.total m' h2 y hy
    simp at hy
    rcases hy with rfl | hy
    · rcases h3 with rfl | h3
      · exact ho.irrefl _ h2
      · cases h : F64.lt m' y with
        | false => rfl
        | true =>
          have := ho.trans y (by simp) m' h2 y (by simp) h3 h
          simp [ho.irrefl y (by simp)] at this
    · exact h4 y hy

theorem foldl_concat (vs : List AVal) (sep : Bytes) (items : List Bytes) :
    vs.foldl Acc.update (.concat sep items) = .concat sep (items ++ vs.map toStr) := by
  induction vs generalizing items with
  | nil => simp
  | cons v vs ih => simp [Acc.update, ih]

/-- group_concat = `strings.Join` of the `toString` of the arguments, in order, for ANY arguments -/
theorem acc_concat (sep : Bytes) (vs : List AVal) :
    (fold (.concat sep) vs).complete = .ok (.str (List.intercalate sep (vs.map toStr))) := by
  simp [fold, Kind.init, foldl_concat, Acc.complete]

theorem foldl_arrayagg (vs : List AVal) (items : List JItem) :
    vs.foldl Acc.update (.arrayagg items) = .arrayagg (items ++ vs.map JItem.ofVal) := by
  induction vs generalizing items with
  | nil => simp
  | cons v vs ih => simp [Acc.update, ih]

/-- json_arrayagg = the JSON array of the arguments in order, for ANY arguments (an element that
    JSON cannot express — NaN, ±Inf — makes the whole call fail) -/
theorem acc_arrayagg (vs : List AVal) :
    (fold .arrayagg vs).complete =
      match (vs.map JItem.ofVal).mapM JItem.render with
      | some rs => .ok (.str ([91] ++ List.intercalate [44] rs ++ [93]))
      | none => .error .marshal := by
  simp only [fold, Kind.init, foldl_arrayagg, Acc.complete, jsonArray, List.nil_append]
  cases (vs.map JItem.ofVal).mapM JItem.render <;> rfl

/-- … over int64 arguments: `[n₁,n₂,…]` in decimal -/
theorem acc_arrayagg_int (xs : List Int64) :
    (fold .arrayagg (xs.map AVal.int)).complete =
      .ok (.str ([91] ++ List.intercalate [44] (xs.map int64Dec) ++ [93])) := by
  rw [acc_arrayagg]
  have : ((xs.map AVal.int).map JItem.ofVal).mapM JItem.render = some (xs.map int64Dec) := by
    induction xs with
    | nil => rfl
    | cons x xs ih =>
      simp only [List.map_cons, List.mapM_cons, ih]
      rfl
  rw [this]

/-! ## (b) prepare partitions the pairs by key, groups in order of first occurrence -/

/-- the distinct elements in order of first occurrence -/
def firsts {α : Type} [DecidableEq α] : List α → List α
  | [] => []
  | a :: as => a :: (firsts as).filter (fun b => decide (b ≠ a))

theorem mem_firsts {α : Type} [DecidableEq α] (k : α) (ks : List α) : k ∈ firsts ks ↔ k ∈ ks := by
  induction ks with
  | nil => simp [firsts]
  | cons a as ih =>
    simp only [firsts, List.mem_cons, List.mem_filter, ih, decide_eq_true_eq]
    by_cases h : k = a <;> simp [h]

theorem firsts_nodup {α : Type} [DecidableEq α] (ks : List α) : (firsts ks).Nodup := by
  induction ks with
  | nil => simp [firsts]
  | cons a as ih =>
    simp only [firsts, List.nodup_cons, List.mem_filter, decide_eq_true_eq, ne_eq, not_true_eq_false,
      and_false, not_false_eq_true, true_and]
    exact ih.filter _

theorem firsts_snoc {α : Type} [DecidableEq α] (ks : List α) (k : α) :
    firsts (ks ++ [k]) = if k ∈ ks then firsts ks else firsts ks ++ [k] := by
  induction ks with
  | nil => simp [firsts]
  | cons a as ih =>
    simp only [List.cons_append, firsts, ih, List.mem_cons]
    by_cases h1 : k ∈ as
    · simp [h1]
    · by_cases h2 : k = a
      · subst h2; simp [h1]
      · simp [h1, h2, List.filter_append]

section
variable {P : Type} (ev : Eval P) (pl : Plan)

/-- the key under which a pair is filed -/
def keyD (p : P) : Bytes :=
  match getAggrKey ev pl p with
  | .ok k => k
  | .error _ => []

theorem keyD_eq {p : P} {k : Bytes} (h : getAggrKey ev pl p = .ok k) : keyD ev pl p = k := by
  simp [keyD, h]

/-- the row of one group: created on its first pair, then updated with each of its pairs in order -/
def groupRow (ps : List P) : Except Err Row :=
  match ps with
  | [] => .error .malformed
  | p :: _ => do
    let row ← createAggrRow ev pl p
    ps.foldlM (fun r q => updateRow ev q r) row

theorem groupRow_snoc {ps : List P} (hne : ps ≠ []) (p : P) (row row' : Row)
    (h : groupRow ev pl ps = .ok row) (hu : updateRow ev p row = .ok row') :
    groupRow ev pl (ps ++ [p]) = .ok row' := by
  cases ps with
  | nil => exact absurd rfl hne
  | cons q qs =>
    simp only [groupRow, List.cons_append] at h ⊢
    cases hc : createAggrRow ev pl q with
    | error e => simp [hc] at h
    | ok r0 =>
      simp only [hc, bind_ok, map_ok, pure_eq_ok] at h ⊢
      have h' : List.foldlM (fun r q => updateRow ev q r) r0 (q :: qs) = .ok row := h
      show List.foldlM (fun r q => updateRow ev q r) r0 ((q :: qs) ++ [p]) = .ok row'
      rw [List.foldlM_append, h']
      simp [hu]

/-- what `prepare` maintains: the keys are the distinct keys of the pairs seen, in order of first
    occurrence, and every group's row is `groupRow` of exactly its pairs -/
structure Inv (gs : Groups) (seen : List P) : Prop where
  keys : gs.map Prod.fst = firsts (seen.map (keyD ev pl))
  rows : ∀ k row, (k, row) ∈ gs → groupRow ev pl (seen.filter (fun q => keyD ev pl q == k)) = .ok row

theorem lookup_none {gs : Groups} {k : Bytes} (h : gs.lookup k = none) : k ∉ gs.map Prod.fst := by
  induction gs with
  | nil => simp
  | cons g gs ih =>
    obtain ⟨k', r⟩ := g
    simp only [List.lookup_cons] at h
    split at h
    · simp at h
    · rename_i hne
      simp only [List.map_cons, List.mem_cons, not_or]
      exact ⟨by simpa using hne, ih h⟩

theorem lookup_some {gs : Groups} {k : Bytes} {row : Row} (h : gs.lookup k = some row) : (k, row) ∈ gs := by
  induction gs with
  | nil => simp at h
  | cons g gs ih =>
    obtain ⟨k', r⟩ := g
    simp only [List.lookup_cons] at h
    split at h
    · rename_i heq
      have : k = k' := by simpa using heq
      simp at h
      simp [this, h]
    · exact List.mem_cons_of_mem _ (ih h)

theorem setRow_keys (k : Bytes) (row : Row) (gs : Groups) : (setRow k row gs).map Prod.fst = gs.map Prod.fst := by
  induction gs with
  | nil => rfl
  | cons g gs ih =>
    obtain ⟨k', r⟩ := g
    simp only [setRow]
    split <;> simp [ih]

theorem mem_setRow {k : Bytes} {row : Row} {gs : Groups} (hnd : (gs.map Prod.fst).Nodup)
    {k' : Bytes} {r : Row} (h : (k', r) ∈ setRow k row gs) :
    (k' = k ∧ r = row) ∨ (k' ≠ k ∧ (k', r) ∈ gs) := by
  induction gs with
  | nil => simp [setRow] at h
  | cons g gs ih =>
    obtain ⟨k0, r0⟩ := g
    simp only [List.map_cons, List.nodup_cons] at hnd
    simp only [setRow] at h
    split at h
    · rename_i heq
      have hk : k0 = k := by simpa using heq
      simp only [List.mem_cons, Prod.mk.injEq] at h
      rcases h with ⟨h1, h2⟩ | h
      · exact .inl ⟨h1.trans hk, h2⟩
      · right
        have : k' ∈ gs.map Prod.fst := List.mem_map.mpr ⟨(k', r), h, rfl⟩
        refine ⟨?_, List.mem_cons_of_mem _ h⟩
        intro hkk
        exact hnd.1 (by rw [hk, ← hkk]; exact this)
    · rename_i hne
      have hk : k0 ≠ k := by simpa using hne
      simp only [List.mem_cons, Prod.mk.injEq] at h
      rcases h with ⟨h1, h2⟩ | h
      · exact .inr ⟨by rw [h1]; exact hk, by simp [h1, h2]⟩
      · rcases ih hnd.2 h with h | h
        · exact .inl h
        · exact .inr ⟨h.1, List.mem_cons_of_mem _ h.2⟩

theorem Inv.nodup {gs : Groups} {seen : List P} (h : Inv ev pl gs seen) : (gs.map Prod.fst).Nodup := by
  rw [h.keys]; exact firsts_nodup _

theorem filter_snoc_other {seen : List P} {p : P} {k k' : Bytes} (hk : keyD ev pl p = k) (hne : k' ≠ k) :
    (seen ++ [p]).filter (fun q => keyD ev pl q == k') = seen.filter (fun q => keyD ev pl q == k') := by
  have : (keyD ev pl p == k') = false := by
    rw [hk]; simpa using fun h => hne h.symm
  simp [List.filter_append, this]

theorem filter_snoc_same {seen : List P} {p : P} {k : Bytes} (hk : keyD ev pl p = k) :
    (seen ++ [p]).filter (fun q => keyD ev pl q == k) = seen.filter (fun q => keyD ev pl q == k) ++ [p] := by
  simp [List.filter_append, hk]

/-- one pair -/
theorem absorb_inv {gs gs' : Groups} {seen : List P} {p : P} {k : Bytes} (hinv : Inv ev pl gs seen)
    (hk : getAggrKey ev pl p = .ok k) (h : absorb ev pl gs k p = .ok gs') : Inv ev pl gs' (seen ++ [p]) := by
  have hkd : keyD ev pl p = k := keyD_eq ev pl hk
  unfold absorb at h
  cases hl : gs.lookup k with
  | some row =>
    simp only [hl] at h
    cases hu : updateRow ev p row with
    | error e => simp [hu] at h
    | ok row' =>
      simp only [hu, bind_ok, map_ok, pure_eq_ok] at h
      have hgs : gs' = setRow k row' gs := by
        have : (Except.ok (setRow k row' gs) : Except Err Groups) = .ok gs' := h
        injection this with this
        exact this.symm
      subst hgs
      have hmem : (k, row) ∈ gs := lookup_some hl
      have hkin : k ∈ seen.map (keyD ev pl) := by
        rw [← mem_firsts, ← hinv.keys]
        exact List.mem_map.mpr ⟨(k, row), hmem, rfl⟩
      constructor
      · rw [setRow_keys, hinv.keys, List.map_append]
        simp [hkin, hkd, firsts_snoc]
      · intro k' r hr
        rcases mem_setRow (hinv.nodup ev pl) hr with ⟨h1, h2⟩ | ⟨h1, h2⟩
        · subst h1 h2
          rw [filter_snoc_same ev pl hkd]
          apply groupRow_snoc ev pl _ p row _ (hinv.rows _ _ hmem) hu
          obtain ⟨q, hq, hqk⟩ := List.mem_map.mp hkin
          intro hnil
          have : q ∈ seen.filter (fun q => keyD ev pl q == k') := by
            simp [List.mem_filter, hq, hqk]
          rw [hnil] at this
          simp at this
        · rw [filter_snoc_other ev pl hkd h1]
          exact hinv.rows _ _ h2
  | none =>
    simp only [hl] at h
    cases hc : createAggrRow ev pl p with
    | error e => simp [hc] at h
    | ok row0 =>
      simp only [hc, bind_ok, map_ok, pure_eq_ok] at h
      cases hu : updateRow ev p row0 with
      | error e => simp [hu] at h
      | ok row' =>
        simp only [hu, bind_ok, map_ok, pure_eq_ok] at h
        have hgs : gs' = gs ++ [(k, row')] := by
          have : (Except.ok (gs ++ [(k, row')]) : Except Err Groups) = .ok gs' := h
          injection this with this
          exact this.symm
        subst hgs
        have hnot : k ∉ seen.map (keyD ev pl) := by
          rw [← mem_firsts, ← hinv.keys]
          exact lookup_none hl
        constructor
        · rw [List.map_append, hinv.keys, List.map_append]
          simp [hnot, hkd, firsts_snoc]
        · intro k' r hr
          simp only [List.mem_append, List.mem_singleton, Prod.mk.injEq] at hr
          rcases hr with hr | ⟨h1, h2⟩
          · have hk' : k' ≠ k := by
              intro hkk
              apply lookup_none hl
              rw [← hkk]
              exact List.mem_map.mpr ⟨(k', r), hr, rfl⟩
            rw [filter_snoc_other ev pl hkd hk']
            exact hinv.rows _ _ hr
          · subst h1 h2
            rw [filter_snoc_same ev pl hkd]
            have : seen.filter (fun q => keyD ev pl q == k') = [] := by
              rw [List.filter_eq_nil_iff]
              intro q hq hqk
              apply hnot
              exact List.mem_map.mpr ⟨q, hq, by simpa using hqk⟩
            rw [this]
            simp [groupRow, hc, hu]

theorem prepare_inv {gs gs' : Groups} {seen rest : List P} (hinv : Inv ev pl gs seen)
    (h : prepare ev pl gs rest = .ok gs') :
    Inv ev pl gs' (seen ++ rest) ∧ ∀ p ∈ rest, getAggrKey ev pl p = .ok (keyD ev pl p) := by
  induction rest generalizing gs seen with
  | nil =>
    simp only [prepare] at h
    injection h with h
    subst h
    simpa using hinv
  | cons p ps ih =>
    simp only [prepare] at h
    cases hk : getAggrKey ev pl p with
    | error e => simp [hk] at h
    | ok k =>
      simp only [hk, bind_ok, map_ok, pure_eq_ok] at h
      cases ha : absorb ev pl gs k p with
      | error e => simp [ha] at h
      | ok gs1 =>
        simp only [ha, bind_ok, map_ok, pure_eq_ok] at h
        have := ih (absorb_inv ev pl hinv hk ha) h
        refine ⟨by simpa using this.1, ?_⟩
        intro q hq
        simp at hq
        rcases hq with rfl | hq
        · rw [hk, keyD_eq ev pl hk]
        · exact this.2 q hq

theorem inv_nil : Inv ev pl [] ([] : List P) := ⟨by simp [firsts], by simp⟩

/-- `prepare`: one group per distinct key, in order of first occurrence; the row of every group is
    built from exactly the pairs with that key, in arrival order -/
theorem prepare_partition {pairs : List P} {gs : Groups} (h : prepare ev pl [] pairs = .ok gs) :
    (∀ p ∈ pairs, getAggrKey ev pl p = .ok (keyD ev pl p)) ∧
    gs.map Prod.fst = firsts (pairs.map (keyD ev pl)) ∧
    ∀ k row, (k, row) ∈ gs → groupRow ev pl (pairs.filter (fun q => keyD ev pl q == k)) = .ok row := by
  have := prepare_inv ev pl (inv_nil ev pl) h
  simp only [List.nil_append] at this
  exact ⟨this.2, this.1.keys, this.1.rows⟩

/-! ### keys and tuples of group values -/

/-- the j-th GROUP BY value of a pair, as `convertToBytes` renders it -/
def gbytes (j : Nat) (p : P) : Except Err Bytes := ev.group j p >>= convertToBytes

/-- the tuple of GROUP BY values of a pair -/
def gtuple (p : P) : Except Err (List Bytes) := (List.range pl.nGroups).mapM (fun j => gbytes ev j p)

theorem getAggrKeyLoop_eq (p : P) (js : List Nat) (k : Bytes) :
    getAggrKeyLoop ev p js k = (fun bs => k ++ aggrKeyOf bs) <$> js.mapM (fun j => gbytes ev j p) := by
  induction js generalizing k with
  | nil => simp [getAggrKeyLoop, aggrKeyOf]
  | cons j js ih =>
    simp only [getAggrKeyLoop, List.mapM_cons]
    have hgb : gbytes ev j p = (ev.group j p >>= convertToBytes) := rfl
    cases hgv : ev.group j p with
    | error e => simp [hgb, hgv]
    | ok v =>
      cases hcv : convertToBytes v with
      | error e => simp [hgb, hgv, hcv]
      | ok b =>
        simp only [hgb, hgv, hcv, bind_ok, ih]
        cases js.mapM (fun j => gbytes ev j p) with
        | error e => rfl
        | ok bs => simp [appendAggrKeyPart, aggrKeyOf, keyPart]

theorem getAggrKey_grouped (hg : pl.aggrAll = false) (p : P) :
    getAggrKey ev pl p = aggrKeyOf <$> gtuple ev pl p := by
  simp [getAggrKey, hg, getAggrKeyLoop_eq, gtuple]

theorem keyD_grouped (hg : pl.aggrAll = false) {p : P} {vs : List Bytes} (h : gtuple ev pl p = .ok vs) :
    keyD ev pl p = aggrKeyOf vs := by
  simp [keyD, getAggrKey_grouped ev pl hg, h]

/-- two pairs are filed under the same key iff all their GROUP BY values are equal -/
theorem same_key_iff (hg : pl.aggrAll = false) {p q : P} {vs ws : List Bytes}
    (hp : gtuple ev pl p = .ok vs) (hq : gtuple ev pl q = .ok ws) :
    keyD ev pl p = keyD ev pl q ↔ vs = ws := by
  rw [keyD_grouped ev pl hg hp, keyD_grouped ev pl hg hq]
  exact ⟨aggrKeyOf_injective vs ws, fun h => by rw [h]⟩

theorem firsts_const {α : Type} [DecidableEq α] (k : α) (ks : List α) (h : ∀ x ∈ ks, x = k) :
    firsts ks = if ks = [] then [] else [k] := by
  induction ks with
  | nil => simp [firsts]
  | cons a as ih =>
    have ha : a = k := h a (by simp)
    have ih' := ih (fun x hx => h x (by simp [hx]))
    simp only [firsts, ih', ha]
    split <;> simp

/-- without GROUP BY everything is one group; no pair, no row -/
theorem aggrAll_groups (ha : pl.aggrAll = true) {pairs : List P} {gs : Groups}
    (h : prepare ev pl [] pairs = .ok gs) :
    (pairs = [] → gs = []) ∧
    (pairs ≠ [] → ∃ row, gs = [(defaultAggrKey, row)] ∧ groupRow ev pl pairs = .ok row) := by
  obtain ⟨_, h2, h3⟩ := prepare_partition ev pl h
  have hk : ∀ p : P, keyD ev pl p = defaultAggrKey := by
    intro p; simp [keyD, getAggrKey, ha]
  have hf := firsts_const defaultAggrKey (pairs.map (keyD ev pl)) (by
    intro x hx
    obtain ⟨p, _, rfl⟩ := List.mem_map.mp hx
    exact hk p)
  rw [hf] at h2
  constructor
  · intro hp
    subst hp
    simpa using h2
  · intro hp
    have : ¬ pairs.map (keyD ev pl) = [] := by simpa using hp
    simp only [this, if_false] at h2
    match gs, h2, h3 with
    | [(k, row)], h2, h3 =>
      simp at h2
      subst h2
      refine ⟨row, rfl, ?_⟩
      have := h3 defaultAggrKey row (by simp)
      have hall : pairs.filter (fun q => keyD ev pl q == defaultAggrKey) = pairs := by
        rw [List.filter_eq_self]
        intro q _
        simp [hk q]
      rwa [hall] at this

/-! ### what is inside a group's row -/

/-- `Update` called once per pair with the evaluated argument (or the evaluation error) -/
def steps (a : Acc) (args : List (Except Err AVal)) : Except Err Acc := args.foldlM Acc.step a

theorem updateAccs_spec (i : Nat) (p : P) : ∀ (c0 : Nat) (accs accs' : List Acc),
    updateAccs ev i p c0 accs = .ok accs' →
    accs'.length = accs.length ∧
    ∀ (m : Nat) (a : Acc), accs[m]? = some a → ∃ a', Acc.step a (ev.arg i (c0 + m) p) = Except.ok a' ∧ accs'[m]? = some a'
  | c0, [], accs', h => by
    simp only [updateAccs] at h
    injection h with h
    subst h
    simp
  | c0, a :: as, accs', h => by
    simp only [updateAccs] at h
    cases hs : a.step (ev.arg i c0 p) with
    | error e => simp [hs] at h
    | ok a1 =>
      simp only [hs, bind_ok] at h
      cases hr : updateAccs ev i p (c0 + 1) as with
      | error e => simp [hr] at h
      | ok as1 =>
        simp only [hr, bind_ok, pure_eq_ok] at h
        injection h with h
        subst h
        obtain ⟨h1, h2⟩ := updateAccs_spec i p (c0 + 1) as as1 hr
        refine ⟨by simp [h1], ?_⟩
        intro m a0 hm
        cases m with
        | zero =>
          simp at hm
          subst hm
          exact ⟨a1, by simpa using hs, by simp⟩
        | succ m =>
          simp at hm
          obtain ⟨a', h3, h4⟩ := h2 m a0 hm
          exact ⟨a', by rw [← h3]; congr 2; omega, by simpa using h4⟩

theorem updateCols_spec (p : P) : ∀ (i0 : Nat) (row row' : Row),
    updateCols ev p i0 row = .ok row' →
    row'.length = row.length ∧
    (∀ (n : Nat) (b : Bytes), row[n]? = some (Col.key b) → row'[n]? = some (Col.key b)) ∧
    (∀ (n : Nat) (accs : List Acc) (e : AggExpr), row[n]? = some (Col.agg accs e) →
      ∃ accs', updateAccs ev (i0 + n) p 0 accs = .ok accs' ∧ row'[n]? = some (Col.agg accs' e))
  | i0, [], row', h => by
    simp only [updateCols] at h
    injection h with h
    subst h
    simp
  | i0, .key v :: cs, row', h => by
    simp only [updateCols] at h
    cases hr : updateCols ev p (i0 + 1) cs with
    | error e => simp [hr] at h
    | ok rest =>
      simp only [hr, bind_ok, pure_eq_ok] at h
      injection h with h
      subst h
      obtain ⟨h1, h2, h3⟩ := updateCols_spec p (i0 + 1) cs rest hr
      refine ⟨by simp [h1], ?_, ?_⟩
      · intro n b hn
        cases n with
        | zero => simpa using hn
        | succ n => simpa using h2 n b (by simpa using hn)
      · intro n accs e hn
        cases n with
        | zero => simp at hn
        | succ n =>
          obtain ⟨accs', h4, h5⟩ := h3 n accs e (by simpa using hn)
          exact ⟨accs', by rw [← h4]; congr 1; omega, by simpa using h5⟩
  | i0, .agg accs0 e0 :: cs, row', h => by
    simp only [updateCols] at h
    cases ha : updateAccs ev i0 p 0 accs0 with
    | error e => simp [ha] at h
    | ok accs1 =>
      simp only [ha, bind_ok] at h
      cases hr : updateCols ev p (i0 + 1) cs with
      | error e => simp [hr] at h
      | ok rest =>
        simp only [hr, bind_ok, pure_eq_ok] at h
        injection h with h
        subst h
        obtain ⟨h1, h2, h3⟩ := updateCols_spec p (i0 + 1) cs rest hr
        refine ⟨by simp [h1], ?_, ?_⟩
        · intro n b hn
          cases n with
          | zero => simp at hn
          | succ n => simpa using h2 n b (by simpa using hn)
        · intro n accs e hn
          cases n with
          | zero =>
            simp at hn
            obtain ⟨rfl, rfl⟩ := hn
            exact ⟨accs1, by simpa using ha, by simp⟩
          | succ n =>
            obtain ⟨accs', h4, h5⟩ := h3 n accs e (by simpa using hn)
            exact ⟨accs', by rw [← h4]; congr 1; omega, by simpa using h5⟩

theorem createCols_spec (p : P) : ∀ (i0 : Nat) (fs : List Field) (row : Row),
    createCols ev p i0 fs = .ok row →
    row.length = fs.length ∧
    (∀ (n : Nat), fs[n]? = some Field.key →
      ∃ v b, ev.keyField (i0 + n) p = .ok v ∧ convertToBytes v = .ok b ∧ row[n]? = some (Col.key b)) ∧
    (∀ (n : Nat) (calls : List Kind) (e : AggExpr), fs[n]? = some (Field.agg calls e) →
      row[n]? = some (Col.agg (calls.map Kind.init) e))
  | i0, [], row, h => by
    simp only [createCols] at h
    injection h with h
    subst h
    simp
  | i0, .key :: fs, row, h => by
    simp only [createCols] at h
    cases hv : ev.keyField i0 p with
    | error e => simp [hv] at h
    | ok v =>
      simp only [hv, bind_ok] at h
      cases hb : convertToBytes v with
      | error e => simp [hb] at h
      | ok b =>
        simp only [hb, bind_ok] at h
        cases hr : createCols ev p (i0 + 1) fs with
        | error e => simp [hr] at h
        | ok rest =>
          simp only [hr, bind_ok, pure_eq_ok] at h
          injection h with h
          subst h
          obtain ⟨h1, h2, h3⟩ := createCols_spec p (i0 + 1) fs rest hr
          refine ⟨by simp [h1], ?_, ?_⟩
          · intro n hn
            cases n with
            | zero => exact ⟨v, b, by simpa using hv, hb, by simp⟩
            | succ n =>
              obtain ⟨v', b', h4, h5, h6⟩ := h2 n (by simpa using hn)
              exact ⟨v', b', by rw [← h4]; congr 1; omega, h5, by simpa using h6⟩
          · intro n calls e hn
            cases n with
            | zero => simp at hn
            | succ n => simpa using h3 n calls e (by simpa using hn)
  | i0, .agg calls0 e0 :: fs, row, h => by
    simp only [createCols] at h
    cases hr : createCols ev p (i0 + 1) fs with
    | error e => simp [hr] at h
    | ok rest =>
      simp only [hr, bind_ok, pure_eq_ok] at h
      injection h with h
      subst h
      obtain ⟨h1, h2, h3⟩ := createCols_spec p (i0 + 1) fs rest hr
      refine ⟨by simp [h1], ?_, ?_⟩
      · intro n hn
        cases n with
        | zero => simp at hn
        | succ n =>
          obtain ⟨v', b', h4, h5, h6⟩ := h2 n (by simpa using hn)
          exact ⟨v', b', by rw [← h4]; congr 1; omega, h5, by simpa using h6⟩
      · intro n calls e hn
        cases n with
        | zero =>
          simp at hn
          obtain ⟨rfl, rfl⟩ := hn
          simp
        | succ n => simpa using h3 n calls e (by simpa using hn)

/-- updating a row with the pairs `ps` one after the other -/
theorem foldUpdate_spec : ∀ (ps : List P) (row row' : Row),
    ps.foldlM (fun r q => updateRow ev q r) row = .ok row' →
    row'.length = row.length ∧
    (∀ (n : Nat) (b : Bytes), row[n]? = some (Col.key b) → row'[n]? = some (Col.key b)) ∧
    (∀ (n : Nat) (accs : List Acc) (e : AggExpr), row[n]? = some (Col.agg accs e) →
      ∃ accs', row'[n]? = some (Col.agg accs' e) ∧ accs'.length = accs.length ∧
        ∀ (m : Nat) (a : Acc), accs[m]? = some a →
          ∃ a', steps a (ps.map (fun q => ev.arg n m q)) = .ok a' ∧ accs'[m]? = some a')
  | [], row, row', h => by
    simp only [List.foldlM_nil, pure_eq_ok] at h
    injection h with h
    subst h
    refine ⟨rfl, fun _ _ h => h, ?_⟩
    intro n accs e hn
    exact ⟨accs, hn, rfl, fun m a hm => ⟨a, by simp [steps], hm⟩⟩
  | p :: ps, row, row', h => by
    simp only [List.foldlM_cons] at h
    cases hu : updateRow ev p row with
    | error e => simp [hu] at h
    | ok row1 =>
      simp only [hu, bind_ok] at h
      obtain ⟨h1, h2, h3⟩ := updateCols_spec ev p 0 row row1 hu
      obtain ⟨g1, g2, g3⟩ := foldUpdate_spec ps row1 row' h
      refine ⟨by rw [g1, h1], fun n b hn => g2 n b (h2 n b hn), ?_⟩
      intro n accs e hn
      obtain ⟨accs1, ha, hr1⟩ := h3 n accs e hn
      obtain ⟨accs', hr', hl', hs'⟩ := g3 n accs1 e hr1
      obtain ⟨hl1, hs1⟩ := updateAccs_spec ev (0 + n) p 0 accs accs1 ha
      refine ⟨accs', hr', by rw [hl', hl1], ?_⟩
      intro m a hm
      obtain ⟨a1, hst, ha1⟩ := hs1 m a hm
      obtain ⟨a', hst', ha'⟩ := hs' m a1 ha1
      refine ⟨a', ?_, ha'⟩
      simp only [Nat.zero_add] at hst
      simp [steps, List.foldlM_cons, hst]
      exact hst'

theorem steps_count (n : Int64) (args : List (Except Err AVal)) :
    steps (.count n) args = .ok (.count (n + Int64.ofNat args.length)) := by
  induction args generalizing n with
  | nil => simp [steps]
  | cons x xs ih =>
    have : steps (.count n) (x :: xs) = steps (.count (n + 1)) xs := by
      simp [steps, List.foldlM_cons, Acc.step]
    rw [this, ih]
    simp only [List.length_cons, Int64.ofNat_add, Int64.add_assoc]
    congr 3
    exact Int64.add_comm _ _

def isCount : Acc → Bool
  | .count _ => true
  | _ => false

theorem isCount_update (a : Acc) (v : AVal) : isCount (a.update v) = isCount a := by
  cases a <;> simp only [Acc.update] <;> (try simp only [apply_ite isCount]) <;> simp [isCount]

theorem step_notCount {a : Acc} (h : isCount a = false) (x : Except Err AVal) : a.step x = x.map a.update := by
  cases a <;> simp_all [isCount, Acc.step]

/-- for every accumulator but count: the updates succeed iff every argument evaluates, and then the
    state is the fold of `Update` over the argument values -/
theorem steps_notCount {a : Acc} (h : isCount a = false) (args : List (Except Err AVal)) (a' : Acc) :
    steps a args = .ok a' ↔ ∃ vs : List AVal, args = vs.map Except.ok ∧ a' = vs.foldl Acc.update a := by
  induction args generalizing a with
  | nil =>
    simp only [steps, List.foldlM_nil, pure_eq_ok]
    constructor
    · intro h; injection h with h; exact ⟨[], rfl, h.symm⟩
    · rintro ⟨vs, h1, h2⟩
      cases vs with
      | nil => simp at h2; rw [h2]
      | cons v vs => simp at h1
  | cons x xs ih =>
    have hs : steps a (x :: xs) = (a.step x >>= fun a1 => steps a1 xs) := by
      simp [steps, List.foldlM_cons]
    rw [hs, step_notCount h]
    cases x with
    | error e =>
      simp only [Except.map, bind_error]
      constructor
      · intro h; cases h
      · rintro ⟨vs, h1, _⟩
        cases vs with
        | nil => simp at h1
        | cons v vs => simp at h1
    | ok v =>
      simp only [Except.map, bind_ok]
      rw [ih (by rw [isCount_update]; exact h)]
      constructor
      · rintro ⟨vs, h1, h2⟩
        exact ⟨v :: vs, by simp [h1], by simp [h2]⟩
      · rintro ⟨vs, h1, h2⟩
        cases vs with
        | nil => simp at h1
        | cons w ws =>
          simp at h1
          obtain ⟨rfl, h1⟩ := h1
          exact ⟨ws, h1, by simpa using h2⟩

theorem isCount_init (k : Kind) : isCount k.init = (k == .count) := by
  cases k <;> rfl

/-- the accumulators of a group have seen exactly the group's pairs in arrival order: count has
    counted them, every other accumulator is the fold of its `Update` over the values of its
    argument on those pairs -/
theorem groupRow_accs {ps : List P} {row : Row} (h : groupRow ev pl ps = .ok row)
    {n : Nat} {calls : List Kind} {e : AggExpr} (hf : pl.fields[n]? = some (Field.agg calls e)) :
    ∃ accs, row[n]? = some (Col.agg accs e) ∧ accs.length = calls.length ∧
      ∀ (m : Nat) (k : Kind), calls[m]? = some k →
        (k = .count → accs[m]? = some (.count (Int64.ofNat ps.length))) ∧
        (k ≠ .count → ∃ vs : List AVal, ps.map (fun q => ev.arg n m q) = vs.map Except.ok ∧ accs[m]? = some (fold k vs)) := by
  cases ps with
  | nil => simp [groupRow] at h
  | cons p0 ps0 =>
    simp only [groupRow] at h
    cases hc : createAggrRow ev pl p0 with
    | error e => simp [hc] at h
    | ok row0 =>
      simp only [hc, bind_ok] at h
      obtain ⟨_, _, c3⟩ := createCols_spec ev p0 0 pl.fields row0 hc
      have hr0 := c3 n calls e hf
      obtain ⟨_, _, f3⟩ := foldUpdate_spec ev (p0 :: ps0) row0 row h
      obtain ⟨accs, hr, hl, hs⟩ := f3 n _ e hr0
      refine ⟨accs, hr, by simpa using hl, ?_⟩
      intro m k hk
      have hi : (calls.map Kind.init)[m]? = some k.init := by simp [hk]
      obtain ⟨a', hst, ha'⟩ := hs m k.init hi
      constructor
      · intro hkc
        subst hkc
        simp only [Kind.init, steps_count] at hst
        injection hst with hst
        rw [ha', ← hst]
        simp
      · intro hkc
        have hnc : isCount k.init = false := by
          rw [isCount_init]; simpa using hkc
        obtain ⟨vs, h1, h2⟩ := (steps_notCount hnc _ a').mp hst
        exact ⟨vs, h1, by rw [ha', h2]; rfl⟩

/-- (e) a key field shows the value the field has on the group's first pair -/
theorem groupRow_key {p0 : P} {ps : List P} {row : Row} (h : groupRow ev pl (p0 :: ps) = .ok row)
    {n : Nat} (hf : pl.fields[n]? = some Field.key) :
    ∃ v b, ev.keyField n p0 = .ok v ∧ convertToBytes v = .ok b ∧ row[n]? = some (Col.key b) := by
  simp only [groupRow] at h
  cases hc : createAggrRow ev pl p0 with
  | error e => simp [hc] at h
  | ok row0 =>
    simp only [hc, bind_ok] at h
    obtain ⟨_, c2, _⟩ := createCols_spec ev p0 0 pl.fields row0 hc
    obtain ⟨v, b, h1, h2, h3⟩ := c2 n hf
    obtain ⟨_, f2, _⟩ := foldUpdate_spec ev (p0 :: ps) row0 row h
    exact ⟨v, b, by simpa using h1, h2, f2 n b h3⟩

end

/-! ## (d) row mode and batch mode build the same groups -/

/-- the value of a successful evaluation -/
def okD {ε α : Type} (d : α) : Except ε α → α
  | .ok v => v
  | .error _ => d

theorem mapM_ok {ε α β : Type} (d : β) (f : α → Except ε β) : ∀ (l : List α) (ys : List β),
    l.mapM f = .ok ys → ys = l.map (fun x => okD d (f x)) ∧ ∀ x ∈ l, f x = .ok (okD d (f x))
  | [], ys, h => by
    simp only [List.mapM_nil, pure_eq_ok] at h
    injection h with h
    subst h
    simp
  | a :: l, ys, h => by
    simp only [List.mapM_cons] at h
    cases ha : f a with
    | error e => simp [ha] at h
    | ok b =>
      simp only [ha, bind_ok] at h
      cases hl : l.mapM f with
      | error e => simp [hl] at h
      | ok bs =>
        simp only [hl, bind_ok, pure_eq_ok] at h
        injection h with h
        subst h
        obtain ⟨h1, h2⟩ := mapM_ok d f l bs hl
        refine ⟨by rw [List.map_cons, ha, ← h1]; rfl, ?_⟩
        intro x hx
        simp at hx
        rcases hx with rfl | hx
        · simp [ha, okD]
        · exact h2 x hx

theorem mapM_of_ok {ε α β : Type} (f : α → Except ε β) (g : α → β) : ∀ (l : List α),
    (∀ x ∈ l, f x = .ok (g x)) → l.mapM f = .ok (l.map g)
  | [], _ => by simp
  | a :: l, h => by
    simp only [List.mapM_cons, h a (by simp), bind_ok,
      mapM_of_ok f g l (fun x hx => h x (by simp [hx])), pure_eq_ok, List.map_cons]

theorem mapM_congr {ε α β : Type} (f g : α → Except ε β) : ∀ (l : List α),
    (∀ x ∈ l, f x = g x) → l.mapM f = l.mapM g
  | [], _ => by simp
  | a :: l, h => by
    simp only [List.mapM_cons, h a (by simp), mapM_congr f g l (fun x hx => h x (by simp [hx]))]

section
variable {P : Type} (ev : Eval P) (pl : Plan)

/-- the value of a GROUP BY expression on a pair (when it evaluates) -/
def gval (j : Nat) (p : P) : AVal := okD AVal.nil (ev.group j p)

theorem keyOfVals_eq_loop (p : P) : ∀ (js : List Nat) (k : Bytes),
    (∀ j ∈ js, ev.group j p = .ok (gval ev j p)) →
    keyOfVals (js.map (fun j => gval ev j p)) k = getAggrKeyLoop ev p js k
  | [], k, _ => rfl
  | j :: js, k, h => by
    simp only [List.map_cons, keyOfVals, getAggrKeyLoop, h j (by simp), bind_ok]
    cases convertToBytes (gval ev j p) with
    | error e => rfl
    | ok b =>
      simp only [bind_ok]
      exact keyOfVals_eq_loop p js _ (fun j' hj => h j' (by simp [hj]))

theorem loop_ok_groups (p : P) : ∀ (js : List Nat) (k k' : Bytes),
    getAggrKeyLoop ev p js k = .ok k' → ∀ j ∈ js, ev.group j p = .ok (gval ev j p)
  | [], _, _, _ => by simp
  | j :: js, k, k', h => by
    simp only [getAggrKeyLoop] at h
    cases hg : ev.group j p with
    | error e => simp [hg] at h
    | ok v =>
      simp only [hg, bind_ok] at h
      cases hb : convertToBytes v with
      | error e => simp [hb] at h
      | ok b =>
        simp only [hb, bind_ok] at h
        intro j' hj'
        simp at hj'
        rcases hj' with rfl | hj'
        · simp [gval, hg, okD]
        · exact loop_ok_groups p js _ _ h j' hj'

/-- the second loop of `batchGetAggrKeys` on the evaluated columns = the keys pair by pair -/
theorem keysOfCols_eq (js : List Nat) : ∀ (chunk : List P),
    keysOfCols chunk.length (js.map (fun j => chunk.map (fun p => gval ev j p))) =
      chunk.mapM (fun p => keyOfVals (js.map (fun j => gval ev j p)) [])
  | [] => by simp [keysOfCols]
  | p :: ps => by
    simp only [List.length_cons, keysOfCols, List.map_map, List.mapM_cons]
    have h1 : (js.map ((fun c => c.headD AVal.nil) ∘ fun j => (p :: ps).map (fun p => gval ev j p))) =
        js.map (fun j => gval ev j p) := by
      apply List.map_congr_left; intro j _; simp
    have h2 : (js.map (List.tail ∘ fun j => (p :: ps).map (fun p => gval ev j p))) =
        js.map (fun j => ps.map (fun p => gval ev j p)) := by
      apply List.map_congr_left; intro j _; simp
    rw [h1, h2, keysOfCols_eq js ps]

/-- when every GROUP BY expression evaluates on every pair of the chunk, `batchGetAggrKeys`
    computes the keys `getAggrKey` computes -/
theorem batchKeys_of_groups_ok (hg : pl.aggrAll = false) (chunk : List P)
    (h : ∀ j ∈ List.range pl.nGroups, ∀ p ∈ chunk, ev.group j p = .ok (gval ev j p)) :
    batchGetAggrKeys ev pl chunk = chunk.mapM (getAggrKey ev pl) := by
  simp only [batchGetAggrKeys, hg, Bool.false_eq_true, if_false]
  have h1 : (List.range pl.nGroups).mapM (fun j => chunk.mapM (fun p => ev.group j p)) =
      .ok ((List.range pl.nGroups).map (fun j => chunk.map (fun p => gval ev j p))) := by
    apply mapM_of_ok
    intro j hj
    apply mapM_of_ok
    intro p hp
    exact h j hj p hp
  rw [h1, bind_ok, keysOfCols_eq]
  apply mapM_congr
  intro p hp
  rw [keyOfVals_eq_loop ev p _ _ (fun j hj => h j hj p hp)]
  simp [getAggrKey, hg]

theorem batchKeys_iff (chunk : List P) (keys : List Bytes) :
    batchGetAggrKeys ev pl chunk = .ok keys ↔ chunk.mapM (getAggrKey ev pl) = .ok keys := by
  cases hg : pl.aggrAll with
  | true =>
    have : chunk.mapM (getAggrKey ev pl) = .ok (chunk.map (fun _ => defaultAggrKey)) := by
      apply mapM_of_ok
      intro p _
      simp [getAggrKey, hg]
    simp [batchGetAggrKeys, hg, this]
  | false =>
    constructor
    · intro h
      have h' := h
      simp only [batchGetAggrKeys, hg, Bool.false_eq_true, if_false] at h'
      cases hc : (List.range pl.nGroups).mapM (fun j => chunk.mapM (fun p => ev.group j p)) with
      | error e => simp [hc] at h'
      | ok cols =>
        obtain ⟨_, hall⟩ := mapM_ok [] _ _ _ hc
        have hgr : ∀ j ∈ List.range pl.nGroups, ∀ p ∈ chunk, ev.group j p = .ok (gval ev j p) := by
          intro j hj p hp
          exact (mapM_ok AVal.nil _ _ _ (hall j hj)).2 p hp
        rw [← batchKeys_of_groups_ok ev pl hg chunk hgr]
        exact h
    · intro h
      obtain ⟨_, hall⟩ := mapM_ok [] _ _ _ h
      have hgr : ∀ j ∈ List.range pl.nGroups, ∀ p ∈ chunk, ev.group j p = .ok (gval ev j p) := by
        intro j hj p hp
        have := hall p hp
        simp only [getAggrKey, hg, Bool.false_eq_true, if_false] at this
        exact loop_ok_groups ev p _ _ _ this j hj
      rw [batchKeys_of_groups_ok ev pl hg chunk hgr]
      exact h

theorem prepare_append (gs : Groups) (a b : List P) :
    prepare ev pl gs (a ++ b) = (prepare ev pl gs a >>= fun gs' => prepare ev pl gs' b) := by
  induction a generalizing gs with
  | nil => simp [prepare]
  | cons p ps ih =>
    simp only [List.cons_append, prepare]
    cases getAggrKey ev pl p with
    | error e => rfl
    | ok k =>
      simp only [bind_ok]
      cases absorb ev pl gs k p with
      | error e => rfl
      | ok gs1 => simp only [bind_ok, ih]

/-- `prepare` over a chunk = looking up all keys first and then absorbing, when it succeeds -/
theorem prepare_chunk_iff (gs gs' : Groups) (chunk : List P) :
    prepare ev pl gs chunk = .ok gs' ↔
      ∃ keys, chunk.mapM (getAggrKey ev pl) = .ok keys ∧ absorbChunk ev pl gs (keys.zip chunk) = .ok gs' := by
  induction chunk generalizing gs with
  | nil =>
    simp only [prepare, List.mapM_nil, pure_eq_ok]
    constructor
    · intro h; exact ⟨[], rfl, by simpa [absorbChunk] using h⟩
    · rintro ⟨keys, h1, h2⟩
      injection h1 with h1
      subst h1
      simpa [absorbChunk] using h2
  | cons p ps ih =>
    simp only [prepare, List.mapM_cons]
    cases hk : getAggrKey ev pl p with
    | error e => simp
    | ok k =>
      simp only [bind_ok]
      constructor
      · intro h
        cases ha : absorb ev pl gs k p with
        | error e => simp [ha] at h
        | ok gs1 =>
          simp only [ha, bind_ok] at h
          obtain ⟨keys, h1, h2⟩ := (ih gs1).mp h
          exact ⟨k :: keys, by simp [h1], by simp [absorbChunk, ha, h2]⟩
      · rintro ⟨keys, h1, h2⟩
        cases hm : ps.mapM (getAggrKey ev pl) with
        | error e => simp [hm] at h1
        | ok ks =>
          simp only [hm, bind_ok, pure_eq_ok] at h1
          injection h1 with h1
          subst h1
          simp only [List.zip_cons_cons, absorbChunk] at h2
          cases ha : absorb ev pl gs k p with
          | error e => simp [ha] at h2
          | ok gs1 =>
            simp only [ha, bind_ok] at h2 ⊢
            exact (ih gs1).mpr ⟨ks, hm, h2⟩

/-- (d) `prepareBatch` over any chunking builds exactly the groups `prepare` builds from the same
    pairs (the chunks up to the first empty one, which is how a child says "no more") -/
theorem prepareBatch_iff (gs gs' : Groups) (chunks : List (List P)) :
    prepareBatch ev pl gs chunks = .ok gs' ↔
      prepare ev pl gs (chunks.takeWhile (fun c => !c.isEmpty)).flatten = .ok gs' := by
  induction chunks generalizing gs with
  | nil => simp [prepareBatch, prepare]
  | cons chunk rest ih =>
    by_cases hc : chunk.isEmpty = true
    · simp [prepareBatch, hc, prepare]
    · simp only [prepareBatch, hc, Bool.false_eq_true, if_false, List.takeWhile_cons, Bool.not_eq_true] at *
      simp only [hc, Bool.not_false, if_true, List.flatten_cons, prepare_append]
      constructor
      · intro h
        cases hk : batchGetAggrKeys ev pl chunk with
        | error e => simp [hk] at h
        | ok keys =>
          simp only [hk, bind_ok] at h
          cases ha : absorbChunk ev pl gs (keys.zip chunk) with
          | error e => simp [ha] at h
          | ok gs1 =>
            simp only [ha, bind_ok] at h
            have : prepare ev pl gs chunk = .ok gs1 :=
              (prepare_chunk_iff ev pl gs gs1 chunk).mpr ⟨keys, (batchKeys_iff ev pl chunk keys).mp hk, ha⟩
            simp only [this, bind_ok]
            exact (ih gs1).mp h
      · intro h
        cases hp : prepare ev pl gs chunk with
        | error e => simp [hp] at h
        | ok gs1 =>
          simp only [hp, bind_ok] at h
          obtain ⟨keys, h1, h2⟩ := (prepare_chunk_iff ev pl gs gs1 chunk).mp hp
          simp only [(batchKeys_iff ev pl chunk keys).mpr h1, bind_ok, h2]
          exact (ih gs1).mpr h

end

/-- what `next` / `batch` hand out for a group's row -/
theorem finishRow_spec : ∀ (row : Row) (out : List AVal), finishRow row = .ok out →
    out.length = row.length ∧
    (∀ (n : Nat) (b : Bytes), row[n]? = some (Col.key b) → out[n]? = some (AVal.bytes b)) ∧
    (∀ (n : Nat) (accs : List Acc) (e : AggExpr), row[n]? = some (Col.agg accs e) →
      ∃ res v, accs.mapM Acc.complete = .ok res ∧ e.eval res = .ok v ∧ out[n]? = some v)
  | [], out, h => by
    simp only [finishRow] at h
    injection h with h
    subst h
    simp
  | .key v :: cs, out, h => by
    simp only [finishRow] at h
    cases hr : finishRow cs with
    | error e => simp [hr] at h
    | ok rest =>
      simp only [hr, bind_ok, pure_eq_ok] at h
      injection h with h
      subst h
      obtain ⟨h1, h2, h3⟩ := finishRow_spec cs rest hr
      refine ⟨by simp [h1], ?_, ?_⟩
      · intro n b hn
        cases n with
        | zero => simpa using hn
        | succ n => simpa using h2 n b (by simpa using hn)
      · intro n accs e hn
        cases n with
        | zero => simp at hn
        | succ n => simpa using h3 n accs e (by simpa using hn)
  | .agg accs0 e0 :: cs, out, h => by
    simp only [finishRow] at h
    cases hm : accs0.mapM Acc.complete with
    | error e => simp [hm] at h
    | ok res =>
      simp only [hm, bind_ok] at h
      cases he : e0.eval res with
      | error e => simp [he] at h
      | ok v =>
        simp only [he, bind_ok] at h
        cases hr : finishRow cs with
        | error e => simp [hr] at h
        | ok rest =>
          simp only [hr, bind_ok, pure_eq_ok] at h
          injection h with h
          subst h
          obtain ⟨h1, h2, h3⟩ := finishRow_spec cs rest hr
          refine ⟨by simp [h1], ?_, ?_⟩
          · intro n b hn
            cases n with
            | zero => simp at hn
            | succ n => simpa using h2 n b (by simpa using hn)
          · intro n accs e hn
            cases n with
            | zero =>
              simp at hn
              obtain ⟨rfl, rfl⟩ := hn
              exact ⟨res, v, hm, he, by simp⟩
            | succ n => simpa using h3 n accs e (by simpa using hn)

/-! ## `prepare` has no failure of its own -/

section
variable {P : Type} (ev : Eval P) (pl : Plan)

/-- the evaluator never fails on this pair (and group values / key fields convert to bytes) -/
structure EvalOk (p : P) : Prop where
  group : ∀ j, ∃ v b, ev.group j p = .ok v ∧ convertToBytes v = .ok b
  keyField : ∀ i, ∃ v b, ev.keyField i p = .ok v ∧ convertToBytes v = .ok b
  arg : ∀ i c, ∃ v, ev.arg i c p = .ok v

theorem step_ok (a : Acc) (v : AVal) : ∃ a', a.step (.ok v) = .ok a' := by
  cases a <;> exact ⟨_, rfl⟩

theorem updateAccs_ok {p : P} (h : EvalOk ev p) (i : Nat) : ∀ (c0 : Nat) (accs : List Acc),
    ∃ accs', updateAccs ev i p c0 accs = .ok accs'
  | _, [] => ⟨[], rfl⟩
  | c0, a :: as => by
    obtain ⟨v, hv⟩ := h.arg i c0
    obtain ⟨a', ha⟩ := step_ok a v
    obtain ⟨as', has⟩ := updateAccs_ok h i (c0 + 1) as
    exact ⟨a' :: as', by simp [updateAccs, hv, ha, has]⟩

theorem updateCols_ok {p : P} (h : EvalOk ev p) : ∀ (i0 : Nat) (row : Row),
    ∃ row', updateCols ev p i0 row = .ok row'
  | _, [] => ⟨[], rfl⟩
  | i0, .key v :: cs => by
    obtain ⟨r, hr⟩ := updateCols_ok h (i0 + 1) cs
    exact ⟨.key v :: r, by simp [updateCols, hr]⟩
  | i0, .agg accs e :: cs => by
    obtain ⟨accs', ha⟩ := updateAccs_ok ev h i0 0 accs
    obtain ⟨r, hr⟩ := updateCols_ok h (i0 + 1) cs
    exact ⟨.agg accs' e :: r, by simp [updateCols, ha, hr]⟩

theorem createCols_ok {p : P} (h : EvalOk ev p) : ∀ (i0 : Nat) (fs : List Field),
    ∃ row, createCols ev p i0 fs = .ok row
  | _, [] => ⟨[], rfl⟩
  | i0, .key :: fs => by
    obtain ⟨v, b, hv, hb⟩ := h.keyField i0
    obtain ⟨r, hr⟩ := createCols_ok h (i0 + 1) fs
    exact ⟨.key b :: r, by simp [createCols, hv, hb, hr]⟩
  | i0, .agg calls e :: fs => by
    obtain ⟨r, hr⟩ := createCols_ok h (i0 + 1) fs
    exact ⟨.agg (calls.map Kind.init) e :: r, by simp [createCols, hr]⟩

theorem getAggrKeyLoop_ok {p : P} (h : EvalOk ev p) : ∀ (js : List Nat) (k : Bytes),
    ∃ k', getAggrKeyLoop ev p js k = .ok k'
  | [], k => ⟨k, rfl⟩
  | j :: js, k => by
    obtain ⟨v, b, hv, hb⟩ := h.group j
    obtain ⟨k', hk⟩ := getAggrKeyLoop_ok h js (appendAggrKeyPart k b)
    exact ⟨k', by simp [getAggrKeyLoop, hv, hb, hk]⟩

/-- if the evaluator fails on no arriving pair, `prepare` succeeds: it has no failure of its own -/
theorem prepare_ok : ∀ (pairs : List P) (gs : Groups), (∀ p ∈ pairs, EvalOk ev p) →
    ∃ gs', prepare ev pl gs pairs = .ok gs'
  | [], gs, _ => ⟨gs, rfl⟩
  | p :: ps, gs, h => by
    have hp := h p (by simp)
    have hk : ∃ k, getAggrKey ev pl p = .ok k := by
      unfold getAggrKey
      split
      · exact ⟨_, rfl⟩
      · exact getAggrKeyLoop_ok ev hp _ _
    obtain ⟨k, hk⟩ := hk
    have ha : ∃ gs1, absorb ev pl gs k p = .ok gs1 := by
      unfold absorb
      cases gs.lookup k with
      | some row =>
        obtain ⟨row', hr⟩ := updateCols_ok ev hp 0 row
        exact ⟨setRow k row' gs, by simp [updateRow, hr]⟩
      | none =>
        obtain ⟨row0, hc⟩ := createCols_ok ev hp 0 pl.fields
        obtain ⟨row', hr⟩ := updateCols_ok ev hp 0 row0
        exact ⟨gs ++ [(k, row')], by simp [createAggrRow, updateRow, hc, hr]⟩
    obtain ⟨gs1, ha⟩ := ha
    obtain ⟨gs', hg⟩ := prepare_ok ps gs1 (fun q hq => h q (by simp [hq]))
    exact ⟨gs', by simp [prepare, hk, ha, hg]⟩

end

/-! ## (d) draining with `Next` and with `Batch` -/

theorem drainNext_cons_ok {r : Row} {rest : List Row} {out : List AVal} (h : finishRow r = .ok out) :
    drainNext (r :: rest) = (out :: (drainNext rest).1, (drainNext rest).2) := by
  simp [drainNext, h]

theorem drainNext_cons_err {r : Row} {rest : List Row} {e : Err} (h : finishRow r = .error e) :
    drainNext (r :: rest) = ([], some e) := by
  simp [drainNext, h]

theorem drainNext_length (rows : List Row) : (drainNext rows).1.length ≤ rows.length ∧
    ((drainNext rows).2 = none → (drainNext rows).1.length = rows.length) := by
  induction rows with
  | nil => simp [drainNext]
  | cons r rest ih =>
    cases h : finishRow r with
    | error e => simp [drainNext_cons_err h]
    | ok out =>
      rw [drainNext_cons_ok h]
      simp only [List.length_cons]
      exact ⟨by omega, fun hn => by rw [ih.2 hn]⟩

/-- what is left after `n` rows went out -/
theorem drainNext_drop : ∀ (rows : List Row) (n : Nat), n ≤ (drainNext rows).1.length →
    drainNext (rows.drop n) = ((drainNext rows).1.drop n, (drainNext rows).2)
  | rows, 0, _ => by simp
  | [], n + 1, _ => by simp [drainNext]
  | r :: rest, n + 1, h => by
    cases hf : finishRow r with
    | error e => simp [drainNext_cons_err hf] at h
    | ok out =>
      rw [drainNext_cons_ok hf] at h ⊢
      simp only [List.length_cons, Nat.add_le_add_iff_right] at h
      simpa using drainNext_drop rest n h

/-- the loop of `batch`: the next `n` rows (fewer at the end), or the error that `Next` would meet
    among them -/
theorem batchLoop_spec : ∀ (n : Nat) (rows : List Row) (acc : List (List AVal)),
    (n ≤ (drainNext rows).1.length ∨ (drainNext rows).2 = none →
      batchLoop n rows acc = (.ok (acc ++ (drainNext rows).1.take n), rows.drop n)) ∧
    ((drainNext rows).1.length < n → ∀ e, (drainNext rows).2 = some e →
      ∃ rest, batchLoop n rows acc = (.error e, rest))
  | 0, rows, acc => by simp [batchLoop]
  | n + 1, [], acc => by simp [batchLoop, drainNext]
  | n + 1, r :: rest, acc => by
    cases hf : finishRow r with
    | error e =>
      rw [drainNext_cons_err hf]
      simp [batchLoop, hf]
    | ok out =>
      rw [drainNext_cons_ok hf]
      obtain ⟨ih1, ih2⟩ := batchLoop_spec n rest (acc ++ [out])
      simp only [batchLoop, hf, List.length_cons, Nat.add_le_add_iff_right, List.take_succ_cons,
        List.drop_succ_cons, Nat.add_lt_add_iff_right]
      cases rest with
      | nil => simp [drainNext]
      | cons r2 rest2 =>
        simp only [List.isEmpty_cons, Bool.false_eq_true, if_false]
        constructor
        · intro h
          rw [ih1 h]
          simp
        · intro h e he
          exact ih2 h e he

theorem isPrefix_take_append {α : Type} (l p : List α) (n : Nat) (h : p <+: l.drop n) :
    l.take n ++ p <+: l := by
  obtain ⟨t, ht⟩ := h
  exact ⟨t, by rw [List.append_assoc, ht, List.take_append_drop]⟩

/-- draining with `Batch` (any batch size ≥ 1) hands out the rows `Next` hands out: all of them
    when no row fails; when one fails, the same error, after a prefix of the rows (the batch in
    which the error occurs is lost) -/
theorem drainBatch_spec (bs : Nat) (hbs : 1 ≤ bs) : ∀ (fuel : Nat) (rows : List Row), rows.length < fuel →
    (drainBatch bs fuel rows).2 = (drainNext rows).2 ∧
    (drainBatch bs fuel rows).1.flatten <+: (drainNext rows).1 ∧
    ((drainNext rows).2 = none → (drainBatch bs fuel rows).1.flatten = (drainNext rows).1) ∧
    ∀ b ∈ (drainBatch bs fuel rows).1, b ≠ [] ∧ b.length ≤ bs
  | 0, rows, h => by omega
  | fuel + 1, [], _ => by simp [drainBatch, batch, drainNext]
  | fuel + 1, r :: rest, hfuel => by
    obtain ⟨s1, s2⟩ := batchLoop_spec bs (r :: rest) []
    obtain ⟨l1, l2⟩ := drainNext_length (r :: rest)
    by_cases hcase : bs ≤ (drainNext (r :: rest)).1.length ∨ (drainNext (r :: rest)).2 = none
    · have hb := s1 hcase
      simp only [List.nil_append] at hb
      -- the batch is not empty
      have hne : (drainNext (r :: rest)).1.take bs ≠ [] := by
        intro h0
        have : (drainNext (r :: rest)).1 = [] := by
          cases hd : (drainNext (r :: rest)).1 with
          | nil => rfl
          | cons a as =>
            rw [hd] at h0
            cases bs with
            | zero => omega
            | succ n => simp at h0
        rcases hcase with hc | hc
        · rw [this] at hc; simp at hc; omega
        · have := l2 hc
          simp_all
      obtain ⟨b0, bt, hbt⟩ := List.exists_cons_of_ne_nil hne
      have hlen : (List.drop bs (r :: rest)).length < fuel := by
        simp only [List.length_drop, List.length_cons] at *
        omega
      obtain ⟨i1, i2, i3, i4⟩ := drainBatch_spec bs hbs fuel (List.drop bs (r :: rest)) hlen
      have hdrop : drainNext (List.drop bs (r :: rest)) =
          ((drainNext (r :: rest)).1.drop bs, (drainNext (r :: rest)).2) := by
        rcases hcase with hc | hc
        · exact drainNext_drop _ _ hc
        · by_cases hle : bs ≤ (drainNext (r :: rest)).1.length
          · exact drainNext_drop _ _ hle
          · have hl := l2 hc
            have h1 : List.drop bs (r :: rest) = [] := by
              apply List.drop_eq_nil_of_le; omega
            have h2 : (drainNext (r :: rest)).1.drop bs = [] := by
              apply List.drop_eq_nil_of_le; omega
            rw [h1, h2, hc]
            rfl
      have hd : drainBatch bs (fuel + 1) (r :: rest) =
          ((drainNext (r :: rest)).1.take bs :: (drainBatch bs fuel (List.drop bs (r :: rest))).1,
           (drainBatch bs fuel (List.drop bs (r :: rest))).2) := by
        simp only [drainBatch, batch, List.isEmpty_cons, Bool.false_eq_true, if_false, hb, hbt]
      rw [hdrop] at i1 i2 i3
      simp only at i1 i2 i3
      rw [hd]
      refine ⟨i1, ?_, ?_, ?_⟩
      · simp only [List.flatten_cons]
        exact isPrefix_take_append _ _ _ i2
      · intro hn
        simp only [List.flatten_cons, i3 hn, List.take_append_drop]
      · intro b hb'
        simp only [List.mem_cons] at hb'
        rcases hb' with rfl | hb'
        · exact ⟨hne, by simp [List.length_take]; omega⟩
        · exact i4 b hb'
    · have hlt : (drainNext (r :: rest)).1.length < bs := by omega
      cases he : (drainNext (r :: rest)).2 with
      | none => exact absurd (.inr he) hcase
      | some e =>
        obtain ⟨rest', hb⟩ := s2 hlt e he
        have hd : drainBatch bs (fuel + 1) (r :: rest) = ([], some e) := by
          simp only [drainBatch, batch, List.isEmpty_cons, Bool.false_eq_true, if_false, hb]
        rw [hd]
        simp [he]

theorem drainNext_ok_iff (rows : List Row) (outs : List (List AVal)) :
    drainNext rows = (outs, none) ↔ rows.mapM finishRow = .ok outs := by
  induction rows generalizing outs with
  | nil =>
    simp only [drainNext, List.mapM_nil, pure_eq_ok]
    constructor
    · intro h; injection h with h1 _; rw [h1]
    · intro h; injection h with h; rw [h]
  | cons r rest ih =>
    simp only [List.mapM_cons]
    cases hf : finishRow r with
    | error e => simp [drainNext_cons_err hf]
    | ok out =>
      rw [drainNext_cons_ok hf]
      simp only [bind_ok]
      constructor
      · intro h
        injection h with h1 h2
        have := (ih (drainNext rest).1).mp (by rw [← h2])
        rw [this, bind_ok, pure_eq_ok, h1]
      · intro h
        cases hm : rest.mapM finishRow with
        | error e => simp [hm] at h
        | ok os =>
          simp only [hm, bind_ok, pure_eq_ok] at h
          injection h with h
          have := (ih os).mpr hm
          rw [this, h]

section
variable {P : Type} (ev : Eval P) (pl : Plan)

/-- a successful row-mode run: the groups `prepare` built, each finished in turn -/
theorem runNext_ok_iff (pairs : List P) (outs : List (List AVal)) :
    runNext ev pl pairs = (outs, none) ↔
      ∃ gs, prepare ev pl [] pairs = .ok gs ∧ (rowsOf gs).mapM finishRow = .ok outs := by
  unfold runNext
  cases hp : prepare ev pl [] pairs with
  | error e => simp
  | ok gs =>
    simp only [drainNext_ok_iff]
    constructor
    · intro h; exact ⟨gs, rfl, h⟩
    · rintro ⟨gs', h1, h2⟩
      injection h1 with h1
      rw [h1]; exact h2

theorem takeWhile_nonempty (chunks : List (List P)) (hne : ∀ c ∈ chunks, c ≠ []) :
    chunks.takeWhile (fun c => !c.isEmpty) = chunks := by
  induction chunks with
  | nil => rfl
  | cons c cs ih =>
    have := hne c (by simp)
    cases c with
    | nil => exact absurd rfl this
    | cons x xs =>
      simp only [List.takeWhile_cons, List.isEmpty_cons, Bool.not_false, if_true]
      rw [ih (fun c hc => hne c (by simp [hc]))]

/-- (d) both modes return the same rows: a run with `Next` over the pairs succeeds iff a run with
    `Batch` over any chunking of them (non-empty chunks, any batch size ≥ 1) succeeds, and the
    batches, concatenated, are the rows; no batch is empty or longer than the batch size -/
theorem modes_agree (bs : Nat) (hbs : 1 ≤ bs) (chunks : List (List P)) (hne : ∀ c ∈ chunks, c ≠ [])
    (outs : List (List AVal)) :
    runNext ev pl chunks.flatten = (outs, none) ↔
      ∃ bss, runBatch ev pl bs chunks = (bss, none) ∧ bss.flatten = outs ∧ ∀ b ∈ bss, b ≠ [] ∧ b.length ≤ bs := by
  have hiff := fun gs' => prepareBatch_iff ev pl [] gs' chunks
  rw [takeWhile_nonempty chunks hne] at hiff
  unfold runNext runBatch
  cases hp : prepare ev pl [] chunks.flatten with
  | error e =>
    cases hb : prepareBatch ev pl [] chunks with
    | error e' => simp
    | ok gs => rw [(hiff gs).mp hb] at hp; cases hp
  | ok gs =>
    rw [(hiff gs).mpr hp]
    simp only
    obtain ⟨d1, d2, d3, d4⟩ := drainBatch_spec bs hbs (gs.length + 1) (rowsOf gs) (by simp [rowsOf])
    constructor
    · intro h
      have h2 : (drainNext (rowsOf gs)).2 = none := by rw [h]
      have h1 : (drainNext (rowsOf gs)).1 = outs := by rw [h]
      refine ⟨(drainBatch bs (gs.length + 1) (rowsOf gs)).1, ?_, ?_, d4⟩
      · rw [← h2, ← d1]
      · rw [d3 h2, h1]
    · rintro ⟨bss, h1, h2, _⟩
      have e2 : (drainNext (rowsOf gs)).2 = none := by rw [← d1, h1]
      have e1 : (drainNext (rowsOf gs)).1 = outs := by rw [← d3 e2, h1, h2]
      rw [← e1, ← e2]

/-- (d) an error while the rows are handed out is the same error in both modes -/
theorem modes_agree_error (bs : Nat) (hbs : 1 ≤ bs) (chunks : List (List P)) (hne : ∀ c ∈ chunks, c ≠ [])
    (gs : Groups) (hp : prepare ev pl [] chunks.flatten = .ok gs) :
    (runBatch ev pl bs chunks).2 = (runNext ev pl chunks.flatten).2 ∧
    (runBatch ev pl bs chunks).1.flatten <+: (runNext ev pl chunks.flatten).1 := by
  have hiff := prepareBatch_iff ev pl [] gs chunks
  rw [takeWhile_nonempty chunks hne] at hiff
  unfold runNext runBatch
  rw [hp, hiff.mpr hp]
  obtain ⟨d1, d2, _, _⟩ := drainBatch_spec bs hbs (gs.length + 1) (rowsOf gs) (by simp [rowsOf])
  exact ⟨d1, d2⟩

/-! ## (e) a GROUP BY expression selected as a field shows the group's value -/

theorem gtuple_get {p : P} {vs : List Bytes} (h : gtuple ev pl p = .ok vs) :
    vs = (List.range pl.nGroups).map (fun j => okD [] (gbytes ev j p)) ∧
    ∀ j, j < pl.nGroups → gbytes ev j p = .ok (okD [] (gbytes ev j p)) := by
  obtain ⟨h1, h2⟩ := mapM_ok [] _ _ _ h
  exact ⟨h1, fun j hj => h2 j (by simpa using hj)⟩

/-- if field `n` of the select list is the `j`-th GROUP BY expression, the bytes shown for a group
    (computed on its first pair `p0`) are the bytes of that expression on every pair `q` of the group -/
theorem key_field_is_group_value (hg : pl.aggrAll = false) {n j : Nat} (hj : j < pl.nGroups)
    (hsame : ∀ p, ev.keyField n p = ev.group j p)
    {p0 q : P} {b : Bytes} {v : AVal} (hv : ev.keyField n p0 = .ok v) (hb : convertToBytes v = .ok b)
    {k : Bytes} (hk0 : getAggrKey ev pl p0 = .ok k) (hkq : getAggrKey ev pl q = .ok k) :
    gbytes ev j q = .ok b := by
  rw [getAggrKey_grouped ev pl hg] at hk0 hkq
  cases h0 : gtuple ev pl p0 with
  | error e => simp [h0] at hk0
  | ok vs =>
    cases hq : gtuple ev pl q with
    | error e => simp [hq] at hkq
    | ok ws =>
      simp only [h0, hq, map_ok] at hk0 hkq
      injection hk0 with hk0
      injection hkq with hkq
      have hvw : vs = ws := aggrKeyOf_injective vs ws (by rw [hk0, hkq])
      obtain ⟨e0, g0⟩ := gtuple_get ev pl h0
      obtain ⟨eq, gq⟩ := gtuple_get ev pl hq
      have hb0 : gbytes ev j p0 = .ok b := by
        simp [gbytes, ← hsame p0, hv, hb]
      have : okD [] (gbytes ev j p0) = okD [] (gbytes ev j q) := by
        have hm : (List.range pl.nGroups).map (fun j => okD [] (gbytes ev j p0)) =
            (List.range pl.nGroups).map (fun j => okD [] (gbytes ev j q)) := by
          rw [← e0, ← eq, hvw]
        exact (List.map_inj_left.mp hm) j (by simpa using hj)
      rw [gq j hj, ← this, hb0]
      rfl

end

end Kvql.Proofs.Aggr
