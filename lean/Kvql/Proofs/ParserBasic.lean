/-
  A small Hoare-style layer over `Res`, shared by the parser proofs.

  `r.Holds Q E P bad`: if `r` is `ok a` then `Q a`; if it is `err e` then `E e`; if it is
  `panic s` then `P s`; `outOfFuel` passes iff `bad`; `unsupported` always passes.
  Totality proofs use `P := fun _ => False` (or "only the cyclic-alias site") and
  `bad := False`; position proofs use `P := fun _ => True`, `bad := True`.
-/
import Kvql.Model.Parser

namespace Kvql

namespace Res

def Holds {α : Type} (r : Res α) (Q : α → Prop) (E : PErr → Prop) (P : String → Prop)
    (bad : Prop) : Prop :=
  match r with
  | .ok a => Q a
  | .err e => E e
  | .unsupported _ => True
  | .panic s => P s
  | .outOfFuel => bad

section
variable {α : Type} (Q : α → Prop) (E : PErr → Prop) (P : String → Prop) (bad : Prop)
@[simp] theorem holds_ok (a : α) : (Res.ok a).Holds Q E P bad = Q a := rfl
@[simp] theorem holds_pure (a : α) : (pure a : Res α).Holds Q E P bad = Q a := rfl
@[simp] theorem holds_err (e : PErr) : (Res.err e : Res α).Holds Q E P bad = E e := rfl
@[simp] theorem holds_unsup (s : String) : (Res.unsupported s : Res α).Holds Q E P bad = True := rfl
@[simp] theorem holds_panic (s : String) : (Res.panic s : Res α).Holds Q E P bad = P s := rfl
@[simp] theorem holds_fuel : (Res.outOfFuel : Res α).Holds Q E P bad = bad := rfl
end

theorem Holds.bind {α β : Type} {r : Res α} {f : α → Res β} {R : α → Prop} {Q : β → Prop}
    {E : PErr → Prop} {P : String → Prop} {bad : Prop}
    (h : r.Holds R E P bad) (hf : ∀ a, R a → (f a).Holds Q E P bad) :
    (r >>= f).Holds Q E P bad := by
  cases r <;> simp_all [Holds, Bind.bind, Res.bind]

theorem Holds.mono {α : Type} {r : Res α} {R Q : α → Prop} {E : PErr → Prop} {P : String → Prop}
    {bad : Prop} (h : r.Holds R E P bad) (hpq : ∀ a, R a → Q a) : r.Holds Q E P bad := by
  cases r <;> simp_all [Holds]

theorem Holds.monoP {α : Type} {r : Res α} {Q : α → Prop} {E : PErr → Prop}
    {P P' : String → Prop} {bad : Prop} (h : r.Holds Q E P bad) (hp : ∀ s, P s → P' s) :
    r.Holds Q E P' bad := by
  cases r <;> simp_all [Holds]

end Res

section
variable {α : Type} (Q : α → Prop) (E : PErr → Prop) (P : String → Prop) (bad : Prop)
@[simp] theorem holds_synErr (p : Nat) : (synErr p : Res α).Holds Q E P bad = E (.syntax (some p)) := rfl
@[simp] theorem holds_eofErr : (eofErr : Res α).Holds Q E P bad = E (.syntax none) := rfl
end

end Kvql
