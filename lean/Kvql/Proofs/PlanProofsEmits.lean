/-
  What the plans append to the call log.

  `Emits P g`: every entry appended by `g` satisfies `P`.  For any `P` that holds of every READ
  call, the scan plans, LimitPlan and `select *` emit only `P`-entries (`em_*` lemmas); the write
  plans emit reads plus their own kind of write.  Used by C13 (`select_read_only`) and C11
  (no put in the log of a DELETE).
-/
import Kvql.Proofs.PlanMonad

namespace Kvql.Proofs.Plan

open Kvql Kvql.Storage Kvql.Plans

macro "em_step" : tactic => `(tactic| first
  | exact Emits.pure _
  | exact Emits.throw _
  | exact Emits.getStore
  | exact Emits.ofExcept _
  | assumption
  | apply Emits.bind
  | intro _
  | split)

macro "em_auto" : tactic => `(tactic| repeat' em_step)

/-- `P` holds of every read call -/
def AllowsReads (P : Entry → Prop) : Prop := ∀ c b, c.isRead = true → P ⟨c, b⟩

section reads
variable {P : Entry → Prop} (hP : AllowsReads P)
include hP

theorem em_get (k : Bytes) : Emits P (Storage.get k) := by
  unfold Storage.get
  exact Emits.bind (Emits.call _ (fun b => hP _ b rfl)) (by em_auto)

theorem em_cursor : Emits P cursor := by
  unfold cursor
  exact Emits.bind (Emits.call _ (fun b => hP _ b rfl)) (by em_auto)

theorem em_seek (c : Cursor) (k : Bytes) : Emits P (c.seek k) := by
  unfold Cursor.seek
  exact Emits.bind (Emits.call _ (fun b => hP _ b rfl)) (by em_auto)

theorem em_callNext (k : Option Bytes) : Emits P (call (.next k)) :=
  Emits.call _ (fun b => hP _ b rfl)

theorem em_cursorNext (stop : Bytes → Bool) (filter : Filter) (rest : List Pair) :
    Emits P (cursorNext stop filter rest) := by
  induction rest with
  | nil => unfold cursorNext; exact Emits.bind (em_callNext hP _) (by em_auto)
  | cons p r ih => unfold cursorNext; exact Emits.bind (em_callNext hP _) (by em_auto)

theorem em_readChunk (stop : Bytes → Bool) (i : Nat) : ∀ (rest acc : List Pair),
    Emits P (readChunk stop i rest acc) := by
  induction i with
  | zero => intro rest acc; unfold readChunk; em_auto
  | succ i ih =>
    intro rest acc
    cases rest with
    | nil => unfold readChunk; exact Emits.bind (em_callNext hP _) (by em_auto)
    | cons p r =>
      unfold readChunk
      have := ih r (acc ++ [p])
      exact Emits.bind (em_callNext hP _) (by em_auto)

theorem em_cursorBatchLoop (stop : Bytes → Bool) (filter : Filter) (bs fuel : Nat) :
    ∀ (rest ret : List Pair), Emits P (cursorBatchLoop stop filter bs fuel rest ret) := by
  induction fuel with
  | zero => intro rest ret; unfold cursorBatchLoop; em_auto
  | succ fuel ih =>
    intro rest ret
    unfold cursorBatchLoop
    apply Emits.bind (em_readChunk hP stop bs rest [])
    intro x
    obtain ⟨chunk, done, rest'⟩ := x
    try simp only []
    split
    · split
      · em_auto
      · exact ih _ _
    · apply Emits.bind (Emits.ofExcept _)
      intro ms
      try simp only []
      split
      · em_auto
      · split
        · em_auto
        · exact ih _ _

theorem em_mgetNext (filter : Filter) (ks : List Bytes) : Emits P (mgetNext filter ks) := by
  induction ks with
  | nil => unfold mgetNext; em_auto
  | cons k ks ih =>
    unfold mgetNext
    apply Emits.bind (em_get hP k)
    intro v
    em_auto

theorem em_mgetReadChunk (i : Nat) : ∀ (ks : List Bytes) (acc : List Pair),
    Emits P (mgetReadChunk i ks acc) := by
  induction i with
  | zero => intro ks acc; unfold mgetReadChunk; em_auto
  | succ i ih =>
    intro ks acc
    cases ks with
    | nil => unfold mgetReadChunk; em_auto
    | cons k ks =>
      unfold mgetReadChunk
      apply Emits.bind (em_get hP k)
      intro v
      cases v with
      | none => exact ih _ _
      | some v => exact ih _ _

theorem em_mgetBatchLoop (filter : Filter) (bs fuel : Nat) :
    ∀ (ks : List Bytes) (ret : List Pair), Emits P (mgetBatchLoop filter bs fuel ks ret) := by
  induction fuel with
  | zero => intro ks ret; unfold mgetBatchLoop; em_auto
  | succ fuel ih =>
    intro ks ret
    unfold mgetBatchLoop
    apply Emits.bind (em_mgetReadChunk hP bs ks [])
    intro x
    obtain ⟨chunk, fin, ks'⟩ := x
    try simp only []
    split
    · apply Emits.bind (Emits.pure _)
      intro ret'
      split
      · em_auto
      · exact ih _ _
    · apply Emits.bind (Emits.ofExcept _)
      intro ms
      apply Emits.bind (Emits.pure _)
      intro ret'
      split
      · em_auto
      · exact ih _ _

theorem em_scanInit (node : ScanNode) (st : ScanSt) : Emits P (node.init st) := by
  unfold ScanNode.init
  cases node with
  | full => try simp only []; apply Emits.bind (em_cursor hP); intro c; apply Emits.bind (em_seek hP _ _); em_auto
  | «prefix» p => try simp only []; apply Emits.bind (em_cursor hP); intro c; apply Emits.bind (em_seek hP _ _); em_auto
  | range a b =>
    try simp only []
    apply Emits.bind (em_cursor hP)
    intro c
    cases a with
    | none => em_auto
    | some s => try simp only []; apply Emits.bind (em_seek hP _ _); em_auto
  | mget ks => em_auto
  | empty => em_auto

theorem em_scanNext (node : ScanNode) (filter : Filter) (st : ScanSt) : Emits P (node.next filter st) := by
  have h1 := em_mgetNext hP filter st.keysLeft
  unfold ScanNode.next
  split
  · em_auto
  · em_auto
  · split
    · em_auto
    · split
      · em_auto
      · exact Emits.bind (em_cursorNext hP _ _ _) (by em_auto)

theorem em_scanBatch (node : ScanNode) (filter : Filter) (bs : Nat) (st : ScanSt) :
    Emits P (node.batch filter bs st) := by
  unfold ScanNode.batch
  split
  · exact Emits.bind (em_mgetBatchLoop hP _ _ _ _ _) (by em_auto)
  · em_auto
  · split
    · em_auto
    · split
      · em_auto
      · exact Emits.bind (em_cursorBatchLoop hP _ _ _ _ _ _) (by em_auto)

end reads

/-! ### children -/

structure ChildEmits (P : Entry → Prop) (c : Child σ) : Prop where
  init : ∀ s, Emits P (c.init s)
  next : ∀ s, Emits P (c.next s)
  batch : ∀ bs s, Emits P (c.batch bs s)

theorem em_scanChild {P : Entry → Prop} (hP : AllowsReads P) (node : ScanNode) (filter : Filter) :
    ChildEmits P (node.child filter) :=
  ⟨em_scanInit hP node, em_scanNext hP node filter, em_scanBatch hP node filter⟩

section limit
variable {P : Entry → Prop} {c : Child σ} (hc : ChildEmits P c)
include hc

theorem em_limitSkipNext (n : Nat) : ∀ s, Emits P (LimitPlan.skipNext c n s) := by
  induction n with
  | zero => intro s; unfold LimitPlan.skipNext; em_auto
  | succ n ih =>
    intro s
    unfold LimitPlan.skipNext
    apply Emits.bind (hc.next s)
    intro x
    obtain ⟨r, s'⟩ := x
    try simp only []
    cases r with
    | none => em_auto
    | some p => exact Emits.bind (ih _) (by em_auto)

theorem em_limitNext (start count : Nat) (st : LimitSt σ) : Emits P (LimitPlan.next start count c st) := by
  unfold LimitPlan.next
  apply Emits.bind (em_limitSkipNext hc _ _)
  intro x
  obtain ⟨dry, k, s1⟩ := x
  try simp only []
  split
  · em_auto
  · split
    · em_auto
    · exact Emits.bind (hc.next _) (by em_auto)

theorem em_limitSkipBatch (start bs fuel : Nat) :
    ∀ skips s, Emits P (LimitPlan.skipBatch start bs c fuel skips s) := by
  induction fuel with
  | zero => intro skips s; unfold LimitPlan.skipBatch; em_auto
  | succ fuel ih =>
    intro skips s
    unfold LimitPlan.skipBatch
    split
    · try simp only []
      apply Emits.bind (hc.batch _ _)
      intro x
      obtain ⟨rows, s'⟩ := x
      try simp only []
      split
      · em_auto
      · split
        · exact ih _ _
        · em_auto
    · em_auto

theorem em_limitFillBatch (count bs fuel : Nat) :
    ∀ current acc s, Emits P (LimitPlan.fillBatch count bs c fuel current acc s) := by
  induction fuel with
  | zero => intro current acc s; unfold LimitPlan.fillBatch; em_auto
  | succ fuel ih =>
    intro current acc s
    unfold LimitPlan.fillBatch
    apply Emits.bind (hc.batch _ _)
    intro x
    obtain ⟨rows, s'⟩ := x
    try simp only []
    split
    · em_auto
    · split
      · em_auto
      · split
        · em_auto
        · exact ih _ _ _

theorem em_limitBatch (start count bs : Nat) (st : LimitSt σ) :
    Emits P (LimitPlan.batch start count c bs st) := by
  unfold LimitPlan.batch
  apply Emits.bind (em_limitSkipBatch hc _ _ _ _ _)
  intro x
  obtain ⟨rows?, skips, s1⟩ := x
  try simp only []
  cases rows? with
  | none => em_auto
  | some rows =>
    try simp only []
    split
    · em_auto
    · exact Emits.bind (em_limitFillBatch hc _ _ _ _ _ _) (by em_auto)

theorem em_limitInit (st : LimitSt σ) : Emits P (LimitPlan.init c st) := by
  unfold LimitPlan.init
  exact Emits.bind (hc.init _) (by em_auto)

theorem em_limitChild (start count : Nat) : ChildEmits P (LimitPlan.child start count c) :=
  ⟨em_limitInit hc, em_limitNext hc start count, fun bs => em_limitBatch hc start count bs⟩

end limit

theorem Emits.const {P : Entry → Prop} (r : ρ) : Emits P (fun _ w => (r, w)) :=
  Emits.nothing (fun _ _ => rfl)

theorem Emits.congr {P : Entry → Prop} {g g' : G ρ} (h : ∀ f w, g f w = g' f w) (hg : Emits P g') : Emits P g := by
  have : g = g' := funext fun f => funext fun w => h f w
  rw [this]; exact hg

/-- `DeletePlan.execute`: what the child emits, and `BatchDelete` -/
theorem em_deleteLoop {P : Entry → Prop} {c : Child σ} (hc : ChildEmits P c)
    (hdel : ∀ ks b, P ⟨.batchDelete ks, b⟩) (bs fuel : Nat) :
    ∀ count s, Emits P (DeletePlan.loop c bs fuel count s) := by
  induction fuel with
  | zero => intro count s; exact Emits.const _
  | succ fuel ih =>
    intro count s
    refine Emits.seq (g1 := c.batch bs s)
      (fun r => match r with
        | .error e => fun _ w => (((.error e, count), s), w)
        | .ok (rows, s') =>
          if rows.isEmpty then fun _ w => (((.ok count, count), s'), w)
          else fun f w =>
            match batchDelete (rows.map (·.1)) f w with
            | (.error e, w'') => (((.error e, count), s'), w'')
            | (.ok (), w'') => DeletePlan.loop c bs fuel (count + rows.length) s' f w'') ?_ (hc.batch bs s) ?_
    · intro f w
      simp only [DeletePlan.loop]
      rcases h : c.batch bs s f w with ⟨r, w'⟩
      cases r with
      | error e => rfl
      | ok x =>
        obtain ⟨rows, s'⟩ := x
        try simp only []
        split <;> rfl
    · intro r
      cases r with
      | error e => exact Emits.const _
      | ok x =>
        obtain ⟨rows, s'⟩ := x
        try simp only []
        split
        · exact Emits.const _
        · refine Emits.seq (g1 := batchDelete (rows.map (·.1)))
            (fun r => match r with
              | .error e => fun _ w => (((.error e, count), s'), w)
              | .ok () => DeletePlan.loop c bs fuel (count + rows.length) s') ?_ ?_ ?_
          · intro f w
            rcases h : batchDelete (rows.map (·.1)) f w with ⟨r, w'⟩
            simp only [h]
            cases r <;> rfl
          · exact Emits.write _ rfl (hdel _) _
          · intro r
            cases r with
            | error e => exact Emits.const _
            | ok u => exact ih _ _

end Kvql.Proofs.Plan
