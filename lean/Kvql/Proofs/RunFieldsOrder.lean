/-
  End-to-end proofs for SELECT statements WITH A FIELD LIST, part 4: ORDER BY and LIMIT at statement
  level.

  * `runStmt_of_good`        the outcome of a statement whose trace below LIMIT ends well: no failure, the
                             rows of the trace — or `take n (drop s …)` of them under LIMIT s, n (C08);
  * `plainTrace_order_good`  (3) ORDER BY (not elided): the trace is a sorted permutation (C07);
  * `runStmt_elide`          (3) `order by key asc` on the select field `key`: the statement IS the
                             statement without ORDER BY, and `specRows_sorted_by_key`: its rows are in key order.
-/
import Kvql.Proofs.RunFieldsStmt

namespace Kvql.Proofs.RunFields
open Kvql Kvql.Run Kvql.Plans Kvql.Storage Kvql.Cache Kvql.Project Kvql.Proofs.Scan Kvql.Proofs.Typing
open Kvql.Proofs.RunTables Kvql.Proofs.RunScan Kvql.Proofs.RunLimit Kvql.Proofs.RunFold
open Kvql.PlanCheck (planStage finalPlanCheck)
open Kvql.Generated

/-- the slice LIMIT asks for -/
def sliceOf (limit : Option LimitS) (R : List (List Value)) : List (List Value) :=
  match limit with
  | none => R
  | some l => (R.drop l.start.toInt.toNat).take l.count.toInt.toNat

/-- the outcome of a SELECT without aggregates whose trace below LIMIT ends well -/
theorem runStmt_of_good {s : SelectS} {f : FoldedSelect} {store : Store} {kind : PollKind} {bs : Nat} {cache : Bool}
    (hbs : 1 ≤ bs) (hnoaggr : finalPlanCheck s = .ok false) (hf : foldSelect s = .ok f)
    {t1 : Trace (List Value)} {R : List (List Value)} {st' : Store} (ht : plainTrace s f store kind bs cache = .ok t1)
    (hg : Good t1 R st') :
    (runStmt (.select s) store kind bs cache).fail = none ∧
    (runStmt (.select s) store kind bs cache).rows = sliceOf s.limit R ∧
    (s.limit = none → (runStmt (.select s) store kind bs cache).world.store = st') := by
  rw [runStmt_plain s store kind bs cache hbs hnoaggr hf, runPlainSelect_eq, ht]
  unfold sliceOf
  cases hl : s.limit with
  | none =>
    obtain ⟨h1, h2, h3⟩ := hg.outcome
    exact ⟨h1, h2, fun _ => h3⟩
  | some l =>
    obtain ⟨h1, h2⟩ := hg.limit (limitNat l).1 (limitNat l).2 kind bs
    exact ⟨h1, h2, fun h => by cases h⟩

/-- the trace below LIMIT does not depend on the LIMIT clause -/
theorem plainTrace_noLimit (s : SelectS) (f : FoldedSelect) (store : Store) (kind : PollKind) (bs : Nat) (cache : Bool) :
    plainTrace { s with limit := none } f store kind bs cache = plainTrace s f store kind bs cache := rfl

/-- … and without ORDER BY it is the projection -/
theorem plainTrace_noOrder (s : SelectS) (f : FoldedSelect) (store : Store) (kind : PollKind) (bs : Nat) (cache : Bool) :
    plainTrace { s with order := none } f store kind bs cache = .ok (projTrace s f store kind bs cache) := rfl

/-! ### (3) ORDER BY -/

/-- ORDER BY (not elided) over a projection that ends well, on rows on which the documented order is
    defined: a sorted permutation -/
theorem plainTrace_order_good {s : SelectS} {f : FoldedSelect} {store : Store} {kind : PollKind} {bs : Nat}
    {cache : Bool} (hbs : 1 ≤ bs) {o : OrderS} (ho : s.order = some o) (hne : elideOrder s o = false)
    {keys : List Order.Key} (hk : orderKeys (projNames s) (projTypes s) o = some keys)
    {R : List (List Value)} {st' : Store} (hg : Good (projTrace s f store kind bs cache) R st')
    (kinds : List Spec.Order.Kind) (hR : ∀ r ∈ R, RowOKV keys kinds r) :
    ∃ t1 out, plainTrace s f store kind bs cache = .ok t1 ∧ Good t1 out st' ∧ out.Perm R ∧
      out.Pairwise (fun a b => lessV keys b a = false) := by
  obtain ⟨out, g1, g2, g3⟩ := orderTrace_good hg keys kinds hR kind bs hbs
  refine ⟨_, out, ?_, g1, g2, g3⟩
  unfold plainTrace
  simp only [ho, hne, Bool.false_eq_true, if_false, hk]

/-! ### (3) the elided ORDER BY -/

theorem plainTrace_elide {s : SelectS} {o : OrderS} (ho : s.order = some o) (he : elideOrder s o = true)
    (f : FoldedSelect) (store : Store) (kind : PollKind) (bs : Nat) (cache : Bool) :
    plainTrace s f store kind bs cache = .ok (projTrace s f store kind bs cache) := by
  unfold plainTrace
  simp only [ho, he, if_true]

/-- `order by key asc` on the select field `key` builds no `FinalOrderPlan`: the statement is the
    statement without the ORDER BY clause — every store, mode, batch size and cache setting -/
theorem runStmt_elide {s : SelectS} (hnoaggr : finalPlanCheck s = .ok false) {o : OrderS} (ho : s.order = some o)
    (he : elideOrder s o = true) (store : Store) (kind : PollKind) (bs : Nat) (cache : Bool) :
    runStmt (.select s) store kind bs cache = runStmt (.select { s with order := none }) store kind bs cache := by
  simp only [runStmt, finalPlanCheck_noOrder, foldSelect_noOrder, hnoaggr]
  split
  · rfl
  · cases foldSelect s with
    | error e => rfl
    | ok f =>
      simp only
      rw [runPlainSelect_eq, runPlainSelect_eq, plainTrace_elide ho he, plainTrace_noOrder]

theorem optimizeBoth_field (q : Nat) (k : KW) : Fold.optimizeBoth (.field q k) = .ok (.field q k, .field q k) := by
  simp [Fold.optimizeBoth, Fold.pass, bind, Except.bind, pure, Except.pure]

theorem resolveTop_field (tbl : Tbl) (q : Nat) (k : KW) : Parser.resolveTop tbl (.field q k) = .field q k := by
  simp [Parser.resolveTop, Parser.resolve, Parser.mapRefs]

theorem rows_getElem? {α β : Type} {P : α → β → Prop} : ∀ {as : List α} {bs : List β}, Rows P as bs →
    ∀ (i : Nat) (b : β), bs[i]? = some b → ∃ a, as[i]? = some a ∧ P a b
  | _, _, .nil, i, b, h => by simp at h
  | _, _, .cons (a := a) hp _, 0, b, h => by
    simp only [List.getElem?_cons_zero, Option.some.injEq] at h
    subst h
    exact ⟨a, rfl, hp⟩
  | _, _, .cons _ hr, i + 1, b, h => by
    simp only [List.getElem?_cons_succ] at h ⊢
    exact rows_getElem? hr i b h

/-- a select field that is the bare `key` stays the bare `key` in the folded statement -/
theorem folded_key_field {s : SelectS} {f : FoldedSelect} (hf : foldSelect s = .ok f) {i q : Nat}
    (h : s.fields[i]? = some (.field q .key)) : f.fields[i]? = some (.field q .key) := by
  obtain ⟨fw, n, fs, _, hfs, _, e2⟩ := foldSelect_inv hf
  obtain ⟨r, hr, hopt⟩ := rows_getElem? hfs i _ h
  rw [optimizeBoth_field] at hopt
  injection hopt with hopt
  subst hopt
  rw [e2, List.getElem?_map, hr]
  simp only [Option.map_some]
  rw [resolveTop_field]

/-- what `elideOrder` says -/
theorem elideOrder_inv {s : SelectS} {o : OrderS} (he : elideOrder s o = true) :
    ∃ nm ord i q, o.orders = [(nm, ord)] ∧ (ord == tkASC) = true ∧ s.fieldNames.findIdx? (· == nm) = some i ∧
      s.fields[i]? = some (.field q .key) := by
  unfold elideOrder at he
  split at he
  · rename_i nm ord hor
    simp only [Bool.and_eq_true] at he
    obtain ⟨h1, h2⟩ := he
    split at h2
    · rename_i i hi
      split at h2
      · rename_i q hq
        exact ⟨nm, ord, i, q, hor, h1, hi, hq⟩
      · cases h2
    · cases h2
  · cases he

/-- the order keys `FinalOrderPlan.Init` would compute for an elided ORDER BY -/
theorem orderKeys_elide {s : SelectS} {o : OrderS} {nm : Bytes} {ord i : Nat} (hor : o.orders = [(nm, ord)])
    (hasc : (ord == tkASC) = true) (hi : s.fieldNames.findIdx? (· == nm) = some i) {keys : List Order.Key}
    (hk : orderKeys (projNames s) (projTypes s) o = some keys) : ∃ tp, keys = [⟨i, tp, false⟩] := by
  unfold orderKeys projNames at hk
  rw [hor] at hk
  simp only [List.mapM_cons, List.mapM_nil, hi, Option.pure_def, Option.bind_eq_bind, Option.bind_some] at hk
  cases ht : (projTypes s)[i]? with
  | none => rw [ht] at hk; simp at hk
  | some tp =>
    rw [ht] at hk
    simp only [Option.bind_some, Option.some.injEq] at hk
    have hd : (ord == tkDESC) = false := by
      have : ord = tkASC := by simpa using hasc
      subst this
      decide
    rw [hd] at hk
    exact ⟨tp, hk.symm⟩

theorem colVal_key (q : Nat) (p : SPair) : colVal (.field q .key) p = .bytes p.1 := rfl

/-- **the scan yields key order**: if select field `i` is the bare `key`, the rows of the statement
    without ORDER BY are sorted by column `i` ascending -/
theorem specRows_sorted_by_key {s : SelectS} {f : FoldedSelect} {store : Store} (hs : store.Sorted) {i q : Nat}
    {nm : Bytes} (hi : (selFields s f)[i]? = some ⟨nm, .field q .key⟩) (tp : Nat) :
    (specRows s f store).Pairwise (fun a b => lessV [⟨i, tp, false⟩] b a = false) := by
  unfold specRows
  rw [List.pairwise_map]
  refine (List.Pairwise.filter _ hs).imp ?_
  intro a b hab
  have hcol : ∀ p : SPair, (((selFields s f).map (fun g => colVal g.expr p)).map toCol)[i]? = some (.bytes p.1) := by
    intro p
    rw [List.getElem?_map, List.getElem?_map, hi]
    rfl
  unfold lessV
  simp only [Spec.Order.rowLess, Spec.Order.keyLt, hcol, Bool.false_eq_true, if_false, Spec.Order.colLt,
    Spec.Order.textOf, Bool.and_false, Bool.or_false, decide_eq_false_iff_not]
  exact fun hba => List.lt_irrefl _ (List.lt_trans hab hba)

/-- position `i` of the projection's select list when field `i` of the folded statement is known -/
theorem selFields_getElem? {s : SelectS} {f : FoldedSelect} {i : Nat} {nm : Bytes} {e : Expr}
    (hn : s.fieldNames[i]? = some nm) (he : f.fields[i]? = some e) : (selFields s f)[i]? = some ⟨nm, e⟩ := by
  unfold selFields
  have : (s.fieldNames.zip f.fields)[i]? = some (nm, e) := List.getElem?_zip_eq_some.mpr ⟨hn, he⟩
  rw [List.getElem?_map, this]
  rfl

theorem findIdx?_getElem? {α : Type} {p : α → Bool} : ∀ {l : List α} {i : Nat}, l.findIdx? p = some i → ∃ a, l[i]? = some a
  | [], _, h => by simp at h
  | x :: xs, i, h => by
    have := List.findIdx?_eq_some_iff_getElem.mp h
    obtain ⟨hlt, _⟩ := this
    exact ⟨(x :: xs)[i], List.getElem?_eq_getElem hlt⟩

/-- the elided ORDER BY, (3): the rows of the statement without ORDER BY are sorted under the keys of
    the clause -/
theorem specRows_sorted_elide {s : SelectS} {f : FoldedSelect} (hf : foldSelect s = .ok f) {store : Store}
    (hs : store.Sorted) {o : OrderS} (he : elideOrder s o = true) {keys : List Order.Key}
    (hk : orderKeys (projNames s) (projTypes s) o = some keys) :
    (specRows s f store).Pairwise (fun a b => lessV keys b a = false) := by
  obtain ⟨nm, ord, i, q, hor, hasc, hi, hfld⟩ := elideOrder_inv he
  obtain ⟨tp, rfl⟩ := orderKeys_elide hor hasc hi hk
  obtain ⟨nm', hnm'⟩ := findIdx?_getElem? hi
  exact specRows_sorted_by_key hs (selFields_getElem? hnm' (folded_key_field hf hfld)) tp

end Kvql.Proofs.RunFields
