/-
  Constant folding introduces no alias reference: if the tree `Optimize()` is given has no
  `FieldReferenceExpr` (and no cycle marker), neither has the tree it returns.  Same well-founded
  mutual recursion as the definitions in Model/Fold.lean (and as `pass_ok`, Proofs/FoldSpec.lean).
  Needed by the end-to-end theorems: for a reference-free WHERE the re-pointing of alias
  references after folding (`Parser.resolveTop`) is the identity.
-/
import Kvql.Proofs.FoldTotal
import Kvql.Proofs.TypingParse

namespace Kvql.Proofs.RunFold
open Kvql Kvql.Fold Kvql.Proofs.Typing Generated

theorem af_of_lit {e : Expr} (h : isLit4 e = true) : aliasFree e = true := by
  cases e <;> simp [isLit4] at h <;> simp [aliasFree]

theorem af_binop {p : Nat} {op : Op} {l r : Expr} :
    aliasFree (.binop p op l r) = true ↔ aliasFree l = true ∧ aliasFree r = true := by
  simp [aliasFree]

theorem reorder_af : ∀ e : Expr, aliasFree e = true → aliasFree (reorder e) = true
  | .binop p op l r, h => by
    obtain ⟨hl, hr⟩ := af_binop.mp h
    have hl' := reorder_af l hl
    have hr' := reorder_af r hr
    rw [reorder]
    split
    · exact af_binop.mpr ⟨hl', hr'⟩
    · split
      · rename_i q lop ll lr heq
        have hl'' := hl'
        rw [heq] at hl''
        obtain ⟨h1, h2⟩ := af_binop.mp hl''
        split
        · exact af_binop.mpr ⟨h1, af_binop.mpr ⟨h2, hr'⟩⟩
        · exact af_binop.mpr ⟨hl', hr'⟩
      · exact af_binop.mpr ⟨hl', hr'⟩
  | .field .., h | .str .., h | .name .., h | .cycle, h | .num .., h | .float .., h | .bool .., h | .not .., h
  | .call .., h | .ref .., h | .list .., h | .access .., h => by simpa [reorder] using h

theorem andOr_af (e : Expr) (h : aliasFree e = true) : aliasFree (andOr e).1 = true := by
  unfold andOr
  split
  · rename_i q op l r
    obtain ⟨hl, hr⟩ := af_binop.mp h
    split
    · exact h
    · split <;> (repeat' split) <;> first | exact h | exact hl | exact hr | simp [mkBool, aliasFree]
  · exact h

theorem except_bind_ok' {α β} {x : Except String α} {f : α → Except String β} {b : β} (h : x >>= f = .ok b) :
    ∃ a, x = .ok a ∧ f a = .ok b := except_bind_ok h

mutual
  theorem pass_af : ∀ (e : Expr) (r : Pass), aliasFree e = true → pass e = .ok r → aliasFree r.ret = true
    | .binop p op l r, res, ha, h => by
      rw [pass] at h
      obtain ⟨o, ho, h⟩ := except_bind_ok h
      have oa := binExec_af (reorder (.binop p op l r)) o (reorder_af _ ha) ho
      split at h
      · cases h; exact andOr_af _ oa
      · cases h; exact andOr_af _ oa
    | .call p nm args, res, ha, h => by
      rw [pass] at h
      obtain ⟨o, ho, h⟩ := except_bind_ok h
      have oa := callFold_af (.call p nm args) o ha ho
      cases h
      exact oa
    | .field p k, res, ha, h | .str p d, res, ha, h | .not p r, res, ha, h | .name p d, res, ha, h
    | .ref p n t, res, ha, h | .cycle, res, ha, h | .num p d v, res, ha, h | .float p d v, res, ha, h
    | .bool p d v, res, ha, h | .list p items, res, ha, h | .access p l f, res, ha, h => by
      simp only [pass] at h
      cases h
      exact ha
  termination_by e => (size e, 2)
  decreasing_by
    · rw [size_reorder]; exact Prod.Lex.right _ (by omega)
    · exact Prod.Lex.right _ (by omega)

  theorem binExec_af : ∀ (e : Expr) (o : Out), aliasFree e = true → binExec e = .ok o → aliasFree o.ret = true
    | .binop p op l r, o, ha, h => by
      obtain ⟨hl, hr⟩ := af_binop.mp ha
      have hb := h
      rw [binExec] at h
      obtain ⟨lo, hlo, h⟩ := except_bind_ok h
      obtain ⟨ro, hro, h⟩ := except_bind_ok h
      have al := operand_af l lo hl hlo
      have ar := operand_af r ro hr hro
      simp only [] at h
      split at h
      · cases h; exact af_binop.mpr ⟨al, ar⟩
      · obtain ⟨fc, hfc, h⟩ := except_bind_ok h
        cases fc with
        | none => cases h; exact af_binop.mpr ⟨al, ar⟩
        | some k =>
          cases h
          exact af_of_lit ((binExec_ok _ _ hb).lit rfl)
    | .field p k, o, ha, h | .str p d, o, ha, h | .not p r, o, ha, h | .name p d, o, ha, h | .ref p n t, o, ha, h
    | .cycle, o, ha, h | .num p d v, o, ha, h | .float p d v, o, ha, h | .bool p d v, o, ha, h
    | .list p items, o, ha, h | .access p l f, o, ha, h | .call p nm args, o, ha, h => by
      simp only [binExec] at h
      cases h
      exact ha
  termination_by e => (size e, 1)
  decreasing_by
    · exact Prod.Lex.left _ _ (by simp only [size]; omega)
    · exact Prod.Lex.left _ _ (by simp only [size]; omega)

  theorem operand_af : ∀ (e : Expr) (o : Out), aliasFree e = true → operand e = .ok o → aliasFree o.ret = true
    | .binop p op l r, o, ha, h => by
      rw [operand] at h
      exact binExec_af (.binop p op l r) o ha h
    | .call p nm args, o, ha, h => by
      rw [operand] at h
      exact callFold_af (.call p nm args) o ha h
    | .str p d, o, ha, h | .num p d v, o, ha, h | .float p d v, o, ha, h | .bool p d v, o, ha, h
    | .field p k, o, ha, h | .not p r, o, ha, h | .name p d, o, ha, h | .ref p n t, o, ha, h
    | .cycle, o, ha, h | .list p items, o, ha, h | .access p l f, o, ha, h => by
      simp only [operand] at h
      cases h
      exact ha
  termination_by e => (size e, 2)
  decreasing_by
    · exact Prod.Lex.right _ (by omega)
    · exact Prod.Lex.right _ (by omega)

  theorem callFold_af : ∀ (e : Expr) (o : Out), aliasFree e = true → callFold e = .ok o → aliasFree o.ret = true
    | .call p nm args, o, ha, h => by
      have hb := h
      have ha' : aliasFree nm = true ∧ aliasFree.aliasFreeList args = true := by
        simpa [aliasFree] using ha
      rw [callFold] at h
      obtain ⟨args', hargs, h⟩ := except_bind_ok h
      have aa := optArgs_af args args' ha'.2 hargs
      have hnode : aliasFree (.call p nm args') = true := by simp [aliasFree, ha'.1, aa]
      simp only [] at h
      split at h
      · cases h; exact hnode
      · obtain ⟨fc, hfc, h⟩ := except_bind_ok h
        cases fc with
        | none => cases h; exact hnode
        | some k =>
          cases h
          exact af_of_lit ((callFold_ok _ _ hb).lit rfl)
    | .field p k, o, ha, h | .str p d, o, ha, h | .not p r, o, ha, h | .name p d, o, ha, h | .ref p n t, o, ha, h
    | .cycle, o, ha, h | .num p d v, o, ha, h | .float p d v, o, ha, h | .bool p d v, o, ha, h
    | .list p items, o, ha, h | .access p l f, o, ha, h | .binop p op l r, o, ha, h => by
      simp only [callFold] at h
      cases h
      exact ha
  termination_by e => (size e, 1)
  decreasing_by
    · exact Prod.Lex.left _ _ (by simp only [size]; omega)

  theorem optArgs_af : ∀ (args args' : List Expr), aliasFree.aliasFreeList args = true → optArgs args = .ok args' →
      aliasFree.aliasFreeList args' = true
    | [], args', _, h => by
      simp only [optArgs] at h
      cases h
      rfl
    | a :: rest, args', ha, h => by
      have ha' : aliasFree a = true ∧ aliasFree.aliasFreeList rest = true := by
        simpa [aliasFree.aliasFreeList] using ha
      rw [optArgs] at h
      obtain ⟨pa, hpa, h⟩ := except_bind_ok h
      obtain ⟨rest', hrest, h⟩ := except_bind_ok h
      cases h
      simp [aliasFree.aliasFreeList, pass_af a pa ha'.1 hpa, optArgs_af rest rest' ha'.2 hrest]
  termination_by args => (sizeList args, 0)
  decreasing_by
    · exact Prod.Lex.left _ _ (by simp only [sizeList]; omega)
    · exact Prod.Lex.left _ _ (by simp only [sizeList]; omega)
end

/-- the tree `Optimize()` returns for a reference-free tree is reference-free -/
theorem optimizeBoth_af {e r n : Expr} (ha : aliasFree e = true) (h : optimizeBoth e = .ok (r, n)) :
    aliasFree r = true := by
  rw [optimizeBoth] at h
  obtain ⟨p1, h1, h⟩ := except_bind_ok h
  obtain ⟨p2, h2, h⟩ := except_bind_ok h
  cases h
  exact pass_af _ _ (pass_af _ _ ha h1) h2

mutual
  /-- re-pointing the alias references of a tree that has none changes nothing -/
  theorem mapRefs_of_af (f : Nat → Bytes → Expr → Expr) : ∀ e : Expr, aliasFree e = true → Parser.mapRefs f e = e
    | .binop p o l r, h => by
      simp only [aliasFree, Bool.and_eq_true] at h
      simp [Parser.mapRefs, mapRefs_of_af f l h.1, mapRefs_of_af f r h.2]
    | .not p r, h => by
      simp only [aliasFree] at h
      simp [Parser.mapRefs, mapRefs_of_af f r h]
    | .call p n args, h => by
      simp only [aliasFree, Bool.and_eq_true] at h
      simp [Parser.mapRefs, mapRefs_of_af f n h.1, mapRefsList_of_af f args h.2]
    | .list p items, h => by
      simp only [aliasFree] at h
      simp [Parser.mapRefs, mapRefsList_of_af f items h]
    | .access p l x, h => by
      simp only [aliasFree, Bool.and_eq_true] at h
      simp [Parser.mapRefs, mapRefs_of_af f l h.1, mapRefs_of_af f x h.2]
    | .ref p n t, h => by simp [aliasFree] at h
    | .cycle, h => by simp [aliasFree] at h
    | .field .., _ | .str .., _ | .name .., _ | .num .., _ | .float .., _ | .bool .., _ => by
      simp [Parser.mapRefs]
  theorem mapRefsList_of_af (f : Nat → Bytes → Expr → Expr) :
      ∀ es : List Expr, aliasFree.aliasFreeList es = true → Parser.mapRefsList f es = es
    | [], _ => by simp [Parser.mapRefsList]
    | e :: es, h => by
      simp only [aliasFree.aliasFreeList, Bool.and_eq_true] at h
      simp [Parser.mapRefsList, mapRefs_of_af f e h.1, mapRefsList_of_af f es h.2]
end

theorem resolveTop_of_af (tbl : Tbl) (e : Expr) (h : aliasFree e = true) : Parser.resolveTop tbl e = e := by
  unfold Parser.resolveTop
  simp only [Parser.resolve]
  exact mapRefs_of_af _ e h

end Kvql.Proofs.RunFold
