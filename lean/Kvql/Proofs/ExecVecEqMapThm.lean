import Kvql.Proofs.ExecVecInList

namespace Kvql
open Generated

theorem call_case {p : Nat} {nm : Expr} {args : List Expr}
    (ihb : ∀ b, VecBodyEqMap b args) : VecEqMap (.call p nm args) := by
  intro chunk c hc vs c' h
  rw [execBatch] at h
  cases hn : funcNameOf nm with
  | error e => rw [hn] at h; cases h
  | ok fname =>
    rw [hn] at h; dsimp only at h
    cases hf : lookupFunc fname with
    | none => rw [hf] at h; cases h
    | some fo =>
      rw [hf] at h; dsimp only at h
      by_cases h1 : (!fo.varArgs && args.length != fo.numArgs) = true
      · rw [if_pos h1] at h; cases h
      · rw [if_neg h1] at h
        by_cases h2 : (fo.varArgs && decide (args.length < fo.numArgs)) = true
        · rw [if_pos h2] at h; cases h
        · rw [if_neg h2] at h
          cases hb : fo.body with
          | none => rw [hb] at h; cases h
          | some b =>
            rw [hb] at h; dsimp only at h
            have hrow : ∀ kv, exec (.call p nm args) kv = rowBody b args kv :=
              fun kv => exec_call_eq hn hf h1 h2 hb
            by_cases ht : fo.vecIsTwin = true
            · rw [if_pos ht] at h
              obtain ⟨e1, R⟩ := ihb b chunk c hc _ _ h
              exact ⟨e1, R.imp (fun y kv ⟨y', hy, ry⟩ => ⟨y', by rw [hrow]; exact hy, ry⟩)⟩
            · rw [if_neg ht] at h
              unfold rowWiseNoCtx at h
              rcases hfp : forPairs (rowBody b args) chunk Ctx.none with ⟨r, d⟩
              rw [hfp] at h; simp at h; obtain ⟨rfl, rfl⟩ := h
              obtain ⟨_, R⟩ := forPairs_forall₂ (fun kv => rowBody_inert b args kv) (c := Ctx.none) rfl hfp
              exact ⟨rfl, R.imp (fun v kv hv => ⟨v, by rw [hrow]; exact (rowBody_off b args kv).run_eq rfl hc hv, .refl v⟩)⟩

mutual
  /-- batch = map of row (by content), and batch ok ⇒ row ok, for every covered expression -/
  theorem vec_eq_map_core : ∀ (e : Expr), e.vecOk = true → VecEqMap e
    | .str p d, _ => leaf_case (fun _ => .bytes d) (fun _ => by rw [execBatch]) (fun _ => by rw [exec])
    | .field p k, _ => by
      cases k
      · exact leaf_case (fun kv => .bytes kv.key) (fun _ => by rw [execBatch]) (fun _ => by rw [exec])
      · exact leaf_case (fun kv => .bytes kv.value) (fun _ => by rw [execBatch]) (fun _ => by rw [exec])
    | .name p d, _ => leaf_case (fun _ => .str d) (fun _ => by rw [execBatch]) (fun _ => by rw [exec])
    | .num p d v, _ => leaf_case (fun _ => .int v) (fun _ => by rw [execBatch]) (fun _ => by rw [exec])
    | .float p d v, _ => leaf_case (fun _ => .float v) (fun _ => by rw [execBatch]) (fun _ => by rw [exec])
    | .bool p d v, _ => leaf_case (fun _ => .bool v) (fun _ => by rw [execBatch]) (fun _ => by rw [exec])
    | .list p items, _ => leaf_case (fun _ => .exprList items) (fun _ => by rw [execBatch]) (fun _ => by rw [exec])
    | .cycle, _ => by
      intro chunk c hc vs c' h
      rw [execBatch] at h; cases h
    | .not p r, h => not_case (vec_eq_map_core r (by simpa [Expr.vecOk] using h))
    | .ref p name t, h => ref_case (vec_eq_map_core t (by simpa [Expr.vecOk] using h))
    | .access p l f, h => access_case (vec_eq_map_core l (by simpa [Expr.vecOk] using h))
    | .call p nm args, h => call_case (fun b => vecBody_core b args (by simpa [Expr.vecOk] using h))
    | .binop p op l r, h => by
      have hl : l.vecOk = true := by simp [Expr.vecOk] at h; exact h.1.1
      have hr : r.vecOk = true := by simp [Expr.vecOk] at h; exact h.1.2
      have ihl := vec_eq_map_core l hl
      have ihr := vec_eq_map_core r hr
      cases op
      · exact and_case (.inl rfl) ihl ihr
      · exact or_case (.inl rfl) ihl ihr
      · intro chunk c hc vs c' h; rw [execBatch] at h; cases h
      · exact eq_case (.inl ⟨rfl, rfl⟩) ihl ihr
      · exact eq_case (.inr ⟨rfl, rfl⟩) ihl ihr
      · exact prefix_case ihl ihr
      · exact regex_case ihl ihr
      · cases hs : (retType l == tyTSTR)
        · exact math_case (.inr (.inr (.inr ⟨rfl, rfl, hs⟩))) ihl ihr
        · exact concat_case hs ihl ihr
      · exact math_case (.inl ⟨rfl, rfl⟩) ihl ihr
      · exact math_case (.inr (.inl ⟨rfl, rfl⟩)) ihl ihr
      · exact math_case (.inr (.inr (.inl ⟨rfl, rfl⟩))) ihl ihr
      · exact compare_case (.inl ⟨rfl, rfl⟩) ihl ihr
      · exact compare_case (.inr (.inl ⟨rfl, rfl⟩)) ihl ihr
      · exact compare_case (.inr (.inr (.inl ⟨rfl, rfl⟩))) ihl ihr
      · exact compare_case (.inr (.inr (.inr ⟨rfl, rfl⟩))) ihl ihr
      · -- in
        cases r with
        | call q nm args =>
          exact in_call_case (.inl ⟨q, nm, args, rfl⟩) (by simp [Expr.vecOk] at h; exact h.2) ihl ihr
        | ref q nm t =>
          exact in_call_case (.inr ⟨q, nm, t, rfl⟩) (by simp [Expr.vecOk] at h; exact h.2) ihl ihr
        | list q items =>
          exact in_list_case ihl (inItems_core (!(retType l == tyTSTR)) items (by simpa [Expr.vecOk] using hr))
        | _ => exact in_other_case (by intros; simp) (by intros; simp) (by intros; simp)
      · -- between
        cases r with
        | list q items =>
          match items, hr with
          | [lo, hi], hr =>
            have hw : lo.vecOk = true ∧ hi.vecOk = true := by simpa [Expr.vecOk, Expr.vecOkList] using hr
            exact between_case ihl (vec_eq_map_core lo hw.1) (vec_eq_map_core hi hw.2)
          | [], _ => exact between_bad_case (by intros; simp) ihl
          | [_], _ => exact between_bad_case (by intros; simp) ihl
          | _ :: _ :: _ :: _, _ => exact between_bad_case (by intros; simp) ihl
        | _ => exact between_bad_case (by intros; simp) ihl
      · exact and_case (.inr rfl) ihl ihr
      · exact or_case (.inr rfl) ihl ihr

  theorem inItems_core : ∀ (number : Bool) (items : List Expr), Expr.vecOkList items = true →
      ∀ (chunk : List Pair) (c : Ctx), c.enable = false → ∀ cols c',
        execInItemsBatch number items chunk c = (.ok cols, c') → c' = c ∧ ColsOk number c chunk cols items
    | number, [], _ => by
      intro chunk c hc cols c' h
      rw [execInItemsBatch] at h
      obtain ⟨rfl, rfl⟩ := pure_ok_inv h
      exact ⟨rfl, .nil⟩
    | number, e :: es, hok => by
      intro chunk c hc cols c' h
      simp only [Expr.vecOkList, Bool.and_eq_true] at hok
      rw [execInItemsBatch] at h
      by_cases ht : (retType e != (if number = true then tyTNUMBER else tyTSTR)) = true
      · rw [if_pos ht] at h; cases h
      · rw [if_neg ht] at h
        obtain ⟨vals, c1, hv, h1⟩ := bind_ok_inv h
        obtain ⟨e1, Rv⟩ := vec_eq_map_core e hok.1 chunk c hc _ _ hv
        rw [e1] at h1
        obtain ⟨rest, c2, hr, h2⟩ := bind_ok_inv h1
        obtain ⟨e2, Rr⟩ := inItems_core number es hok.2 chunk c hc _ _ hr
        rw [e2] at h2
        obtain ⟨rfl, rfl⟩ := pure_ok_inv h2
        refine ⟨rfl, .cons ⟨?_, Rv⟩ Rr⟩
        simpa [wantType] using ht

  theorem vecBody_core : ∀ (b : Body) (args : List Expr), Expr.vecOkList args = true → VecBodyEqMap b args
    | .join, args, _ => rowwise_body .join (.inl rfl) args
    | .toList, args, _ => rowwise_body .toList (.inr (.inl rfl)) args
    | .intList, args, _ => rowwise_body .intList (.inr (.inr (.inl rfl))) args
    | .floatList, args, _ => rowwise_body .floatList (.inr (.inr (.inr rfl))) args
    | .lower, a0 :: _, h => unary_body rfl (vec_eq_map_core a0 (by simp [Expr.vecOkList] at h; exact h.1))
    | .upper, a0 :: _, h => unary_body rfl (vec_eq_map_core a0 (by simp [Expr.vecOkList] at h; exact h.1))
    | .toInt, a0 :: _, h => unary_body rfl (vec_eq_map_core a0 (by simp [Expr.vecOkList] at h; exact h.1))
    | .toFloat, a0 :: _, h => unary_body rfl (vec_eq_map_core a0 (by simp [Expr.vecOkList] at h; exact h.1))
    | .toStr, a0 :: _, h => unary_body rfl (vec_eq_map_core a0 (by simp [Expr.vecOkList] at h; exact h.1))
    | .isInt, a0 :: _, h => unary_body rfl (vec_eq_map_core a0 (by simp [Expr.vecOkList] at h; exact h.1))
    | .isFloat, a0 :: _, h => unary_body rfl (vec_eq_map_core a0 (by simp [Expr.vecOkList] at h; exact h.1))
    | .strlen, a0 :: _, h => unary_body rfl (vec_eq_map_core a0 (by simp [Expr.vecOkList] at h; exact h.1))
    | .len, a0 :: _, h => len_body (vec_eq_map_core a0 (by simp [Expr.vecOkList] at h; exact h.1))
    | .json, a0 :: _, h => json_body (vec_eq_map_core a0 (by simp [Expr.vecOkList] at h; exact h.1))
    | .subStr, a0 :: a1 :: a2 :: _, h => by
      simp [Expr.vecOkList] at h
      exact substr_body (vec_eq_map_core a0 h.1) (vec_eq_map_core a1 h.2.1) (vec_eq_map_core a2 h.2.2.1)
    | .split, a0 :: a1 :: _, h => by
      simp [Expr.vecOkList] at h
      exact split_body (vec_eq_map_core a0 h.1) (vec_eq_map_core a1 h.2.1)
    | .cosine, a0 :: a1 :: _, h => by
      simp [Expr.vecOkList] at h
      exact distance_body (.inr ⟨rfl, rfl⟩) (vec_eq_map_core a0 h.1) (vec_eq_map_core a1 h.2.1)
    | .l2, a0 :: a1 :: _, h => by
      simp [Expr.vecOkList] at h
      exact distance_body (.inl ⟨rfl, rfl⟩) (vec_eq_map_core a0 h.1) (vec_eq_map_core a1 h.2.1)
    -- fewer arguments than the body indexes: the vector body panics, so it did not succeed
    | .lower, [], _ | .upper, [], _ | .toInt, [], _ | .toFloat, [], _
    | .toStr, [], _ | .isInt, [], _ | .isFloat, [], _ | .strlen, [], _
    | .len, [], _ | .json, [], _
    | .subStr, [], _ | .subStr, [_], _ | .subStr, [_, _], _
    | .split, [], _ | .split, [_], _
    | .cosine, [], _ | .cosine, [_], _
    | .l2, [], _ | .l2, [_], _ => by
      intro chunk c hc vs c' h
      simp only [vecBody] at h
      cases h
end

end Kvql
