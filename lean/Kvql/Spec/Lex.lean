/-
  Reference tokenizer (what a user is promised): a structurally recursive
  maximal-munch scanner.  It never looks at offsets to *find* text — a pending
  word is carried as the bytes themselves — so that "a token carries its true
  text and offset" is visible by inspection.

  * blanks (space, tab, newline, vertical tab, form feed, carriage return) separate tokens;
  * a quote (`'` or `"`) opens a literal that runs to the next identical quote; its
    content is kept byte for byte; a back-quote does the same for a quoted name;
  * `^= ~= != <= >=` are single tokens; `! * + - / < >` not followed by `=` and `=`
    are one-byte operator tokens; a lone `^` or `~`, or `* + - /` directly followed by `=`,
    is not a token of the language and produces nothing;
  * `& | ( ) [ ] , ;` are one-byte tokens;
  * anything else accumulates into a word, which is lower-cased and classified
    (keyword / integer / float / name);
  * an unterminated literal is not a literal: the text from its quote to the end of
    the input is one word token (so the parser rejects it at the quote's offset).
-/
import Kvql.Model.Lexer

namespace Kvql.Spec

open Kvql Kvql.Lexer Kvql.Generated

def specBlank (c : UInt8) : Bool := c == 32 || (9 ≤ c && c ≤ 13)

/-- word token for the pending word `w` (in order) that started at `wpos` -/
def wordTok (w : Bytes) (wpos : Nat) : List Token :=
  if w.isEmpty then [] else [{ tp := classify (toLower w), data := toLower w, pos := wpos }]

/-- bytes which, followed by `=`, form a two-byte operator -/
def isOp2Lead (c : UInt8) : Bool := c == 94 || c == 126 || c == 33 || c == 60 || c == 62
/-- bytes which alone form an operator (when not followed by `=`) -/
def isOp1 (c : UInt8) : Bool :=
  c == 33 || c == 42 || c == 43 || c == 45 || c == 47 || c == 62 || c == 60

def punctTp (c : UInt8) : Nat :=
  if c == 40 then tkLPAREN else if c == 41 then tkRPAREN
  else if c == 91 then tkLBRACK else if c == 93 then tkRBRACK
  else if c == 44 then tkSEP else if c == 59 then tkSEMI else tkOPERATOR

/-- content of a literal opened by `qc`: bytes up to the matching quote, and what follows it.
    `none` when the literal is not terminated. -/
def literalBody (qc : UInt8) : Bytes → Option (Bytes × Bytes)
  | [] => none
  | c :: rest =>
    if c == qc then some ([], rest)
    else match literalBody qc rest with
      | some (body, after) => some (c :: body, after)
      | none => none

theorem literalBody_length {qc : UInt8} {s body after : Bytes}
    (h : literalBody qc s = some (body, after)) : s.length = body.length + 1 + after.length := by
  induction s generalizing body after with
  | nil => simp [literalBody] at h
  | cons c rest ih =>
    unfold literalBody at h
    split at h
    · cases h; simp; omega
    · cases hb : literalBody qc rest with
      | none => simp [hb] at h
      | some p =>
        obtain ⟨b, a⟩ := p
        simp [hb] at h
        obtain ⟨h1, h2⟩ := h
        subst h1; subst h2
        have := ih hb
        simp; omega

/-- the scanner: `i` is the offset of the head of the remaining input, `w` the pending
    word (in order) which started at offset `wpos`.  Fuel is the input length + 1. -/
def lexFrom : Nat → Bytes → Nat → Bytes → Nat → List Token
  | 0, _, _, w, wpos => wordTok w wpos
  | _ + 1, [], _, w, wpos => wordTok w wpos
  | fuel + 1, c :: rest, i, w, wpos =>
    if specBlank c then wordTok w wpos ++ lexFrom fuel rest (i + 1) [] (i + 1)
    else if isQuote c || isBackquote c then
      match literalBody c rest with
      | some (body, after) =>
        wordTok w wpos ++
          { tp := if isQuote c then tkSTRING else tkNAME, data := body, pos := i } ::
          lexFrom fuel after (i + body.length + 2) [] (i + body.length + 2)
      | none =>
        -- unterminated: the rest of the input, quote included, is a word
        wordTok w wpos ++ wordTok (trimSpace (c :: rest)) i
    else if isOpChar c then
      match rest with
      | 61 :: rest' =>
        if isOp2Lead c then
          wordTok w wpos ++ { tp := tkOPERATOR, data := [c, 61], pos := i } ::
            lexFrom fuel rest' (i + 2) [] (i + 2)
        else if c == 61 then
          wordTok w wpos ++ { tp := tkOPERATOR, data := [61], pos := i } ::
            lexFrom fuel rest (i + 1) [] (i + 1)
        else
          -- `* + - /` directly followed by `=`: not a token
          wordTok w wpos ++ lexFrom fuel rest (i + 1) [] (i + 1)
      | _ =>
        if isOp1 c || c == 61 then
          wordTok w wpos ++ { tp := tkOPERATOR, data := [c], pos := i } ::
            lexFrom fuel rest (i + 1) [] (i + 1)
        else
          -- lone `^` or `~`: not a token
          wordTok w wpos ++ lexFrom fuel rest (i + 1) [] (i + 1)
    else if isPunct c || isSep c then
      wordTok w wpos ++ { tp := punctTp c, data := [c], pos := i } ::
        lexFrom fuel rest (i + 1) [] (i + 1)
    else
      lexFrom fuel rest (i + 1) (w ++ [c]) wpos

def lex (q : Bytes) : List Token := lexFrom (q.length + 1) q 0 [] 0

end Kvql.Spec
