/-
  REFERENCE EVALUATOR for the core expression language of property C01, written from
  README.md ("Operators and Functions") and spec.md — not from the engine.  It is the judge of
  "the stored pairs on which P is true under the documented operator semantics".

  Semantic values: ONE text kind (a byte string), integers (64-bit, wrapping as the documented
  `int`), floats (IEEE binary64), Booleans, ONE list kind.  `eval e kv = none` means "not evaluable
  on this pair": evaluation is STRICT — every sub-expression must be evaluable and of the right
  kind; there is no short-circuit rescue (`false & (1/0 = 1)` is not evaluable).

  Reading of the documents, item by item (DESIGN.md §3.1 is followed; deviations are marked !):
    key, value, 'lit'        text                          true/false   Boolean
    12, 1.5                  integer, float                alias        the expression it names
    = !=                     text: same bytes; numbers: numerically equal, an integer and a float are
                             compared as floats; Booleans.  Operands of different classes: not evaluable
    < <= > >=                text: byte-wise lexicographic (a proper prefix is smaller); numbers numerically
    a ^= b                   b is a byte prefix of a                       (text)
    a ~= b                   the regular expression b matches somewhere in a (text); a pattern that does
                             not compile — or lies outside the modelled class of `Lib.Regex` — not evaluable
    x between a and b        a ≤ x ∧ x ≤ b, text or numbers.
                           ! Evaluable iff a < b.  README gives the meaning only; DESIGN §3.1 reads "a ≤ b".
                             The engine REFUSES a = b with an error (it returns no wrong row); taking the
                             stricter domain keeps "evaluable" inside what the engine evaluates.  To adopt
                             the a ≤ b reading change `.lt` to `.le` in `between` below (and apply the
                             proposed engine patch).
    x in (v1, …, vn)         x equals one of the vi (equality as `=`; all vi must be comparable with x)
    & and | or !             Boolean and / or / not (both operands evaluated)
    +                        integers: wrapping sum; floats; integer ⊕ float → float; texts: concatenation
    - * /                    numbers; integer `/` truncates toward zero; divisor 0 (or 0.0): not evaluable
    int(x)                   text that IS a decimal integer → its value; integer → itself;
                             float → truncated toward zero when the result fits 64 bits; anything else
                             (text such as 'abc', '1.5') is the documented "error": not evaluable
    float(x)                 text that reads as a float (Go syntax) → nearest float; numbers → float
    str(x)                   text unchanged; integer → decimal numeral; float → six-decimals form (`%f`)
    strlen(x)                number of bytes of str(x)
    upper(t) lower(t)        ASCII letters mapped, every other byte unchanged
    is_int(x) is_float(x)    text: does int(x) / float(x) succeed; an integer is_int, a float is_float
                             (is_int of a float and is_float of an integer: outside this reference)
    substr(t, s, e)          the bytes of t at positions p with s ≤ p < e (positions count from 0;
                             positions outside t contribute nothing)
  Function names are case-insensitive (ASCII).  Everything else (split, list, json, field access,
  `in` over a list-valued call, …) is outside the core language: not evaluable here.

  Pieces of `Lib.lean` reused ("modelled, not verified" library behaviour, DESIGN.md §7):
  `Regex.parse/matches` (regexp), `parseFloat?` (strconv.ParseFloat), `formatF` (`%f`),
  `F64.toInt64Go` (float → integer truncation), and the float arithmetic `F64.*` of Expr.lean.
  Core Lean only.
-/
import Kvql.Model.Lib

namespace Kvql.Spec
open Kvql

inductive SVal
  | text (b : Bytes)
  | int (i : Int64)
  | float (f : F64)
  | bool (b : Bool)
  | list (l : List SVal)
deriving Inhabited

/-! ### comparison -/

inductive Cmp | lt | le | eq
deriving DecidableEq

def Cmp.onFloat : Cmp → F64 → F64 → Bool
  | .lt, a, b => a.lt b
  | .le, a, b => a.le b
  | .eq, a, b => a.eq b

/-- `a < b`, `a ≤ b`, `a = b` for two values of one class; `none`: not comparable.
    Text uses the lexicographic order of core Lean on `List UInt8` (byte-wise, a prefix is smaller). -/
def compare? (c : Cmp) : SVal → SVal → Option Bool
  | .text a, .text b => some (match c with | .lt => decide (a < b) | .le => decide (a ≤ b) | .eq => decide (a = b))
  | .int a, .int b => some (match c with | .lt => decide (a < b) | .le => decide (a ≤ b) | .eq => decide (a = b))
  | .int a, .float b => some (c.onFloat (F64.ofInt a) b)
  | .float a, .int b => some (c.onFloat a (F64.ofInt b))
  | .float a, .float b => some (c.onFloat a b)
  | .bool a, .bool b => if c = .eq then some (a == b) else none
  | _, _ => none

/-- `x in (v1, …)` -/
def member (x : SVal) : List SVal → Option Bool
  | [] => some false
  | v :: vs => do
    let here ← compare? .eq x v
    let later ← member x vs
    pure (here || later)

/-- `x between lo and hi` -/
def between (x lo hi : SVal) : Option Bool := do
  let ordered ← compare? .lt lo hi
  let c1 ← compare? .le lo x
  let c2 ← compare? .le x hi
  if ordered then pure (c1 && c2) else none

/-! ### arithmetic -/

def asFloat : SVal → Option F64
  | .int i => some (F64.ofInt i)
  | .float f => some f
  | _ => none

def arith (op : Op) (a b : SVal) : Option SVal :=
  match a, b with
  | .int x, .int y =>
    match op with
    | .add => some (.int (x + y))
    | .sub => some (.int (x - y))
    | .mul => some (.int (x * y))
    | .div => if y = 0 then none else some (.int (x / y))
    | _ => none
  | _, _ => do
    let x ← asFloat a
    let y ← asFloat b
    match op with
    | .add => some (.float (x.add y))
    | .sub => some (.float (x.sub y))
    | .mul => some (.float (x.mul y))
    | .div => if y.isZero then none else some (.float (x.div y))
    | _ => none

/-! ### binary operators on evaluated operands -/

def binop (op : Op) (a b : SVal) : Option SVal :=
  match op with
  | .and | .kwAnd => match a, b with | .bool x, .bool y => some (.bool (x && y)) | _, _ => none
  | .or | .kwOr => match a, b with | .bool x, .bool y => some (.bool (x || y)) | _, _ => none
  | .eq => (compare? .eq a b).map .bool
  | .neq => (compare? .eq a b).map (fun c => .bool !c)
  | .lt => (compare? .lt a b).map .bool
  | .lte => (compare? .le a b).map .bool
  | .gt => (compare? .lt b a).map .bool
  | .gte => (compare? .le b a).map .bool
  | .prefixMatch => match a, b with | .text x, .text p => some (.bool (p.isPrefixOf x)) | _, _ => none
  | .regexMatch =>
    match a, b with
    | .text x, .text p => (Regex.parse p).map (fun re => .bool (re.matches x))
    | _, _ => none
  | .add => match a, b with | .text x, .text y => some (.text (x ++ y)) | _, _ => arith .add a b
  | .sub | .mul | .div => arith op a b
  | .in_ => match b with | .list vs => (member a vs).map .bool | _ => none
  | .between => match b with | .list [lo, hi] => (between a lo hi).map .bool | _ => none
  | .not => none

/-! ### functions -/

def upperByte (c : UInt8) : UInt8 := if 97 ≤ c ∧ c ≤ 122 then c - 32 else c
def lowerByte (c : UInt8) : UInt8 := if 65 ≤ c ∧ c ≤ 90 then c + 32 else c

/-- the value of a non-empty run of decimal digits -/
def digitsValue (ds : Bytes) : Option Nat :=
  if ds ≠ [] ∧ ds.all (fun c => 48 ≤ c && c ≤ 57) then
    some (ds.foldl (fun acc c => acc * 10 + (c.toNat - 48)) 0)
  else none

/-- digits with the sign already read: the value, when it lies within 64 bits -/
def signedValue (neg : Bool) (ds : Bytes) : Option Int64 :=
  match digitsValue ds with
  | none => none
  | some n =>
    let v : Int := if neg then -(n : Int) else n
    if -9223372036854775808 ≤ v ∧ v ≤ 9223372036854775807 then some (Int64.ofInt v) else none

/-- a decimal integer: optional sign, digits, value within 64 bits -/
def readInt : Bytes → Option Int64
  | 45 :: ds => signedValue true ds
  | 43 :: ds => signedValue false ds
  | ds => signedValue false ds

/-- the decimal numeral of an integer -/
def numeral (i : Int64) : Bytes :=
  let digits (n : Nat) : Bytes := (Nat.toDigits 10 n).map (fun c => UInt8.ofNat c.toNat)
  if i.toInt < 0 then 45 :: digits i.toInt.natAbs else digits i.toInt.toNat

/-- -2^63 and 2^63 as floats -/
def minInt64F : F64 := ⟨0xC3E0000000000000⟩
def twoPow63F : F64 := ⟨0x43E0000000000000⟩

def toInt : SVal → Option Int64
  | .text t => readInt t
  | .int i => some i
  | .float f => if minInt64F.le f && f.lt twoPow63F then some f.toInt64Go else none
  | _ => none

def toFloat : SVal → Option F64
  | .text t => parseFloat? t
  | .int i => some (F64.ofInt i)
  | .float f => some f
  | _ => none

def toStr : SVal → Option Bytes
  | .text t => some t
  | .int i => some (numeral i)
  | .float f => some (formatF f)
  | _ => none

/-- positions `s ≤ p < e` of `t` -/
def substr (t : Bytes) (s e : Int64) : Bytes := (t.take e.toInt.toNat).drop s.toInt.toNat

inductive Fn | upper | lower | int | float | str | strlen | isInt | isFloat | substr
deriving DecidableEq, Repr

/-- ASCII string as bytes (reduces in the kernel) -/
def ascii (s : String) : Bytes := s.toList.map (fun c => UInt8.ofNat c.toNat)

def Fn.ofName (name : Bytes) : Option Fn :=
  let n := name.map lowerByte
  if n = ascii "upper" then some .upper else if n = ascii "lower" then some .lower
  else if n = ascii "int" then some .int else if n = ascii "float" then some .float
  else if n = ascii "str" then some .str else if n = ascii "strlen" then some .strlen
  else if n = ascii "is_int" then some .isInt else if n = ascii "is_float" then some .isFloat
  else if n = ascii "substr" then some .substr else none

def apply : Fn → List SVal → Option SVal
  | .upper, [.text t] => some (.text (t.map upperByte))
  | .lower, [.text t] => some (.text (t.map lowerByte))
  | .int, [x] => (toInt x).map .int
  | .float, [x] => (toFloat x).map .float
  | .str, [x] => (toStr x).map .text
  | .strlen, [x] => (toStr x).map (fun t => .int (Int64.ofNat t.length))
  | .isInt, [.text t] => some (.bool (readInt t).isSome)
  | .isInt, [.int _] => some (.bool true)
  | .isFloat, [.text t] => some (.bool (parseFloat? t).isSome)
  | .isFloat, [.float _] => some (.bool true)
  | .substr, [.text t, .int s, .int e] => some (.text (substr t s e))
  | _, _ => none

/-! ### the evaluator -/

mutual
  def eval : Expr → Pair → Option SVal
    | .field _ .key, kv => some (.text kv.key)
    | .field _ .value, kv => some (.text kv.value)
    | .str _ d, _ => some (.text d)
    | .num _ _ v, _ => some (.int v)
    | .float _ _ v, _ => some (.float v)
    | .bool _ _ v, _ => some (.bool v)
    | .ref _ _ target, kv => eval target kv
    | .not _ r, kv =>
      match eval r kv with
      | some (.bool b) => some (.bool !b)
      | _ => none
    | .binop _ op l r, kv =>
      match eval l kv, eval r kv with
      | some a, some b => binop op a b
      | _, _ => none
    | .list _ items, kv => (evalList items kv).map .list
    | .call _ (.name _ f) args, kv =>
      match Fn.ofName f, evalList args kv with
      | some fn, some vs => apply fn vs
      | _, _ => none
    | _, _ => none
  def evalList : List Expr → Pair → Option (List SVal)
    | [], _ => some []
    | e :: es, kv =>
      match eval e kv, evalList es kv with
      | some v, some vs => some (v :: vs)
      | _, _ => none
end

/-- "P is true on the pair" -/
def holds (p : Expr) (kv : Pair) : Bool :=
  match eval p kv with
  | some (.bool true) => true
  | _ => false

/-- "P is evaluable on the pair as a condition" -/
def evaluable (p : Expr) (kv : Pair) : Bool :=
  match eval p kv with
  | some (.bool _) => true
  | _ => false

/-- `select * where P` over a store in key order -/
def select (p : Expr) (store : List Pair) : List Pair := store.filter (holds p)

/-! ### rendering for the driver (the formats of harness/store.go `contentValue`) -/

mutual
  def SVal.canon : SVal → String
    | .text b => "x:" ++ Bytes.toHex b
    | .int i => "i:" ++ toString i.toInt
    | .float f => "f:" ++ f.canon
    | .bool b => if b then "t" else "f"
    | .list l => "[" ++ " ".intercalate (canonAll l) ++ "]"
  def canonAll : List SVal → List String
    | [] => []
    | v :: vs => v.canon :: canonAll vs
end

end Kvql.Spec
