/-
  Reference semantics of ORDER BY (README.md / spec.md, property C07): rows are ordered
  lexicographically over the listed fields, each ascending or descending as written; text is
  compared byte-wise, numbers numerically, false before true.

  The order of two values is defined for two texts, two numbers (integers exactly; when a
  float is involved the integer is converted to float64, as Go does) and two Booleans; for
  anything else `colLt` is false both ways.
-/
import Kvql.Model.Order

namespace Kvql.Spec.Order
open Kvql Kvql.Order

def textOf : Col → Option Bytes
  | .bytes b => some b
  | .str b => some b
  | _ => none

def intOf : Col → Option Int
  | .int i => some i.toInt
  | .goInt i => some i.toInt
  | _ => none

/-- float64 reading of a number, as an integer that orders like the float
    (`f64Key`: sign and magnitude of the IEEE bits, -0 = +0) -/
def floatKey : Col → Option Int
  | .int i => some (f64Key (f64OfInt i.toInt))
  | .goInt i => some (f64Key (f64OfInt i.toInt))
  | .float f => some (f64Key f)
  | _ => none

/-- strict order of two column values -/
def colLt (a b : Col) : Bool :=
  match textOf a, textOf b with
  | some x, some y => decide (x < y)                      -- text: lexicographic on the bytes
  | _, _ =>
    match intOf a, intOf b with
    | some x, some y => decide (x < y)                    -- two integers: exactly
    | _, _ =>
      match floatKey a, floatKey b with
      | some x, some y => decide (x < y)                  -- a float is involved: as float64
      | _, _ =>
        match a, b with
        | .bool x, .bool y => !x && y                     -- false before true
        | _, _ => false

/-- strict order under one order field: column `o.pos`, reversed for DESC -/
def keyLt (o : Key) (l r : Row) : Bool :=
  match l[o.pos]?, r[o.pos]? with
  | some a, some b => if o.desc then colLt b a else colLt a b
  | _, _ => false

/-- lexicographic over the order list: the first field that distinguishes the rows decides -/
def rowLess : List Key → Row → Row → Bool
  | [], _, _ => false
  | o :: rest, l, r => keyLt o l r || (!keyLt o r l && rowLess rest l r)

/-! ### rows on which the order is defined -/

/-- the kinds of columns that have a documented order -/
inductive Kind where
  | bytes | str | text      -- all []byte, all string, any mix of the two
  | int | goInt | float     -- all int64, all int, all float64
  | num                     -- any mix of int64, int and float64
  | bool
deriving DecidableEq, Repr

/-- `v` is a value of kind `k` (floats: not NaN).  `S` is the set of integers allowed in a
    mixed number column (on which the conversion to float64 must be faithful, see `ConvOK`). -/
def Kind.holds (S : Int → Prop) : Kind → Col → Prop
  | .bytes, .bytes _ => True
  | .str, .str _ => True
  | .text, .bytes _ => True
  | .text, .str _ => True
  | .int, .int _ => True
  | .goInt, .goInt _ => True
  | .float, .float f => f64IsNaN f = false
  | .num, .int i => S i.toInt
  | .num, .goInt i => S i.toInt
  | .num, .float f => f64IsNaN f = false
  | .bool, .bool _ => True
  | _, _ => False

/-- the conversion int64 → float64 is strictly monotone and finite on `S` (true of
    |i| ≤ 2^53, where it is exact; an hypothesis of the theorems about mixed columns) -/
def ConvOK (S : Int → Prop) : Prop :=
  (∀ a b, S a → S b → (a < b ↔ f64Key (f64OfInt a) < f64Key (f64OfInt b))) ∧
  (∀ a, S a → f64IsNaN (f64OfInt a) = false)

/-- kind `k` is what a field of declared type `tp` holds -/
def Kind.fits (tp : Nat) : Kind → Prop
  | .bytes | .str | .text => tp = Generated.tyTSTR
  | .int | .goInt | .float | .num => tp = Generated.tyTNUMBER
  | .bool => tp = Generated.tyTBOOL

/-- row `r` has, in the column of every order field, a value of the kind prescribed for
    that field, and the kind fits the field's declared type -/
def RowOK (S : Int → Prop) : List Key → List Kind → Row → Prop
  | [], [], _ => True
  | o :: keys, k :: kinds, r => k.fits o.tp ∧ (∃ v, r[o.pos]? = some v ∧ k.holds S v) ∧ RowOK S keys kinds r
  | _, _, _ => False

end Kvql.Spec.Order
