/-
  Reference meaning of a WHERE tree as a constraint on the key alone ("can the filter hold on
  some pair with this key?"), from README.md / spec.md: `&`/`and`, `|`/`or`, Boolean literals and
  the key atoms with the literal on either side mean what they say, byte-wise; every other node
  (predicates on the value, `!`, function calls, …) may hold.  Used as the witness that the
  hypotheses of the C02/C18 theorems are satisfiable.  Core Lean only.
-/
import Kvql.Model.Scan

namespace Kvql.Spec

open Kvql
open Kvql.Scan (stringItems)

def canHold : Expr → Bytes → Bool
  | .binop _ .and l r, k => canHold l k && canHold r k
  | .binop _ .kwAnd l r, k => canHold l k && canHold r k
  | .binop _ .or l r, k => canHold l k || canHold r k
  | .binop _ .kwOr l r, k => canHold l k || canHold r k
  | .bool _ _ b, _ => b
  | .binop _ .eq (.field _ .key) (.str _ lit), k => k == lit
  | .binop _ .eq (.str _ lit) (.field _ .key), k => k == lit
  | .binop _ .prefixMatch (.field _ .key) (.str _ lit), k => Bytes.isPrefix lit k
  | .binop _ .prefixMatch (.str _ lit) (.field _ .key), k => Bytes.isPrefix k lit
  | .binop _ .gt (.field _ .key) (.str _ lit), k => Bytes.lt lit k
  | .binop _ .gt (.str _ lit) (.field _ .key), k => Bytes.lt k lit
  | .binop _ .gte (.field _ .key) (.str _ lit), k => Bytes.le lit k
  | .binop _ .gte (.str _ lit) (.field _ .key), k => Bytes.le k lit
  | .binop _ .lt (.field _ .key) (.str _ lit), k => Bytes.lt k lit
  | .binop _ .lt (.str _ lit) (.field _ .key), k => Bytes.lt lit k
  | .binop _ .lte (.field _ .key) (.str _ lit), k => Bytes.le k lit
  | .binop _ .lte (.str _ lit) (.field _ .key), k => Bytes.le lit k
  | .binop _ .in_ (.field _ .key) (.list _ items), k =>
    !(stringItems items).2 || (stringItems items).1.contains k
  | .binop _ .between (.field _ .key) (.list _ [.str _ lo, .str _ hi]), k =>
    Bytes.le lo k && Bytes.le k hi
  | _, _ => true

end Kvql.Spec
