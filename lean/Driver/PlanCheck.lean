import Driver.Parse
import Kvql.Model.PlanCheck

/-!
  PLANCHECK group of the line protocol.

    PLANCHECK <hexquery> [<floats>]  → ok | err <pos|-1> <class> | panic <site> | fuel |
                                        unsupported <what>
        what `Optimizer.BuildPlan` decides before its first storage call
        (`Kvql.PlanCheck.planStage` on the query's tokens)
    PLANFRONT <hexquery> [<floats>]  → the same for `frontStage` (Parse + function-call validation)

  <floats> as in PARSE.  class ∈ { syntax, cycle, nest }.
-/

open Kvql

namespace Driver

def doPlanCheck (front : Bool) (h fl : String) : String :=
  match Bytes.ofHex h with
  | none => "bad-hex"
  | some q =>
    let pf := mkPf (parseFloatTable fl)
    let toks := Lexer.split q
    showParseRes (fun (_ : Stmt) => "") (if front then PlanCheck.frontStage pf toks else PlanCheck.planStage pf toks)
      |>.trimAsciiEnd.toString

def handlePlanCheck (words : List String) : Option String :=
  match words with
  | ["PLANCHECK", h] => some (doPlanCheck false h "-")
  | ["PLANCHECK", h, fl] => some (doPlanCheck false h fl)
  | ["PLANFRONT", h] => some (doPlanCheck true h "-")
  | ["PLANFRONT", h, fl] => some (doPlanCheck true h fl)
  | _ => none

end Driver
