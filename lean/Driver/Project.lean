/-
  PROJECT group:
    PROJECT <row|batch> <bs> <cache 0|1> <nfields> <hexname>:<wire-expr> … <where wire-expr> <pairs>
      mode   row   = drain of `ProjectionPlan.Next` over a cursor scan that yields <pairs>
             batch = drain of `ProjectionPlan.Batch`, `PlanBatchSize = bs`
             batchc = the same over explicit inner chunks: <pairs> = chunk/chunk/… (`MultiGetPlan`: the listed
                      keys taken `bs` at a time, the pairs that exist; `-` = an empty chunk)
             rownoclear = row mode of the code before commit 374dfd6 (no Clear in FilterExec.Filter)
      cache  `NewExecuteCtx()` with EnableCache = 0 / 1, ONE context for the whole drain
      pairs  hexkey=hexvalue,…  in cursor order (`-` = none)
  Answer:  r1;r2;…  ## <ok | error class> ## hyp=<0|1>
           each row = canonical values joined by `|`; `-` = no row;  hyp=1: the statement meets (a decidable
           sufficient condition for) the hypotheses of the C05 theorems
-/
import Kvql.Model.Project
import Driver.Eval

open Kvql Kvql.Project

namespace Driver

def parseField (s : String) : Option Field :=
  match s.splitOn ":" with
  | [n, w] => do pure ⟨← Bytes.ofHex n, ← Expr.ofWire w⟩
  | _ => none

def showOut (o : Out) : String :=
  let rows := o.rows.map (fun r => "|".intercalate (r.map Value.canon))
  (if rows.isEmpty then "-" else ";".intercalate rows) ++ " ## " ++
    (match o.err with | none => "ok" | some e => e.cls)

def parseChunks (s : String) : Option (List (List Pair)) := (s.splitOn "/").mapM parsePairs

def handleProject (words : List String) : Option String :=
  match words with
  | "PROJECT" :: mode :: bs :: cache :: nf :: rest =>
    match bs.toNat?, nf.toNat? with
    | some bs, some nf =>
      if rest.length != nf + 2 then some "bad-args" else
      if mode == "batchc" then
        match (rest.take nf).mapM parseField, Expr.ofWire (rest.getD nf ""), parseChunks (rest.getD (nf + 1) "") with
        | some fields, some w, some chunks =>
          if bs == 0 then some "bad-args" else
          some (showOut (drainBatchChunks w fields bs chunks (Ctx.new (cache == "1"))).1 ++
            " ## hyp=" ++ (if Kvql.Cache.hypsHold w fields then "1" else "0"))
        | _, _, _ => some "bad-args"
      else
      match (rest.take nf).mapM parseField, Expr.ofWire (rest.getD nf ""), parsePairs (rest.getD (nf + 1) "") with
      | some fields, some w, some pairs =>
        let ctx := Ctx.new (cache == "1")
        let hyp := " ## hyp=" ++ (if Kvql.Cache.hypsHold w fields then "1" else "0")
        if mode == "row" then some (showOut (drainRow w fields pairs ctx).1 ++ hyp)
        else if mode == "rownoclear" then some (showOut (drainRowNoClear w fields pairs ctx).1 ++ hyp)
        else if bs == 0 then some "bad-args"
        else some (showOut (drainBatch w fields bs pairs ctx).1 ++ hyp)
      | _, _, _ => some "bad-args"
    | _, _ => some "bad-args"
  | _ => none

end Driver
