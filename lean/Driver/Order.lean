/-
  Driver handler of the ORDERPLAN group (property C07): runs the model of `FinalOrderPlan`
  (Kvql/Model/Order.lean) on prescribed child rows.

    ORDERPLAN <mode> <bs> <orderspec> <types> <rows> [<chunks>]

    mode       `next` | `batch`
    bs         PlanBatchSize (decimal)
    orderspec  `col:asc|desc,…`   col = index of the order column in the row (orderPos)
    types      `,`-separated declared Type codes, one per order field (orderTypes;
               Generated `tyTSTR`/`tyTNUMBER`/`tyTBOOL`/… as decimal numbers)
    rows       `;`-separated rows of `,`-separated column values in the harness' `canonValue`
               rendering (`b:hex s:hex i:n I:n f:bits16 t F n`, anything else = other);
               `-` = no rows
    chunks     optional, batch mode only: `,`-separated sizes of the chunks in which the child's
               `Batch` hands the rows out (default: chunks of max bs 1); a chunk of size 0 is an
               empty answer of the child; `-` = no chunks

  Answer: the rows in output order, `;`-separated, rendered as they came in (`?` for other);
  in batch mode the batches are separated by `|`; `-` when nothing is returned; `panic` when
  the Go code panics (failed type assertion on a mixed-kind column, index out of range).
-/
import Kvql.Model.Order

open Kvql Kvql.Order

namespace Driver.OrderImpl

def parseKey (s : String) (tp : String) : Option Key :=
  match s.splitOn ":", tp.toNat? with
  | [c, d], some t =>
    match c.toNat? with
    | some pos =>
      if d == "asc" then some ⟨pos, t, false⟩
      else if d == "desc" then some ⟨pos, t, true⟩
      else none
    | none => none
  | _, _ => none

def parseSpec (spec types : String) : Option (List Key) :=
  let ss := spec.splitOn ","
  let ts := types.splitOn ","
  if ss.length != ts.length then none
  else (ss.zip ts).mapM (fun (s, t) => parseKey s t)

def parseRows (s : String) : List Row :=
  if s == "-" then [] else (s.splitOn ";").map (fun r => (r.splitOn ",").map Col.ofCanon)

def showRow (r : Row) : String := ",".intercalate (r.map Col.toCanon)
def showRows (rs : List Row) : String := ";".intercalate (rs.map showRow)

def cut : List Nat → List Row → List (List Row)
  | [], _ => []
  | n :: ns, rows => rows.take n :: cut ns (rows.drop n)

def defaultChunks (bs : Nat) (rows : List Row) : List (List Row) :=
  let c := max bs 1
  cut (List.replicate ((rows.length + c - 1) / c) c) rows

def run (mode : String) (bs : Nat) (keys : List Key) (rows : List Row) (chunks : Option (List Nat)) : String :=
  let fuel := rows.length + 2
  if mode == "next" then
    match drainNext (less keys) fuel {} rows with
    | .panic => "panic"
    | .ok out => if out.isEmpty then "-" else showRows out
  else if mode == "batch" then
    let child := match chunks with
      | some cs => cut cs rows
      | none => defaultChunks bs rows
    match drainBatch (less keys) bs fuel {} child with
    | .panic => "panic"
    | .ok bss => if bss.isEmpty then "-" else "|".intercalate (bss.map showRows)
  else "bad-args"

end Driver.OrderImpl

namespace Driver
open Driver.OrderImpl

def handleOrder (words : List String) : Option String :=
  match words with
  | "ORDERPLAN" :: mode :: bs :: spec :: types :: rows :: rest =>
    match bs.toNat?, parseSpec spec types with
    | some b, some keys =>
      match rest with
      | [] => some (run mode b keys (parseRows rows) none)
      | [ch] =>
        let cs := if ch == "-" then [] else (ch.splitOn ",").map String.toNat?
        if cs.any Option.isNone then some "bad-args"
        else some (run mode b keys (parseRows rows) (some (cs.map (·.getD 0))))
      | _ => some "bad-args"
    | _, _ => some "bad-args"
  | _ => none

end Driver
