/-
  EVAL group:  EVAL <row|batch> <0|1|n> <wire-expr> <pairs>
    mode   row   = `Execute` on each pair in turn, ONE context shared by all pairs
           batch = `ExecuteBatch` on the whole chunk
    cache  0 / 1 = `NewExecuteCtx()` with EnableCache false / true;  n = nil context
    pairs        = hexkey=hexvalue,…   (`-` = no pair; an empty byte string is `-` as everywhere)
  Answer:  row:   r1;r2;…  ## <ctx>     each r = canonical value or error class
           batch: v1;v2;…  ## <ctx>     or one error class for the whole chunk
  <ctx> = `nil` or `hit=N fc=[…] ck=[…] cc=[…]` (the context as the evaluation left it).
-/
import Kvql.Model.ExecVec

open Kvql

namespace Driver

def parsePair (s : String) : Option Pair :=
  match s.splitOn "=" with
  | [k, v] => do pure ⟨← Bytes.ofHex k, ← Bytes.ofHex v⟩
  | _ => none

def parsePairs (s : String) : Option (List Pair) :=
  if s == "-" then some [] else (s.splitOn ",").mapM parsePair

def showRes (r : Except Err Value) : String :=
  match r with
  | .ok v => v.canon
  | .error e => e.cls

def evalRows (e : Expr) : List Pair → Ctx → List String × Ctx
  | [], c => ([], c)
  | kv :: kvs, c =>
    let (r, c') := exec e kv c
    let (rs, c'') := evalRows e kvs c'
    (showRes r :: rs, c'')

def handleEval (words : List String) : Option String :=
  match words with
  | ["EVAL", mode, cache, wire, pairs] =>
    match Expr.ofWire wire, parsePairs pairs with
    | some e, some chunk =>
      let ctx : Ctx := if cache == "n" then Ctx.none else Ctx.new (cache == "1")
      if mode == "row" then
        let (rs, c) := evalRows e chunk ctx
        some ((if rs.isEmpty then "-" else ";".intercalate rs) ++ " ## " ++ c.canon)
      else
        let (r, c) := execBatch e chunk ctx
        let out := match r with
          | .ok vs => if vs.isEmpty then "-" else ";".intercalate (vs.map Value.canon)
          | .error err => err.cls
        some (out ++ " ## " ++ c.canon)
    | _, _ => some "bad-args"
  | _ => none

end Driver
