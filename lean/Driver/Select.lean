/-
  SELECT group:  SPECEVAL <wire-expr> <pairs>
    pairs  = hexkey=hexvalue,…   (`-` = no pair)
  Answer: one item per pair, `;`-separated (`-` for no pair): what the REFERENCE evaluator
  `Kvql.Spec.eval` (Spec/Eval.lean, written from README.md / spec.md) says of the expression on
  that pair:   t | f   a Boolean;   n   not evaluable;   otherwise the value by content
  (`x:hex` text, `i:n` integer, `f:bits` float, `[…]` list).
-/
import Kvql.Spec.Eval

open Kvql

namespace Driver

def specParsePair (s : String) : Option Pair :=
  match s.splitOn "=" with
  | [k, v] => do pure ⟨← Bytes.ofHex k, ← Bytes.ofHex v⟩
  | _ => none

def specParsePairs (s : String) : Option (List Pair) :=
  if s == "-" then some [] else (s.splitOn ",").mapM specParsePair

def handleSelect (words : List String) : Option String :=
  match words with
  | ["SPECEVAL", wire, pairs] =>
    match Expr.ofWire wire, specParsePairs pairs with
    | some e, some chunk =>
      let rs := chunk.map (fun kv => match Spec.eval e kv with
        | some v => v.canon
        | none => "n")
      some (if rs.isEmpty then "-" else ";".intercalate rs)
    | _, _ => some "bad-args"
  | _ => none

end Driver
