/-
  Driver handler of the AGGRPLAN correspondence group (property C09): runs the model of
  aggregate_plan.go / aggr_func.go (`Kvql.Aggr`) on a plan description and on the per-pair
  evaluation tables the harness computed with the real evaluator.

  One line in, one line out.  Words are separated by single spaces.

    AGGRPLAN <mode> <bs> <plan> <chunk> <chunk> …

      mode   = next | batch                 (row mode: the chunk structure is ignored)
      bs     = PlanBatchSize, decimal
      plan   = <all>/<ngroups>/<fields>
                 all     = 1 when AggrAll (no GROUP BY), else 0
                 ngroups = number of GROUP BY expressions
                 fields  = <field>;<field>;…   in select-list order ("-" = no field)
      field  = K                             a key field (`IsKey`)
             | A<kind>~<kind>~…=<expr>       an aggregate field: its calls in `listAggrFuncs`
                                             order and the expression around them
      kind   = count | sum | avg | min | max | arrayagg | concat:<hex separator>
      expr   = comma separated prefix code:
                 c,<i>                       the i-th call of this field
                 k,<val>                     a leaf without aggregate calls (constant or error)
                 m,<op>,<rpos>,<expr>,<expr> arithmetic, op = a (+) s (-) m (*) d (/),
                                             rpos = position of the right operand
                 s,<expr>,<expr>             `+` with a string-typed left operand
      val    = b:<hex> | s:<hex> | i:<int64> | I:<int> | f:<16 hex digits: IEEE bits> | t | F | n
             | o (anything else: lists, JSON)  | !<error class> (the evaluator failed)
               (<hex> = "-" for the empty string)
      chunk  = <pair>|<pair>|…               what one `ChildPlan.Batch` call returned
      pair   = <groups>/<fieldvals>
                 groups    = <val>,<val>,…   one per GROUP BY expression ("-" = none)
                 fieldvals = <fv>;<fv>;…     one per select field ("-" = no field):
                             key field: its value; aggregate field: <val>,<val>,… the value of
                             the first argument of each call

    Answer:   next   <row>;<row>;…           ("-" = no row)          [" ! " <error class>]
              batch  <row>;<row>|<row>;…     batches separated by "|"  [" ! " <error class>]
              row = <val>,<val>,…
      (every NaN is shown as f:7ff8000000000000: payloads are not compared)
      error classes: the class given in the table for an evaluation error; exec@0 for
      convertToBytes; exec@<rpos> for divide by zero; other-error for an operand type error or a
      json.Marshal failure.

    AGGRFMT <16 hex digits>    →  <hex of %f> <hex of the JSON number, or !> <int64(f)>
    AGGRNUM <hex text>         →  <ival> <fval bits> <0|1>      (convertToNumber of a string)
-/
import Kvql.Model.Aggregate

open Kvql Kvql.Aggr

namespace Driver.AggrIO

def hexNat? (s : String) : Option Nat :=
  s.toList.foldlM (fun acc c => (Bytes.hexVal c).map (fun v => acc * 16 + v)) 0

def hex16 (n : Nat) : String :=
  String.ofList ((List.range 16).reverse.map (fun i => Bytes.hexDigit ((n / 16 ^ i) % 16)))

def parseVal (s : String) : Option (Except Err AVal) :=
  if s == "t" then some (.ok (.bool true))
  else if s == "F" then some (.ok (.bool false))
  else if s == "n" then some (.ok .nil)
  else if s == "o" then some (.ok .other)
  else if s.startsWith "!" then some (.error (.eval (s.drop 1).toString))
  else
    let body := (s.drop 2).toString
    if s.startsWith "b:" then (Bytes.ofHex body).map (fun b => .ok (.bytes b))
    else if s.startsWith "s:" then (Bytes.ofHex body).map (fun b => .ok (.str b))
    else if s.startsWith "i:" then body.toInt?.map (fun i => .ok (.int (Int64.ofInt i)))
    else if s.startsWith "I:" then body.toInt?.map (fun i => .ok (.goInt (Int64.ofInt i)))
    else if s.startsWith "f:" then
      if body.length == 16 then (hexNat? body).map (fun n => .ok (.float ⟨UInt64.ofNat n⟩)) else none
    else none

def showVal : AVal → String
  | .bytes b => "b:" ++ Bytes.toHex b
  | .str b => "s:" ++ Bytes.toHex b
  | .int i => "i:" ++ toString i.toInt
  | .goInt i => "I:" ++ toString i.toInt
  | .float f => "f:" ++ (if f.toFloat.isNaN then "7ff8000000000000" else hex16 f.bits.toNat)
  | .bool true => "t"
  | .bool false => "F"
  | .nil => "n"
  | .other => "o"

def showErr : Err → String
  | .eval c => c
  | .conv => "exec@0"
  | .divZero p => "exec@" ++ toString p
  | .badOperand => "other-error"
  | .marshal => "other-error"
  | .malformed => "malformed"

def parseKind (s : String) : Option Kind :=
  if s == "count" then some .count
  else if s == "sum" then some .sum
  else if s == "avg" then some .avg
  else if s == "min" then some .min
  else if s == "max" then some .max
  else if s == "arrayagg" then some .arrayagg
  else if s.startsWith "concat:" then (Bytes.ofHex (s.drop 7).toString).map Kind.concat
  else none

def parseOp (s : String) : Option MathOp :=
  if s == "a" then some .add else if s == "s" then some .sub
  else if s == "m" then some .mul else if s == "d" then some .div else none

def parseExpr : Nat → List String → Option (AggExpr × List String)
  | 0, _ => none
  | fuel + 1, toks =>
    match toks with
    | "c" :: i :: rest => i.toNat?.map (fun n => (.call n, rest))
    | "k" :: v :: rest => (parseVal v).map (fun x => (.leaf x, rest))
    | "m" :: o :: p :: rest => do
      let op ← parseOp o
      let rpos ← p.toNat?
      let (l, rest) ← parseExpr fuel rest
      let (r, rest) ← parseExpr fuel rest
      pure (.arith op rpos l r, rest)
    | "s" :: rest => do
      let (l, rest) ← parseExpr fuel rest
      let (r, rest) ← parseExpr fuel rest
      pure (.strcat l r, rest)
    | _ => none

def parseField (s : String) : Option Field :=
  if s == "K" then some .key
  else if s.startsWith "A" then
    match (s.drop 1).toString.splitOn "=" with
    | [ks, ex] => do
      let kinds ← (ks.splitOn "~").mapM parseKind
      let toks := ex.splitOn ","
      match parseExpr (toks.length + 1) toks with
      | some (e, []) => some (.agg kinds e)
      | _ => none
    | _ => none
  else none

def parseList (sep : String) (f : String → Option α) (s : String) : Option (List α) :=
  if s == "-" then some [] else (s.splitOn sep).mapM f

def parsePlan (s : String) : Option Plan :=
  match s.splitOn "/" with
  | [a, n, fs] => do
    let ng ← n.toNat?
    let fields ← parseList ";" parseField fs
    pure { aggrAll := a == "1", nGroups := ng, fields := fields }
  | _ => none

/-- the evaluation table of one pair -/
structure PairTab where
  groups : List (Except Err AVal)
  fields : List (List (Except Err AVal))

def parsePair (s : String) : Option PairTab :=
  match s.splitOn "/" with
  | [g, f] => do
    let groups ← parseList "," parseVal g
    let fields ← parseList ";" (fun fv => (fv.splitOn ",").mapM parseVal) f
    pure { groups := groups, fields := fields }
  | _ => none

def parseChunk (s : String) : Option (List PairTab) := (s.splitOn "|").mapM parsePair

/-- the table does fit the plan: the lookups below never take their default -/
def fits (pl : Plan) (p : PairTab) : Bool :=
  (pl.aggrAll || p.groups.length == pl.nGroups) && p.fields.length == pl.fields.length &&
  (pl.fields.zip p.fields).all (fun (f, vs) => match f with
    | .key => vs.length == 1
    | .agg calls _ => vs.length == calls.length)

def tabEval : Eval PairTab where
  group j p := p.groups.getD j (.error .malformed)
  keyField i p := ((p.fields.getD i []).getD 0 (.error .malformed))
  arg i c p := ((p.fields.getD i []).getD c (.error .malformed))

def showRow (r : List AVal) : String := ",".intercalate (r.map showVal)
def showRowsOr (rs : List (List AVal)) : String := ";".intercalate (rs.map showRow)
def withErr (s : String) : Option Err → String
  | none => s
  | some e => s ++ " ! " ++ showErr e

end Driver.AggrIO

namespace Driver
open Driver.AggrIO

def handleAggr (words : List String) : Option String :=
  match words with
  | "AGGRPLAN" :: mode :: bs :: plan :: chunks =>
    match bs.toNat?, parsePlan plan, chunks.mapM parseChunk with
    | some bsz, some pl, some cs =>
      if !(cs.all (fun c => c.all (fits pl))) then some "bad-table"
      else if mode == "next" then
        let (rows, err) := runNext tabEval pl cs.flatten
        some (withErr (if rows.isEmpty then "-" else showRowsOr rows) err)
      else if mode == "batch" then
        let (bss, err) := runBatch tabEval pl bsz cs
        some (withErr (if bss.isEmpty then "-" else "|".intercalate (bss.map showRowsOr)) err)
      else some "bad-mode"
    | _, _, _ => some "bad-args"
  | ["AGGRFMT", h] =>
    if h.length != 16 then some "bad-args" else
    match hexNat? h with
    | some n =>
      let x : F64 := ⟨UInt64.ofNat n⟩
      let js := match jsonFloat x with
        | some b => Bytes.toHex b
        | none => "!"
      some (Bytes.toHex (fmtF x) ++ " " ++ js ++ " " ++ toString (f64ToInt64 x).toInt)
    | none => some "bad-args"
  | ["AGGRNUM", h] =>
    match Bytes.ofHex h with
    | some s =>
      let (i, f, isF) := numOfText s
      some (toString i.toInt ++ " " ++ (showVal (.float f)).drop 2 ++ " " ++ (if isF then "1" else "0"))
    | none => some "bad-args"
  | _ => none

end Driver
