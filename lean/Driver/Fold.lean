/-
  FOLD group:  FOLD <wire-expr>
    Answer:  ok <wire of the expression Optimize() returns> <wire of the old root node afterwards>
           | panic <site>
    (`ExpressionOptimizer{Root: e}.Optimize()`; the second tree is the state in which the node
    that was the root is left — the target of alias references.)
    The `Data` of float literals is not part of the comparison (see Model/Fold.lean): the
    harness blanks it on both sides.
-/
import Kvql.Model.Fold

open Kvql

namespace Driver

def handleFold (words : List String) : Option String :=
  match words with
  | ["FOLD", wire] =>
    match Expr.ofWire wire with
    | some e =>
      match Fold.optimizeBoth e with
      | .ok (r, n) => some ("ok " ++ r.toWire ++ " " ++ n.toWire)
      | .error site => some ("panic " ++ site.replace " " "_")
    | none => some "bad-args"
  | _ => none

end Driver
