import Kvql.Model.Lexer
import Kvql.Spec.Lex
import Kvql.Model.Errors
import Kvql.Model.Limit

open Kvql

def tokStr (t : Token) : String :=
  s!"{t.tp}:{Bytes.toHex t.data}:{t.pos}"

def parseChunks (s : String) : Option (List (List Nat)) :=
  if s == "-" then some [] else
  let sizes := (s.splitOn ",").map String.toNat?
  if sizes.any Option.isNone then none else
  let rec go (start : Nat) : List Nat → List (List Nat)
    | [] => []
    | n :: ns => (List.range n).map (· + start) :: go (start + n) ns
  some (go 0 (sizes.map (·.getD 0)))

def showRows (rs : List Nat) : String := ",".intercalate (rs.map toString)
def showBatches (bs : List (List Nat)) : String :=
  if bs.isEmpty then "-" else "|".intercalate (bs.map showRows)

namespace Driver

/-- handlers of the LEX / ERRFMT / LIMIT groups; `none` = not mine -/
def handleBasic (words : List String) : Option String :=
  match words with
  | ["LEX", h] =>
    match Bytes.ofHex h with
    | some q => " ".intercalate ((Lexer.split q).map tokStr)
    | none => "bad-hex"
  | ["LEXBOTH", h] =>
    match Bytes.ofHex h with
    | some q => " ".intercalate ((Lexer.split q).map tokStr) ++ " ## " ++ " ".intercalate ((Spec.lex q).map tokStr)
    | none => "bad-hex"
  | ["LEXSPEC", h] =>
    match Bytes.ofHex h with
    | some q => " ".intercalate ((Spec.lex q).map tokStr)
    | none => "bad-hex"
  | ["ERRFMT", h, p, a] =>
    match Bytes.ofHex h, p.toInt?, a.toNat? with
    | some q, some pi, some ad =>
      -- Go: -1 is end of input; other negative positions are clamped to 0 by the code
      let pos : Option Nat := if pi == -1 then none else some pi.toNat
      Bytes.toHex (Errors.renderText q pos ad)
    | _, _, _ => "bad-args"
  | ["LIMIT", mode, st, cn, bs, ch] =>
    match st.toNat?, cn.toNat?, bs.toNat?, parseChunks ch with
    | some start, some count, some bsz, some chunks =>
      let flat := chunks.flatten
      let spec := (flat.drop start).take count
      let fuel := flat.length + chunks.length + 3
      let model :=
        if mode == "next" then
          let out := Limit.drainNext start count fuel {} flat
          if out.isEmpty then "-" else showRows out
        else showBatches (Limit.drainBatch start count bsz fuel {} chunks)
      model ++ " ## " ++ (if spec.isEmpty then "-" else showRows spec)
    | _, _, _, _ => "bad-args"
  | _ => none


end Driver
