/- the list of group handlers other than the basic ones; one import + one entry per group -/
namespace Driver
def handlers : List (List String → Option String) := []
end Driver
