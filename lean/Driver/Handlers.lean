/- the list of group handlers other than the basic ones; one import + one entry per group -/
import Driver.Scan
import Driver.Plans
import Driver.Order
import Driver.Aggr
import Driver.Eval
import Driver.Parse
import Driver.Select
import Driver.Fold
import Driver.Project
import Driver.PlanCheck
import Driver.Run
namespace Driver
def handlers : List (List String → Option String) := [handleScan, handlePlans, handleOrder, handleAggr, handleEval, handleParse, handleSelect, handleFold, handleProject, handlePlanCheck, handleRun]
end Driver
