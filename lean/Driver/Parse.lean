import Kvql.Model.Parser

/-!
  PARSE group of the line protocol.

    PARSE <hexquery> [<floats>]      → ok <stmt-wire> | err <pos|-1> <class> | panic <site> |
                                        fuel | unsupported <what>
    PARSEEXPR <hexquery> [<floats>]  → ok <expr-wire> <tokens left> | err … | …
                                        (`parseExpr` on the query's tokens; no checking)
    PRINT <expr-wire>                → <hex of Expr.toString>

  class ∈ { syntax, cycle, nest }: `syntax` and `cycle` are Go `*SyntaxError`s (`cycle`: the
  alias reference that would close a cycle), `nest` is the non-positional
  "exceed max nesting depth".  A panic site is printed with `_` for blanks.

  <floats> is `-` or `hexdata=bits;hexdata=bits;…`: the IEEE-754 bits of
  `strconv.ParseFloat(data, 64)` for the FLOAT tokens of the query, computed by Go (the model
  is generic in that function).  Texts not listed fall back to `Float.ofScientific`.
-/

open Kvql

namespace Driver

/-- decimal text → float through `Float.ofScientific` (fallback only) -/
def fallbackFloat (data : Bytes) : F64 :=
  match splitDecimal data with
  | some (neg, mant, fracDigits, e) =>
    let m := digitsVal mant
    let x : Int := e - (fracDigits : Int)
    let f : Float := if x < 0 then Float.ofScientific m true x.natAbs else Float.ofScientific m false x.toNat
    F64.ofFloat (if neg then -f else f)
  | none => F64.zero

def parseFloatTable (s : String) : List (Bytes × F64) :=
  if s == "-" then [] else
  (s.splitOn ";").filterMap (fun kv =>
    match kv.splitOn "=" with
    | [k, v] =>
      match Bytes.ofHex k, v.toNat? with
      | some d, some bits => some (d, ⟨UInt64.ofNat bits⟩)
      | _, _ => none
    | _ => none)

def mkPf (tbl : List (Bytes × F64)) (data : Bytes) : F64 :=
  match tbl.lookup data with
  | some v => v
  | none => fallbackFloat data

def posStr : Option Nat → String
  | none => "-1"
  | some p => toString p

def showErr : PErr → String
  | .syntax p => s!"err {posStr p} syntax"
  | .cycle p => s!"err {p} cycle"
  | .nest => "err -1 nest"

def site (s : String) : String := s.map (fun c => if c == ' ' then '_' else c)

def showParseRes {α : Type} (f : α → String) : Res α → String
  | .ok a => "ok " ++ f a
  | .err e => showErr e
  | .panic s => "panic " ++ site s
  | .outOfFuel => "fuel"
  | .unsupported w => "unsupported " ++ site w

def doParse (h fl : String) : String :=
  match Bytes.ofHex h with
  | none => "bad-hex"
  | some q => showParseRes Stmt.toWire (Parser.Parse (mkPf (parseFloatTable fl)) (Lexer.split q))

def doParseExpr (h fl : String) : String :=
  match Bytes.ofHex h with
  | none => "bad-hex"
  | some q =>
    let toks := Lexer.split q
    showParseRes (fun (p : Expr × Toks) => p.1.toWire ++ " " ++ toString p.2.length)
      (Parser.parseExpr (mkPf (parseFloatTable fl)) (Parser.exprFuel toks) toks)

def handleParse (words : List String) : Option String :=
  match words with
  | ["PARSE", h] => some (doParse h "-")
  | ["PARSE", h, fl] => some (doParse h fl)
  | ["PARSEEXPR", h] => some (doParseExpr h "-")
  | ["PARSEEXPR", h, fl] => some (doParseExpr h fl)
  | ["PRINT", w] =>
    match Expr.ofWire w with
    | some e => some (Bytes.toHex e.toString)
    | none => some "bad-wire"
  | _ => none

end Driver
