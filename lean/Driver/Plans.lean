/-
  Driver handler of the plan layer (groups PLAN, FAULT, POLL of harness/plans.go).

  PROTOCOL (one line in, one line out; words separated by one blank; byte strings in hex,
  the empty byte string is `-`, an empty list is `_`):

    PLANS <mode> <bs> <fault> <store> <stmt…>
      mode   next | batch        BuildPlan, then poll Next / Batch until a poll returns nothing or fails
             poll:<seq>          BuildPlan, then the polls of <seq> (letters n = Next, b = Batch), every
                                 poll recorded, errors included (PUT / REMOVE / DELETE only)
      bs     PlanBatchSize
      fault  index of the storage call that fails, or `-`
      store  key=value,…  (any order; `-` = empty store)
      stmt   select <node> <ftable>
             delete <node> <ftable> <hasAnd 0|1> <limit: - | start,count>
             put <kres:vres,…>        result of each pair's key / value expression, `!` = evaluation failed
             remove <kres,…>
      node   full | prefix:<hex> | range:<hex|nil>:<hex|nil> | mget:<hex,…|_> | empty
      ftable key:t|f|e,…   the filter's result on the stored pair with that key (`e` = evaluation fails;
                            a key that is not listed fails too)

    answer  <outcome> ## <polls> ## <log> ## <store>
      outcome ok | plan:<err> | exec:<err>       err = storage | eval | nilcursor | diverge
      polls   polls separated by `|`, rows of a poll by `,`; a row is key=value or `#n` (the row [n] of a
              write); `_` when there is none.  In poll mode every poll is listed: `.` for an empty poll,
              and a failing poll carries `!<err>` after its rows.
      log     entries of harness/store.go's RefStore.Log separated by `;` (`_` if empty)
      store   RefStore.Dump of the final store

    PLANQ <hex of the statement text> <mode> <bs> <fault> <store> <stmt…>
      the same as PLANS; the statement text is ignored by the model (it lets the harness replay the
      line on the engine: `kvharness -replay`)

    MGETKEYS <hex,…|_>     → the Keys of NewMultiGetPlan(keys) as hex,… (`_` if empty)
-/
import Kvql.Model.Plans

open Kvql Kvql.Storage Kvql.Plans

namespace Driver.PlansWire

def splitList (s : String) : List String := if s == "_" then [] else s.splitOn ","

def parsePair (s : String) : Option Pair :=
  match s.splitOn "=" with
  | [k, v] => do
    let k ← Bytes.ofHex k
    let v ← Bytes.ofHex v
    pure (k, v)
  | _ => none

def parseStore (s : String) : Option (List Pair) :=
  if s == "-" then some [] else (s.splitOn ",").mapM parsePair

def parseOptBytes (s : String) : Option (Option Bytes) :=
  if s == "nil" then some none else (Bytes.ofHex s).map some

def parseNode (s : String) : Option ScanNode :=
  match s.splitOn ":" with
  | ["full"] => some .full
  | ["empty"] => some .empty
  | ["prefix", p] => (Bytes.ofHex p).map .prefix
  | ["range", a, b] => do
    let a ← parseOptBytes a
    let b ← parseOptBytes b
    pure (.range a b)
  | ["mget", ks] => ((splitList ks).mapM Bytes.ofHex).map .mget
  | _ => none

def parseFilter (s : String) : Option Filter := do
  let entries ← (splitList s).mapM (fun e =>
    match e.splitOn ":" with
    | [k, r] => do
      let k ← Bytes.ofHex k
      let r ← (match r with
        | "t" => some (Except.ok true)
        | "f" => some (Except.ok false)
        | "e" => some (Except.error Err.eval)
        | _ => none)
      pure (k, r)
    | _ => none)
  pure (fun p => match entries.find? (fun e => e.1 == p.1) with
    | some e => e.2
    | none => .error .eval)

def parseRes (s : String) : Option (Except Err Bytes) :=
  if s == "!" then some (.error .eval) else (Bytes.ofHex s).map .ok

def parsePutPairs (s : String) : Option (List PutPair) :=
  (splitList s).mapM (fun e =>
    match e.splitOn ":" with
    | [k, v] => do
      let k ← parseRes k
      let v ← parseRes v
      pure { key := k, value := fun _ => v }
    | _ => none)

def parseLimit (s : String) : Option (Option (Nat × Nat)) :=
  if s == "-" then some none else
  match s.splitOn "," with
  | [a, b] => do
    let a ← a.toNat?
    let b ← b.toNat?
    pure (some (a, b))
  | _ => none

def parseStmt : List String → Option Stmt
  | ["select", node, ft] => do
    let node ← parseNode node
    let f ← parseFilter ft
    pure (.select node f)
  | ["delete", node, ft, ha, lim] => do
    let node ← parseNode node
    let f ← parseFilter ft
    let lim ← parseLimit lim
    pure (.delete node f (ha == "1") lim)
  | ["put", ps] => (parsePutPairs ps).map .put
  | ["remove", ks] => ((splitList ks).mapM parseRes).map .remove
  | _ => none

def showErr : Err → String
  | .storage _ => "storage"
  | .eval => "eval"
  | .nilCursor => "nilcursor"
  | .diverge => "diverge"

def showRow : Row → String
  | .pair p => showPair p
  | .count n => s!"#{n}"

def showRows (rs : List Row) : String := ",".intercalate (rs.map showRow)

def showLog (l : List Entry) : String :=
  if l.isEmpty then "_" else ";".intercalate (l.map Entry.render)

def showOutcome : Outcome → String
  | .ok => "ok"
  | .planErr e => "plan:" ++ showErr e
  | .execErr e => "exec:" ++ showErr e

def parsePolls (s : String) : Option (List PollKind) :=
  s.toList.mapM (fun c => if c == 'n' then some PollKind.next else if c == 'b' then some .batch else none)

def answer (outcome polls : String) (w : World) : String :=
  outcome ++ " ## " ++ polls ++ " ## " ++ showLog w.log ++ " ## " ++ w.store.render

def isWriteStmt : Stmt → Bool
  | .select .. => false
  | _ => true

end Driver.PlansWire

namespace Driver
open PlansWire

def handlePlans (words : List String) : Option String :=
  let words := match words with
    | "PLANQ" :: _ :: rest => "PLANS" :: rest
    | ws => ws
  match words with
  | "PLANS" :: mode :: bs :: fault :: store :: stmt =>
    some <|
    match bs.toNat?, (if fault == "-" then some none else fault.toNat?.map some), parseStore store, parseStmt stmt with
    | some bs, some f, some kvs, some stmt =>
      let store := Store.ofList kvs
      if mode == "next" || mode == "batch" then
        let kind := if mode == "next" then PollKind.next else .batch
        let (r, w) := run stmt kind bs f store
        let polls := if r.polls.isEmpty then "_" else "|".intercalate (r.polls.map showRows)
        answer (showOutcome r.outcome) polls w
      else
        match mode.splitOn ":" with
        | ["poll", seq] =>
          match parsePolls seq with
          | some ks =>
            if !isWriteStmt stmt then "bad-args" else
            match buildPlan stmt f { store := store } with
            | (.error e, w) => answer ("plan:" ++ showErr e) "_" w
            | (.ok plan, w) =>
              let (ps, w') := pollSeq bs f ks plan w []
              let polls := if ps.isEmpty then "_" else "|".intercalate (ps.map (fun (rows, e) =>
                (if rows.isEmpty then "." else showRows rows) ++
                  (match e with | some e => "!" ++ showErr e | none => "")))
              answer "ok" polls w'
          | none => "bad-args"
        | _ => "bad-args"
    | _, _, _, _ => "bad-args"
  | ["MGETKEYS", ks] =>
    some <|
    match (splitList ks).mapM Bytes.ofHex with
    | some keys =>
      let out := newMultiGetKeys keys
      if out.isEmpty then "_" else ",".intercalate (out.map Bytes.toHex)
    | none => "bad-args"
  | _ => none

end Driver
