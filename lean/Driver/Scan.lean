import Kvql.Model.Scan
import Kvql.Model.ScanUnpatched

open Kvql

namespace Driver

/-- `SCAN <wire-expr>`: the plan node `NewFilterOptimizer(where).Optimize()` builds;
    `SCANSPEC <wire-expr> <hexkey>`: is the key inside that node's region;
    `SCANDEL <wire-expr>`: what `delete where <expr>` (no LIMIT) is planned as: `DELETE EMPTY`,
    `REMOVE <keys>` (the shortcut) or `DELETE <scan node>`;
    `SCAN0 <wire-expr>`: as `SCAN`, for the code before the repairs (validation only) -/
def handleScan (words : List String) : Option String :=
  match words with
  | ["SCAN", w] =>
    match Expr.ofWire w with
    | some e => some (Scan.render (Scan.optimize e))
    | none => some "bad-wire"
  | ["SCANSPEC", w, h] =>
    match Expr.ofWire w, Bytes.ofHex h with
    | some e, some k => some (if (Scan.optimize e).contains k then "in" else "out")
    | _, _ => some "bad-args"
  | ["SCANDEL", w] =>
    match Expr.ofWire w with
    | some e => some (Scan.renderDelete (Scan.buildDeletePlan e))
    | none => some "bad-wire"
  | ["SCAN0", w] =>
    match Expr.ofWire w with
    | some e => some (Scan0.render (Scan0.optimizeExpr e))
    | none => some "bad-wire"
  | _ => none

end Driver
