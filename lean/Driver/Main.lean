import Driver.Basic
import Driver.Handlers

/-- every group contributes one handler (`Driver/Handlers.lean` lists them); the first that
    recognises the line answers -/
def handle (line : String) : String :=
  let words := line.splitOn " "
  match (Driver.handleBasic :: Driver.handlers).findSome? (fun h => h words) with
  | some r => r
  | none => "bad-op"

partial def loop (hin hout : IO.FS.Stream) : IO Unit := do
  let line ← hin.getLine
  if line.isEmpty then return ()
  let l := (line.dropEndWhile (fun c => c == '\n' || c == '\r')).toString
  hout.putStrLn (handle l)
  hout.flush
  loop hin hout

def main : IO Unit := do
  loop (← IO.getStdin) (← IO.getStdout)
