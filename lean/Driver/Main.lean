import Kvql.Model.Lexer
import Kvql.Spec.Lex

open Kvql

def tokStr (t : Token) : String :=
  s!"{t.tp}:{Bytes.toHex t.data}:{t.pos}"

def handle (line : String) : String :=
  match line.splitOn " " with
  | ["LEX", h] =>
    match Bytes.ofHex h with
    | some q => " ".intercalate ((Lexer.split q).map tokStr)
    | none => "bad-hex"
  | ["LEXBOTH", h] =>
    match Bytes.ofHex h with
    | some q => " ".intercalate ((Lexer.split q).map tokStr) ++ " ## " ++ " ".intercalate ((Spec.lex q).map tokStr)
    | none => "bad-hex"
  | ["LEXSPEC", h] =>
    match Bytes.ofHex h with
    | some q => " ".intercalate ((Spec.lex q).map tokStr)
    | none => "bad-hex"
  | _ => "bad-op"

partial def loop (hin hout : IO.FS.Stream) : IO Unit := do
  let line ← hin.getLine
  if line.isEmpty then return ()
  let l := ((line.dropEndWhile (fun c => c == '\n' || c == '\r')).toString)
  hout.putStrLn (handle l)
  hout.flush
  loop hin hout

def main : IO Unit := do
  loop (← IO.getStdin) (← IO.getStdout)
