/-
  RUNQ group: the end-to-end model on a statement given as text.

    RUNQ <hexquery> <floats|-> <store|-> <next|batch> <bs> <cache 0|1>
      hexquery  the statement text, hex
      floats    as in PARSE: `hexdata=bits;…` for the FLOAT tokens (`-`: none)
      store     hexkey=hexvalue,…  in any order (`-`: empty store)
      bs        PlanBatchSize
    answer   <outcome> ## <rows> ## <final store> ## <log>
      outcome  ok | plan:syntax@<pos|-1> | plan:other-error | exec:<class> | panic | fuel |
               storage:<err> | unsupported:<what> | glue:<what>      (blanks in <what> are `_`)
               class: operand-type data unknown-func arity syntax unknown-op where-not-bool result-type other-error
      rows     r1;r2;…  each row = `Value.canon` of its columns joined by `|`; `-` = no row
               (batch boundaries are not shown)
      store    `RefStore.Dump` of the final store;  log: the call log, `;`-separated, `_` if empty
-/
import Kvql.Model.Run
import Driver.Parse
import Driver.Plans

open Kvql

namespace Driver

def showFail : Run.Fail → String
  | .plan (.syntax p) => "plan:syntax@" ++ posStr p
  | .plan (.cycle p) => s!"plan:syntax@{p}"
  | .plan .nest => "plan:other-error"
  | .exec cls => "exec:" ++ cls
  | .storagePlan e => "storage:plan:" ++ PlansWire.showErr e
  | .storageExec e => "storage:exec:" ++ PlansWire.showErr e
  | .panic _ => "panic"
  | .fuel => "fuel"
  | .unsupported w => "unsupported:" ++ site w
  | .glue w => "glue:" ++ site w

def showRunRows (rows : List (List Value)) : String :=
  if rows.isEmpty then "-" else ";".intercalate (rows.map (fun r => "|".intercalate (r.map Value.canon)))

def showOutcome (o : Run.Outcome) : String :=
  (match o.fail with | none => "ok" | some f => showFail f) ++ " ## " ++ showRunRows o.rows ++ " ## " ++
    o.world.store.render ++ " ## " ++ PlansWire.showLog o.world.log

def handleRun (words : List String) : Option String :=
  match words with
  | ["RUNQ", h, fl, store, mode, bs, cache] =>
    some <|
    match Bytes.ofHex h, PlansWire.parseStore store, bs.toNat? with
    | some q, some kvs, some bs =>
      if mode != "next" && mode != "batch" then "bad-args" else
      let kind := if mode == "next" then Plans.PollKind.next else .batch
      showOutcome (Run.runQuery q (mkPf (parseFloatTable fl)) (Storage.Store.ofList kvs) kind bs (cache == "1"))
    | _, _, _ => "bad-args"
  | _ => none

end Driver
